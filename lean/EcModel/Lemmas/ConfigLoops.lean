/-
  Helper lemmas for C08 (2/3): the two sync-manager loops.

  Stage 1: a successful run of `eepromLoop` / `coeLoop` in `Mode.checked` equals a pure fold (`eepromPure` /
  `coePure`) over the direction's sync managers with their exact byte lengths ("jobs").
  Stage 2: what the pure folds do to the register file, to the offset and to the FMMU translation.
-/
import EcModel.Lemmas.ConfigBasic

namespace Ec.Config
open Ec

/-- One process-data sync manager being configured: index, description, byte length. -/
structure Job where
  i : Nat
  sm : SmDesc
  lb : Nat

/-- The `SyncManagerChannel` that `write_sm_config` sends. -/
def Job.cfg (j : Job) : SmReg :=
  { start := j.sm.start, len := j.lb, control := j.sm.control,
    enable := j.sm.enable % 2 == 1 && decide (j.lb > 0) }

theorem writeSmConfig_eq (r : Regs) (i : Nat) (sm : SmDesc) (lb : Nat) :
    writeSmConfig r i sm lb = (r.setSm i (Job.cfg ⟨i, sm, lb⟩), Job.cfg ⟨i, sm, lb⟩) := rfl

/-- The FMMU that `write_fmmu_config` programs when the entity is not yet enabled. -/
def freshFmmu (off : Nat) (cfg : SmReg) (ty : Nat) : Fmmu :=
  { logicalStart := off, length := cfg.len, startBit := 0, endBit := 7, physStart := cfg.start, physBit := 0,
    readEn := ty == 4, writeEn := ty == 3, enable := true }

def jobLens (jobs : List Job) : Nat := natSum (jobs.map (·.lb))

def jobWindows (jobs : List Job) : List (Nat × Nat) := jobs.map fun j => (j.sm.start, j.lb)

theorem rangesLen_jobWindows (jobs : List Job) : rangesLen (jobWindows jobs) = jobLens jobs := by
  simp [rangesLen, jobWindows, jobLens, List.map_map, Function.comp_def]

theorem writeFmmuConfig_fresh {r : Regs} {fi off ty : Nat} {cfg : SmReg} {p : Regs × Nat}
    (hd : (r.fmmu fi).enable = false) (h : writeFmmuConfig .checked r fi off ty cfg = .ok p) :
    p = (r.setFmmu fi (freshFmmu off cfg ty), off + cfg.len) := by
  unfold writeFmmuConfig at h
  simp only [hd, Bool.false_eq_true, if_false] at h
  obtain ⟨f, hf, h⟩ := bind_eq_ok.1 h
  obtain ⟨o, ho, h⟩ := bind_eq_ok.1 h
  obtain ⟨_, rfl⟩ := increment_ok.1 ho
  simp at hf h
  subst hf
  exact h.symm

theorem writeFmmuConfig_enabled {r : Regs} {fi off ty : Nat} {cfg : SmReg} {p : Regs × Nat}
    (he : (r.fmmu fi).enable = true) (h : writeFmmuConfig .checked r fi off ty cfg = .ok p) :
    p = (r.setFmmu fi { r.fmmu fi with length := (r.fmmu fi).length + cfg.len }, off + cfg.len) := by
  unfold writeFmmuConfig at h
  simp only [he, if_true] at h
  obtain ⟨f, hf, h⟩ := bind_eq_ok.1 h
  obtain ⟨o, ho, h⟩ := bind_eq_ok.1 h
  obtain ⟨_, rfl⟩ := increment_ok.1 ho
  obtain ⟨l, hl, hf⟩ := bind_eq_ok.1 hf
  obtain ⟨_, rfl⟩ := extendLen_ok.1 hl
  simp at hf h
  subst hf
  rw [← h]
  simp [he]

theorem eepromFmmuIndex_eq (l : List Nat) (i : Nat) : eepromFmmuIndex l i = i := by
  unfold eepromFmmuIndex
  split
  · rename_i s hs
    have := List.find?_some hs
    simpa using this
  · rfl

/-! ### pure folds -/

/-- `eepromLoop` without arithmetic failures: every job gets FMMU number = its sync manager number. -/
def eepromPure (ty : Nat) : List Job → Regs → Nat → Regs × Nat
  | [], r, off => (r, off)
  | j :: rest, r, off =>
    eepromPure ty rest ((r.setSm j.i j.cfg).setFmmu j.i (freshFmmu off j.cfg ty)) (off + j.lb)

/-- `coeLoop` without failures: every non-empty job goes through FMMU `fi` (create, then extend). -/
def coePure (ty fi : Nat) : List Job → Regs → Nat → Regs × Nat
  | [], r, off => (r, off)
  | j :: rest, r, off =>
    if j.lb = 0 then coePure ty fi rest (r.setSm j.i j.cfg) off
    else
      coePure ty fi rest
        ((r.setSm j.i j.cfg).setFmmu fi
          (if (r.fmmu fi).enable then { r.fmmu fi with length := (r.fmmu fi).length + j.lb }
           else freshFmmu off j.cfg ty))
        (off + j.lb)

/-- The sync managers of one direction among an enumerated list. -/
def dirFilter (dir : Dir) (L : List (Nat × SmDesc)) : List (Nat × SmDesc) :=
  L.filter fun x => x.2.usageType == dir.smType

theorem dirFilter_cons_pos {dir : Dir} {x : Nat × SmDesc} {L : List (Nat × SmDesc)}
    (h : x.2.usageType = dir.smType) : dirFilter dir (x :: L) = x :: dirFilter dir L := by
  simp [dirFilter, List.filter, h]

theorem dirFilter_cons_neg {dir : Dir} {x : Nat × SmDesc} {L : List (Nat × SmDesc)}
    (h : x.2.usageType ≠ dir.smType) : dirFilter dir (x :: L) = dirFilter dir L := by
  have : (x.2.usageType == dir.smType) = false := by simp [h]
  simp [dirFilter, List.filter, this]

/-! ### stage 1 -/

theorem eepromLoop_pure {d : Device} {dir : Dir} {pdos : List Pdo} :
    ∀ (L : List (Nat × SmDesc)) (r : Regs) (off : Nat) (res : Regs × Nat),
      (∀ x ∈ L, x.2.usageType = dir.smType → (r.fmmu x.1).enable = false) →
      (L.map (·.1)).Nodup →
      eepromLoop .checked d dir pdos L r off = .ok res →
      ∃ jobs : List Job,
        jobs.map (fun j => (j.i, j.sm)) = dirFilter dir L ∧
        (∀ j ∈ jobs, j.lb = (eepromBitsSpec d.oversampling j.i pdos + 7) / 8) ∧
        eepromPure dir.smType jobs r off = res := by
  intro L
  induction L with
  | nil =>
    intro r off res _ _ h
    simp [eepromLoop] at h
    exact ⟨[], by simp [dirFilter], by simp, by simp [eepromPure, h]⟩
  | cons x rest ih =>
    intro r off res hfresh hnd h
    obtain ⟨i, sm⟩ := x
    simp only [List.map, List.nodup_cons] at hnd
    obtain ⟨hi, hnd⟩ := hnd
    by_cases hty : sm.usageType = dir.smType
    · simp only [eepromLoop, hty, ne_eq, not_true_eq_false, if_false] at h
      obtain ⟨bits, hb, h⟩ := bind_eq_ok.1 h
      obtain ⟨lb, hlb, h⟩ := bind_eq_ok.1 h
      obtain ⟨p, hw, h⟩ := bind_eq_ok.1 h
      have ebits := eepromSmBitLen_ok hb
      obtain ⟨_, rfl⟩ := lenBytes_ok.1 hlb
      rw [eepromFmmuIndex_eq, writeSmConfig_eq] at hw
      have hd : ((r.setSm i (Job.cfg ⟨i, sm, (bits + 7) / 8⟩)).fmmu i).enable = false := by
        simpa using hfresh (i, sm) (by simp) hty
      have hw' := writeFmmuConfig_fresh hd hw
      simp only [Job.cfg] at hw'
      subst hw'
      have hfresh' : ∀ x ∈ rest, x.2.usageType = dir.smType →
          (((r.setSm i (Job.cfg ⟨i, sm, (bits + 7) / 8⟩)).setFmmu i
            (freshFmmu off (Job.cfg ⟨i, sm, (bits + 7) / 8⟩) dir.smType)).fmmu x.1).enable = false := by
        intro x hx hxt
        have hne : x.1 ≠ i := by
          intro e; apply hi; rw [← e]; exact List.mem_map_of_mem hx
        rw [setFmmu_fmmu_other _ _ hne]
        simpa using hfresh x (by simp [hx]) hxt
      obtain ⟨jobs, hj1, hj2, hj3⟩ := ih _ _ res hfresh' hnd h
      refine ⟨⟨i, sm, (bits + 7) / 8⟩ :: jobs, ?_, ?_, ?_⟩
      · rw [dirFilter_cons_pos (x := (i, sm)) hty]; simp [hj1]
      · intro j hj
        rcases List.mem_cons.1 hj with rfl | hj
        · simp [ebits]
        · exact hj2 j hj
      · simpa [eepromPure, Job.cfg] using hj3
    · simp only [eepromLoop, hty, ne_eq, not_false_eq_true, if_true] at h
      obtain ⟨jobs, hj1, hj2, hj3⟩ := ih r off res (fun x hx => hfresh x (by simp [hx])) hnd h
      exact ⟨jobs, by rw [dirFilter_cons_neg (x := (i, sm)) hty]; exact hj1, hj2, hj3⟩

theorem coeLoop_pure {d : Device} {dir : Dir} :
    ∀ (L : List (Nat × SmDesc)) (r : Regs) (off : Nat) (res : Regs × Nat),
      coeLoop .checked d dir L r off = .ok res →
      ∃ jobs : List Job,
        jobs.map (fun j => (j.i, j.sm)) = dirFilter dir L ∧
        (∀ j ∈ jobs, j.lb = (coeBitsSpec d.oversampling ((d.coe j.i).getD []) + 7) / 8) ∧
        (∀ j ∈ jobs, j.lb ≠ 0 → ∃ fi, position dir.fmmuType d.fmmuUsage = some fi) ∧
        coePure dir.smType ((position dir.fmmuType d.fmmuUsage).getD 0) jobs r off = res := by
  intro L
  induction L with
  | nil =>
    intro r off res h
    simp [coeLoop] at h
    exact ⟨[], by simp [dirFilter], by simp, by simp, by simp [coePure, h]⟩
  | cons x rest ih =>
    intro r off res h
    obtain ⟨i, sm⟩ := x
    by_cases hty : sm.usageType = dir.smType
    · simp only [coeLoop, hty, ne_eq, not_true_eq_false, if_false] at h
      cases hc : d.coe i with
      | none => simp [hc] at h
      | some pdos =>
        simp only [hc] at h
        obtain ⟨bits, hb, h⟩ := bind_eq_ok.1 h
        obtain ⟨lb, hlb, h⟩ := bind_eq_ok.1 h
        have ebits := coeSmBitLen_ok hb
        obtain ⟨hlt, rfl⟩ := lenBytes_ok.1 hlb
        rw [writeSmConfig_eq] at h
        by_cases hpos : bits > 0
        · simp only [hpos, if_true] at h
          cases hp : position dir.fmmuType d.fmmuUsage with
          | none => simp [hp] at h
          | some fi =>
            simp only [hp] at h
            obtain ⟨p, hw, h⟩ := bind_eq_ok.1 h
            obtain ⟨jobs, hj1, hj2, hj3, hj4⟩ := ih _ _ res h
            have hlb0 : (bits + 7) / 8 ≠ 0 := by omega
            refine ⟨⟨i, sm, (bits + 7) / 8⟩ :: jobs, ?_, ?_, ?_, ?_⟩
            · rw [dirFilter_cons_pos (x := (i, sm)) hty]; simp [hj1]
            · intro j hj
              rcases List.mem_cons.1 hj with rfl | hj
              · simp [hc, ebits]
              · exact hj2 j hj
            · intro j hj hne
              exact ⟨fi, rfl⟩
            · rw [hp] at hj4
              simp only [coePure, hlb0, if_false, Option.getD_some]
              by_cases he : (r.fmmu fi).enable = true
              · have he' : ((r.setSm i (Job.cfg ⟨i, sm, (bits + 7) / 8⟩)).fmmu fi).enable = true := by simpa using he
                have hw' := writeFmmuConfig_enabled he' hw
                simp only [Job.cfg] at hw'
                subst hw'
                simpa [he, Job.cfg] using hj4
              · have he0 : (r.fmmu fi).enable = false := by simpa using he
                have he' : ((r.setSm i (Job.cfg ⟨i, sm, (bits + 7) / 8⟩)).fmmu fi).enable = false := by simpa using he0
                have hw' := writeFmmuConfig_fresh he' hw
                simp only [Job.cfg] at hw'
                subst hw'
                simpa [he0, Job.cfg] using hj4
        · simp only [hpos, if_false] at h
          have hb0 : bits = 0 := by omega
          obtain ⟨jobs, hj1, hj2, hj3, hj4⟩ := ih _ _ res h
          refine ⟨⟨i, sm, (bits + 7) / 8⟩ :: jobs, ?_, ?_, ?_, ?_⟩
          · rw [dirFilter_cons_pos (x := (i, sm)) hty]; simp [hj1]
          · intro j hj
            rcases List.mem_cons.1 hj with rfl | hj
            · simp [hc, ebits]
            · exact hj2 j hj
          · intro j hj hne
            rcases List.mem_cons.1 hj with rfl | hj
            · subst hb0; simp at hne
            · exact hj3 j hj hne
          · subst hb0
            simpa [coePure] using hj4
    · simp only [coeLoop, hty, ne_eq, not_false_eq_true, if_true] at h
      obtain ⟨jobs, hj1, hj2, hj3, hj4⟩ := ih r off res h
      exact ⟨jobs, by rw [dirFilter_cons_neg (x := (i, sm)) hty]; exact hj1, hj2, hj3, hj4⟩

/-! ### stage 2: `eepromPure` -/

theorem eepromPure_off (ty : Nat) : ∀ (jobs : List Job) (r : Regs) (off : Nat),
    (eepromPure ty jobs r off).2 = off + jobLens jobs := by
  intro jobs
  induction jobs with
  | nil => intro r off; simp [eepromPure, jobLens, natSum]
  | cons j rest ih =>
    intro r off
    simp only [eepromPure, ih, jobLens, List.map, natSum]
    simp only [jobLens] at ih
    omega

theorem eepromPure_fmmu_frame (ty : Nat) : ∀ (jobs : List Job) (r : Regs) (off k : Nat),
    k ∉ jobs.map (·.i) → (eepromPure ty jobs r off).1.fmmu k = r.fmmu k := by
  intro jobs
  induction jobs with
  | nil => intro r off k _; simp [eepromPure]
  | cons j rest ih =>
    intro r off k hk
    simp only [List.map, List.mem_cons, not_or] at hk
    simp only [eepromPure]
    rw [ih _ _ _ hk.2, setFmmu_fmmu_other _ _ hk.1]; simp

theorem eepromPure_sm_frame (ty : Nat) : ∀ (jobs : List Job) (r : Regs) (off k : Nat),
    k ∉ jobs.map (·.i) → (eepromPure ty jobs r off).1.sm k = r.sm k := by
  intro jobs
  induction jobs with
  | nil => intro r off k _; simp [eepromPure]
  | cons j rest ih =>
    intro r off k hk
    simp only [List.map, List.mem_cons, not_or] at hk
    simp only [eepromPure]
    rw [ih _ _ _ hk.2]
    simp [setSm_sm_other _ _ hk.1]

theorem eepromPure_sm_at (ty : Nat) : ∀ (jobs : List Job) (r : Regs) (off : Nat),
    (jobs.map (·.i)).Nodup → ∀ j ∈ jobs, (eepromPure ty jobs r off).1.sm j.i = j.cfg := by
  intro jobs
  induction jobs with
  | nil => intro r off _ j hj; simp at hj
  | cons j0 rest ih =>
    intro r off hnd j hj
    simp only [List.map, List.nodup_cons] at hnd
    simp only [eepromPure]
    rcases List.mem_cons.1 hj with rfl | hj
    · rw [eepromPure_sm_frame _ _ _ _ _ hnd.1]; simp
    · exact ih _ _ hnd.2 j hj

theorem eepromPure_fmmu_at (ty : Nat) : ∀ (jobs : List Job) (r : Regs) (off : Nat),
    (jobs.map (·.i)).Nodup → ∀ j ∈ jobs, ∃ o, (eepromPure ty jobs r off).1.fmmu j.i = freshFmmu o j.cfg ty := by
  intro jobs
  induction jobs with
  | nil => intro r off _ j hj; simp at hj
  | cons j0 rest ih =>
    intro r off hnd j hj
    simp only [List.map, List.nodup_cons] at hnd
    simp only [eepromPure]
    rcases List.mem_cons.1 hj with rfl | hj
    · rw [eepromPure_fmmu_frame _ _ _ _ _ hnd.1]; exact ⟨off, by simp⟩
    · exact ih _ _ hnd.2 j hj

theorem freshFmmu_hit {off ty a p : Nat} {cfg : SmReg} {w : Bool} (hty : ty = 3 ∨ ty = 4) :
    (freshFmmu off cfg ty).hit w a = some p ↔
      (w = (ty == 3)) ∧ off ≤ a ∧ a < off + cfg.len ∧ p = cfg.start + (a - off) := by
  unfold Fmmu.hit freshFmmu
  rcases hty with rfl | rfl <;> cases w <;> simp <;> constructor <;> intro h <;> (try omega) <;>
    first
      | (obtain ⟨h1, h2⟩ := h; exact ⟨h1.1, h1.2, h2.symm⟩)
      | (obtain ⟨h1, h2, h3⟩ := h; exact ⟨⟨h1, h2⟩, h3.symm⟩)

theorem eepromPure_hit {ty : Nat} (hty : ty = 3 ∨ ty = 4) : ∀ (jobs : List Job) (r : Regs) (off : Nat),
    (jobs.map (·.i)).Nodup → ∀ (w : Bool) (a p : Nat),
      (∃ j ∈ jobs, ((eepromPure ty jobs r off).1.fmmu j.i).hit w a = some p) ↔
        (w = (ty == 3) ∧ off ≤ a ∧ a < off + jobLens jobs ∧ physAt (jobWindows jobs) (a - off) = some p) := by
  intro jobs
  induction jobs with
  | nil =>
    intro r off _ w a p
    simp [jobLens, natSum, jobWindows, physAt]
  | cons j0 rest ih =>
    intro r off hnd w a p
    simp only [List.map, List.nodup_cons] at hnd
    have hhead : (eepromPure ty (j0 :: rest) r off).1.fmmu j0.i = freshFmmu off j0.cfg ty := by
      simp only [eepromPure]
      rw [eepromPure_fmmu_frame _ _ _ _ _ hnd.1]; simp
    have hrest := ih ((r.setSm j0.i j0.cfg).setFmmu j0.i (freshFmmu off j0.cfg ty)) (off + j0.lb) hnd.2 w a p
    have hlen : jobLens (j0 :: rest) = j0.lb + jobLens rest := by simp [jobLens, natSum]
    have hcfg : j0.cfg.len = j0.lb := rfl
    have hst : j0.cfg.start = j0.sm.start := rfl
    constructor
    · rintro ⟨j, hj, hh⟩
      rcases List.mem_cons.1 hj with rfl | hj
      · rw [hhead] at hh
        obtain ⟨h1, h2, h3, h4⟩ := (freshFmmu_hit hty).1 hh
        refine ⟨h1, h2, by omega, ?_⟩
        simp only [jobWindows, List.map, physAt]
        rw [if_pos (by omega)]; rw [h4, hst]
      · have := hrest.1 ⟨j, hj, by simpa [eepromPure] using hh⟩
        obtain ⟨h1, h2, h3, h4⟩ := this
        refine ⟨h1, by omega, by omega, ?_⟩
        simp only [jobWindows, List.map, physAt]
        rw [if_neg (by omega)]
        have : a - off - j0.lb = a - (off + j0.lb) := by omega
        rw [this]; exact h4
    · rintro ⟨h1, h2, h3, h4⟩
      simp only [jobWindows, List.map, physAt] at h4
      by_cases hk : a - off < j0.lb
      · rw [if_pos hk] at h4
        refine ⟨j0, by simp, ?_⟩
        rw [hhead]
        apply (freshFmmu_hit hty).2
        refine ⟨h1, h2, by omega, ?_⟩
        simp at h4; rw [hst]; omega
      · rw [if_neg hk] at h4
        have e : a - off - j0.lb = a - (off + j0.lb) := by omega
        rw [e] at h4
        obtain ⟨j, hj, hh⟩ := hrest.2 ⟨h1, by omega, by omega, h4⟩
        exact ⟨j, by simp [hj], by simpa [eepromPure] using hh⟩

/-! ### stage 2: `coePure` -/

theorem coePure_off (ty fi : Nat) : ∀ (jobs : List Job) (r : Regs) (off : Nat),
    (coePure ty fi jobs r off).2 = off + jobLens jobs := by
  intro jobs
  induction jobs with
  | nil => intro r off; simp [coePure, jobLens, natSum]
  | cons j rest ih =>
    intro r off
    simp only [coePure]
    have hl : jobLens (j :: rest) = j.lb + jobLens rest := by simp [jobLens, natSum]
    by_cases h0 : j.lb = 0
    · rw [if_pos h0, ih, hl]; omega
    · rw [if_neg h0, ih, hl]; omega

theorem coePure_fmmu_frame (ty fi : Nat) : ∀ (jobs : List Job) (r : Regs) (off k : Nat),
    k ≠ fi → (coePure ty fi jobs r off).1.fmmu k = r.fmmu k := by
  intro jobs
  induction jobs with
  | nil => intro r off k _; simp [coePure]
  | cons j rest ih =>
    intro r off k hk
    simp only [coePure]
    by_cases h0 : j.lb = 0
    · rw [if_pos h0, ih _ _ _ hk]; simp
    · rw [if_neg h0, ih _ _ _ hk, setFmmu_fmmu_other _ _ hk]; simp

theorem coePure_sm_frame (ty fi : Nat) : ∀ (jobs : List Job) (r : Regs) (off k : Nat),
    k ∉ jobs.map (·.i) → (coePure ty fi jobs r off).1.sm k = r.sm k := by
  intro jobs
  induction jobs with
  | nil => intro r off k _; simp [coePure]
  | cons j rest ih =>
    intro r off k hk
    simp only [List.map, List.mem_cons, not_or] at hk
    simp only [coePure]
    by_cases h0 : j.lb = 0
    · rw [if_pos h0, ih _ _ _ hk.2]; simp [setSm_sm_other _ _ hk.1]
    · rw [if_neg h0, ih _ _ _ hk.2]; simp [setSm_sm_other _ _ hk.1]

theorem coePure_sm_at (ty fi : Nat) : ∀ (jobs : List Job) (r : Regs) (off : Nat),
    (jobs.map (·.i)).Nodup → ∀ j ∈ jobs, (coePure ty fi jobs r off).1.sm j.i = j.cfg := by
  intro jobs
  induction jobs with
  | nil => intro r off _ j hj; simp at hj
  | cons j0 rest ih =>
    intro r off hnd j hj
    simp only [List.map, List.nodup_cons] at hnd
    simp only [coePure]
    rcases List.mem_cons.1 hj with rfl | hj
    · by_cases h0 : j.lb = 0
      · rw [if_pos h0, coePure_sm_frame _ _ _ _ _ _ hnd.1]; simp
      · rw [if_neg h0, coePure_sm_frame _ _ _ _ _ _ hnd.1]; simp
    · by_cases h0 : j0.lb = 0
      · rw [if_pos h0]; exact ih _ _ hnd.2 j hj
      · rw [if_neg h0]; exact ih _ _ hnd.2 j hj

/-- An entity that is already enabled only grows. -/
theorem coePure_enabled (ty fi : Nat) : ∀ (jobs : List Job) (r : Regs) (off : Nat),
    (r.fmmu fi).enable = true →
    (coePure ty fi jobs r off).1.fmmu fi = { r.fmmu fi with length := (r.fmmu fi).length + jobLens jobs } := by
  intro jobs
  induction jobs with
  | nil => intro r off _; simp [coePure, jobLens, natSum]
  | cons j rest ih =>
    intro r off he
    simp only [coePure]
    have hl : jobLens (j :: rest) = j.lb + jobLens rest := by simp [jobLens, natSum]
    by_cases h0 : j.lb = 0
    · rw [if_pos h0, ih _ _ (by simpa using he), hl, h0]; simp
    · rw [if_neg h0, ih _ _ (by simp [he]), hl]
      simp [he]; omega

/-- Physical start of the first non-empty job. -/
def firstStart : List Job → Nat
  | [] => 0
  | j :: rest => if j.lb = 0 then firstStart rest else j.sm.start

/-- An entity that is not enabled stays so while the jobs are empty, then is created at the current
    offset with the first non-empty job's physical start, then only grows. -/
theorem coePure_disabled (ty fi : Nat) : ∀ (jobs : List Job) (r : Regs) (off : Nat),
    (r.fmmu fi).enable = false →
    (coePure ty fi jobs r off).1.fmmu fi =
      if jobLens jobs = 0 then r.fmmu fi
      else { logicalStart := off, length := jobLens jobs, startBit := 0, endBit := 7,
             physStart := firstStart jobs, physBit := 0, readEn := ty == 4, writeEn := ty == 3, enable := true } := by
  intro jobs
  induction jobs with
  | nil => intro r off _; simp [coePure, jobLens, natSum]
  | cons j rest ih =>
    intro r off hd
    simp only [coePure]
    have hl : jobLens (j :: rest) = j.lb + jobLens rest := by simp [jobLens, natSum]
    by_cases h0 : j.lb = 0
    · rw [if_pos h0, ih _ _ (by simpa using hd), hl, h0]
      simp [firstStart, h0]
    · rw [if_neg h0, coePure_enabled _ _ _ _ _ (by simp [hd, freshFmmu]), hl]
      simp [hd, firstStart, h0, freshFmmu, Job.cfg]

theorem contig_firstStart {s : Nat} : ∀ (jobs : List Job), Contig s (jobWindows jobs) → jobLens jobs ≠ 0 →
    firstStart jobs = s := by
  intro jobs
  induction jobs with
  | nil => intro _ h; simp [jobLens, natSum] at h
  | cons j rest ih =>
    intro hc hl
    have hl' : jobLens (j :: rest) = j.lb + jobLens rest := by simp [jobLens, natSum]
    simp only [jobWindows, List.map, Contig] at hc
    simp only [firstStart]
    by_cases h0 : j.lb = 0
    · rw [if_pos h0] at hc ⊢
      exact ih hc (by omega)
    · rw [if_neg h0] at hc ⊢
      exact hc.1

/-- Translation of the shared entity after the loop, if the jobs are physically contiguous. -/
theorem coePure_hit {ty fi : Nat} (hty : ty = 3 ∨ ty = 4) (jobs : List Job) (r : Regs) (off s : Nat)
    (hd : (r.fmmu fi).enable = false) (hc : Contig s (jobWindows jobs)) (w : Bool) (a p : Nat) :
    ((coePure ty fi jobs r off).1.fmmu fi).hit w a = some p ↔
      (w = (ty == 3) ∧ off ≤ a ∧ a < off + jobLens jobs ∧ physAt (jobWindows jobs) (a - off) = some p) := by
  rw [coePure_disabled _ _ _ _ _ hd]
  by_cases h0 : jobLens jobs = 0
  · rw [if_pos h0]
    constructor
    · intro h; simp [Fmmu.hit, hd] at h
    · rintro ⟨_, h2, h3, _⟩; omega
  · rw [if_neg h0]
    have hfs := contig_firstStart jobs hc h0
    have hh := freshFmmu_hit (off := off) (ty := ty) (a := a) (p := p) (w := w)
      (cfg := { start := firstStart jobs, len := jobLens jobs }) hty
    simp only [freshFmmu] at hh
    rw [hh, hfs]
    constructor
    · rintro ⟨h1, h2, h3, h4⟩
      refine ⟨h1, h2, h3, ?_⟩
      rw [physAt_contig hc (by rw [rangesLen_jobWindows]; omega), h4]
    · rintro ⟨h1, h2, h3, h4⟩
      refine ⟨h1, h2, h3, ?_⟩
      rw [physAt_contig hc (by rw [rangesLen_jobWindows]; omega)] at h4
      simp at h4; omega

end Ec.Config
