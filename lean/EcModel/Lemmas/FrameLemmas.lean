/-
  Helper lemmas for the frame-building model (C04).
-/
import EcModel.Frame

namespace Ec

theorem setRange_mid (A X B Y : List Nat) (h : X.length = Y.length) :
    setRange (A ++ X ++ B) A.length Y = A ++ Y ++ B := by
  simp [setRange, ← h]

theorem setRange_mid' (A X B Y : List Nat) (n : Nat) (hn : n = A.length) (h : X.length = Y.length) :
    setRange (A ++ X ++ B) n Y = A ++ Y ++ B := by
  subst hn; exact setRange_mid A X B Y h

theorem zeros_add (a b : Nat) : zeros (a + b) = zeros a ++ zeros b := by
  simp [zeros]

theorem zeros_split (n a : Nat) (h : a ≤ n) : zeros n = zeros a ++ zeros (n - a) := by
  have : n = a + (n - a) := by omega
  conv => lhs; rw [this]
  exact zeros_add a (n - a)

theorem Cmd.pack_length (c : Cmd) : c.pack.length = 4 := by
  cases c <;> simp [Cmd.pack, le32]

theorem flagsPack_length (l : Nat) (c m : Bool) : (flagsPack l c m).length = 2 := rfl

theorem pduHeader_length (c : Cmd) (i l : Nat) (m : Bool) : (pduHeader c i l m).length = 10 := by
  simp [pduHeader, Cmd.pack_length, flagsPack_length, le16]

/-- First six bytes of a datagram (command code, index, raw command). -/
def Dgram.pre (d : Dgram) : List Nat := [d.cmd.code, d.idx] ++ d.cmd.pack
/-- Everything after the flags: irq, data, padding, working counter. -/
def Dgram.post (d : Dgram) : List Nat :=
  le16 0 ++ d.data ++ zeros (d.len - d.data.length) ++ [0, 0]

theorem Dgram.pre_length (d : Dgram) : d.pre.length = 6 := by simp [Dgram.pre, Cmd.pack_length]

theorem Dgram.encode_split (d : Dgram) (m : Bool) :
    d.encode m = d.pre ++ flagsPack d.len false m ++ d.post := by
  simp [Dgram.encode, Dgram.pre, Dgram.post, pduHeader]

theorem Dgram.encode_length (d : Dgram) (m : Bool) (h : d.data.length ≤ d.len) :
    (d.encode m).length = d.size := by
  simp [Dgram.encode, pduHeader_length, zeros_length, Dgram.size, PDU_OVERHEAD]; omega

/-- Datagrams before the last one, all with `more follows`. -/
def encMore (ds : List Dgram) : List Nat := ds.flatMap (·.encode true)

theorem encodeDgrams_snoc (ds : List Dgram) (d : Dgram) :
    encodeDgrams (ds ++ [d]) = encMore ds ++ d.encode false := by
  induction ds with
  | nil => simp [encodeDgrams, encMore]
  | cons x xs ih =>
    cases xs with
    | nil => simp [encodeDgrams, encMore]
    | cons y ys =>
      simp only [List.cons_append] at ih ⊢
      simp only [encodeDgrams]
      rw [ih]; simp [encMore]

theorem encMore_snoc (ds : List Dgram) (d : Dgram) :
    encMore (ds ++ [d]) = encMore ds ++ d.encode true := by
  simp [encMore]

theorem dgramsSize_eq_sum (ds : List Dgram) : dgramsSize ds = (ds.map Dgram.size).sum := by
  unfold dgramsSize
  generalize (ds.map Dgram.size) = l
  have : ∀ (l : List Nat) (a : Nat), l.foldl (· + ·) a = a + l.sum := by
    intro l; induction l with
    | nil => simp
    | cons x xs ih => intro a; simp [ih]; omega
  simpa using this l 0

theorem dgramsSize_snoc (ds : List Dgram) (d : Dgram) :
    dgramsSize (ds ++ [d]) = dgramsSize ds + d.size := by
  simp [dgramsSize_eq_sum]

theorem dgramsSize_nil : dgramsSize [] = 0 := rfl

theorem encMore_length (ds : List Dgram) (h : ∀ d ∈ ds, d.data.length ≤ d.len) :
    (encMore ds).length = dgramsSize ds := by
  induction ds with
  | nil => simp [encMore, dgramsSize]
  | cons x xs ih =>
    have hx := h x (by simp)
    have hxs : ∀ d ∈ xs, d.data.length ≤ d.len := fun d hd => h d (by simp [hd])
    have := ih hxs
    simp only [encMore, List.flatMap_cons, List.length_append] at this ⊢
    rw [this, Dgram.encode_length x true hx]
    simp [dgramsSize_eq_sum]

theorem flagsUnpack_pack (l : Nat) (hl : l < 2048) (rest : List Nat) :
    flagsUnpack (flagsPack l false false ++ rest) = (l, false, false) := by
  simp only [flagsPack, flagsUnpack, le16, Gen.LEN_MASK]
  simp [rd16]
  have h1 : l % 2048 = l := Nat.mod_eq_of_lt hl
  rw [h1]
  refine ⟨?_, ?_, ?_⟩ <;> omega

end Ec
