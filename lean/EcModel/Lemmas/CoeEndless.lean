/-
  C16 helper lemmas about the number of iterations of the two client loops: bounded when every message makes
  progress, unbounded (for every n there is a script that keeps the loop running n rounds) when a device sends
  zero-length pieces.
-/
import EcModel.Lemmas.CoeInfo

namespace Ec.Coe
open Ec Ec.Gen.Coe

/-! ### The segmented loop of sdo_read -/

theorem mwr_reqs {σ ρ : Type} (w : World σ) (cfg : Cfg) (req : List Nat) (u : List Nat → Res ρ) (v : Nat → Nat → Bool)
    (s : St σ) : (mailboxWriteRead w cfg req u v s).2.reqs.length ≤ s.reqs.length + 1 := by
  unfold mailboxWriteRead
  split
  · exact Nat.le_succ _
  · dsimp only
    have h1 : (writeRequest w cfg req (drainStale s)).reqs.length = s.reqs.length + 1 := by
      simp [writeRequest, drainStale]
    generalize writeRequest w cfg req (drainStale s) = s1 at h1 ⊢
    unfold readMailbox
    cases s1.outq with
    | nil => exact Nat.le_of_eq h1
    | cons m q => exact Nat.le_of_eq h1

/-- Whatever the device does and however much fuel the model is given: the segmented loop sends at most one request
    per free byte of the destination buffer (+1), because a segment that is not the last one must carry at least one
    byte (fix-c16-endless-loops). -/
theorem segLoop_requests_bounded {σ : Type} (w : World σ) (cfg : Cfg) :
    ∀ (fuel : Nat) (toggle : Bool) (buf : List Nat) (total : Nat) (s : St σ), total ≤ buf.length →
      (segLoop w cfg fuel toggle buf total s).2.reqs.length ≤ s.reqs.length + (buf.length - total) + 1 := by
  intro fuel
  induction fuel with
  | zero => intro toggle buf total s _; show s.reqs.length ≤ _; omega
  | succ fuel ih =>
    intro toggle buf total s ht
    unfold segLoop
    dsimp only
    have hreq := mwr_reqs w cfg (segmentRequest (mailboxCounter s).1 toggle) unpackSdoSegmented
      (fun _ _ => true) (mailboxCounter s).2
    generalize mailboxWriteRead w cfg (segmentRequest (mailboxCounter s).1 toggle) unpackSdoSegmented
      (fun _ _ => true) (mailboxCounter s).2 = r at hreq
    obtain ⟨r1, s'⟩ := r
    have hreq' : s'.reqs.length ≤ s.reqs.length + 1 := hreq
    cases r1 with
    | err e => show s'.reqs.length ≤ _; omega
    | panic why => show s'.reqs.length ≤ _; omega
    | ok hd =>
      obtain ⟨h, data⟩ := hd
      dsimp only
      split
      · show s'.reqs.length ≤ _; omega
      · generalize (if h.header.length - SEGMENT_HEADER_LEN == SEGMENT_MIN_DATA then
          h.header.length - SEGMENT_HEADER_LEN - h.segDataSize else h.header.length - SEGMENT_HEADER_LEN) = chunk
        split
        · show s'.reqs.length ≤ _; omega
        · split
          · show s'.reqs.length ≤ _; omega
          · next hc1 hc2 =>
            have hlen : (setRange buf total (data.take chunk)).length = buf.length := by
              apply setRange_length
              simp only [List.length_take]
              omega
            split
            · show s'.reqs.length ≤ _; omega
            · split
              · show s'.reqs.length ≤ _; omega
              · next hz =>
                have hpos : 1 ≤ chunk := by
                  simp only [beq_iff_eq] at hz
                  omega
                have := ih (!toggle) (setRange buf total (data.take chunk)) (total + chunk) s' (by rw [hlen]; omega)
                rw [hlen] at this
                omega

/-! ### Zero-length segments: the loop runs as long as the device keeps answering -/

/-- Upload segment response (command 3, as ethercrab requires), not last, mailbox length 3: zero data bytes. -/
def zeroSeg : List Nat := [3, 0, 0, 0, 0, 0x33, 0, 0x30, 0x60]

/-- A 32-byte mailbox in a checked build. -/
def cfg32 : Cfg :=
  { mode := .checked, rmbx := 32, wmbx := 32, hasMailbox := true, pre := [], post := [] }

def zeroSegHdr : SdoSegmented :=
  { header := { length := 3, priority := 0, mailboxType := 3, counter := 3 }, service := 3, isLast := false,
    segDataSize := 0, toggle := false, command := 3 }

theorem triage_zeroSeg :
    triage cfg32 unpackSdoSegmented (fun _ _ => true) (mkPdu cfg32 (image 32 zeroSeg)) = .ok (zeroSegHdr, zeros 20) := by
  decide

theorem setRange_nil (l : List Nat) (off : Nat) : setRange l off [] = l := by
  simp [setRange]

theorem mwr_zeroSeg (req : List Nat) (ctr : Nat) (rest : List (List (List Nat))) (reqs : List (List Nat)) (reads : Nat) :
    mailboxWriteRead scriptWorld cfg32 req unpackSdoSegmented (fun _ _ => true)
        { ctr := ctr, dev := [zeroSeg] :: rest, outq := [], reqs := reqs, reads := reads } =
      (.ok (zeroSegHdr, zeros 20),
        { ctr := ctr, dev := rest, outq := [], reqs := reqs ++ [image 32 req], reads := reads + 1 }) := by
  simp only [mailboxWriteRead, drainStale, writeRequest, readMailbox, scriptWorld, cfg32, List.drop_nil,
    List.length_nil, Nat.min_zero, Nat.add_zero, List.nil_append, Bool.not_true, Bool.false_eq_true, if_false]
  exact congrArg (fun x => (x, _)) triage_zeroSeg

/-- The former witness of c16/segment-endless: a zero-length non-final segment now ends the transfer with
    `Error::Internal` after ONE request, however many such segments the device has in store. -/
theorem segLoop_zeroSegs_fixed (n fuel : Nat) (toggle : Bool) (buf : List Nat) (total ctr : Nat)
    (reqs : List (List Nat)) (reads : Nat) (ht : total ≤ buf.length) :
    (segLoop scriptWorld cfg32 (fuel + 1) toggle buf total
        { ctr := ctr, dev := List.replicate (n + 1) [zeroSeg], outq := [], reqs := reqs, reads := reads }).1 = .err .internal ∧
    (segLoop scriptWorld cfg32 (fuel + 1) toggle buf total
        { ctr := ctr, dev := List.replicate (n + 1) [zeroSeg], outq := [], reqs := reqs, reads := reads }).2.reads = reads + 1 := by
  rw [segLoop]
  simp only [mailboxCounter, List.replicate_succ, mwr_zeroSeg]
  have h3 : ¬ zeroSegHdr.header.length < SEGMENT_HEADER_LEN := by decide
  have h0 : zeroSegHdr.header.length - SEGMENT_HEADER_LEN = 0 := by decide
  simp only [if_neg h3, h0]
  have hd : ((0 : Nat) == SEGMENT_MIN_DATA) = false := by decide
  simp only [hd, Bool.false_eq_true, if_false, List.take_zero, setRange_nil, Nat.add_zero, Nat.not_lt_zero]
  rw [if_neg (by omega)]
  have hl : zeroSegHdr.isLast = false := rfl
  simp only [hl, Bool.false_eq_true, if_false, beq_self_eq_true, if_true, and_self]

/-! ### Zero-length SDO-info fragments -/

/-- Get-OD-List response fragment, "more follow", mailbox length 8: zero data bytes. -/
def zeroFrag : List Nat := [8, 0, 0, 0, 0, 0x73, 0, 0x80, 0x82, 0, 1, 0, 0, 0]

def cfg16 : Cfg :=
  { mode := .checked, rmbx := 16, wmbx := 16, hasMailbox := true, pre := [], post := [] }

def zeroFragHdr : ListResponse :=
  { mailbox := { length := 8, priority := 0, mailboxType := 3, counter := 7 }, service := 8, opCode := 2,
    incomplete := true, fragmentsLeft := 1 }

theorem unpack_zeroFrag : unpackListResponse (mkPdu cfg16 (image 16 zeroFrag)).bytes = .ok zeroFragHdr := by decide

/-- The former witness of c16/sdo-info-endless: a zero-length fragment that announces more is `Error::Internal`. -/
theorem infoStep_zeroFrag (consumed : Bool) (buf : List Nat) (hb : buf.length ≤ INFO_BUF_CAP) :
    infoStep cfg16 (mkPdu cfg16 (image 16 zeroFrag)) consumed buf = .err .internal := by
  unfold infoStep
  rw [unpack_zeroFrag]
  have h1 : (zeroFragHdr.opCode == opListResponse) = true := by decide
  have h2 : ¬ zeroFragHdr.mailbox.length < COE_HEADER_AND_LIST_TYPE_SIZE := by decide
  have h3 : zeroFragHdr.mailbox.length - COE_HEADER_AND_LIST_TYPE_SIZE = 0 := by decide
  have h4 : zeroFragHdr.incomplete = true := rfl
  simp only [Res.bind_ok, h1, if_true, if_neg h2, h3, Nat.not_lt_zero, if_false, List.take_zero, List.length_nil,
    Nat.add_zero, h4, beq_self_eq_true, Bool.and_self]
  rw [if_neg (by omega)]

/-- However many zero-length fragments the device has queued, the loop stops at the first one: one mailbox read. -/
theorem infoLoop_zeroFrags_fixed (n : Nat) (consumed : Bool) (buf : List Nat) (reads : Nat)
    (hb : buf.length ≤ INFO_BUF_CAP) :
    infoLoop cfg16 (List.replicate (n + 1) zeroFrag) consumed buf reads =
      (.err .internal, List.replicate n zeroFrag, reads + 1) := by
  rw [List.replicate_succ, infoLoop]
  have : cfg16.rmbx = 16 := rfl
  rw [this, infoStep_zeroFrag consumed buf hb]

end Ec.Coe
