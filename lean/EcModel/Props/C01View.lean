/-
  C01 (view clauses, sequential) — a `ReceivedPdu` held by a caller keeps denoting the same bytes.

  Since /repo commit 18ebc523 the `ReceivedPdu` returned by `first_pdu` owns its frame: in the model a
  `view` handle is an owner of its slot, which is `RxProcessing` (invariant `J`). The theorems below
  are over every reachable world and every API operation that does not act on the view's own
  register: allocations into any slot, pushes, `mark_sendable`, TX claim / send, `receive_frame` of
  ANY bytes, polls, drops of other handles, other views, clock advances, and `reset` (disabled while
  a handle is alive).
-/
import EcModel.Lemmas.SlotsView

namespace Ec.C01View
open Ec

/-- **view_stable**: while a caller holds a `ReceivedPdu`, no operation of any other handle or task
    changes the bytes of the slot the view points into (nor anything else of that slot), nor the
    view handle itself. -/
theorem view_stable {n data : Nat} {w : World} (hn : 0 < n) (hr : Reach n data w) (r k off len wkc : Nat)
    (hv : getH w.2 r = some ⟨r, k, .view off len wkc⟩) (op : Op) (hop : op.reg ≠ some r) :
    ((step w op).1.1.slot k).buf = (w.1.slot k).buf ∧
    getH (step w op).1.2 r = some ⟨r, k, .view off len wkc⟩ := by
  have hJ := J_reach hn hr
  have hm := (getH_some hv).1
  have hst : (w.1.slot k).st = .rxProcessing := by
    have := hJ.compat _ hm (by simp [HK.cls])
    revert this; simp only; cases (w.1.slot k).st <;> simp [St.cls, HK.cls]
  obtain ⟨h1, h2⟩ := step_frame_owner hJ hm (by simp [HK.cls])
    (by simp only; rw [hst]; simp) op (by simpa using hop)
  simp only at h1 h2
  exact ⟨by rw [h1], h2⟩

/-- The whole slot (state `RxProcessing`, marker, length, bytes) is untouched, not only its buffer. -/
theorem view_slot_stable {n data : Nat} {w : World} (hn : 0 < n) (hr : Reach n data w) (r k off len wkc : Nat)
    (hv : getH w.2 r = some ⟨r, k, .view off len wkc⟩) (op : Op) (hop : op.reg ≠ some r) :
    (step w op).1.1.slot k = w.1.slot k ∧ (w.1.slot k).st = .rxProcessing := by
  have hJ := J_reach hn hr
  have hm := (getH_some hv).1
  have hst : (w.1.slot k).st = .rxProcessing := by
    have := hJ.compat _ hm (by simp [HK.cls])
    revert this; simp only; cases (w.1.slot k).st <;> simp [St.cls, HK.cls]
  exact ⟨(step_frame_owner hJ hm (by simp [HK.cls]) (by simp only; rw [hst]; simp) op (by simpa using hop)).1, hst⟩

/-- **view_stable_run**: along any history none of whose operations acts on the view's register, the
    bytes the view denotes never change and the view handle stays. -/
theorem view_stable_run {n data : Nat} {w : World} (hn : 0 < n) (hr : Reach n data w) (r k off len wkc : Nat)
    (hv : getH w.2 r = some ⟨r, k, .view off len wkc⟩) (ops : List Op) (hops : ∀ op ∈ ops, op.reg ≠ some r) :
    viewBytes (run w ops).1 k off len = viewBytes w.1 k off len ∧
    getH (run w ops).2 r = some ⟨r, k, .view off len wkc⟩ := by
  induction ops generalizing w with
  | nil => exact ⟨rfl, hv⟩
  | cons op ops ih =>
    obtain ⟨h1, h2⟩ := view_stable hn hr r k off len wkc hv op (hops op (by simp))
    obtain ⟨i1, i2⟩ := ih (hr.step op) h2 (fun o ho => hops o (by simp [ho]))
    refine ⟨?_, i2⟩
    rw [run_cons, i1]
    simp only [viewBytes, h1]

/-- What a successful `parsePduAt` says about the offsets: the data area starts 10 bytes after the
    datagram header and is followed by the 2-byte working counter, all inside the PDU area. -/
theorem parsePduAt_ok {pdu : List Nat} {pos off len wkc c i : Nat} {more : Bool}
    (h : parsePduAt pdu pos = .ok off len wkc c i more) :
    off = pos + 10 ∧ pos + 10 + len + 2 ≤ pdu.length := by
  unfold parsePduAt at h
  simp only at h
  split at h
  · cases h
  split at h
  · cases h
  split at h
  · cases h
  split at h
  · cases h
  next h1 h2 h3 h4 =>
    simp only [PduView.ok.injEq] at h
    obtain ⟨rfl, rfl, _⟩ := h
    refine ⟨rfl, ?_⟩
    simp only [List.length_drop] at h1 h2 h3 h4
    omega

/-- **view_in_data_area**: the view `first_pdu` hands out denotes exactly the data area of the first
    datagram of the response: it starts at offset 16 + 10 of the frame buffer, has the datagram's
    declared length, carries the datagram's working counter, the datagram is the one the caller's
    handle names (command code and index), and data area plus working counter lie inside the buffer. -/
theorem view_in_data_area {n data : Nat} {w : World} (hn : 0 < n) (hr : Reach n data w) (r k code idx : Nat)
    (hh : getH w.2 r = some ⟨r, k, .received⟩) (off len wkc : Nat)
    (hok : getH (step w (.first r code idx)).1.2 r = some ⟨r, k, .view off len wkc⟩) :
    (∃ more, parsePduAt ((w.1.slot k).buf.drop 16) 0 = .ok (off - 16) len wkc code idx more) ∧
    off = 26 ∧ off + len + 2 ≤ (w.1.slot k).buf.length ∧
    (step w (.first r code idx)).1.1 = w.1 ∧
    viewBytes (step w (.first r code idx)).1.1 k off len = ((w.1.slot k).buf.drop 26).take len := by
  have hJ := J_reach hn hr
  have gone : ∀ hs : List Hd, getH (delH hs r) r ≠ some ⟨r, k, .view off len wkc⟩ := by
    intro hs e
    exact (mem_delH.mp (getH_some e).1).2 rfl
  simp only [step, opFirst, hh] at hok ⊢
  split at hok
  · exact absurd hok (gone _)
  · exact absurd hok (gone _)
  · exact absurd hok (gone _)
  · next off' len' wkc' c i more hp =>
    split at hok
    · exact absurd hok (gone _)
    · next hc =>
      split at hok
      · exact absurd hok (gone _)
      · next hi =>
        have hc' : c = code := Classical.not_not.mp hc
        have hi' : i = idx := Classical.not_not.mp hi
        simp only at hok
        rw [getH_putH_self hJ.regs ⟨r, k, .view (16 + off') len' wkc'⟩] at hok
        simp only [Option.some.injEq, Hd.mk.injEq, HK.view.injEq, true_and] at hok
        obtain ⟨rfl, rfl, rfl⟩ := hok
        obtain ⟨ho, hl⟩ := parsePduAt_ok hp
        subst hc' hi' ho
        have hl' : 0 + 10 + len' + 2 ≤ (w.1.slot k).buf.length - 16 := by
          simpa [List.length_drop] using hl
        rw [hp]
        refine ⟨⟨more, by simp⟩, by omega, by omega, ?_, ?_⟩
        · simp [hc, hi]
        · simp [hc, hi, viewBytes]

/-- After `trim_front` the view denotes a suffix of what it denoted before (and nothing of the slot
    changes): it never leaves the datagram's data area. -/
theorem view_trim_stays_inside (w : World) (r k off len wkc ct : Nat)
    (hv : getH w.2 r = some ⟨r, k, .view off len wkc⟩) :
    (step w (.viewTrim r ct)).1.1 = w.1 ∧
    viewBytes w.1 k (off + min ct len) (len - min ct len) = (viewBytes w.1 k off len).drop (min ct len) := by
  refine ⟨by simp [step, opViewTrim, hv], ?_⟩
  simp only [viewBytes]
  rw [List.drop_take, List.drop_drop]

/-! Non-vacuity: a one-slot round trip up to the view, then a second task's failed allocation and a
    stray frame; the view's bytes are what the response carried. -/
def demoResp : List Nat :=
  [255, 255, 255, 255, 255, 255, 18, 16, 16, 16, 16, 16, 0x88, 0xa4, 14, 0x10,
   4, 0, 1, 16, 0x30, 1, 2, 0, 0, 0, 0xaa, 0xbb, 1, 0]

def demoW : World :=
  run (World.init 1 40 0 0)
    [.alloc 0, .push 0 (.fprd 4097 304) [0, 0] none, .mark 0 0 100, .txNext 1, .txSend 1 0, .rx demoResp,
     .poll 0, .first 0 4 0]

example : getH demoW.2 0 = some ⟨0, 0, .view 26 2 1⟩ := by decide
example : viewBytes demoW.1 0 26 2 = [0xaa, 0xbb] := by decide
example : viewBytes (run demoW [.alloc 5, .rx demoResp, .txNext 6, .advance 1000]).1 0 26 2 = [0xaa, 0xbb] := by decide

end Ec.C01View
