/-
  Capacity lemmas for C03: the allocation cursor covers every slot, free slots + owner handles = n,
  draining every handle empties the storage, and the allocation probe.
-/
import EcModel.Lemmas.SlotsInv
import Mathlib.Data.List.Nodup

namespace Ec

/-! ## the allocation cursor -/

/-- If `alloc_frame` gives up after `fuel` rounds, every slot the cursor visited was held. -/
theorem allocLoop_none_visits {s : Sys} {fuel : Nat} (h : (allocLoop s fuel).2 = none) :
    ∀ j, j < fuel → (s.slot ((s.frameIdx + j) % 256 % s.n)).st ≠ .none := by
  induction fuel generalizing s with
  | zero => intro j hj; omega
  | succ fuel ih =>
    simp only [allocLoop] at h
    split at h
    · simp at h
    · next hne =>
      have ih' := ih (s := { s with frameIdx := (s.frameIdx + 1) % 256 }) h
      intro j hj
      cases j with
      | zero => simpa using (show ¬ (s.slot (s.frameIdx % 256 % s.n)).st = St.none from hne)
      | succ j =>
        have := ih' j (by omega)
        have e : ((s.frameIdx + 1) % 256 + j) % 256 = (s.frameIdx + (j + 1)) % 256 := by omega
        simp only [e] at this
        exact this

/-- `n ∣ 256`: the wrapping `u8` cursor reduced mod `n` hits slot `i` within `n` rounds. -/
theorem cursor_hits (f n i : Nat) (hd : n ∣ 256) (hi : i < n) :
    ∃ j, j < n ∧ (f + j) % 256 % n = i := by
  refine ⟨(i + n - f % n) % n, Nat.mod_lt _ (by omega), ?_⟩
  rw [Nat.mod_mod_of_dvd _ hd]
  have ha : f % n < n := Nat.mod_lt _ (by omega)
  calc (f + (i + n - f % n) % n) % n
      = (f % n + (i + n - f % n) % n % n) % n := Nat.add_mod _ _ _
    _ = (f % n % n + (i + n - f % n) % n) % n := by rw [Nat.mod_mod, Nat.mod_mod]
    _ = (f % n + (i + n - f % n)) % n := (Nat.add_mod _ _ _).symm
    _ = (i + n) % n := by congr 1; omega
    _ = i := by rw [Nat.add_mod_right, Nat.mod_eq_of_lt hi]

theorem allocLoop_complete (s : Sys) (hd : s.n ∣ 256) (i : Nat) (hi : i < s.n) (hnone : (s.slot i).st = .none) :
    ∃ s' k, allocLoop s (2 * s.n) = (s', some k) := by
  cases h : (allocLoop s (2 * s.n)).2 with
  | some k => exact ⟨(allocLoop s (2 * s.n)).1, k, by rw [← h]⟩
  | none =>
    exfalso
    obtain ⟨j, hj, e⟩ := cursor_hits s.frameIdx s.n i hd hi
    have := allocLoop_none_visits h j (by omega)
    rw [e] at this
    exact this hnone

/-! ## counting -/

/-- Number of live owner handles. -/
def owners (hs : List Hd) : Nat := (hs.filter (fun h => h.kind.cls ≠ 4)).length

/-- Number of held slots. -/
def heldCount (s : Sys) : Nat := ((List.range s.n).filter (fun i => (s.slot i).st ≠ .none)).length

theorem J.count {s : Sys} {hs : List Hd} (hJ : J s hs) : heldCount s = owners hs := by
  unfold heldCount owners
  have hnd : hs.Nodup := List.Nodup.of_map _ hJ.regs
  have h1 : ((List.range s.n).filter (fun i => (s.slot i).st ≠ .none)).Nodup :=
    (List.nodup_range).filter _
  have h2 : ((hs.filter (fun h => h.kind.cls ≠ 4)).map (·.slot)).Nodup := by
    refine List.Nodup.map_on ?_ (hnd.filter _)
    intro a ha b hb e
    simp only [List.mem_filter, decide_eq_true_eq] at ha hb
    exact hJ.distinct a ha.1 b hb.1 ha.2 hb.2 e
  have hp : ((List.range s.n).filter (fun i => (s.slot i).st ≠ .none)).Perm
      ((hs.filter (fun h => h.kind.cls ≠ 4)).map (·.slot)) := by
    rw [List.perm_ext_iff_of_nodup h1 h2]
    intro i
    simp only [List.mem_filter, List.mem_range, decide_eq_true_eq, List.mem_map]
    constructor
    · rintro ⟨_, hne⟩
      obtain ⟨h, hm, ho, e⟩ := hJ.held i hne
      exact ⟨h, ⟨hm, ho⟩, e⟩
    · rintro ⟨h, ⟨hm, ho⟩, rfl⟩
      refine ⟨hJ.owner_lt hm ho, ?_⟩
      intro hn
      have := hJ.compat h hm ho
      rw [hn] at this
      have := h.kind.cls_pos
      simp [St.cls] at *
      omega
  rw [hp.length_eq, List.length_map]

theorem exists_free_of_count {s : Sys} (h : heldCount s < s.n) : ∃ i, i < s.n ∧ (s.slot i).st = .none := by
  unfold heldCount at h
  apply Classical.byContradiction
  intro hc
  have : (List.range s.n).filter (fun i => (s.slot i).st ≠ .none) = List.range s.n := by
    rw [List.filter_eq_self]
    intro i hi
    simp only [List.mem_range] at hi
    simp only [ne_eq, decide_eq_true_eq]
    intro hn; exact hc ⟨i, hi, hn⟩
  rw [this, List.length_range] at h
  omega

theorem full_of_count {s : Sys} (h : heldCount s = s.n) : ∀ i, i < s.n → (s.slot i).st ≠ .none := by
  unfold heldCount at h
  intro i hi
  have hl : ((List.range s.n).filter (fun i => (s.slot i).st ≠ .none)).length = (List.range s.n).length := by
    rw [h, List.length_range]
  have := (List.filter_sublist (l := List.range s.n) (p := fun i => decide ((s.slot i).st ≠ .none))).eq_of_length hl
  have hm : i ∈ (List.range s.n).filter (fun i => (s.slot i).st ≠ .none) := by
    rw [this]; simpa using hi
  simpa using (List.mem_filter.mp hm).2

/-! ## handle lists under alloc / drain -/

theorem delH_fresh {hs : List Hd} {r : Nat} (h : ∀ x ∈ hs, x.reg ≠ r) : delH hs r = hs := by
  unfold delH
  rw [List.filter_eq_self]
  intro x hx; simpa using h x hx

theorem owners_putH_fresh {hs : List Hd} {x : Hd} (h : ∀ y ∈ hs, y.reg ≠ x.reg) (ho : x.kind.cls ≠ 4) :
    owners (putH hs x) = owners hs + 1 := by
  unfold owners putH
  rw [delH_fresh h]
  simp [ho]

/-! ## the slot count never changes -/

theorem n_allocLoop (s : Sys) (fuel : Nat) : (allocLoop s fuel).1.n = s.n := by
  cases h : (allocLoop s fuel).2 with
  | none =>
    obtain ⟨f, e⟩ := allocLoop_none (s := s) (s' := (allocLoop s fuel).1) (fuel := fuel) (by rw [← h])
    rw [e]; rfl
  | some i =>
    by_cases hn : 0 < s.n
    · obtain ⟨_, _, f, e⟩ := allocLoop_some (s := s) (s' := (allocLoop s fuel).1) (fuel := fuel) (i := i) hn (by rw [← h])
      rw [e, n_setSlot]; rfl
    · -- no slots at all: every write is out of range
      have h0 : s.slots = [] := by
        simpa [Sys.n] using hn
      clear h
      induction fuel generalizing s with
      | zero => rfl
      | succ fuel ih =>
        simp only [allocLoop]
        split
        · simp [Sys.n, Sys.setSlot, h0]
        · exact ih _ hn h0

theorem n_receiveFrame (s : Sys) (b : List Nat) : (receiveFrame s b).1.n = s.n := by
  rcases receiveFrame_effect s b with ⟨h, _⟩ | ⟨k, _, _, ⟨p, h⟩ | h⟩ <;> rw [h] <;> simp [n_setSlot]

theorem n_dropReceived (s : Sys) (k : Nat) : (dropReceived s k).1.n = s.n := by
  unfold dropReceived; simp only; split <;> simp [n_setSlot]

theorem n_step (w : World) (op : Op) : (step w op).1.1.n = w.1.n := by
  cases op with
  | alloc r =>
    simp only [step]; split
    · unfold opAlloc
      have := n_allocLoop w.1 (2 * w.1.n)
      split <;> next e => rw [e] at this; exact this
    · rfl
  | push r c d l =>
    simp only [step]; unfold opPush; split
    · simp only; split <;> first | rfl | (simp only [n_setSlot]; rfl)
    · rfl
  | rest r c b =>
    simp only [step]; unfold opRest; split
    · simp only; split <;> simp only [n_setSlot] <;> split <;> rfl
    · rfl
  | mark r a b => simp only [step]; unfold opMark; split <;> first | rfl | simp [n_setSlot]
  | dropCreated r =>
    simp only [step]; unfold opDropCreated; split
    · simp only; split <;> first | rfl | simp [n_setSlot]
    · rfl
  | txNext r =>
    simp only [step]; unfold opTxNext; repeat' split
    all_goals first | rfl | simp [n_setSlot]
  | txSend r o =>
    simp only [step]; unfold opTxSend; split
    · simp only; split <;> first | rfl | simp [n_setSlot]
    · rfl
  | rx b => exact n_receiveFrame w.1 b
  | poll r =>
    simp only [step]; unfold opPoll; split
    · simp only; repeat' split
      all_goals first | rfl | simp [n_setSlot]
    · rfl
  | dropFut r => simp only [step]; unfold opDropFut; split <;> first | rfl | simp [n_setSlot]
  | first r c i =>
    simp only [step]; unfold opFirst; split
    · simp only; repeat' split
      all_goals first | rfl | simp [n_dropReceived]
    · rfl
  | iter r m => simp only [step]; unfold opIter; split <;> first | rfl | simp [n_dropReceived]
  | dropReceived r => simp only [step]; unfold opDropReceived; split <;> first | rfl | simp [n_dropReceived]
  | viewRead r => simp only [step]; unfold opViewRead; split <;> rfl
  | viewTrim r ct => simp only [step]; unfold opViewTrim; split <;> rfl
  | dropView r => simp only [step]; unfold opDropView; split <;> first | rfl | simp [n_dropReceived]
  | advance us => rfl
  | reset => simp only [step]; unfold opReset; split <;> simp [Sys.n]
  | snap => rfl

theorem n_run (w : World) (ops : List Op) : (run w ops).1.n = w.1.n := by
  induction ops generalizing w with
  | nil => rfl
  | cons op ops ih => rw [run_cons, ih, n_step]

theorem n_init (n data fi pi : Nat) : (World.init n data fi pi).1.n = n := by
  simp [World.init, Sys.init, Sys.n]

theorem Reach.n_eq {n data : Nat} {w : World} (h : Reach n data w) : w.1.n = n := by
  obtain ⟨fi, pi, ops, rfl⟩ := h
  rw [n_run, n_init]

/-! ## draining -/

/-- The operation that disposes of a live handle: drop it or, for the TX side's `SendableFrame`,
    complete the send (with outcome `o reg`). -/
def drainOp (o : Nat → Nat) (h : Hd) : Op :=
  match h.kind with
  | .created _ _ => .dropCreated h.reg
  | .fut _ _ _ _ => .dropFut h.reg
  | .sendable => .txSend h.reg (o h.reg)
  | .received => .dropReceived h.reg
  | .view _ _ _ => .dropView h.reg

/-- Dispose of whatever handle register `r` holds. -/
def drainReg (o : Nat → Nat) (w : World) (r : Nat) : World :=
  match getH w.2 r with
  | some h => (step w (drainOp o h)).1
  | none => w

/-- Dispose of the handles in registers `rs`, in that order. -/
def drain (o : Nat → Nat) (w : World) (rs : List Nat) : World := rs.foldl (drainReg o) w

theorem drainReg_handles (o : Nat → Nat) (w : World) (r : Nat) : (drainReg o w r).2 = delH w.2 r := by
  unfold drainReg
  split
  · next h e =>
    obtain ⟨_, hr⟩ := getH_some e
    obtain ⟨reg, k, kind⟩ := h
    simp only at hr; subst hr
    cases kind <;> simp [drainOp, step, opDropCreated, opDropFut, opTxSend, opDropReceived, opDropView, e]
  · next e => exact (delH_fresh (getH_none e)).symm

theorem J_drainReg (o : Nat → Nat) {w : World} (hJ : J w.1 w.2) (r : Nat) :
    J (drainReg o w r).1 (drainReg o w r).2 := by
  unfold drainReg
  split
  · exact J_step hJ _
  · exact hJ

theorem J_drain (o : Nat → Nat) {w : World} (hJ : J w.1 w.2) (rs : List Nat) :
    J (drain o w rs).1 (drain o w rs).2 := by
  induction rs generalizing w with
  | nil => exact hJ
  | cons r rs ih => exact ih (J_drainReg o hJ r)

theorem mem_drain (o : Nat → Nat) (w : World) (rs : List Nat) (h : Hd) :
    h ∈ (drain o w rs).2 ↔ h ∈ w.2 ∧ h.reg ∉ rs := by
  induction rs generalizing w with
  | nil => simp [drain]
  | cons r rs ih =>
    have : drain o w (r :: rs) = drain o (drainReg o w r) rs := rfl
    rw [this, ih, drainReg_handles, mem_delH]
    simp only [List.mem_cons, not_or]
    constructor
    · rintro ⟨⟨a, b⟩, c⟩; exact ⟨a, b, c⟩
    · rintro ⟨a, b, c⟩; exact ⟨⟨a, b⟩, c⟩

theorem n_drainReg (o : Nat → Nat) (w : World) (r : Nat) : (drainReg o w r).1.n = w.1.n := by
  unfold drainReg; split
  · exact n_step _ _
  · rfl

theorem n_drain (o : Nat → Nat) (w : World) (rs : List Nat) : (drain o w rs).1.n = w.1.n := by
  induction rs generalizing w with
  | nil => rfl
  | cons r rs ih =>
    have : drain o w (r :: rs) = drain o (drainReg o w r) rs := rfl
    rw [this, ih, n_drainReg]

/-- Once every live handle has been disposed of (any order, any extra registers), no handle is left
    and every slot is `None`. -/
theorem drain_empties (o : Nat → Nat) {w : World} (hJ : J w.1 w.2) (rs : List Nat)
    (hall : ∀ h ∈ w.2, h.reg ∈ rs) :
    (drain o w rs).2 = [] ∧ ∀ i, ((drain o w rs).1.slot i).st = .none := by
  have he : (drain o w rs).2 = [] := by
    rw [List.eq_nil_iff_forall_not_mem]
    intro h hm
    obtain ⟨a, b⟩ := (mem_drain o w rs h).mp hm
    exact b (hall h a)
  refine ⟨he, ?_⟩
  intro i
  apply Classical.byContradiction
  intro hne
  obtain ⟨h, hm, _⟩ := (J_drain o hJ rs).held i hne
  rw [he] at hm
  cases hm

/-! ## the allocation probe -/

theorem ok_ne_swapstate (i : Nat) : s!"ok.{i}" ≠ "err.swapstate" := by
  intro h
  have := congrArg String.toList h
  simp [String.toList_append, toString] at this

theorem alloc_step_ok {w : World} (hJ : J w.1 w.2) (hd : w.1.n ∣ 256) (hlt : owners w.2 < w.1.n) (r : Nat)
    (hf : ∀ h ∈ w.2, h.reg ≠ r) :
    ∃ i, i < w.1.n ∧ (w.1.slot i).st = .none ∧ (step w (.alloc r)).2 = s!"ok.{i}" ∧
      (step w (.alloc r)).1.2 = putH w.2 ⟨r, i, .created 0 none⟩ := by
  obtain ⟨i, hi, hnone⟩ := exists_free_of_count (by rw [hJ.count]; exact hlt)
  obtain ⟨s', k, e⟩ := allocLoop_complete w.1 hd i hi hnone
  obtain ⟨hk, hkn, _⟩ := allocLoop_some hJ.pos e
  have hfree : (getH w.2 r).isNone = true := by
    cases hg : getH w.2 r with
    | none => rfl
    | some h => exact absurd (getH_some hg).2 (hf h (getH_some hg).1)
  refine ⟨k, hk, hkn, ?_, ?_⟩ <;> simp [step, hfree, opAlloc, e]

theorem alloc_step_full {w : World} (hJ : J w.1 w.2) (hfull : owners w.2 = w.1.n) (r : Nat)
    (hf : ∀ h ∈ w.2, h.reg ≠ r) : (step w (.alloc r)).2 = "err.swapstate" := by
  have hfree : (getH w.2 r).isNone = true := by
    cases hg : getH w.2 r with
    | none => rfl
    | some h => exact absurd (getH_some hg).2 (hf h (getH_some hg).1)
  simp only [step, hfree, if_true]
  unfold opAlloc
  split
  · next s' i e =>
    obtain ⟨hi, hnone, _⟩ := allocLoop_some hJ.pos e
    exact absurd hnone (full_of_count (by rw [hJ.count]; exact hfull) i hi)
  · rfl

/-- Every allocation of the list reports `ok.<slot>`. -/
def allocsOk (w : World) : List Nat → Prop
  | [] => True
  | r :: rs => (∃ i : Nat, (step w (.alloc r)).2 = s!"ok.{i}") ∧ allocsOk (step w (.alloc r)).1 rs

theorem probe {w : World} (hJ : J w.1 w.2) (hd : w.1.n ∣ 256) (rs : List Nat) (hnd : rs.Nodup)
    (hf : ∀ h ∈ w.2, h.reg ∉ rs) (hle : owners w.2 + rs.length ≤ w.1.n) :
    allocsOk w rs ∧ owners (run w (rs.map Op.alloc)).2 = owners w.2 + rs.length ∧
    ∀ h ∈ (run w (rs.map Op.alloc)).2, h ∈ w.2 ∨ h.reg ∈ rs := by
  induction rs generalizing w with
  | nil => exact ⟨trivial, rfl, fun h hm => Or.inl hm⟩
  | cons r rs ih =>
    simp only [List.length_cons] at hle
    have hfr : ∀ h ∈ w.2, h.reg ≠ r := fun h hm e => hf h hm (by simp [e])
    obtain ⟨i, hi, hnone, hout, hhs⟩ := alloc_step_ok hJ hd (by omega) r hfr
    have hJ' := J_step hJ (.alloc r)
    have hown : owners (step w (.alloc r)).1.2 = owners w.2 + 1 := by
      rw [hhs]; exact owners_putH_fresh hfr (by simp [HK.cls])
    simp only [List.nodup_cons] at hnd
    have := ih (w := (step w (.alloc r)).1) hJ' (by rw [n_step]; exact hd) hnd.2
      (by
        intro h hm
        rw [hhs] at hm
        rcases mem_putH.mp hm with rfl | ⟨hm', _⟩
        · exact hnd.1
        · intro hin; exact hf h hm' (by simp [hin]))
      (by rw [hown, n_step]; omega)
    refine ⟨⟨⟨i, hout⟩, this.1⟩, ?_, ?_⟩
    · simp only [List.map_cons, run_cons]
      rw [this.2.1, hown, List.length_cons]; omega
    · intro h hm
      simp only [List.map_cons, run_cons] at hm
      rcases this.2.2 h hm with h1 | h1
      · rw [hhs] at h1
        rcases mem_putH.mp h1 with rfl | ⟨hm', _⟩
        · right; simp
        · left; exact hm'
      · right; simp [h1]

end Ec
