//! Device descriptions: what an ESI file would say about a SubDevice, from which the simulator
//! builds the SII EEPROM image, the CoE object dictionary and the `Esc` itself.
use super::coe::CoeServer;
use super::esc::{DcCaps, Esc};
use super::sii::{self, ImageSpec, MailboxDesc, PdoDesc, PdoEntryDesc, SmDesc};
use std::collections::BTreeMap;

#[derive(Clone, Debug)]
pub struct DeviceDesc {
    /// Order string (what `SubDevice::name()` reports). None: no string / general category entry.
    pub name: Option<String>,
    /// Long name (`description()`).
    pub description: Option<String>,
    /// Emit the General category at all (without it ethercrab invents a name from the identity).
    pub general: bool,
    pub vendor: u32,
    pub product: u32,
    pub revision: u32,
    pub serial: u32,
    pub alias: u16,
    pub dc: DcCaps,
    pub mailbox: Option<MailboxDesc>,
    pub sms: Vec<SmDesc>,
    pub fmmus: Vec<u8>,
    pub fmmu_ex: Vec<[u8; 3]>,
    pub tx_pdos: Vec<PdoDesc>,
    pub rx_pdos: Vec<PdoDesc>,
    /// Extra CoE objects; the assignment objects are generated when `auto_objects` is set.
    pub od: BTreeMap<(u16, u8), Vec<u8>>,
    pub auto_objects: bool,
    /// SII read size: 4 or 8 octets.
    pub sii_chunk: usize,
    pub fmmu_count: u8,
    pub sm_count: u8,
    pub eeprom_size: usize,
}

impl Default for DeviceDesc {
    fn default() -> Self {
        DeviceDesc {
            name: Some("SIM".to_string()),
            description: None,
            general: true,
            vendor: 0x0000_0002,
            product: 0x044c_2c52,
            revision: 0x0011_0000,
            serial: 0,
            alias: 0,
            dc: DcCaps::NONE,
            mailbox: None,
            sms: Vec::new(),
            fmmus: Vec::new(),
            fmmu_ex: Vec::new(),
            tx_pdos: Vec::new(),
            rx_pdos: Vec::new(),
            od: BTreeMap::new(),
            auto_objects: true,
            sii_chunk: 4,
            fmmu_count: 8,
            sm_count: 8,
            eeprom_size: 0,
        }
    }
}

fn byte_entries(base: u16, bytes: usize) -> Vec<PdoEntryDesc> {
    (0..bytes).map(|k| PdoEntryDesc { index: base, sub: (k + 1) as u8, bits: 8 }).collect()
}

impl DeviceDesc {
    /// A coupler: no process data, no mailbox (like an EK1100).
    pub fn coupler(name: &str) -> Self {
        DeviceDesc { name: Some(name.to_string()), product: 0x044c_2c52, ..Default::default() }
    }

    /// Simple input terminal without mailbox: `bits` input bits on SM0 (like an EL1xxx).
    pub fn digital_in(name: &str, bits: u8) -> Self {
        let len = (bits as u16).div_ceil(8);
        DeviceDesc {
            name: Some(name.to_string()),
            product: 0x03ec_3052,
            sms: vec![SmDesc { start: 0x1000, len, control: 0x00, enable: 1, usage: 4 }],
            fmmus: vec![2],
            tx_pdos: vec![PdoDesc {
                index: 0x1a00,
                sm: 0,
                entries: (0..bits).map(|k| PdoEntryDesc { index: 0x6000, sub: k + 1, bits: 1 }).collect(),
            }],
            ..Default::default()
        }
    }

    /// Simple output terminal without mailbox: `bits` output bits on SM0 (like an EL2xxx).
    pub fn digital_out(name: &str, bits: u8) -> Self {
        let len = (bits as u16).div_ceil(8);
        DeviceDesc {
            name: Some(name.to_string()),
            product: 0x07d4_3052,
            sms: vec![SmDesc { start: 0x0f00, len, control: 0x44, enable: 1, usage: 3 }],
            fmmus: vec![1],
            rx_pdos: vec![PdoDesc {
                index: 0x1600,
                sm: 0,
                entries: (0..bits).map(|k| PdoEntryDesc { index: 0x7000, sub: k + 1, bits: 1 }).collect(),
            }],
            ..Default::default()
        }
    }

    /// A CoE device: mailbox SM0/SM1 of `mbx` bytes, SM2 outputs of `out_bytes`, SM3 inputs of
    /// `in_bytes`, PDO assignment through 0x1C12/0x1C13.
    pub fn coe_io(name: &str, in_bytes: usize, out_bytes: usize, mbx: u16) -> Self {
        let mut d = DeviceDesc {
            name: Some(name.to_string()),
            product: 0x0bb8_3052,
            mailbox: Some(MailboxDesc {
                rx_offset: 0x1000,
                rx_size: mbx,
                tx_offset: 0x1400,
                tx_size: mbx,
                protocols: 0x04,
                coe_details: 0x01 | 0x02 | 0x04 | 0x20,
            }),
            sms: vec![
                SmDesc { start: 0x1000, len: mbx, control: 0x26, enable: 1, usage: 1 },
                SmDesc { start: 0x1400, len: mbx, control: 0x22, enable: 1, usage: 2 },
                SmDesc { start: 0x1800, len: out_bytes as u16, control: 0x64, enable: 1, usage: 3 },
                SmDesc { start: 0x1c00, len: in_bytes as u16, control: 0x20, enable: 1, usage: 4 },
            ],
            fmmus: vec![1, 2, 3],
            ..Default::default()
        };
        if out_bytes > 0 {
            d.rx_pdos.push(PdoDesc { index: 0x1600, sm: 2, entries: byte_entries(0x7000, out_bytes) });
        }
        if in_bytes > 0 {
            d.tx_pdos.push(PdoDesc { index: 0x1a00, sm: 3, entries: byte_entries(0x6000, in_bytes) });
        }
        d
    }

    pub fn with_dc(mut self, dc: DcCaps) -> Self {
        self.dc = dc;
        self
    }
    pub fn with_alias(mut self, alias: u16) -> Self {
        self.alias = alias;
        self
    }
    pub fn with_chunk(mut self, chunk: usize) -> Self {
        self.sii_chunk = chunk;
        self
    }
    pub fn with_identity(mut self, vendor: u32, product: u32, revision: u32, serial: u32) -> Self {
        self.vendor = vendor;
        self.product = product;
        self.revision = revision;
        self.serial = serial;
        self
    }
    pub fn without_name(mut self) -> Self {
        self.name = None;
        self
    }

    pub fn has_coe(&self) -> bool {
        self.mailbox.as_ref().is_some_and(|m| m.protocols & 0x04 != 0 && m.tx_size > 0)
    }

    /// Input bytes the MainDevice should map for this device (sum over input SMs, each rounded up).
    pub fn input_bytes(&self) -> usize {
        self.pd_bytes(4, &self.tx_pdos)
    }
    pub fn output_bytes(&self) -> usize {
        self.pd_bytes(3, &self.rx_pdos)
    }
    fn pd_bytes(&self, usage: u8, pdos: &[PdoDesc]) -> usize {
        self.sms
            .iter()
            .enumerate()
            .filter(|(_, s)| s.usage == usage)
            .map(|(i, _)| (pdos.iter().filter(|p| p.sm as usize == i).map(|p| p.bits()).sum::<u32>() as usize).div_ceil(8))
            .sum()
    }

    pub fn image_spec(&self) -> ImageSpec {
        let mut strings = Vec::new();
        let mut order_idx = 0u8;
        let mut name_idx = 0u8;
        if let Some(n) = &self.name {
            strings.push(n.clone());
            order_idx = strings.len() as u8;
        }
        if let Some(n) = &self.description {
            strings.push(n.clone());
            name_idx = strings.len() as u8;
        }
        ImageSpec {
            alias: self.alias,
            vendor: self.vendor,
            product: self.product,
            revision: self.revision,
            serial: self.serial,
            mailbox: self.mailbox.clone(),
            strings,
            general: if self.general { Some((0, 0, order_idx, name_idx)) } else { None },
            fmmus: self.fmmus.clone(),
            sms: self.sms.clone(),
            fmmu_ex: self.fmmu_ex.clone(),
            tx_pdos: self.tx_pdos.clone(),
            rx_pdos: self.rx_pdos.clone(),
            size_bytes: self.eeprom_size,
            ports: [1, 0, 0, 0],
            ebus_current: 0,
        }
    }

    pub fn eeprom(&self) -> Vec<u8> {
        sii::build_image(&self.image_spec())
    }

    /// CoE object dictionary: identity, SM types 0x1C00, PDO mapping 0x16xx/0x1Axx and the
    /// assignments 0x1C10+sm, plus `od`.
    pub fn dictionary(&self) -> BTreeMap<(u16, u8), Vec<u8>> {
        let mut od = BTreeMap::new();
        if self.auto_objects {
            od.insert((0x1000, 0), 0x0000_1389u32.to_le_bytes().to_vec());
            od.insert((0x1008, 0), self.name.clone().unwrap_or_default().into_bytes());
            od.insert((0x1018, 0), vec![4]);
            od.insert((0x1018, 1), self.vendor.to_le_bytes().to_vec());
            od.insert((0x1018, 2), self.product.to_le_bytes().to_vec());
            od.insert((0x1018, 3), self.revision.to_le_bytes().to_vec());
            od.insert((0x1018, 4), self.serial.to_le_bytes().to_vec());
            od.insert((0x1c00, 0), vec![self.sms.len() as u8]);
            for (i, s) in self.sms.iter().enumerate() {
                od.insert((0x1c00, (i + 1) as u8), vec![s.usage]);
            }
            for (i, s) in self.sms.iter().enumerate() {
                let pdos: Vec<&PdoDesc> = match s.usage {
                    3 => self.rx_pdos.iter().filter(|p| p.sm as usize == i).collect(),
                    4 => self.tx_pdos.iter().filter(|p| p.sm as usize == i).collect(),
                    _ => continue,
                };
                let idx = 0x1c10 + i as u16;
                od.insert((idx, 0), vec![pdos.len() as u8]);
                for (k, p) in pdos.iter().enumerate() {
                    od.insert((idx, (k + 1) as u8), p.index.to_le_bytes().to_vec());
                }
            }
            for p in self.rx_pdos.iter().chain(self.tx_pdos.iter()) {
                od.insert((p.index, 0), vec![p.entries.len() as u8]);
                for (k, e) in p.entries.iter().enumerate() {
                    let v = ((e.index as u32) << 16) | ((e.sub as u32) << 8) | e.bits as u32;
                    od.insert((p.index, (k + 1) as u8), v.to_le_bytes().to_vec());
                    // the mapped application object itself
                    od.entry((e.index, e.sub)).or_insert_with(|| vec![0u8; (e.bits as usize).div_ceil(8)]);
                }
            }
        }
        for (k, v) in &self.od {
            od.insert(*k, v.clone());
        }
        od
    }

    /// Build the simulated controller.
    pub fn build(&self) -> Esc {
        let mut e = Esc::blank();
        e.label = self.name.clone().unwrap_or_default();
        e.eeprom = self.eeprom();
        e.dc.caps = self.dc;
        e.sii.chunk = self.sii_chunk;
        e.fmmu_count = self.fmmu_count;
        e.sm_count = self.sm_count;
        if self.mailbox.is_some() {
            e.coe = Some(CoeServer::new(self.dictionary()));
        }
        for (i, s) in self.sms.iter().enumerate() {
            match s.usage {
                1 | 2 => {
                    let len = match (&self.mailbox, s.usage) {
                        (Some(m), 1) => m.rx_size,
                        (Some(m), _) => m.tx_size,
                        _ => s.len,
                    };
                    e.expected_mbx_sms.push((i as u8, s.start, len));
                }
                3 => {
                    let bits: u32 = self.rx_pdos.iter().filter(|p| p.sm as usize == i).map(|p| p.bits()).sum();
                    e.expected_pd_sms.push((i as u8, s.start, bits.div_ceil(8) as u16));
                }
                4 => {
                    let bits: u32 = self.tx_pdos.iter().filter(|p| p.sm as usize == i).map(|p| p.bits()).sum();
                    e.expected_pd_sms.push((i as u8, s.start, bits.div_ceil(8) as u16));
                }
                _ => {}
            }
        }
        e.power_on();
        e
    }
}
