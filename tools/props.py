"""Per-property configuration of ./check."""

PROPS = {
    "C04": {
        "lean_modules": ["EcModel.Props.C04"],
        "harness": ["c04"],
        "t1_facts": ["LEN_MASK", "ETHERCAT_ETHERTYPE", "MAINDEVICE_ADDR", "command constant", "Command::code"],
        "modelled": "Command::{code,pack,aprd,apwr}, PduFlags pack/unpack, PduHeader layout, EthercatFrameHeader::pdu, "
                    "FrameBox::init, CreatedFrame::{push_pdu,push_pdu_slice_rest,can_push_pdu_payload,mark_sendable}, "
                    "SendableFrame::as_bytes",
        "rule": "corpus of boundary programs, then random push programs (1-6 ops: push_pdu with all 11 command kinds, "
                "payload 0..room+20, length override below/equal/above, fill-the-rest of 0..2*cap bytes, can_push queries) "
                "for every frame size 28..1514 (thorough) or a stride (quick); real bytes are those handed to "
                "send_blocking's closure. non-trivial = frame with >= 2 accepted datagrams; distinct = distinct case line",
        "assumptions": [
            "frame size <= 2047+16 (property's own bound)",
            "payload type modelled as its packed byte string (EtherCrabWireWrite for &[u8])",
            "dynamic-size storage hook (verif::VerifDynStorage) mirrors PduStorage::as_ref's stride computation",
        ],
    },
}

NOT_APPLICABLE = {}

MANIFEST_TEXT = {
    "C04": {
        "text": "Theorem frame_wellformed: for every frame size <= 2063 and every sequence of push_pdu / push_pdu_slice_rest "
                "calls with any index values, the bytes given to the driver equal an independently written encoder applied to "
                "exactly the accepted datagrams (broadcast dst, MainDevice src, 0x88A4, exact length field, zero-padded data, "
                "zero irq/wkc, more-follows on all but the last); frame_fits, push_refused_iff, rest_reports, aprd/apwr negation. "
                "Unbounded in program length and contents; proved by an invariant over the push list. Tied to the code by "
                "regenerated constants/command codes and by diffing model vs real bytes for every frame size 28..1514.",
        "note": "Trusted: Lean kernel; hand translation of the push/flag-patch code (validated only on the generated cases); "
                "the EtherCrabWireWrite payload is modelled as its packed bytes; frame sizes above 2063 excluded by the property.",
        "technique": "Lean 4 proof (invariant by induction over push operations) + differential correspondence",
    },
}
