//! Shared machinery of the EEPROM properties C12/C13/C14.
//!
//! * `MemProvider`: in-memory `EepromDataProvider` (ideal byte memory initialised from an image and a fill
//!   rule, 4 or 8 bytes per `read_chunk`, `write_word` log, provider-call counter with a hard cap).
//! * `run_line`: the implementation side of the line protocol of `lean/EcModel/Drv/Eeprom.lean`: runs the REAL
//!   `EepromRange` / `SubDeviceEeprom` code through the `ethercrab::verif::eeprom` hooks, one `catch_unwind`
//!   per query, panics canonicalised to `<enclosing fn>:<kind>`.
//! * `DeviceDesc`: random device descriptions, their SII encoding (ETG2010 layout) and the values an
//!   independent reading of the layout expects the parsers to return (the monitors' oracle).
use crate::rng::Rng;
use crate::util::{hex, poll_once};
use ethercrab::error::{EepromError, Error, Item};
use ethercrab::verif::eeprom as hook;
use ethercrab::verif::eeprom::{EepromDataProvider, EepromRange};
use ethercrab_wire::WireError;
use std::cell::RefCell;
use std::collections::HashMap;
use std::future::Future;
use std::panic::{AssertUnwindSafe, catch_unwind};
use std::rc::Rc;
use std::task::Poll;

// ------------------------------------------------------------------------------------------------
// panics: captured location + message, canonicalised to `<fn>:<kind>`

thread_local! {
    static LAST_PANIC: RefCell<Option<(String, u32, String)>> = const { RefCell::new(None) };
    static SRC_CACHE: RefCell<HashMap<String, Option<Vec<String>>>> = RefCell::new(HashMap::new());
}

pub const STEP_CAP_MARKER: &str = "VERIF-STEP-CAP";

/// Install the capturing (silent) panic hook. Call once after `parse_args`.
pub fn install_panic_capture() {
    std::panic::set_hook(Box::new(|info| {
        let msg = if let Some(s) = info.payload().downcast_ref::<&str>() {
            s.to_string()
        } else if let Some(s) = info.payload().downcast_ref::<String>() {
            s.clone()
        } else {
            "?".to_string()
        };
        let (f, l) = info.location().map(|l| (l.file().to_string(), l.line())).unwrap_or(("?".into(), 0));
        LAST_PANIC.with(|p| *p.borrow_mut() = Some((f, l, msg)));
    }));
}

fn enclosing_fn(file: &str, line: u32) -> String {
    SRC_CACHE.with(|c| {
        let mut c = c.borrow_mut();
        let lines = c.entry(file.to_string()).or_insert_with(|| {
            let cands = [file.to_string(), format!("/repo/{file}")];
            cands.iter().find_map(|p| std::fs::read_to_string(p).ok()).map(|t| t.lines().map(|s| s.to_string()).collect())
        });
        let Some(lines) = lines else { return "?".to_string() };
        let mut i = (line as usize).min(lines.len());
        while i > 0 {
            i -= 1;
            let l = &lines[i];
            if let Some(p) = l.find("fn ") {
                let before_ok = p == 0 || !l.as_bytes()[p - 1].is_ascii_alphanumeric();
                if before_ok && !l.trim_start().starts_with("//") {
                    let name: String = l[p + 3..].chars().take_while(|c| c.is_alphanumeric() || *c == '_').collect();
                    if !name.is_empty() {
                        return name;
                    }
                }
            }
        }
        "?".to_string()
    })
}

/// The raw last captured panic (file, line, message), for diagnosing the harness itself.
pub fn take_last_panic() -> Option<(String, u32, String)> {
    LAST_PANIC.with(|p| p.borrow_mut().take())
}

/// `hang` for the step cap, else `!<fn>:<kind>`.
pub fn panic_token() -> String {
    let p = LAST_PANIC.with(|p| p.borrow_mut().take());
    let Some((file, line, msg)) = p else { return "!?:?".into() };
    if msg.contains(STEP_CAP_MARKER) {
        return "hang".into();
    }
    let kind = if msg.contains("add with overflow") {
        "add"
    } else if msg.contains("multiply with overflow") {
        "mul"
    } else if msg.contains("subtract with overflow") {
        "sub"
    } else if msg.contains("unwrap of") {
        "unwrap"
    } else if msg.contains("returned Ok(0)") {
        "zero"
    } else if msg.contains("out of range for slice") {
        "slice"
    } else {
        "other"
    };
    format!("!{}:{}", enclosing_fn(&file, line), kind)
}

/// The raw location of the last token (for the evidence notes).
pub fn is_checked_build() -> bool {
    let x: u16 = std::hint::black_box(65535);
    let prev = std::panic::take_hook();
    std::panic::set_hook(Box::new(|_| {}));
    let r = catch_unwind(|| std::hint::black_box(x + std::hint::black_box(1))).is_err();
    std::panic::set_hook(prev);
    r
}

/// Record a monitor failure, keeping at most three instances per key in the report (every instance is still
/// counted in the distribution under `FAIL <key>`).
pub fn fail(rep: &mut crate::util::Report, key: &str, what: &str, case: &str) {
    rep.hit(&format!("FAIL {key}"));
    if rep.monitor_failures.iter().filter(|f| f.0 == key).count() < 3 {
        rep.fail(key, what, case);
    }
}

// ------------------------------------------------------------------------------------------------
// in-memory provider

#[derive(Clone, Copy, PartialEq, Eq, Debug)]
pub enum Fill {
    Ff,
    Zero,
    Wrap,
}

impl Fill {
    pub fn token(self) -> &'static str {
        match self {
            Fill::Ff => "ff",
            Fill::Zero => "00",
            Fill::Wrap => "wrap",
        }
    }
    pub fn parse(s: &str) -> Fill {
        match s {
            "00" => Fill::Zero,
            "wrap" => Fill::Wrap,
            _ => Fill::Ff,
        }
    }
}

pub struct Shared {
    pub img: Vec<u8>,
    pub fill: Fill,
    /// writes on top of the image (ideal byte memory)
    pub overlay: HashMap<u32, u8>,
    pub calls: u64,
    pub cap: u64,
    pub log: Vec<(u16, [u8; 2])>,
}

impl Shared {
    pub fn byte(&self, a: u32) -> u8 {
        if let Some(b) = self.overlay.get(&a) {
            return *b;
        }
        match self.fill {
            Fill::Wrap => {
                if self.img.is_empty() {
                    0xff
                } else {
                    self.img[a as usize % self.img.len()]
                }
            }
            Fill::Ff => self.img.get(a as usize).copied().unwrap_or(0xff),
            Fill::Zero => self.img.get(a as usize).copied().unwrap_or(0),
        }
    }
    fn tick(&mut self) {
        self.calls += 1;
        if self.calls > self.cap {
            panic!("{}", STEP_CAP_MARKER);
        }
    }
}

#[derive(Clone)]
pub struct MemProvider {
    pub sh: Rc<RefCell<Shared>>,
    pub cs: usize,
}

/// Provider calls allowed per query: two category walks of at most 32768 + 8 iterations (the model's `catFuel`)
/// plus slack for the reads.
pub const STEP_CAP: u64 = 2 * (32768 + 8) + 200_000;

impl MemProvider {
    pub fn new(img: Vec<u8>, fill: Fill, cs: usize) -> Self {
        MemProvider {
            sh: Rc::new(RefCell::new(Shared { img, fill, overlay: HashMap::new(), calls: 0, cap: STEP_CAP, log: Vec::new() })),
            cs,
        }
    }
    pub fn byte(&self, a: u32) -> u8 {
        self.sh.borrow().byte(a)
    }
    pub fn bytes(&self, a: u32, n: usize) -> Vec<u8> {
        (0..n).map(|i| self.byte(a + i as u32)).collect()
    }
}

impl EepromDataProvider for MemProvider {
    async fn read_chunk(&mut self, start_word: u16) -> Result<impl core::ops::Deref<Target = [u8]>, Error> {
        let mut sh = self.sh.borrow_mut();
        sh.tick();
        let mut v = heapless::Vec::<u8, 16>::new();
        for i in 0..self.cs {
            let _ = v.push(sh.byte(2 * start_word as u32 + i as u32));
        }
        Ok(v)
    }

    async fn write_word(&mut self, start_word: u16, data: [u8; 2]) -> Result<(), Error> {
        let mut sh = self.sh.borrow_mut();
        sh.tick();
        sh.overlay.insert(2 * start_word as u32, data[0]);
        sh.overlay.insert(2 * start_word as u32 + 1, data[1]);
        sh.log.push((start_word, data));
        Ok(())
    }

    async fn clear_errors(&self) -> Result<(), Error> {
        self.sh.borrow_mut().tick();
        Ok(())
    }
}

/// Drive a future that never waits (the in-memory provider is always ready).
pub fn block_on<F: Future>(f: F) -> F::Output {
    let mut f = std::pin::pin!(f);
    for _ in 0..4 {
        if let Poll::Ready(v) = poll_once(f.as_mut()) {
            return v;
        }
    }
    panic!("in-memory EEPROM future stayed pending");
}

// ------------------------------------------------------------------------------------------------
// protocol: implementation side

pub fn err_token(e: &Error) -> String {
    match e {
        Error::Eeprom(EepromError::Decode) => "E:decode".into(),
        Error::Eeprom(EepromError::SectionOverrun) => "E:overrun".into(),
        Error::Eeprom(EepromError::NoCategory) => "E:nocat".into(),
        Error::Eeprom(EepromError::SectionUnderrun) => "E:underrun".into(),
        Error::Eeprom(EepromError::ClearErrors) => "E:clearerrors".into(),
        Error::Capacity(Item::SyncManager) => "E:cap.0".into(),
        Error::Capacity(Item::FmmuEx) => "E:cap.1".into(),
        Error::Capacity(Item::Pdo) => "E:cap.2".into(),
        Error::StringTooLong { max_length, string_length } => format!("E:toolong.{max_length}.{string_length}"),
        Error::Wire(WireError::InvalidValue) => "E:wire-invalid".into(),
        Error::Wire(WireError::ReadBufferTooShort) => "E:wire-short".into(),
        Error::Internal => "E:internal".into(),
        Error::Timeout(_) => "E:timeout".into(),
        _ => "E:other".into(),
    }
}

pub fn log_token(log: &[(u16, [u8; 2])]) -> String {
    if log.is_empty() {
        "-".into()
    } else {
        log.iter().map(|(w, d)| format!("{}.{}", w, hex(d))).collect::<Vec<_>>().join("+")
    }
}

fn dots<T: std::fmt::Display>(v: &[T]) -> String {
    v.iter().map(|x| x.to_string()).collect::<Vec<_>>().join(".")
}

fn str_token<const N: usize>(r: Result<Option<heapless::String<N>>, Error>) -> String {
    match r {
        Ok(None) => "none".into(),
        Ok(Some(s)) => format!("s.{}", hex(s.as_bytes())),
        Err(e) => err_token(&e),
    }
}

/// What one query did, for the monitors.
#[derive(Default, Clone, Debug)]
pub struct QueryResult {
    pub answer: String,
    /// answer without the `#calls` suffix
    pub body: String,
    pub calls: u64,
    pub log: Vec<(u16, [u8; 2])>,
}

/// Run `f` under `catch_unwind`; a panic yields its token.
fn guarded(prov: &MemProvider, f: impl FnOnce() -> String) -> String {
    match catch_unwind(AssertUnwindSafe(f)) {
        Ok(s) => s,
        Err(_) => {
            // a panic inside a provider call leaves the RefCell borrowed only during the call: fine
            let _ = prov;
            panic_token()
        }
    }
}

fn run_range(prov: &MemProvider, via_start_at: bool, a: u16, b: u16, ops: &str) -> String {
    let out: RefCell<Vec<String>> = RefCell::new(Vec::new());
    let dead = std::cell::Cell::new(false);
    let final_p: RefCell<Option<(u32, u32)>> = RefCell::new(None);
    let r = catch_unwind(AssertUnwindSafe(|| {
        let mut r: EepromRange<MemProvider> =
            if via_start_at { hook::Eeprom::new(prov.clone()).start_at(a, b) } else { hook::range_new(prov.clone(), a, b) };
        out.borrow_mut().push(String::new()); // marker: construction succeeded
        for op in ops.split(',') {
            let (k, arg) = op.split_at(1);
            let tok = match k {
                "r" => {
                    let mut buf = vec![0u8; arg.parse().unwrap()];
                    match block_on(hook::range_read(&mut r, &mut buf)) {
                        Ok(n) => format!("r={}", hex(&buf[..n.min(buf.len())])) + if n > buf.len() { "+OVER" } else { "" },
                        Err(e) => {
                            dead.set(true);
                            format!("r={}", err_token(&e))
                        }
                    }
                }
                "x" => {
                    let mut buf = vec![0u8; arg.parse().unwrap()];
                    match block_on(hook::range_read_exact(&mut r, &mut buf)) {
                        Ok(()) => format!("x={}", hex(&buf)),
                        Err(None) => {
                            dead.set(true);
                            "x=eof".into()
                        }
                        Err(Some(e)) => {
                            dead.set(true);
                            format!("x={}", err_token(&e))
                        }
                    }
                }
                "b" => match block_on(hook::range_read_byte(&mut r)) {
                    Ok(v) => format!("b={}", hex(&[v])),
                    Err(e) => {
                        dead.set(true);
                        format!("b={}", err_token(&e))
                    }
                },
                "s" => match hook::range_skip(&mut r, arg.parse().unwrap()) {
                    Ok(()) => "s=ok".into(),
                    Err(e) => format!("s={}", err_token(&Error::Eeprom(e))),
                },
                "w" => match block_on(hook::range_write(&mut r, &crate::util::unhex(arg))) {
                    Ok(n) => format!("w={n}"),
                    Err(e) => {
                        dead.set(true);
                        format!("w={}", err_token(&e))
                    }
                },
                "a" => match block_on(hook::range_write_all(&mut r, &crate::util::unhex(arg))) {
                    Ok(()) => "a=ok".into(),
                    Err(e) => {
                        dead.set(true);
                        format!("a={}", err_token(&e))
                    }
                },
                "p" => {
                    let (p, e) = hook::range_pos_end(&r);
                    format!("p={p}.{e}")
                }
                _ => "bad-op".into(),
            };
            out.borrow_mut().push(tok);
            if dead.get() {
                break;
            }
        }
        if !dead.get() {
            *final_p.borrow_mut() = Some(hook::range_pos_end(&r));
        }
    }));
    let mut out = out.into_inner();
    if out.is_empty() {
        // construction panicked
        return panic_token();
    }
    out.remove(0);
    if r.is_err() {
        out.push(panic_token());
    } else if let Some((p, e)) = *final_p.borrow() {
        out.push(format!("p={p}.{e}"));
    }
    let log = log_token(&prov.sh.borrow().log);
    format!("{}|W{}", out.join(","), log)
}

macro_rules! with_n {
    ($n:expr, $m:ident, $($args:tt)*) => {
        match $n {
            4 => $m::<4>($($args)*),
            16 => $m::<16>($($args)*),
            64 => $m::<64>($($args)*),
            128 => $m::<128>($($args)*),
            _ => $m::<255>($($args)*),
        }
    };
}

/// Supported `N` of the string queries.
pub const STRING_NS: [usize; 5] = [4, 16, 64, 128, 255];

fn q_str<const N: usize>(e: &hook::Eeprom<MemProvider>, idx: u8) -> String {
    str_token(block_on(e.find_string::<N>(idx)))
}
fn q_name<const N: usize>(e: &hook::Eeprom<MemProvider>) -> String {
    str_token(block_on(e.device_name::<N>()))
}
fn q_desc<const N: usize>(e: &hook::Eeprom<MemProvider>) -> String {
    str_token(block_on(e.device_description::<N>()))
}

/// Run one query on the device; resets the call counter and the write log first.
pub fn run_query(prov: &MemProvider, q: &str) -> QueryResult {
    {
        let mut sh = prov.sh.borrow_mut();
        sh.calls = 0;
        sh.log.clear();
    }
    let f: Vec<&str> = q.split(':').collect();
    let e = hook::Eeprom::new(prov.clone());
    let num = |s: &str| s.parse::<u64>().unwrap();
    let body = match f[0] {
        "rg" => guarded(prov, || run_range(prov, false, num(f[1]) as u16, num(f[2]) as u16, f[3])),
        "sa" => guarded(prov, || run_range(prov, true, num(f[1]) as u16, num(f[2]) as u16, f[3])),
        "cat" => guarded(prov, || match block_on(e.category(num(f[1]) as u16)) {
            Ok(None) => "none".into(),
            Ok(Some(r)) => {
                let (p, en) = hook::range_pos_end(&r);
                format!("some.{p}.{en}")
            }
            Err(er) => err_token(&er),
        }),
        "alias" => guarded(prov, || match block_on(e.station_alias()) {
            Ok(v) => format!("v.{v}"),
            Err(er) => err_token(&er),
        }),
        "setalias" => guarded(prov, || match block_on(e.set_station_alias(num(f[1]) as u16)) {
            Ok(()) => format!("ok|W{}", log_token(&prov.sh.borrow().log)),
            Err(er) => err_token(&er),
        }),
        "size" => guarded(prov, || match block_on(e.size()) {
            Ok(v) => format!("v.{v}"),
            Err(er) => err_token(&er),
        }),
        "id" => guarded(prov, || match block_on(e.identity()) {
            Ok(i) => format!("v.{}", dots(&[i.vendor_id, i.product_id, i.revision, i.serial])),
            Err(er) => err_token(&er),
        }),
        "mbox" => guarded(prov, || match block_on(e.mailbox_config()) {
            Ok(m) => format!(
                "v.{}",
                dots(&[m.receive_offset as u32, m.receive_size as u32, m.send_offset as u32, m.send_size as u32, m.protocols as u32, m.has_mailbox as u32])
            ),
            Err(er) => err_token(&er),
        }),
        "gen" => guarded(prov, || match block_on(e.general()) {
            Ok(g) => format!(
                "v.{}",
                dots(&[
                    g.group_string_idx as u32,
                    g.image_string_idx as u32,
                    g.order_string_idx as u32,
                    g.name_string_idx as u32,
                    g.coe_details as u32,
                    g.foe_enabled as u32,
                    g.eoe_enabled as u32,
                    g.flags as u32,
                    g.ebus_current as u16 as u32,
                    g.ports[0] as u32,
                    g.ports[1] as u32,
                    g.ports[2] as u32,
                    g.ports[3] as u32,
                    g.physical_memory_addr as u32,
                ])
            ),
            Err(er) => err_token(&er),
        }),
        "sms" => guarded(prov, || match block_on(e.sync_managers()) {
            Ok(l) => format!(
                "v.{}",
                l.iter()
                    .map(|s| dots(&[s.start_addr as u32, s.length as u32, s.control as u32, s.enable as u32, s.usage_type as u32, s.usage_type_recovered as u32]))
                    .collect::<Vec<_>>()
                    .join("/")
            ),
            Err(er) => err_token(&er),
        }),
        "fmmus" => guarded(prov, || match block_on(e.fmmus()) {
            Ok(l) => format!("v.{}", dots(&l)),
            Err(er) => err_token(&er),
        }),
        "fmmuex" => guarded(prov, || match block_on(e.fmmu_mappings()) {
            Ok(l) => format!("v.{}", dots(&l)),
            Err(er) => err_token(&er),
        }),
        "pdos" => guarded(prov, || match block_on(e.pdos(f[1] == "t")) {
            Ok(l) => format!(
                "v.{}",
                l.iter().map(|p| dots(&[p.index as u32, p.num_entries as u32, p.sync_manager as u32, p.bit_len as u32])).collect::<Vec<_>>().join("/")
            ),
            Err(er) => err_token(&er),
        }),
        "str" => guarded(prov, || with_n!(num(f[1]), q_str, &e, num(f[2]) as u8)),
        "name" => guarded(prov, || with_n!(num(f[1]), q_name, &e)),
        "desc" => guarded(prov, || with_n!(num(f[1]), q_desc, &e)),
        _ => "bad-query".into(),
    };
    let sh = prov.sh.borrow();
    let answer = if body == "hang" { body.clone() } else { format!("{}#{}", body, sh.calls) };
    QueryResult { answer, body, calls: sh.calls, log: sh.log.clone() }
}

/// One case of the protocol.
#[derive(Clone, Debug)]
pub struct Case {
    pub key: String,
    pub cs: usize,
    pub fill: Fill,
    pub img: Vec<u8>,
    pub queries: Vec<String>,
}

impl Case {
    pub fn to_line(&self, checked: bool) -> String {
        format!("{} {} {} {} {} {}", self.key, if checked { "c" } else { "w" }, self.cs, self.fill.token(), hex(&self.img), self.queries.join(";"))
    }
    pub fn parse(line: &str) -> Option<Case> {
        let t: Vec<&str> = line.split(' ').collect();
        if t.len() != 6 {
            return None;
        }
        Some(Case {
            key: t[0].to_string(),
            cs: t[2].parse().ok()?,
            fill: Fill::parse(t[3]),
            img: crate::util::unhex(t[4]),
            queries: t[5].split(';').map(|s| s.to_string()).collect(),
        })
    }
}

/// Run a whole case on the real code. Returns the provider (for memory inspection) and per-query results.
pub fn run_case(case: &Case) -> (MemProvider, Vec<QueryResult>) {
    let prov = MemProvider::new(case.img.clone(), case.fill, case.cs);
    let res = case.queries.iter().map(|q| run_query(&prov, q)).collect();
    (prov, res)
}

pub fn answer_line(res: &[QueryResult]) -> String {
    res.iter().map(|r| r.answer.clone()).collect::<Vec<_>>().join(";")
}

// ------------------------------------------------------------------------------------------------
// independent CRC-8 (poly 0x07, init 0xFF, MSB first) — the monitor's own, polynomial-division style

/// Remainder of (message · x^8, with the first byte xored by `init`) divided by x^8 + x^2 + x + 1, computed on a
/// bit vector by long division (deliberately NOT the shift-register formulation used by the code).
pub fn crc8_division(bytes: &[u8], init: u8) -> u8 {
    let mut bits: Vec<u8> = Vec::with_capacity(bytes.len() * 8 + 8);
    for (i, b) in bytes.iter().enumerate() {
        let b = if i == 0 { b ^ init } else { *b };
        for k in (0..8).rev() {
            bits.push((b >> k) & 1);
        }
    }
    if bytes.is_empty() {
        return init;
    }
    bits.extend([0u8; 8]);
    // generator 1_0000_0111
    let g = [1u8, 0, 0, 0, 0, 0, 1, 1, 1];
    for i in 0..bits.len() - 8 {
        if bits[i] == 1 {
            for (k, gb) in g.iter().enumerate() {
                bits[i + k] ^= gb;
            }
        }
    }
    bits[bits.len() - 8..].iter().fold(0u8, |a, b| (a << 1) | b)
}

// ------------------------------------------------------------------------------------------------
// device descriptions and their SII encoding

#[derive(Clone, Debug)]
pub struct SmDesc {
    pub start: u16,
    pub len: u16,
    pub control: u8,
    pub enable: u8,
    pub usage: u8,
}

#[derive(Clone, Debug)]
pub struct PdoDesc {
    pub index: u16,
    pub sm: u8,
    pub dc_sync: u8,
    pub name_idx: u8,
    pub flags: u16,
    /// (index, sub index, name idx, data type, bit length, flags)
    pub entries: Vec<(u16, u8, u8, u8, u8, u16)>,
}

#[derive(Clone, Debug)]
pub struct GeneralDesc {
    pub group_idx: u8,
    pub image_idx: u8,
    pub order_idx: u8,
    pub name_idx: u8,
    pub coe_details: u8,
    pub foe: u8,
    pub eoe: u8,
    pub flags: u8,
    pub ebus_current: u16,
    pub ports: [u8; 4],
    pub phys_addr: u16,
    pub reserved: [u8; 5],
    /// ETG2010 General is 32 bytes; ethercrab reads the first 18
    pub tail: Vec<u8>,
}

#[derive(Clone, Debug)]
pub enum CatDesc {
    Strings(Vec<Vec<u8>>),
    General(GeneralDesc),
    Fmmu(Vec<u8>),
    Sm(Vec<SmDesc>),
    FmmuEx(Vec<[u8; 3]>),
    TxPdo(Vec<PdoDesc>),
    RxPdo(Vec<PdoDesc>),
    /// raw type, body (padded to even length by the encoder)
    Unknown(u16, Vec<u8>),
}

#[derive(Clone, Debug)]
pub struct DeviceDesc {
    pub header: Vec<u8>, // 128 bytes
    pub cats: Vec<CatDesc>,
    pub pad: u8,
    /// emit the End marker (0xffff)
    pub end_marker: bool,
}

fn pdo_body(pdos: &[PdoDesc]) -> Vec<u8> {
    let mut b = Vec::new();
    for p in pdos {
        b.extend(p.index.to_le_bytes());
        b.push(p.entries.len() as u8);
        b.push(p.sm);
        b.push(p.dc_sync);
        b.push(p.name_idx);
        b.extend(p.flags.to_le_bytes());
        for e in &p.entries {
            b.extend(e.0.to_le_bytes());
            b.push(e.1);
            b.push(e.2);
            b.push(e.3);
            b.push(e.4);
            b.extend(e.5.to_le_bytes());
        }
    }
    b
}

impl CatDesc {
    pub fn type_code(&self) -> u16 {
        match self {
            CatDesc::Strings(_) => 10,
            CatDesc::General(_) => 30,
            CatDesc::Fmmu(_) => 40,
            CatDesc::Sm(_) => 41,
            CatDesc::FmmuEx(_) => 42,
            CatDesc::TxPdo(_) => 50,
            CatDesc::RxPdo(_) => 51,
            CatDesc::Unknown(t, _) => *t,
        }
    }
    pub fn body(&self) -> Vec<u8> {
        match self {
            CatDesc::Strings(ss) => {
                let mut b = vec![ss.len() as u8];
                for s in ss {
                    b.push(s.len() as u8);
                    b.extend(s);
                }
                b
            }
            CatDesc::General(g) => {
                let mut b = vec![g.group_idx, g.image_idx, g.order_idx, g.name_idx, g.reserved[0], g.coe_details, g.foe, g.eoe];
                b.extend(&g.reserved[1..4]);
                b.push(g.flags);
                b.extend(g.ebus_current.to_le_bytes());
                b.push(g.ports[0] | (g.ports[1] << 4));
                b.push(g.ports[2] | (g.ports[3] << 4));
                b.extend(g.phys_addr.to_le_bytes());
                b.extend(&g.tail);
                b
            }
            CatDesc::Fmmu(u) => u.clone(),
            CatDesc::Sm(sms) => {
                let mut b = Vec::new();
                for s in sms {
                    b.extend(s.start.to_le_bytes());
                    b.extend(s.len.to_le_bytes());
                    b.push(s.control);
                    b.push(0); // status, don't care
                    b.push(s.enable);
                    b.push(s.usage);
                }
                b
            }
            CatDesc::FmmuEx(v) => v.iter().flat_map(|x| x.iter().copied()).collect(),
            CatDesc::TxPdo(p) | CatDesc::RxPdo(p) => pdo_body(p),
            CatDesc::Unknown(_, b) => b.clone(),
        }
    }
}

impl DeviceDesc {
    /// SII image; also returns, per category, `(type, byte offset of its body, body length incl. padding)`.
    pub fn encode(&self) -> (Vec<u8>, Vec<(u16, usize, usize)>) {
        let mut img = self.header.clone();
        assert_eq!(img.len(), 128);
        let mut extents = Vec::new();
        for c in &self.cats {
            let mut body = c.body();
            if body.len() % 2 == 1 {
                body.push(self.pad);
            }
            img.extend(c.type_code().to_le_bytes());
            img.extend(((body.len() / 2) as u16).to_le_bytes());
            extents.push((c.type_code(), img.len(), body.len()));
            img.extend(body);
        }
        if self.end_marker {
            img.extend([0xff, 0xff]);
        }
        (img, extents)
    }
}

fn gen_string(rng: &mut Rng, maxlen: usize) -> Vec<u8> {
    let n = match rng.below(10) {
        0 => 0,
        1 => maxlen,
        2 => rng.range(0, maxlen as u64) as usize,
        _ => rng.range(1, 24.min(maxlen as u64).max(1)) as usize,
    };
    (0..n)
        .map(|_| match rng.below(12) {
            0 => 0u8,                          // NUL
            1 => rng.range(128, 255) as u8,    // non-ASCII
            2 => rng.byte(),
            _ => rng.range(32, 126) as u8,
        })
        .collect()
}

pub fn gen_sm(rng: &mut Rng) -> SmDesc {
    SmDesc {
        start: rng.edgy(0xffff) as u16,
        len: rng.edgy(0xffff) as u16,
        control: match rng.below(4) {
            0 => rng.byte(),
            _ => *rng.pick(&[0x26u8, 0x22, 0x24, 0x20, 0x64, 0x00, 0x06, 0x02]),
        },
        enable: rng.below(16) as u8,
        usage: rng.below(5) as u8,
    }
}

pub fn gen_pdo(rng: &mut Rng, max_entries: usize) -> PdoDesc {
    let n = match rng.below(8) {
        0 => 0,
        1 => max_entries,
        _ => rng.range(0, 6.min(max_entries as u64)) as usize,
    };
    PdoDesc {
        index: rng.edgy(0xffff) as u16,
        sm: rng.below(9) as u8,
        dc_sync: rng.byte(),
        name_idx: rng.byte(),
        flags: rng.next() as u16,
        entries: (0..n)
            .map(|_| {
                let bits = match rng.below(6) {
                    0 => 255,
                    1 => 0,
                    2 => 1,
                    _ => *rng.pick(&[8u8, 16, 32, 1, 2, 4, 64]),
                };
                (rng.next() as u16, rng.byte(), rng.byte(), rng.byte(), bits, rng.next() as u16)
            })
            .collect(),
    }
}

pub fn gen_general(rng: &mut Rng, nstrings: usize) -> GeneralDesc {
    let idx = |rng: &mut Rng| -> u8 {
        match rng.below(6) {
            0 => 0,
            1 => (nstrings + 1).min(255) as u8, // one past the table
            _ => rng.range(0, nstrings as u64) as u8,
        }
    };
    GeneralDesc {
        group_idx: idx(rng),
        image_idx: idx(rng),
        order_idx: idx(rng),
        name_idx: idx(rng),
        coe_details: rng.below(64) as u8,
        foe: *rng.pick(&[0u8, 1, 0xff]),
        eoe: *rng.pick(&[0u8, 1, 0xff]),
        flags: rng.below(32) as u8,
        ebus_current: rng.next() as u16,
        ports: [rng.below(16) as u8, rng.below(16) as u8, rng.below(16) as u8, rng.below(16) as u8],
        phys_addr: rng.next() as u16,
        reserved: [rng.byte(), rng.byte(), rng.byte(), rng.byte(), rng.byte()],
        tail: if rng.chance(3, 4) { rng.bytes(14) } else { vec![] },
    }
}

/// Knobs of the description generator.
pub struct GenOpts {
    pub max_strings: usize,
    pub max_string_len: usize,
    pub max_pdos: usize,
    pub max_entries: usize,
    pub max_unknown_body: usize,
}

impl GenOpts {
    pub fn small() -> Self {
        GenOpts { max_strings: 6, max_string_len: 20, max_pdos: 4, max_entries: 5, max_unknown_body: 12 }
    }
    pub fn full() -> Self {
        GenOpts { max_strings: 50, max_string_len: 255, max_pdos: 64, max_entries: 255, max_unknown_body: 600 }
    }
}

pub fn gen_header(rng: &mut Rng) -> Vec<u8> {
    let mut h = rng.bytes(128);
    // mailbox protocols (word 0x1c): only the low 6 bits are defined; mostly valid
    if rng.chance(9, 10) {
        h[56] &= 0x3f;
    }
    // size word (0x3e): 1 Kbit .. 4 Mbit => value 0 .. 4095
    let kbit_minus_1: u16 = match rng.below(8) {
        0 => 0,
        1 => 4095,
        2 => 510,
        3 => 511,
        _ => *rng.pick(&[0u16, 1, 3, 7, 15, 31, 63, 127, 255, 1023, 2047]),
    };
    h[124..126].copy_from_slice(&kbit_minus_1.to_le_bytes());
    h
}

pub fn gen_device(rng: &mut Rng, o: &GenOpts) -> DeviceDesc {
    let nstr = match rng.below(6) {
        0 => 0,
        1 => o.max_strings,
        _ => rng.range(0, 8.min(o.max_strings as u64)) as usize,
    };
    let strings: Vec<Vec<u8>> = (0..nstr).map(|_| gen_string(rng, o.max_string_len)).collect();
    let mut cats: Vec<CatDesc> = Vec::new();
    if rng.chance(5, 6) {
        cats.push(CatDesc::Strings(strings.clone()));
    }
    if rng.chance(5, 6) {
        cats.push(CatDesc::General(gen_general(rng, nstr)));
    }
    if rng.chance(4, 5) {
        let n = rng.edgy(16) as usize;
        cats.push(CatDesc::Fmmu((0..n).map(|_| *rng.pick(&[0u8, 1, 2, 3, 0xff])).collect()));
    }
    if rng.chance(4, 5) {
        let n = rng.edgy(8) as usize;
        cats.push(CatDesc::Sm((0..n).map(|_| gen_sm(rng)).collect()));
    }
    if rng.chance(1, 2) {
        let n = rng.edgy(16) as usize;
        cats.push(CatDesc::FmmuEx((0..n).map(|_| [rng.byte(), rng.below(9) as u8, rng.byte()]).collect()));
    }
    for tx in [true, false] {
        if rng.chance(3, 4) {
            let n = match rng.below(8) {
                0 => 0,
                1 => o.max_pdos,
                _ => rng.range(0, 4.min(o.max_pdos as u64)) as usize,
            };
            let p: Vec<PdoDesc> = (0..n).map(|_| gen_pdo(rng, o.max_entries)).collect();
            cats.push(if tx { CatDesc::TxPdo(p) } else { CatDesc::RxPdo(p) });
        }
    }
    // any order
    for i in (1..cats.len()).rev() {
        let j = rng.below(i as u64 + 1) as usize;
        cats.swap(i, j);
    }
    // unknown / vendor categories interleaved
    let nunk = rng.below(4) as usize;
    for _ in 0..nunk {
        let t = match rng.below(5) {
            0 => rng.range(1, 9) as u16,
            1 => *rng.pick(&[20u16, 43, 60, 0]),
            _ => rng.range(0x1000, 0xfffe) as u16,
        };
        let n = rng.edgy(o.max_unknown_body as u64) as usize;
        let at = rng.below(cats.len() as u64 + 1) as usize;
        cats.insert(at, CatDesc::Unknown(t, rng.bytes(n)));
    }
    DeviceDesc { header: gen_header(rng), cats, pad: *rng.pick(&[0u8, 0xff, 0x00]), end_marker: rng.chance(9, 10) }
}

/// What an independent reading of ETG2010 expects the queries to return for a description (answers in the
/// protocol's syntax, without the `#calls` suffix). `None` = no expectation (e.g. invalid field on purpose).
pub struct Oracle<'a> {
    pub d: &'a DeviceDesc,
}

fn clean(s: &[u8]) -> Vec<u8> {
    s.iter().filter(|c| **c != 0).map(|c| if *c < 128 { *c } else { b'?' }).collect()
}

impl<'a> Oracle<'a> {
    fn first<T>(&self, f: impl Fn(&'a CatDesc) -> Option<T>) -> Option<T> {
        self.d.cats.iter().find_map(f)
    }
    fn padded_odd(&self, body_len: usize) -> bool {
        body_len % 2 == 1
    }
    pub fn identity(&self) -> String {
        let h = &self.d.header;
        let u = |o: usize| u32::from_le_bytes([h[o], h[o + 1], h[o + 2], h[o + 3]]);
        format!("v.{}.{}.{}.{}", u(16), u(20), u(24), u(28))
    }
    pub fn alias(&self) -> String {
        format!("v.{}", u16::from_le_bytes([self.d.header[8], self.d.header[9]]))
    }
    pub fn size(&self) -> String {
        let w = u16::from_le_bytes([self.d.header[124], self.d.header[125]]) as u64;
        format!("v.{}", (w + 1) * 128)
    }
    pub fn mailbox(&self) -> Option<String> {
        let h = &self.d.header;
        let w = |o: usize| u16::from_le_bytes([h[o], h[o + 1]]) as u32;
        let pr = h[56];
        if pr & !0x3f != 0 {
            return None;
        }
        let has = (pr != 0 && w(50) > 0) || w(54) > 0;
        Some(format!("v.{}.{}.{}.{}.{}.{}", w(48), w(50), w(52), w(54), pr, has as u32))
    }
    pub fn strings(&self) -> Option<&'a Vec<Vec<u8>>> {
        self.first(|c| if let CatDesc::Strings(s) = c { Some(s) } else { None })
    }
    /// `find_string::<N>(idx)`
    pub fn string(&self, n: usize, idx: u8) -> String {
        if idx == 0 {
            return "none".into();
        }
        match self.strings() {
            None => "none".into(),
            Some(ss) => match ss.get(idx as usize - 1) {
                None => "none".into(),
                Some(s) if s.len() > n => format!("E:toolong.{}.{}", n, s.len()),
                Some(s) => format!("s.{}", hex(&clean(s))),
            },
        }
    }
    pub fn general(&self) -> Option<&'a GeneralDesc> {
        self.first(|c| if let CatDesc::General(g) = c { Some(g) } else { None })
    }
    pub fn general_answer(&self) -> String {
        match self.general() {
            None => "E:nocat".into(),
            Some(g) => {
                let port = |p: u8| if p <= 4 { p as u32 } else { 0 };
                format!(
                    "v.{}",
                    dots(&[
                        g.group_idx as u32,
                        g.image_idx as u32,
                        g.order_idx as u32,
                        g.name_idx as u32,
                        g.coe_details as u32,
                        (g.foe > 0) as u32,
                        (g.eoe > 0) as u32,
                        g.flags as u32,
                        g.ebus_current as u32,
                        port(g.ports[0]),
                        port(g.ports[1]),
                        port(g.ports[2]),
                        port(g.ports[3]),
                        g.phys_addr as u32,
                    ])
                )
            }
        }
    }
    pub fn name(&self, n: usize) -> String {
        match self.general() {
            None => "none".into(),
            Some(g) => self.string(n, g.order_idx),
        }
    }
    pub fn desc(&self, n: usize) -> String {
        match self.general() {
            None => "E:nocat".into(),
            Some(g) => self.string(n, g.name_idx),
        }
    }
    pub fn sms(&self) -> String {
        let sms = self.first(|c| if let CatDesc::Sm(s) = c { Some(s) } else { None });
        let Some(sms) = sms else { return "v.".into() };
        let items: Vec<String> = sms
            .iter()
            .map(|s| {
                // Control as ethercrab stores it: mode 2 = mailbox else normal(0); direction 1 = write else read; bits 4..6
                let mode = if s.control & 3 == 2 { 2u32 } else { 0 };
                let dir = if (s.control >> 2) & 3 == 1 { 1u32 } else { 0 };
                let ctl = mode | (dir << 2) | (s.control as u32 & 0x70);
                let rec = if s.usage != 0 {
                    s.usage as u32
                } else {
                    match (mode, dir) {
                        (0, 0) => 4,
                        (0, _) => 3,
                        (_, 0) => 2,
                        _ => 1,
                    }
                };
                dots(&[s.start as u32, s.len as u32, ctl, s.enable as u32, s.usage as u32, rec])
            })
            .collect();
        format!("v.{}", items.join("/"))
    }
    pub fn fmmus(&self) -> String {
        let f = self.first(|c| if let CatDesc::Fmmu(s) = c { Some(s) } else { None });
        let Some(f) = f else { return "v.".into() };
        let mut v: Vec<u32> = f.iter().map(|u| if *u == 0xff { 0 } else { *u as u32 }).collect();
        if self.padded_odd(f.len()) {
            // the pad byte of an odd-length category is inside the category's word length; 0x00/0xff both mean unused
            v.push(0);
        }
        v.truncate(16);
        format!("v.{}", dots(&v))
    }
    pub fn fmmuex(&self) -> String {
        let f = self.first(|c| if let CatDesc::FmmuEx(s) = c { Some(s) } else { None });
        let Some(f) = f else { return "v.".into() };
        format!("v.{}", dots(&f.iter().map(|x| x[1] as u32).collect::<Vec<_>>()))
    }
    pub fn pdos(&self, tx: bool) -> String {
        let p = self.first(|c| match (c, tx) {
            (CatDesc::TxPdo(p), true) | (CatDesc::RxPdo(p), false) => Some(p),
            _ => None,
        });
        let Some(p) = p else { return "v.".into() };
        if p.len() > 64 {
            // more PDOs than ethercrab's `heapless::Vec<Pdo, 64>` holds: refused, never truncated
            return "E:cap.2".into();
        }
        let items: Vec<String> = p
            .iter()
            .map(|p| {
                let bits: u32 = p.entries.iter().map(|e| e.4 as u32).sum();
                dots(&[p.index as u32, p.entries.len() as u32, p.sm as u32, bits])
            })
            .collect();
        format!("v.{}", items.join("/"))
    }
}
