/-
  `bufAccess` (Lemmas/MicroInvMain.lean) is complete for WRITES: a micro-step changes the buffer of no
  slot other than the one `bufAccess` names. Together with `MInv.buffer_access_by_insider` this says:
  a slot's buffer changes only by a step of a thread that is inside that slot.
  (Reads cannot be characterised extensionally; the read accesses are `tsRead`, `fpRead`, `itNext`,
  `itRead`, `vrRead`, by inspection of `Micro.stepThread`.)
-/
import EcModel.Lemmas.MicroInvMain

namespace Ec.Micro
open Ec

theorem begin_sys (s : Sys) (t : Thread) : (begin s t).1 = s := by
  unfold begin
  repeat' (first | rfl | split | dsimp only)

theorem buf_setSlot (s : Sys) (k k₀ : Nat) (y : Slot) (hy : k = k₀ → y.buf = (s.slot k₀).buf) :
    ((s.setSlot k₀ y).slot k).buf = (s.slot k).buf := by
  rw [slot_setSlot]
  split
  · next h => rw [h.1]; exact hy h.1
  · rfl

/-- **A step writes no buffer other than the one `bufAccess` names.** -/
theorem buf_unchanged_unless_access (s : Sys) (t : Thread) (k : Nat) (hb : bufAccess t ≠ some k) :
    ((stepThread s t).1.slot k).buf = (s.slot k).buf := by
  obtain ⟨prog, pc, regs, outs⟩ := t
  cases pc <;> simp only [stepThread]
  case idle => rw [begin_sys]
  case alBuf r k' =>
    exact buf_setSlot _ _ _ _ (fun h => absurd (by rw [h]; rfl) hb)
  case puPatch r out loc =>
    exact buf_setSlot _ _ _ _ (fun h => absurd (by rw [h]; rfl) hb)
  case mkHdr r a b =>
    exact buf_setSlot _ _ _ _ (fun h => absurd (by rw [h]; rfl) hb)
  case rxCopy k' p =>
    split
    · rfl
    · exact buf_setSlot _ _ _ _ (fun h => absurd (by rw [h]; rfl) hb)
  case puWrite r c data lenOv rest idx =>
    split
    · next reg k' count last e =>
      have hne : k ≠ k' := by
        intro h; apply hb; simp only [bufAccess, e, h]
      repeat' split
      all_goals first
        | rfl
        | exact buf_setSlot _ _ _ _ (fun h => absurd h hne)
    · rfl
  all_goals (repeat' split)
  all_goals first
    | rfl
    | exact buf_setSlot _ _ _ _ (fun _ => rfl)

end Ec.Micro
