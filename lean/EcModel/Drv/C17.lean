/- Line protocol for C17 (placeholder until the model is in place). -/
import EcModel.Drv.Util
namespace Ec.Drv.C17
def handle (_args : List String) : String := "bad-case"
end Ec.Drv.C17
