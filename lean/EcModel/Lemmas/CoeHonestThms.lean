/-
  C15 helper lemmas: the client against the specification server, assembled.
-/
import EcModel.Lemmas.CoeArray
import EcModel.Lemmas.CoeCounter

namespace Ec.Coe
open Ec Ec.Gen.Coe Ec.CoeSrv

/-- The server's reply is not expedited. -/
def NotExpedited (srv : Server) (obj : List Nat) : Prop := ¬ (srv.mode = .auto ∧ 1 ≤ obj.length ∧ obj.length ≤ 4)

/-- `sdo_read` against the specification server answering expedited or normal. -/
theorem sdoRead_server_exact (srv : Server) (cfg : Cfg) (fuel bufLen index ctr : Nat) (access : SubIndex)
    (stale : List (List Nat)) (obj : List Nat) (hm : cfg.hasMailbox = true) (hst : stale.length ≤ 10)
    (hrm : cfg.rmbx = srv.rmbx) (h16 : 16 ≤ cfg.rmbx) (hr : cfg.rmbx < 65536) (hw : 12 ≤ cfg.wmbx) (hi : index < 65536)
    (hs : access.subIndex < 256) (he : srv.emergencies = [])
    (hobj : srv.objectBytes index access.subIndex access.completeAccess = .ok obj)
    (hmode : (srv.mode = .auto ∧ 1 ≤ obj.length ∧ obj.length ≤ 4) ∨
      ((srv.mode = .normal ∨ (srv.mode = .auto ∧ (obj.length = 0 ∨ 4 < obj.length))) ∧ obj.length + 16 ≤ cfg.rmbx ∧
        obj.length ≤ bufLen ∧ bufLen < 4294967296)) :
    (sdoRead serverWorld cfg fuel bufLen index access (St.init ctr srv stale)).1 = .ok obj := by
  have hq : (St.init ctr srv stale).outq.length ≤ DRAIN_ROUNDS := hst
  rcases hmode with ⟨hma, h1, h4⟩ | ⟨hmn, hfit, hbuf, hb32⟩
  · have hresp : serverWorld.respond (St.init ctr srv stale).dev (image cfg.wmbx (uploadRequest ctr index access)) =
        ({ srv with counter := nextCtr srv.counter, seg := none },
          [expeditedResponse (nextCtr srv.counter) index access.subIndex access.completeAccess obj]) := by
      show serve srv _ = _
      rw [serve_upload srv _ _ _ access hw hi hs he, upload_expedited srv _ _ _ _ obj hobj hma h1 h4]
    rw [sdoRead_expedited_reply serverWorld cfg fuel bufLen index access _ _ _ obj hm hq h16 hi h1 h4 hresp]
  · have hresp : serverWorld.respond (St.init ctr srv stale).dev (image cfg.wmbx (uploadRequest ctr index access)) =
        ({ srv with counter := nextCtr srv.counter, seg := none },
          [normalResponse (nextCtr srv.counter) index access.subIndex access.completeAccess obj.length obj]) := by
      show serve srv _ = _
      rw [serve_upload srv _ _ _ access hw hi hs he, upload_normal srv _ _ _ _ obj hobj hmn (by rw [← hrm]; exact hfit)]
    rw [sdoRead_normal_reply serverWorld cfg fuel bufLen index access _ _ _ obj hm hq hfit hr hi hbuf hb32 hresp]

/-- An object that does not fit the destination, answered normal or segmented: `TooLong { address, sub_index }`. -/
theorem sdoRead_server_too_long (srv : Server) (cfg : Cfg) (fuel bufLen index ctr : Nat) (access : SubIndex)
    (stale : List (List Nat)) (obj : List Nat) (hm : cfg.hasMailbox = true) (hst : stale.length ≤ 10)
    (hrm : cfg.rmbx = srv.rmbx) (h16 : 16 ≤ cfg.rmbx) (hr : cfg.rmbx < 65536) (hw : 12 ≤ cfg.wmbx) (hi : index < 65536)
    (hs : access.subIndex < 256) (he : srv.emergencies = [])
    (hobj : srv.objectBytes index access.subIndex access.completeAccess = .ok obj) (hne : NotExpedited srv obj)
    (hbig : bufLen < obj.length) (h32 : obj.length < 4294967296) :
    (sdoRead serverWorld cfg fuel bufLen index access (St.init ctr srv stale)).1 =
      .err (.tooLong index access.subIndex) := by
  have hq : (St.init ctr srv stale).outq.length ≤ DRAIN_ROUNDS := hst
  obtain ⟨first, seg, hfirst, hup⟩ := upload_initiate srv (nextCtr srv.counter) index access.subIndex
    access.completeAccess obj hobj hne
  have hresp : serverWorld.respond (St.init ctr srv stale).dev (image cfg.wmbx (uploadRequest ctr index access)) =
      ({ srv with counter := nextCtr srv.counter, seg := seg },
        [normalResponse (nextCtr srv.counter) index access.subIndex access.completeAccess obj.length (obj.take first)]) := by
    show serve srv _ = _
    rw [serve_upload srv _ _ _ access hw hi hs he, hup]
  have hfit : (obj.take first).length + 16 ≤ cfg.rmbx := by
    have : (obj.take first).length ≤ first := by simp [List.length_take]; omega
    unfold Server.normalRoom at hfirst
    omega
  rw [sdoRead_too_long_reply serverWorld cfg fuel bufLen index access _ _ _ obj.length (obj.take first) hm hq hfit hr hi
    hbig h32 hresp]

/-- Abort SDO Transfer in answer to an upload request. -/
theorem sdoRead_abort_reply {σ : Type} (w : World σ) (cfg : Cfg) (fuel bufLen index : Nat) (access : SubIndex)
    (s : St σ) (d' : σ) (c aIndex aSub code : Nat) (hm : cfg.hasMailbox = true) (hq : s.outq.length ≤ DRAIN_ROUNDS)
    (hr : 16 ≤ cfg.rmbx) (hi : aIndex < 65536) (hc : code < 4294967296)
    (hresp : w.respond s.dev (image cfg.wmbx (uploadRequest s.ctr index access)) = (d', [abortMessage c aIndex aSub code])) :
    (sdoRead w cfg fuel bufLen index access s).1 = .err (.aborted code aIndex aSub) := by
  unfold sdoRead
  dsimp only [mailboxCounter]
  rw [mwr_single w cfg _ _ _ { ctr := nextCounter s.ctr, dev := s.dev, outq := s.outq, reqs := s.reqs, reads := s.reads }
    d' _ hm hq hresp, triage_abort cfg _ _ c aIndex aSub code hi hc hr]

/-- Abort SDO Transfer in answer to a download request. -/
theorem sdoWrite_abort_reply {σ : Type} (w : World σ) (cfg : Cfg) (index : Nat) (access : SubIndex) (value : List Nat)
    (s : St σ) (d' : σ) (c aIndex aSub code : Nat) (hm : cfg.hasMailbox = true) (hq : s.outq.length ≤ DRAIN_ROUNDS)
    (hr : 16 ≤ cfg.rmbx) (hi : aIndex < 65536) (hc : code < 4294967296) (h4 : value.length ≤ 4)
    (hresp : w.respond s.dev (image cfg.wmbx
      (downloadRequest s.ctr index access (value ++ zeros (4 - value.length)) value.length)) =
        (d', [abortMessage c aIndex aSub code])) :
    (sdoWrite w cfg index access value s).1 = .err (.aborted code aIndex aSub) := by
  unfold sdoWrite
  dsimp only [mailboxCounter]
  rw [if_neg (by simp [WRITE_MAX]; omega)]
  rw [mwr_single w cfg _ _ _ { ctr := nextCounter s.ctr, dev := s.dev, outq := s.outq, reqs := s.reqs, reads := s.reads }
    d' _ hm hq hresp, triage_abort cfg _ _ c aIndex aSub code hi hc hr]

/-- A response for another object in answer to an upload request. -/
theorem sdoRead_foreign_reply {σ : Type} (w : World σ) (cfg : Cfg) (fuel bufLen index : Nat) (access : SubIndex)
    (s : St σ) (d' : σ) (c rIndex rSub : Nat) (complete : Bool) (obj : List Nat) (hm : cfg.hasMailbox = true)
    (hq : s.outq.length ≤ DRAIN_ROUNDS) (hr : 16 ≤ cfg.rmbx) (hi : rIndex < 65536) (h1 : 1 ≤ obj.length)
    (h4 : obj.length ≤ 4) (hne : ¬ (rIndex = index ∧ rSub = access.subIndex))
    (hresp : w.respond s.dev (image cfg.wmbx (uploadRequest s.ctr index access)) =
      (d', [expeditedResponse c rIndex rSub complete obj])) :
    (sdoRead w cfg fuel bufLen index access s).1 = .err (.responseInvalid rIndex rSub) := by
  unfold sdoRead
  dsimp only [mailboxCounter]
  rw [mwr_single w cfg _ _ _ { ctr := nextCounter s.ctr, dev := s.dev, outq := s.outq, reqs := s.reqs, reads := s.reads }
    d' _ hm hq hresp, triage_foreign_expedited cfg c rIndex rSub index access.subIndex complete obj h1 h4 hi hr hne]

/-! ### Emergencies -/

/-- A pending emergency message is the first thing the server puts into its OUT mailbox when the next SDO request
    arrives. -/
theorem serve_emergency_head (srv : Server) (req : List Nat) (code reg : Nat) (data : List Nat)
    (es : List (Nat × Nat × List Nat)) (hl : ¬ req.length < 12)
    (hreq : (req.getD 5 0 % 16 != 3 || req.getD 7 0 / 16 != 2) = false)
    (he : srv.emergencies = (code, reg, data) :: es) :
    ∃ d' rest, serve srv req = (d', emergencyMessage (nextCtr srv.counter) code reg data :: rest) := by
  unfold serve
  rw [if_neg hl, hreq]
  simp only [Bool.false_eq_true, if_false, he, emitEmergencies, List.cons_append]
  exact ⟨_, _, rfl⟩

theorem upload_request_wellformed (wmbx ctr index : Nat) (access : SubIndex) (hw : 12 ≤ wmbx) :
    ¬ (image wmbx (uploadRequest ctr index access)).length < 12 ∧
    (((image wmbx (uploadRequest ctr index access)).getD 5 0 % 16 != 3 ||
      (image wmbx (uploadRequest ctr index access)).getD 7 0 / 16 != 2) = false) := by
  rw [uploadRequest_image _ _ _ _ hw]
  refine ⟨by simp, ?_⟩
  have : (3 + 16 * (ctr % 8)) % 16 = 3 := by omega
  simp [this]

theorem download_request_wellformed (wmbx ctr index : Nat) (access : SubIndex) (value : List Nat) (hw : 16 ≤ wmbx)
    (h4 : value.length ≤ 4) :
    ¬ (image wmbx (downloadRequest ctr index access (value ++ zeros (4 - value.length)) value.length)).length < 12 ∧
    (((image wmbx (downloadRequest ctr index access (value ++ zeros (4 - value.length)) value.length)).getD 5 0 % 16 != 3 ||
      (image wmbx (downloadRequest ctr index access (value ++ zeros (4 - value.length)) value.length)).getD 7 0 / 16 != 2) =
        false) := by
  rw [downloadRequest_image _ _ _ _ _ hw h4]
  refine ⟨by simp, ?_⟩
  have : (3 + 16 * (ctr % 8)) % 16 = 3 := by omega
  simp [this]

/-- `sdo_read` while the device has an emergency message pending: `MailboxError::Emergency` with its code and register. -/
theorem sdoRead_server_emergency (srv : Server) (cfg : Cfg) (fuel bufLen index ctr code reg : Nat) (access : SubIndex)
    (data : List Nat) (es : List (Nat × Nat × List Nat)) (stale : List (List Nat)) (hm : cfg.hasMailbox = true)
    (hst : stale.length ≤ 10) (h16 : 16 ≤ cfg.rmbx) (hw : 12 ≤ cfg.wmbx) (hc : code < 65536) (hreg : reg < 256)
    (he : srv.emergencies = (code, reg, data) :: es) :
    (sdoRead serverWorld cfg fuel bufLen index access (St.init ctr srv stale)).1 = .err (.emergency code reg) := by
  obtain ⟨hl, hreq⟩ := upload_request_wellformed cfg.wmbx ctr index access hw
  obtain ⟨d', rest, hs⟩ := serve_emergency_head srv _ code reg data es hl hreq he
  have hq : (St.init ctr srv stale).outq.length ≤ DRAIN_ROUNDS := hst
  have hs' : serverWorld.respond (St.init ctr srv stale).dev
      (image cfg.wmbx (uploadRequest (St.init ctr srv stale).ctr index access)) = (d', _ :: rest) := hs
  unfold sdoRead
  dsimp only [mailboxCounter]
  rw [mwr_head serverWorld cfg _ _ _
    { ctr := nextCounter (St.init ctr srv stale).ctr, dev := (St.init ctr srv stale).dev, outq := (St.init ctr srv stale).outq,
      reqs := (St.init ctr srv stale).reqs, reads := (St.init ctr srv stale).reads } d' _ rest hm hq hs',
    triage_emergency cfg _ _ _ code reg data h16 hc hreg]

/-- The same for `sdo_write`. -/
theorem sdoWrite_server_emergency (srv : Server) (cfg : Cfg) (index ctr code reg : Nat) (access : SubIndex)
    (value data : List Nat) (es : List (Nat × Nat × List Nat)) (stale : List (List Nat)) (hm : cfg.hasMailbox = true)
    (hst : stale.length ≤ 10) (h16 : 16 ≤ cfg.rmbx) (hw : 16 ≤ cfg.wmbx) (h4 : value.length ≤ 4) (hc : code < 65536)
    (hreg : reg < 256) (he : srv.emergencies = (code, reg, data) :: es) :
    (sdoWrite serverWorld cfg index access value (St.init ctr srv stale)).1 = .err (.emergency code reg) := by
  obtain ⟨hl, hreq⟩ := download_request_wellformed cfg.wmbx ctr index access value hw h4
  obtain ⟨d', rest, hs⟩ := serve_emergency_head srv _ code reg data es hl hreq he
  have hq : (St.init ctr srv stale).outq.length ≤ DRAIN_ROUNDS := hst
  have hs' : serverWorld.respond (St.init ctr srv stale).dev (image cfg.wmbx
      (downloadRequest (St.init ctr srv stale).ctr index access (value ++ zeros (4 - value.length)) value.length)) =
      (d', _ :: rest) := hs
  unfold sdoWrite
  dsimp only [mailboxCounter]
  rw [if_neg (by simp [WRITE_MAX]; omega)]
  rw [mwr_head serverWorld cfg _ _ _
    { ctr := nextCounter (St.init ctr srv stale).ctr, dev := (St.init ctr srv stale).dev, outq := (St.init ctr srv stale).outq,
      reqs := (St.init ctr srv stale).reqs, reads := (St.init ctr srv stale).reads } d' _ rest hm hq hs',
    triage_emergency cfg _ _ _ code reg data h16 hc hreg]

end Ec.Coe
