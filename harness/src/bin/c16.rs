//! C16 — no mailbox reply can crash the MainDevice or make it read out of bounds.
//!
//! The real `sdo_read` / `sdo_read_expedited` / `sdo_write` / `sdo_read_array` / `sdo_write_array` /
//! `sdo_info_object_description_list` / `sdo_info_object_quantities` run against a simulated device whose
//! CoE application answers with SCRIPTED raw mailbox contents: field-mutated valid replies (every header
//! byte over its range), every truncation, random bytes, well-formed and hostile multi-message sequences
//! (segmented uploads, SDO-info fragments), stale messages, read mailboxes of 6..1024 bytes, write mailboxes
//! of 6..128 bytes. Every case runs under `catch_unwind` with a step limit. The answer line (result, mailbox
//! counter, number of mailbox reads, messages left, requests written) is diffed against `drv_c16`.
//!
//! Monitors (independent of the model): no panic (classified by panic site); the number of mailbox reads
//! is bounded by a function of the REQUEST (destination size / 0x1fffe), not of the device's behaviour;
//! the bytes of a successful non-segmented read lie inside the reply's data area.
use ecverif::coerig::*;
use ecverif::rng::Rng;
use ecverif::util::{Report, hex};

const PROP: &str = "c16";
const INFO_CAP: usize = 0x1fffe;

// ---------------------------------------------------------------- message builders

fn mbx(len: u16, ctr: u8, ty: u8, service: u8, body: &[u8]) -> Vec<u8> {
    let mut m = vec![len as u8, (len >> 8) as u8, 0, 0, 0, ty | (ctr << 4), 0, service << 4];
    m.extend_from_slice(body);
    m
}

fn expedited(idx: u16, sub: u8, data: &[u8]) -> Vec<u8> {
    let n = data.len().min(4);
    let mut b = vec![0x43 | (((4 - n) as u8) << 2), idx as u8, (idx >> 8) as u8, sub];
    let mut d = [0u8; 4];
    d[..n].copy_from_slice(&data[..n]);
    b.extend_from_slice(&d);
    mbx(10, 1, 3, 3, &b)
}

fn normal(idx: u16, sub: u8, complete: u32, data: &[u8], len_field: Option<u16>) -> Vec<u8> {
    let mut b = vec![0x41, idx as u8, (idx >> 8) as u8, sub];
    b.extend_from_slice(&complete.to_le_bytes());
    b.extend_from_slice(data);
    mbx(len_field.unwrap_or(10 + data.len() as u16), 2, 3, 3, &b)
}

/// Upload segment response as ethercrab expects it: command `scs`, data starting 3 bytes after the SDO byte.
fn segment(scs: u8, toggle: bool, last: bool, unused: u8, len_field: u16, payload: &[u8]) -> Vec<u8> {
    let mut b = vec![(scs << 5) | ((toggle as u8) << 4) | ((unused & 7) << 1) | last as u8];
    b.extend_from_slice(payload);
    mbx(len_field, 3, 3, 3, &b)
}

fn download_ok(idx: u16, sub: u8) -> Vec<u8> {
    mbx(10, 4, 3, 3, &[0x60, idx as u8, (idx >> 8) as u8, sub, 0, 0, 0, 0])
}

fn abort(idx: u16, sub: u8, code: u32) -> Vec<u8> {
    let mut b = vec![0x80, idx as u8, (idx >> 8) as u8, sub];
    b.extend_from_slice(&code.to_le_bytes());
    mbx(10, 5, 3, 2, &b)
}

fn emergency() -> Vec<u8> {
    mbx(10, 6, 3, 1, &[0x34, 0x12, 0x01, 1, 2, 3, 4, 5])
}

/// SDO-info Get-OD-List response fragment. `with_type`: the list type word precedes the data.
fn info_frag(len_field: Option<u16>, incomplete: bool, left: u16, with_type: Option<u16>, data: &[u8]) -> Vec<u8> {
    let mut b = vec![0x02 | ((incomplete as u8) << 7), 0, left as u8, (left >> 8) as u8];
    if let Some(t) = with_type {
        b.extend_from_slice(&t.to_le_bytes());
    }
    b.extend_from_slice(data);
    mbx(len_field.unwrap_or((2 + b.len()) as u16), 7, 3, 8, &b)
}

// ---------------------------------------------------------------- one case

struct Case {
    rmbx: u16,
    wmbx: u16,
    has_mbx: bool,
    ctr: Option<u8>,
    stale: Vec<Vec<u8>>,
    script: Vec<Vec<Vec<u8>>>,
    op: Op,
    what: &'static str,
}

impl Case {
    fn new(rmbx: u16, op: Op, script: Vec<Vec<Vec<u8>>>, what: &'static str) -> Case {
        Case { rmbx, wmbx: 32, has_mbx: true, ctr: None, stale: vec![], script, op, what }
    }
}

fn parse_case(line: &str) -> Option<Case> {
    let dev = field(line, "dev")?;
    let script = parse_script(dev.strip_prefix("script:")?);
    Some(Case {
        rmbx: field(line, "rmbx")?.parse().ok()?,
        wmbx: field(line, "wmbx")?.parse().ok()?,
        has_mbx: field(line, "mbx")? != "0",
        ctr: field(line, "ctr")?.parse().ok(),
        stale: parse_msgs(field(line, "stale")?),
        script,
        op: Op::parse(field(line, "op")?)?,
        what: "replay",
    })
}

fn total_msgs(c: &Case) -> usize {
    c.script.iter().map(|e| e.len()).sum::<usize>() + c.stale.len()
}

/// Bound on mailbox reads that depends only on the request (see module doc).
fn read_bound(c: &Case) -> usize {
    let per_read = |buf: usize| buf + 12;
    let drains = 10 * 260;
    match &c.op {
        Op::Read(d, _, _) => per_read(d.buf_len()) + c.stale.len() + 10,
        Op::ReadX(..) | Op::Write(..) => 1 + c.stale.len() + 10,
        Op::ReadArr(d, _, _) => 12 + 255 * per_read(d.buf_len()) + drains + c.stale.len(),
        Op::WriteArr(_, vs) => vs.len() + 2 + drains.min(10 * (vs.len() + 2)) + c.stale.len(),
        Op::List(_) | Op::Quant => INFO_CAP + 12 + c.stale.len(),
    }
}

fn classify_panic(op: &Op, info: &str) -> String {
    let in_coe = info.contains("mailbox/coe/mod.rs");
    if in_coe && info.contains("left != right") {
        "c16/emergency-assert".into()
    } else if in_coe && info.contains("subtract with overflow") {
        match op {
            Op::List(_) | Op::Quant => "c16/sdo-info-length".into(),
            _ => "c16/segment-length-underflow".into(),
        }
    } else if in_coe && (info.contains("range end index") || info.contains("out of range for slice")) {
        "c16/sdo-info-length".into()
    } else {
        format!("c16/panic:{}", info.split(": ").next().unwrap_or("?"))
    }
}

fn run_case(rigs: &mut Rigs, rep: &mut Report, c: &Case) {
    let rig = rigs.get(c.rmbx, c.wmbx, c.has_mbx);
    rig.clear_mailboxes();
    if let Some(v) = c.ctr {
        rig.set_counter(v);
    }
    let n_msgs = total_msgs(c);
    if let Some(coe) = rig.coe() {
        coe.check_counter = false;
        for e in &c.script {
            coe.raw_replies.push_back(e.clone());
        }
        // after the script the device stays silent
        for _ in 0..(n_msgs + 300) {
            coe.raw_replies.push_back(vec![]);
        }
    }
    let limit = 400_000 + 12 * n_msgs as u64;
    let o = rig.run_case(&c.op, &c.stale, limit);
    let line = format!(
        "{PROP} mode={} rmbx={} wmbx={} mbx={} ctr={} stale={} dev=script:{} op={}",
        mode_token(),
        c.rmbx,
        c.wmbx,
        c.has_mbx as u8,
        o.ctr_before,
        msgs_token(&c.stale),
        script_token(&c.script),
        c.op.token()
    );
    rep.hit(&format!("what:{}", c.what));
    rep.hit(&format!("op:{}", c.op.kind()));
    rep.hit(&format!("result:{}", if o.result.starts_with("ok") { "ok".to_string() } else { o.result.split('(').next().unwrap_or("").to_string() }));
    rep.hit(&format!("rmbx:{}", match c.rmbx { 0..=11 => "6-11", 12..=15 => "12-15", 16..=31 => "16-31", 32..=127 => "32-127", 128..=511 => "128-511", _ => "512-1024" }));
    if o.reqs.len() > 1 || o.read_images.len() > 1 {
        rep.nontrivial.insert(line.clone());
    }
    // ---- monitors
    if o.result == "panic" {
        let info = o.panic_info.clone().unwrap_or_default();
        rep.fail(&classify_panic(&c.op, &info), &format!("panic: {info}"), &line);
    }
    if o.result == "stuck" || o.result == "deadlock" {
        rep.fail("c16/stuck", &format!("executor {} after {} steps", o.result, o.steps), &line);
    }
    if o.read_images.len() > read_bound(c) {
        let key = match c.op {
            Op::List(_) | Op::Quant => "c16/sdo-info-endless",
            _ => "c16/segment-endless",
        };
        rep.fail(key, &format!("{} mailbox reads for a request that can use at most {}", o.read_images.len(), read_bound(c)), &line);
    }
    if let (Op::Read(..) | Op::ReadX(..), Some(b)) = (&c.op, &o.ok_bytes) {
        if o.reqs.len() == 1 {
            // non-segmented: the value must be a prefix of the reply's data area (after the SDO header or after the size)
            let img = o.read_images.last().cloned().unwrap_or_default();
            let a = img.get(12..).unwrap_or(&[]);
            let z = img.get(16..).unwrap_or(&[]);
            if !(a.starts_with(b) || z.starts_with(b)) {
                rep.fail("c16/read-outside-reply", &format!("value {} is not inside the reply {}", hex(b), hex(&img)), &line);
            }
        }
    }
    if let (Op::List(_) | Op::Quant, Some(b)) = (&c.op, &o.ok_bytes) {
        if b.len() > INFO_CAP {
            rep.fail("c16/info-buffer", &format!("{} bytes accumulated", b.len()), &line);
        }
    }
    rep.case(line, o.answer());
}

// ---------------------------------------------------------------- generators

/// Random bytes of a random length in `lo..=hi`.
fn rb(rng: &mut Rng, lo: u64, hi: u64) -> Vec<u8> {
    let n = rng.range(lo, hi) as usize;
    rng.bytes(n)
}

fn ops_for(rng: &mut Rng, kind: usize) -> Op {
    let idx = *rng.pick(&[0x1000u16, 0x1c12, 0x2000, 0xffff]);
    let sub = *rng.pick(&[0u8, 1, 2, 255]);
    let acc = if rng.chance(1, 8) { Access::Complete } else { Access::Index(sub) };
    match kind {
        0 => {
            let d = match rng.below(10) {
                0 => Dest::U8,
                1 => Dest::U16,
                2 => Dest::U32,
                3 => Dest::U64,
                4 | 5 => Dest::Arr(*rng.pick(ARR_SIZES)),
                6 => Dest::Warr(*rng.pick(WARR_SIZES)),
                7 => Dest::Str(*rng.pick(STR_SIZES)),
                _ => Dest::Vecb(*rng.pick(VEC_SIZES)),
            };
            Op::Read(d, idx, acc)
        }
        1 => {
            let n = rng.range(0, 5) as usize;
            Op::Write(idx, acc, rng.bytes(n))
        }
        2 => Op::ReadArr(rng.pick(&[Dest::U8, Dest::U16, Dest::U32]).clone(), *rng.pick(MAX_ENTRIES), idx),
        3 => Op::List(rng.range(1, 5) as u8),
        4 => Op::Quant,
        5 => Op::ReadX(idx, acc),
        _ => {
            let w = *rng.pick(&[1usize, 2, 4]);
            let n = rng.range(0, 4) as usize;
            Op::WriteArr(idx, (0..n).map(|_| rng.bytes(w)).collect())
        }
    }
}

fn op_index_sub(op: &Op) -> (u16, u8) {
    let sub = |a: &Access| match a {
        Access::Complete => 1,
        Access::Index(i) => *i,
    };
    match op {
        Op::Read(_, i, a) | Op::ReadX(i, a) | Op::Write(i, a, _) => (*i, sub(a)),
        Op::ReadArr(_, _, i) | Op::WriteArr(i, _) => (*i, 0),
        _ => (0, 0),
    }
}

/// A reply an obedient device could give to the first request of `op`.
fn valid_reply(rng: &mut Rng, op: &Op, rmbx: u16) -> Vec<u8> {
    let (i, s) = op_index_sub(op);
    match op {
        Op::Read(d, ..) => {
            let n = d.buf_len().min(rmbx.saturating_sub(16) as usize);
            match rng.below(3) {
                0 => expedited(i, s, &rb(rng, 1, 4)),
                _ => {
                    let k = rng.range(0, n as u64) as usize;
                    normal(i, s, k as u32, &rng.bytes(k), None)
                }
            }
        }
        Op::ReadX(..) => expedited(i, s, &rb(rng, 1, 4)),
        Op::ReadArr(..) => expedited(i, s, &[rng.range(0, 5) as u8]),
        Op::Write(..) | Op::WriteArr(..) => download_ok(i, s),
        Op::List(t) => {
            let n = rng.range(0, (rmbx.saturating_sub(14) / 2).min(20) as u64) as usize;
            info_frag(None, false, 0, Some(*t as u16), &rng.bytes(2 * n))
        }
        Op::Quant => info_frag(None, false, 0, Some(0), &rng.bytes(10)),
    }
}

/// Follow-up entries an obedient device could give (sub-index reads of an array, download acks).
fn follow_ups(rng: &mut Rng, op: &Op, n: usize) -> Vec<Vec<Vec<u8>>> {
    let (i, _) = op_index_sub(op);
    (0..n)
        .map(|k| match op {
            Op::ReadArr(d, ..) => vec![expedited(i, (k + 1) as u8, &rng.bytes(d.buf_len()))],
            Op::WriteArr(_, vs) => vec![download_ok(i, if k < vs.len() { (k + 1) as u8 } else { 0 })],
            _ => vec![],
        })
        .collect()
}

fn mutate_byte(rng: &mut Rng, m: &mut Vec<u8>, p: usize) {
    if p < m.len() {
        m[p] = match rng.below(6) {
            0 => 0,
            1 => 0xff,
            2 => m[p].wrapping_add(1),
            3 => m[p] ^ (1 << rng.below(8)),
            _ => rng.byte(),
        };
    }
}

fn gen_cases(tier: &str, rng: &mut Rng, out: &mut dyn FnMut(Case)) {
    let thorough = tier == "thorough";
    let rmbx_all: Vec<u16> = if thorough { (6..=1024).collect() } else { vec![6, 7, 8, 9, 11, 12, 13, 14, 15, 16, 17, 18, 20, 23, 24, 32, 48, 64, 100, 128, 256, 512, 1024] };

    // ---- 1. every header byte over its full range, for every entry point (rmbx 32)
    for kind in 0..7 {
        let op = ops_for(rng, kind);
        let base = valid_reply(rng, &op, 32);
        for p in 0..base.len().min(20) {
            let vals: Vec<u8> = if thorough || p == 5 || p == 7 || p == 8 { (0..=255).collect() } else { vec![0, 1, 2, 3, 7, 8, 9, 10, 11, 12, 0x10, 0x7f, 0x80, 0xfe, 0xff] };
            for v in vals {
                let mut m = base.clone();
                m[p] = v;
                let mut sc = vec![vec![m]];
                sc.extend(follow_ups(rng, &op, 3));
                out(Case::new(32, op.clone(), sc, "byte-sweep"));
            }
        }
        // length field over its range
        let lens: Vec<u16> = if thorough { (0..=80).chain([0x00ff, 0x0100, 0x03ff, 0x0400, 0x7fff, 0x8000, 0xfffe, 0xffff]).collect() } else { vec![0, 1, 2, 3, 4, 7, 8, 9, 10, 11, 12, 13, 14, 16, 20, 26, 27, 28, 0xff, 0x100, 0xffff] };
        for l in lens {
            let mut m = base.clone();
            m[0] = l as u8;
            m[1] = (l >> 8) as u8;
            out(Case::new(32, op.clone(), vec![vec![m]], "length-sweep"));
        }
    }

    // ---- 2. every truncation of a valid reply, every read mailbox size
    for &rmbx in &rmbx_all {
        for kind in 0..7 {
            if !thorough && rng.chance(1, 2) {
                continue;
            }
            let op = ops_for(rng, kind);
            let base = valid_reply(rng, &op, rmbx);
            let mut sc = vec![vec![base.clone()]];
            sc.extend(follow_ups(rng, &op, 5));
            let mut c = Case::new(rmbx, op.clone(), sc, "mailbox-size");
            c.wmbx = *rng.pick(&[6u16, 7, 8, 12, 15, 16, 32, 128]);
            out(c);
            if rmbx <= 64 || thorough && rmbx % 64 == 0 {
                for k in 0..base.len() {
                    out(Case::new(rmbx, op.clone(), vec![vec![base[..k].to_vec()]], "truncation"));
                }
            }
        }
    }

    // ---- 3. field-mutated and random contents
    let n_random = if thorough { 120_000 } else { 8_000 };
    for _ in 0..n_random {
        let rmbx = *rng.pick(&rmbx_all);
        let kind = rng.below(7) as usize;
        let op = ops_for(rng, kind);
        let mut first = match rng.below(10) {
            0 => rb(rng, 0, rmbx as u64 + 4),
            1 => abort(op_index_sub(&op).0, op_index_sub(&op).1, *rng.pick(&[0x0503_0000u32, 0x0601_0002, 0x0602_0000, 0x0609_0011, 0x0800_0000, 0x1234_5678, 0])),
            2 => emergency(),
            _ => valid_reply(rng, &op, rmbx),
        };
        for _ in 0..rng.below(4) {
            let p = rng.below(first.len().max(1).min(18) as u64) as usize;
            mutate_byte(rng, &mut first, p);
        }
        if rng.chance(1, 6) {
            first.truncate(rng.below(first.len() as u64 + 1) as usize);
        }
        if rng.chance(1, 6) {
            // non-zero bytes after the message (stale mailbox memory)
            let extra = rng.range(0, 12) as usize;
            first.extend(rng.bytes(extra));
        }
        let mut sc = vec![vec![first]];
        let mut ups = follow_ups(rng, &op, 4);
        for e in ups.iter_mut() {
            for m in e.iter_mut() {
                if rng.chance(1, 4) {
                    let p = rng.below(m.len().max(1) as u64) as usize;
                    mutate_byte(rng, m, p);
                }
            }
        }
        sc.extend(ups);
        let mut c = Case::new(rmbx, op, sc, "random");
        if rng.chance(1, 5) {
            for _ in 0..rng.range(1, 12) {
                c.stale.push(if rng.chance(1, 2) { emergency() } else { rb(rng, 0, 20) });
            }
        }
        if rng.chance(1, 8) {
            c.wmbx = *rng.pick(&[6u16, 7, 8, 11, 12, 15, 16, 17, 64, 128]);
        }
        out(c);
    }

    // ---- 4. segmented sequences (command 3 in the segment responses, the only shape ethercrab accepts,
    //          and command 0 as the standard says)
    let n_seg = if thorough { 30_000 } else { 4_000 };
    for _ in 0..n_seg {
        let rmbx = *rng.pick(&[16u16, 17, 19, 20, 22, 23, 24, 32, 48, 64, 128, 1024]);
        let d = match rng.below(4) {
            0 => Dest::Vecb(*rng.pick(VEC_SIZES)),
            1 => Dest::Arr(*rng.pick(ARR_SIZES)),
            2 => Dest::Str(*rng.pick(STR_SIZES)),
            _ => Dest::U64,
        };
        let op = Op::Read(d.clone(), 0x2000, Access::Index(0));
        let total = rng.edgy(d.buf_len() as u64 + 2) as u32;
        let first_n = rng.below(4).min(rmbx.saturating_sub(16) as u64) as usize;
        // initiate response announces more than it carries
        let mut sc = vec![vec![normal(0x2000, 0, total.max(first_n as u32 + 1), &rng.bytes(first_n), None)]];
        let scs = if rng.chance(1, 6) { 0 } else { 3 };
        let mut toggle = false;
        let nseg = rng.range(1, 6);
        for k in 0..nseg {
            let last = k + 1 == nseg || rng.chance(1, 10);
            let room = rmbx.saturating_sub(12) as usize;
            let n = match rng.below(4) {
                0 => rng.below(8) as usize,
                1 => 7,
                _ => rng.range(0, room.min(40) as u64) as usize,
            };
            let unused = if n < 7 && rng.chance(3, 4) { (7 - n) as u8 } else { rng.below(8) as u8 };
            let len_field = match rng.below(12) {
                0 => rng.below(4) as u16,
                1 => 0xffff,
                _ if n < 7 && unused as usize == 7 - n => 10,
                _ => 3 + n as u16,
            };
            // three filler bytes, then the data (ethercrab reads from offset 12)
            let mut payload = rng.bytes(3);
            payload.extend(rng.bytes(n.max(if len_field == 10 { 7 } else { n })));
            let t = if rng.chance(1, 12) { !toggle } else { toggle };
            sc.push(vec![segment(scs, t, last, unused, len_field, &payload)]);
            toggle = !toggle;
            if last && rng.chance(3, 4) {
                break;
            }
        }
        out(Case::new(rmbx, op, sc, "segmented"));
    }
    // ---- 4b. endless 'more follows' segments that carry no data in one of the two encodings (length 3, or the
    //          minimum-size encoding: length 10 with all 7 bytes marked unused), far more of them than the request may
    //          ever read: it must end (error at the first such segment), not follow the device for as long as it talks
    for k in 0..(if thorough { 200 } else { 24 }) {
        let rmbx = *rng.pick(&[16u16, 20, 32, 64]);
        let d = match k % 4 {
            0 => Dest::Vecb(*rng.pick(VEC_SIZES)),
            1 => Dest::Arr(*rng.pick(ARR_SIZES)),
            2 => Dest::Str(*rng.pick(STR_SIZES)),
            _ => Dest::U64,
        };
        let op = Op::Read(d.clone(), 0x2000, Access::Index(0));
        let total = (d.buf_len() as u32).max(5);
        let mut sc = vec![vec![normal(0x2000, 0, total, &[], None)]];
        // optionally a few ordinary segments first
        let mut toggle = false;
        for _ in 0..rng.below(3) {
            sc.push(vec![segment(3, toggle, false, 6, 10, &rng.bytes(10))]);
            toggle = !toggle;
        }
        let reps = d.buf_len() + 12 + 10 + 40;
        let min_size = k % 2 == 0;
        for _ in 0..reps {
            let m = if min_size { segment(3, toggle, false, 7, 10, &rng.bytes(10)) } else { segment(3, toggle, false, 0, 3, &rng.bytes(3)) };
            sc.push(vec![m]);
            toggle = !toggle;
        }
        out(Case::new(rmbx, op, sc, "segmented-endless"));
    }

    // ---- 5. SDO-info fragment sequences
    let n_info = if thorough { 30_000 } else { 4_000 };
    for _ in 0..n_info {
        let rmbx = *rng.pick(&[12u16, 13, 14, 15, 16, 18, 20, 32, 64, 128, 1024]);
        let op = if rng.chance(1, 4) { Op::Quant } else { Op::List(rng.range(1, 5) as u8) };
        let nfrag = rng.range(1, 6);
        let mut msgs = Vec::new();
        for k in 0..nfrag {
            let last = k + 1 == nfrag;
            let room = rmbx.saturating_sub(14) as usize;
            let n = rng.range(0, room.min(24) as u64) as usize;
            let with_type = if k == 0 || rng.chance(1, 8) { Some(rng.below(6) as u16) } else { None };
            let len_field = match rng.below(10) {
                0 => Some(rng.below(12) as u16),
                1 => Some(rng.range(8, 8 + rmbx as u64) as u16),
                2 => Some(8 + n as u16),
                _ => None,
            };
            let mut m = info_frag(len_field, !last || rng.chance(1, 10), (nfrag - 1 - k) as u16, with_type, &rng.bytes(n));
            if rng.chance(1, 10) {
                m[8] = (m[8] & 0x80) | *rng.pick(&[0u8, 1, 3, 4, 5, 6, 7, 8, 0x7f]);
            }
            if rng.chance(1, 12) {
                m[7] = (rng.below(16) as u8) << 4;
            }
            msgs.push(m);
        }
        // one request, many responses: all in the first script entry (or spread as stale/late messages)
        let mut c = Case::new(rmbx, op, vec![msgs], "info-fragments");
        if rng.chance(1, 8) {
            c.stale.push(info_frag(None, false, 0, Some(1), &[0x00, 0x10]));
        }
        out(c);
    }

    // ---- 6. no mailbox at all
    for kind in 0..7 {
        let op = ops_for(rng, kind);
        let mut c = Case::new(0, op, vec![], "no-mailbox");
        c.has_mbx = false;
        c.wmbx = 0;
        out(c);
    }
}

/// Boundary cases and the witnesses of the known findings (run first).
fn corpus(out: &mut dyn FnMut(Case)) {
    let rd = |d: Dest| Op::Read(d, 0x2000, Access::Index(0));
    // P1: an emergency message in place of the response
    out(Case::new(32, rd(Dest::U32), vec![vec![emergency()]], "corpus"));
    out(Case::new(32, Op::Write(0x2000, Access::Index(0), vec![1, 2]), vec![vec![emergency()]], "corpus"));
    // P2: segment response with mailbox length < 3
    for l in 0..4u16 {
        out(Case::new(32, rd(Dest::Arr(100)), vec![vec![normal(0x2000, 0, 100, &[1, 2, 3, 4, 5, 6], None)], vec![segment(3, false, true, 0, l, &[0; 7])]], "corpus"));
    }
    // the standard's upload segment response (command 0)
    out(Case::new(32, rd(Dest::Arr(100)), vec![vec![normal(0x2000, 0, 100, &[1, 2, 3, 4, 5, 6], None)], vec![segment(0, false, true, 0, 10, &[1, 2, 3, 4, 5, 6, 7])]], "corpus"));
    // P3/P4: SDO info length field below 8 / beyond the data present
    for l in [0u16, 4, 7, 8, 9, 18, 19, 20, 21, 26, 27, 64, 0xffff] {
        out(Case::new(32, Op::List(1), vec![vec![info_frag(Some(l), false, 0, Some(1), &[0x00, 0x10, 0x18, 0x10])]], "corpus"));
        out(Case::new(32, Op::Quant, vec![vec![info_frag(Some(l), false, 0, Some(0), &[1, 0, 2, 0, 3, 0, 4, 0, 5, 0])]], "corpus"));
        // second fragment (list type already consumed)
        out(Case::new(32, Op::List(1), vec![vec![info_frag(None, true, 1, Some(1), &[0x00, 0x10]), info_frag(Some(l), false, 0, None, &[0x18, 0x10, 0, 0])]], "corpus"));
    }
    // zero-length segments: 40 non-final segments for a 4-byte destination
    let zero_seg = |t: bool| segment(3, t, false, 0, 3, &[0; 7]);
    let mut sc = vec![vec![normal(0x2000, 0, 4, &[], None)]];
    for k in 0..40 {
        sc.push(vec![zero_seg(k % 2 == 1)]);
    }
    out(Case::new(32, rd(Dest::U32), sc, "corpus"));
    // buffer exactly full / one byte too many
    for extra in [0usize, 1] {
        let big = info_frag(None, true, 1, None, &vec![0xab; 1000]);
        let n_full = INFO_CAP / 1000;
        let rest = INFO_CAP - n_full * 1000 + extra;
        let mut msgs = vec![info_frag(None, true, 2, Some(1), &[])];
        for _ in 0..n_full {
            msgs.push(big.clone());
        }
        // ethercrab takes length-8 bytes of a continuation fragment: make the length field say so
        msgs.push(info_frag(Some(8 + rest as u16), false, 0, None, &vec![0xcd; rest + 2]));
        let mut fixed = Vec::new();
        for m in msgs {
            let mut m = m;
            if m.len() > 20 && m[8] & 0x80 != 0 {
                let l = 8 + 1000u16;
                m[0] = l as u8;
                m[1] = (l >> 8) as u8;
                m.extend_from_slice(&[0, 0]);
            }
            fixed.push(m);
        }
        out(Case::new(1024, Op::List(1), vec![fixed], "corpus"));
    }
    // endless zero-length fragments: more mailbox reads than the buffer has bytes
    let n = INFO_CAP + 64;
    out(Case::new(16, Op::List(1), vec![vec![info_frag(Some(8), true, 1, None, &[0, 0]); n]], "corpus"));
}

fn main() {
    let args = ecverif::parse_args();
    install_panic_recorder();
    let mut rep = Report::default();
    let mut rigs = Rigs::default();
    if let Some(lines) = ecverif::replay_cases(&args) {
        for l in lines {
            match parse_case(&l) {
                Some(c) => run_case(&mut rigs, &mut rep, &c),
                None => rep.notes.push(format!("replay: cannot parse case line: {}", &l[..l.len().min(200)])),
            }
        }
        rep.write(&args.out, PROP);
        return;
    }
    let mut rng = Rng::new(args.seed ^ 0xc16);
    let mut cases: Vec<Case> = Vec::new();
    corpus(&mut |c| cases.push(c));
    gen_cases(&args.tier, &mut rng, &mut |c| cases.push(c));
    // group by rig so that few rigs are alive at a time; keep the corpus first
    let n_corpus = {
        let mut n = 0;
        corpus(&mut |_| n += 1);
        n
    };
    let (head, tail) = cases.split_at_mut(n_corpus);
    tail.sort_by_key(|c| (c.rmbx, c.wmbx, c.has_mbx));
    let _ = head;
    let mut wall: std::collections::BTreeMap<&'static str, (u64, f64)> = Default::default();
    for c in &cases {
        let t0 = std::time::Instant::now();
        run_case(&mut rigs, &mut rep, c);
        let e = wall.entry(c.what).or_default();
        e.0 += 1;
        e.1 += t0.elapsed().as_secs_f64();
    }
    if std::env::var("VERIF_TIMING").is_ok() {
        eprintln!("{wall:?} inits={}", rigs.inits);
    }
    rep.notes.push(format!("rigs initialised through MainDevice::init_single_group: {}", rigs.inits));
    rep.notes.push(format!("build profile: overflow-checks={} debug-assertions={}", overflow_checks(), cfg!(debug_assertions)));
    rep.write(&args.out, PROP);
}
