//! C05 under concurrency: the schedule-controlled runs of the real PDU loop (requests of other tasks dropped at
//! arbitrary points, duplicates and noise on the wire), judged only by the receive side's own clauses: a frame that
//! is REJECTED leaves the slot it was tentatively claimed for as it was, and the receive path never panics.
fn main() {
    ecverif::microrun::main_for(
        ecverif::microrun::Profile {
            key: "c05m",
            drops: true,
            timeouts: false,
            tx_fail: false,
            rx_noise: true,
            only: &["rejected-frame-altered-slot", "txrx-panic"],
        },
        300,
        2000,
    );
}
