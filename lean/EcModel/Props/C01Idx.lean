/-
  C01 (index clauses, sequential) — distinct outstanding requests carry distinct first-datagram
  indices, from the property's own assumption "fewer than 256 datagram indices are allocated while a
  request is outstanding"; hence `receive_frame`'s lookup finds exactly the owner (`deliver_exact`
  without its uniqueness hypothesis).

  Ghost bookkeeping (`Lemmas/SlotsIdx.lean`): `G.ctr` = absolute number of the next index to be
  drawn from the shared `pdu_idx` counter (`pi0 + draws`; `reset` restarts it at 0 as it restarts the
  real counter), `G.fd k` = the absolute draw that gave slot `k`'s current occupant its first index.
  Every `push_pdu` draws one index (also when it fails with `TooLong`), `push_pdu_slice_rest` draws
  one iff it gets past its two early returns.
-/
import EcModel.Lemmas.SlotsIdx
import EcModel.Props.C01

namespace Ec.C01Idx
open Ec Ec.C05 Ec.C01

/-- An outstanding or not yet fully read request: `Sendable`, `Sending`, `Sent`, `RxBusy`, `RxDone`
    or `RxProcessing`. -/
def InFlight (st : St) : Prop := st ≠ .none ∧ st ≠ .created

/-- The assumption at one point of a history: for every in-flight request that has pushed a
    datagram, fewer than 256 indices have been drawn since (not counting its own first one). -/
def WindowAt (s : Sys) (g : G) : Prop :=
  ∀ k f, InFlight (s.slot k).st → g.fd k = some f → g.ctr - (f + 1) < 256

/-- The assumption along a history: it holds at every prefix. -/
def Window (w : World) (g : G) : List Op → Prop
  | [] => WindowAt w.1 g
  | op :: ops => WindowAt w.1 g ∧ Window (step w op).1 (gstep w g op) ops

theorem Window.last {w : World} {g : G} {ops : List Op} (h : Window w g ops) :
    WindowAt (run w ops).1 (gRun w g ops) := by
  induction ops generalizing w g with
  | nil => exact h
  | cons op ops ih => exact ih h.2

/-- **Bookkeeping is exact** after any history from a fresh storage (counter preset to a byte):
    the shared counter is `ctr mod 256`; a held slot whose occupant pushed a datagram carries the
    index of its first draw; one whose occupant pushed none carries `FIRST_PDU_EMPTY`; first draws of
    different held slots differ (as absolute numbers). -/
theorem markers_exact {n data fi pi : Nat} (hn : 0 < n) (hpi : pi < 256) (ops : List Op) :
    let w := run (World.init n data fi pi) ops
    let g := gRun (World.init n data fi pi) (G.init pi) ops
    w.1.pduIdx = g.ctr % 256 ∧
    (∀ k f, (w.1.slot k).st ≠ .none → g.fd k = some f → (w.1.slot k).first = f % 256 ∧ f < g.ctr) ∧
    (∀ k, (w.1.slot k).st ≠ .none → g.fd k = none → (w.1.slot k).first = Gen.FIRST_PDU_EMPTY) ∧
    (∀ j k a b, j ≠ k → (w.1.slot j).st ≠ .none → (w.1.slot k).st ≠ .none →
      g.fd j = some a → g.fd k = some b → a ≠ b) := by
  intro w g
  have h := IdxInv_run (J_init n data fi pi hn) (IdxInv_init n data fi pi hpi) ops
  exact ⟨h.ctr, h.hsome, h.hnone, h.inj⟩

theorem gstep_ctr_ge (w : World) (g : G) (op : Op) (h : op ≠ .reset) : g.ctr ≤ (gstep w g op).ctr := by
  cases op <;> simp only [gstep] <;> first | exact absurd rfl h | (repeat' split) <;> simp

/-- Without `reset`, the counter is `pi0 + draws` where `draws` counts the indices drawn. -/
theorem counter_is_draws {n data fi pi : Nat} (hn : 0 < n) (hpi : pi < 256) (ops : List Op)
    (hnr : ∀ op ∈ ops, op ≠ .reset) :
    (run (World.init n data fi pi) ops).1.pduIdx = (pi + draws n data fi pi ops) % 256 := by
  have key : ∀ (ops : List Op) (w : World) (g : G), (∀ op ∈ ops, op ≠ .reset) → g.ctr ≤ (gRun w g ops).ctr := by
    intro ops
    induction ops with
    | nil => intro w g _; exact Nat.le_refl _
    | cons op ops ih =>
      intro w g h
      exact Nat.le_trans (gstep_ctr_ge w g op (h op (by simp))) (ih _ _ (fun o ho => h o (by simp [ho])))
  have := key ops (World.init n data fi pi) (G.init pi) hnr
  simp only [G.init] at this
  rw [(markers_exact hn hpi ops).1]
  unfold draws
  congr 1
  simp only [G.init]
  omega

/-- **live_idx_unique**: under the window assumption, two different slots that both hold an in-flight
    request with at least one datagram carry different first-index markers. -/
theorem live_idx_unique {n data fi pi : Nat} (hn : 0 < n) (hpi : pi < 256) (ops : List Op)
    (hw : Window (World.init n data fi pi) (G.init pi) ops) (j k : Nat) (hjk : j ≠ k) :
    let w := run (World.init n data fi pi) ops
    InFlight (w.1.slot j).st → InFlight (w.1.slot k).st →
    (w.1.slot j).first ≠ Gen.FIRST_PDU_EMPTY → (w.1.slot k).first ≠ Gen.FIRST_PDU_EMPTY →
    (w.1.slot j).first ≠ (w.1.slot k).first := by
  intro w hj hk hej hek
  have hI := IdxInv_run (J_init n data fi pi hn) (IdxInv_init n data fi pi hpi) ops
  have hwin := hw.last
  cases haj : (gRun (World.init n data fi pi) (G.init pi) ops).fd j with
  | none => exact absurd (hI.hnone j hj.1 haj) hej
  | some a =>
    cases hbk : (gRun (World.init n data fi pi) (G.init pi) ops).fd k with
    | none => exact absurd (hI.hnone k hk.1 hbk) hek
    | some b =>
      obtain ⟨e1, l1⟩ := hI.hsome j a hj.1 haj
      obtain ⟨e2, l2⟩ := hI.hsome k b hk.1 hbk
      have hne := hI.inj j k a b hjk hj.1 hk.1 haj hbk
      have w1 := hwin j a hj haj
      have w2 := hwin k b hk hbk
      show (w.1.slot j).first ≠ (w.1.slot k).first
      rw [e1, e2]
      omega

/-- **owner_is_first_match**: if slot `k` is `Sent` with a genuine (byte) marker `i`, no other slot
    awaits `i` — in particular none before it, which is `deliver_exact`'s `huniq`. -/
theorem owner_is_first_match {n data fi pi : Nat} (hn : 0 < n) (hpi : pi < 256) (ops : List Op)
    (hw : Window (World.init n data fi pi) (G.init pi) ops) (k i : Nat)
    (haw : Awaits ((run (World.init n data fi pi) ops).1.slot k) i) (hi : i ≠ Gen.FIRST_PDU_EMPTY) :
    ∀ j, j ≠ k → ¬ Awaits ((run (World.init n data fi pi) ops).1.slot j) i := by
  intro j hjk hj
  have := live_idx_unique hn hpi ops hw j k hjk
  simp only at this
  refine this ?_ ?_ ?_ ?_ (hj.1.trans haw.1.symm)
  · rw [hj.2]; exact ⟨by simp, by simp⟩
  · rw [haw.2]; exact ⟨by simp, by simp⟩
  · rw [hj.1]; exact hi
  · rw [haw.1]; exact hi

/-- **deliver_exact_reachable**: `Ec.C01.deliver_exact` with its uniqueness hypothesis discharged: in
    every world reached by a history that satisfies the window assumption, a response to the first
    datagram of the request in register `r` (slot `k`, `Sent`, marker `i`) reaches exactly that
    request — however many other requests are in flight. -/
theorem deliver_exact_reachable {n data fi pi : Nat} (hn : 0 < n) (hpi : pi < 256) (ops : List Op)
    (hwin : Window (World.init n data fi pi) (G.init pi) ops)
    (r k i : Nat) (retries deadline timeout : Nat) (armed : Bool)
    (hh : getH (run (World.init n data fi pi) ops).2 r = some ⟨r, k, .fut retries deadline timeout armed⟩)
    (haw : Awaits ((run (World.init n data fi pi) ops).1.slot k) i) (hi : i ≠ Gen.FIRST_PDU_EMPTY)
    (hbuf : ((run (World.init n data fi pi) ops).1.slot k).buf.length = (run (World.init n data fi pi) ops).1.data)
    (bytes : List Nat) (c : Nat) (raw dat rest : List Nat) (wkc : Nat) (more : Bool)
    (hraw : raw.length = 4) (hL : dat.length < 2048) (hwk : wkc < 65536)
    (hparse : rxParse (run (World.init n data fi pi) ops).1.exit bytes = .ok (respDgram c i raw dat wkc more ++ rest, i))
    (hfit : (respDgram c i raw dat wkc more ++ rest).length ≤ (run (World.init n data fi pi) ops).1.data - 16)
    (hdata : 16 ≤ (run (World.init n data fi pi) ops).1.data) :
    let w := run (World.init n data fi pi) ops
    let w1 := opRx w bytes
    let w2 := opPoll w1.1 r
    let w3 := opFirst w2.1 r c i
    w1.2 = "processed" ∧ w2.2 = "ready.ok" ∧
    getH w3.1.2 r = some ⟨r, k, .view 26 dat.length wkc⟩ ∧
    viewBytes w3.1.1 k 26 dat.length = dat ∧
    (∀ j, j ≠ k → w3.1.1.slot j = w.1.slot j) := by
  intro w
  have hJ : J w.1 w.2 := J_run (J_init n data fi pi hn) ops
  have hk : k < w.1.n := hJ.owner_lt (getH_some hh).1 (by simp [HK.cls])
  have huniq : ∀ j, j < k → ¬ Awaits (w.1.slot j) i :=
    fun j hj => owner_is_first_match hn hpi ops hwin k i haw hi j (by omega)
  exact deliver_exact w.1 w.2 r k i retries deadline timeout armed hh hk haw huniq hbuf bytes c raw dat rest wkc
    more hraw hL hwk hparse hfit hdata

/-! ### the window is needed (known finding c20/index-reuse-in-flight, seen from C01) -/

/-- Request A (slot 0) is sent and stays `Sent`; request B (slot 1) then draws 256 further indices
    (255 pushes that fail with `TooLong` — each draws an index — and one that succeeds) and is sent. -/
def cexOps : List Op :=
  [.alloc 0, .push 0 .nop [] none, .mark 0 0 1000, .txNext 5, .txSend 5 0, .alloc 1] ++
  List.replicate 255 (.push 1 .nop [0] none) ++
  [.push 1 .nop [] none, .mark 1 0 1000, .txNext 6, .txSend 6 0]

/-- Everything the counterexample needs, evaluated once. -/
theorem cex_facts :
    ((run (World.init 2 28 0 0) cexOps).1.slots.map (fun x => (x.st, x.first)) = [(St.sent, 0), (St.sent, 0)]) ∧
    ((gRun (World.init 2 28 0 0) (G.init 0) cexOps).ctr,
      (gRun (World.init 2 28 0 0) (G.init 0) cexOps).fd 0,
      (gRun (World.init 2 28 0 0) (G.init 0) cexOps).fd 1) = (257, some 0, some 256) := by
  decide +kernel

/-- **window_needed_counterexample**: without the window assumption two `Sent` slots carry the same
    marker: after 257 draws while the first request is outstanding, both slots await index 0, the
    window fails at the end of the history, and `receive_frame`'s scan would hand B's response to A. -/
theorem window_needed_counterexample :
    let w := run (World.init 2 28 0 0) cexOps
    Awaits (w.1.slot 0) 0 ∧ Awaits (w.1.slot 1) 0 ∧
    (gRun (World.init 2 28 0 0) (G.init 0) cexOps).ctr = 257 ∧
    (gRun (World.init 2 28 0 0) (G.init 0) cexOps).fd 0 = some 0 ∧
    (gRun (World.init 2 28 0 0) (G.init 0) cexOps).fd 1 = some 256 ∧
    ¬ WindowAt w.1 (gRun (World.init 2 28 0 0) (G.init 0) cexOps) := by
  intro w
  obtain ⟨hs, hg⟩ := cex_facts
  simp only [Prod.mk.injEq] at hg
  obtain ⟨h2, h3, h4⟩ := hg
  have hsl : ∀ i, w.1.slot i = w.1.slots.getD i dummySlot := fun _ => rfl
  have e0 : (w.1.slots.map (fun x => (x.st, x.first)))[0]? = some (St.sent, 0) := by rw [hs]; rfl
  have e1 : (w.1.slots.map (fun x => (x.st, x.first)))[1]? = some (St.sent, 0) := by rw [hs]; rfl
  have s0 : (w.1.slot 0).st = .sent ∧ (w.1.slot 0).first = 0 := by
    rw [hsl, List.getD_eq_getElem?_getD]
    rw [List.getElem?_map] at e0
    cases hx : w.1.slots[0]? with
    | none => rw [hx] at e0; cases e0
    | some x => rw [hx] at e0; simp at e0; simp [e0]
  have s1 : (w.1.slot 1).st = .sent ∧ (w.1.slot 1).first = 0 := by
    rw [hsl, List.getD_eq_getElem?_getD]
    rw [List.getElem?_map] at e1
    cases hx : w.1.slots[1]? with
    | none => rw [hx] at e1; cases e1
    | some x => rw [hx] at e1; simp at e1; simp [e1]
  refine ⟨⟨s0.2, s0.1⟩, ⟨s1.2, s1.1⟩, h2, h3, h4, ?_⟩
  intro hw
  have := hw 0 0 (by rw [s0.1]; exact ⟨by simp, by simp⟩) h3
  rw [h2] at this
  omega

end Ec.C01Idx
