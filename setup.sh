#!/bin/sh
# Build the framework from files on disk only (offline). Best effort per property: a module or
# binary that fails to build must not keep the others from being warmed up; ./check rebuilds what
# it needs and reports failures itself.
cd "$(dirname "$0")"
export CARGO_NET_OFFLINE=true
python3 tools/extract.py || true
(cd lean && for t in $(python3 ../tools/targets.py); do lake build $t || echo "setup: lake build $t failed"; done)
(cd harness && cargo build --offline --keep-going || echo "setup: some harness binaries failed to build")
exit 0
