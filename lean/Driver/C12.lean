import EcModel.Drv.C12
def main : IO Unit := Ec.Drv.runDriver Ec.Drv.C12.handle
