/-
  Preservation of `MInv` (Lemmas/MicroInv.lean) by one micro-step, per program counter.
  Part 1: `alloc_frame`, `push_pdu*`, `mark_sendable`, drop of a `CreatedFrame`.
-/
import EcModel.Lemmas.MicroInv

namespace Ec.Micro
open Ec

variable {w : MWorld} {tid : Nat} {prog outs : List String} {regs : List Hd}

/-! ### alloc_frame -/

theorem inv_alFetch (hI : MInv w) {r j : Nat}
    (ht : w.threads[tid]? = some ⟨prog, .alFetch r j, regs, outs⟩) :
    MInv (next w tid (stepThread w.sys ⟨prog, .alFetch r j, regs, outs⟩)) := by
  have hR : Regs regs := hI.regs _ (mem_of_get ht)
  simp only [stepThread]
  exact hI.step_same ht (CapLe.congr rfl) hR ⟨trivial, Nat.mod_lt _ hI.pos⟩ (fun _ _ => Nat.le_refl _)

/-- The claim: `None → Created` compare-exchange. Succeeds only when nobody holds anything on the
    slot (all counts are 0 by the invariant), and makes this thread the creator. -/
theorem inv_alCas (hI : MInv w) {r j idx : Nat}
    (ht : w.threads[tid]? = some ⟨prog, .alCas r j idx, regs, outs⟩) :
    MInv (next w tid (stepThread w.sys ⟨prog, .alCas r j idx, regs, outs⟩)) := by
  have hR : Regs regs := hI.regs _ (mem_of_get ht)
  have hlt : idx < w.sys.n := (hI.pcok _ (mem_of_get ht)).2
  simp only [stepThread]
  split
  · next hst =>
    refine hI.step_set ht idx _ hlt hR ⟨trivial, trivial⟩ ?_ ?_
    · intro k ρ hne
      simp only [tcount, pcount, Pc.claim, one_ne_slot hne]; omega
    · intro rest h0 _ ρ
      have h1 := h0 ρ
      rw [hst, cap_none] at h1
      simp only [tcount, pcount, Pc.claim] at h1 ⊢
      cases ρ <;> simp [cap, one] at h1 ⊢ <;> omega
  · split
    · exact hI.step_same ht (CapLe.refl _) hR ⟨trivial, trivial⟩ (fun _ _ => Nat.le_refl _)
    · exact hI.step_same ht (CapLe.refl _) hR ⟨trivial, trivial⟩ (fun _ _ => Nat.le_refl _)

theorem inv_alWaker (hI : MInv w) {r k : Nat}
    (ht : w.threads[tid]? = some ⟨prog, .alWaker r k, regs, outs⟩) :
    MInv (next w tid (stepThread w.sys ⟨prog, .alWaker r k, regs, outs⟩)) := by
  have hR : Regs regs := hI.regs _ (mem_of_get ht)
  simp only [stepThread]
  exact hI.step_same ht (CapLe.refl _) hR ⟨trivial, trivial⟩ (fun _ _ => Nat.le_refl _)

theorem inv_alFirst (hI : MInv w) {r k : Nat}
    (ht : w.threads[tid]? = some ⟨prog, .alFirst r k, regs, outs⟩) :
    MInv (next w tid (stepThread w.sys ⟨prog, .alFirst r k, regs, outs⟩)) := by
  have hR : Regs regs := hI.regs _ (mem_of_get ht)
  simp only [stepThread]
  exact hI.step_same ht (CapLe.set_same _ _ _ rfl) hR ⟨trivial, trivial⟩ (fun _ _ => Nat.le_refl _)

/-- The `CreatedFrame` is constructed: the claim moves from the program counter into register `r`.
    Whatever was in `r` is overwritten (its claim is lost, which only lowers counts). -/
theorem inv_alBuf (hI : MInv w) {r k : Nat}
    (ht : w.threads[tid]? = some ⟨prog, .alBuf r k, regs, outs⟩) :
    MInv (next w tid (stepThread w.sys ⟨prog, .alBuf r k, regs, outs⟩)) := by
  have hR : Regs regs := hI.regs _ (mem_of_get ht)
  simp only [stepThread]
  refine hI.step_same ht (CapLe.set_same _ _ _ rfl) (regs_putH hR _) ⟨trivial, trivial⟩ ?_
  intro k' ρ
  have := hcount_delH_le regs r k' ρ
  simp only [tcount, pcount, Pc.claim, Thread.done, hcount_putH, roleOf_created]
  omega

/-! ### push_pdu / push_pdu_slice_rest -/

theorem inv_puFetch (hI : MInv w) {r : Nat} {c : Cmd} {data : List Nat} {lenOv : Option Nat} {rest : Bool}
    (ht : w.threads[tid]? = some ⟨prog, .puFetch r c data lenOv rest, regs, outs⟩) :
    MInv (next w tid (stepThread w.sys ⟨prog, .puFetch r c data lenOv rest, regs, outs⟩)) := by
  have hR : Regs regs := hI.regs _ (mem_of_get ht)
  obtain ⟨h, e, hρ⟩ := hI.need ht (r := r) (ρ := .creator) rfl
  simp only [stepThread]
  exact hI.step_same ht (CapLe.congr rfl) hR ⟨⟨h, e, hρ⟩, trivial⟩ (fun _ _ => Nat.le_refl _)

theorem inv_puWrite (hI : MInv w) {r : Nat} {c : Cmd} {data : List Nat} {lenOv : Option Nat} {rest : Bool}
    {idx : Nat}
    (ht : w.threads[tid]? = some ⟨prog, .puWrite r c data lenOv rest idx, regs, outs⟩) :
    MInv (next w tid (stepThread w.sys ⟨prog, .puWrite r c data lenOv rest idx, regs, outs⟩)) := by
  have hR : Regs regs := hI.regs _ (mem_of_get ht)
  obtain ⟨⟨reg, k, kind⟩, e, hρ⟩ := hI.need ht (r := r) (ρ := .creator) rfl
  cases kind <;> simp at hρ
  rename_i count last
  have hset : ∀ (y : Slot) (c' : Nat) (l' : Option Nat) (out : String) (p : Option Nat),
      y.st = (w.sys.slot k).st →
      MInv (next w tid (w.sys.setSlot k y,
        ⟨prog, .puFirst r idx out p, putH regs ⟨r, k, .created c' l'⟩, outs⟩)) := by
    intro y c' l' out p hy
    refine hI.step_same ht (CapLe.set_same _ _ _ hy) (regs_putH hR _)
      ⟨⟨_, getH_putH_self hR _, rfl⟩, trivial⟩ ?_
    intro k' ρ
    simp only [tcount, pcount, Pc.claim, hcount_putH, hcount_delH_some hR e, roleOf_created]
    omega
  have hdone : ∀ out : String, MInv (next w tid (w.sys, ⟨prog, .idle, regs, out :: outs⟩)) := fun out =>
    hI.step_same ht (CapLe.refl _) hR ⟨trivial, trivial⟩ (fun _ _ => Nat.le_refl _)
  simp only [stepThread, e]
  repeat' split
  all_goals first
    | exact hdone _
    | exact hset _ _ _ _ _ rfl

theorem inv_puFirst (hI : MInv w) {r idx : Nat} {out : String} {patch : Option Nat}
    (ht : w.threads[tid]? = some ⟨prog, .puFirst r idx out patch, regs, outs⟩) :
    MInv (next w tid (stepThread w.sys ⟨prog, .puFirst r idx out patch, regs, outs⟩)) := by
  have hR : Regs regs := hI.regs _ (mem_of_get ht)
  obtain ⟨h, e, hρ⟩ := hI.need ht (r := r) (ρ := .creator) rfl
  cases patch with
  | none =>
    simp only [stepThread, slotOf, e]
    exact hI.step_same ht (CapLe.ite (CapLe.set_same _ _ _ rfl) (CapLe.refl _)) hR ⟨trivial, trivial⟩
      (fun _ _ => Nat.le_refl _)
  | some loc =>
    simp only [stepThread, slotOf, e]
    exact hI.step_same ht (CapLe.ite (CapLe.set_same _ _ _ rfl) (CapLe.refl _)) hR ⟨⟨h, e, hρ⟩, trivial⟩
      (fun _ _ => Nat.le_refl _)

theorem inv_puPatch (hI : MInv w) {r : Nat} {out : String} {loc : Nat}
    (ht : w.threads[tid]? = some ⟨prog, .puPatch r out loc, regs, outs⟩) :
    MInv (next w tid (stepThread w.sys ⟨prog, .puPatch r out loc, regs, outs⟩)) := by
  have hR : Regs regs := hI.regs _ (mem_of_get ht)
  simp only [stepThread]
  exact hI.step_same ht (CapLe.set_same _ _ _ rfl) hR ⟨trivial, trivial⟩ (fun _ _ => Nat.le_refl _)

/-! ### mark_sendable, drops of a CreatedFrame -/

theorem inv_mkHdr (hI : MInv w) {r a b : Nat}
    (ht : w.threads[tid]? = some ⟨prog, .mkHdr r a b, regs, outs⟩) :
    MInv (next w tid (stepThread w.sys ⟨prog, .mkHdr r a b, regs, outs⟩)) := by
  have hR : Regs regs := hI.regs _ (mem_of_get ht)
  obtain ⟨h, e, hρ⟩ := hI.need ht (r := r) (ρ := .creator) rfl
  simp only [stepThread]
  exact hI.step_same ht (CapLe.set_same _ _ _ rfl) hR ⟨⟨h, e, hρ⟩, trivial⟩ (fun _ _ => Nat.le_refl _)

/-- `mark_sendable`'s plain store of `Sendable`, by the creator: the creator's claim becomes the
    future's. The store is safe because the invariant puts the slot in `Created` with nobody else. -/
theorem inv_mkStore (hI : MInv w) {r a b : Nat}
    (ht : w.threads[tid]? = some ⟨prog, .mkStore r a b, regs, outs⟩) :
    MInv (next w tid (stepThread w.sys ⟨prog, .mkStore r a b, regs, outs⟩)) := by
  have hR : Regs regs := hI.regs _ (mem_of_get ht)
  obtain ⟨h, e, hρ⟩ := hI.need ht (r := r) (ρ := .creator) rfl
  have hg := hI.of_get ht e
  rw [hρ] at hg
  have hst := cap_creator_pos hg.1
  simp only [stepThread, slotOf, e]
  refine hI.step_set ht h.slot _ hg.2 (regs_putH hR _) ⟨⟨_, getH_putH_self hR _, rfl⟩, trivial⟩ ?_ ?_
  · intro k ρ hne
    simp only [tcount, pcount, Pc.claim, hcount_putH, hcount_delH_some hR e, roleOf_fut, one_ne_slot hne]
    omega
  · intro rest h0 _ ρ
    have h1 := h0 ρ
    rw [hst] at h1
    simp only [tcount, pcount, Pc.claim, hcount_putH, hcount_delH_some hR e, roleOf_fut, hρ] at h1 ⊢
    cases ρ <;> simp [cap, one] at h1 ⊢ <;> omega

/-- Drop of the consumed `CreatedFrame` after `mark_sendable`: the `Created → None` compare-exchange
    FAILS, because this thread holds the future, so the status is one of the in-flight ones. -/
theorem inv_mkDrop (hI : MInv w) {r : Nat}
    (ht : w.threads[tid]? = some ⟨prog, .mkDrop r, regs, outs⟩) :
    MInv (next w tid (stepThread w.sys ⟨prog, .mkDrop r, regs, outs⟩)) := by
  have hR : Regs regs := hI.regs _ (mem_of_get ht)
  obtain ⟨h, e, hρ⟩ := hI.need ht (r := r) (ρ := .fut) rfl
  have hg := hI.of_get ht e
  rw [hρ] at hg
  have hne : ¬ (w.sys.slot h.slot).st = .created := by
    intro hc
    have := hg.1
    rw [hc] at this
    simp [cap] at this
  simp only [stepThread, slotOf, e, if_neg hne]
  exact hI.step_same ht (CapLe.refl _) hR ⟨trivial, trivial⟩ (fun _ _ => Nat.le_refl _)

/-- Drop of an unsent `CreatedFrame`: `Created → None` by the creator. -/
theorem inv_dcCas (hI : MInv w) {r : Nat}
    (ht : w.threads[tid]? = some ⟨prog, .dcCas r, regs, outs⟩) :
    MInv (next w tid (stepThread w.sys ⟨prog, .dcCas r, regs, outs⟩)) := by
  have hR : Regs regs := hI.regs _ (mem_of_get ht)
  obtain ⟨h, e, hρ⟩ := hI.need ht (r := r) (ρ := .creator) rfl
  have hg := hI.of_get ht e
  rw [hρ] at hg
  have hst := cap_creator_pos hg.1
  simp only [stepThread, slotOf, e, if_pos hst]
  refine hI.step_set ht h.slot _ hg.2 (regs_delH hR _) ⟨trivial, trivial⟩ ?_ ?_
  · intro k ρ hne
    simp only [tcount, pcount, Pc.claim, Thread.done, hcount_delH_some hR e k ρ]
    omega
  · intro rest h0 _ ρ
    have h1 := h0 ρ
    rw [hst] at h1
    simp only [tcount, pcount, Pc.claim, Thread.done, hcount_delH_some hR e, hρ] at h1 ⊢
    cases ρ <;> simp [cap, one] at h1 ⊢ <;> omega

end Ec.Micro
