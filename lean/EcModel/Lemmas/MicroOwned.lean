/-
  The converse direction of the ownership invariant on the micro-step model: every non-free slot HAS
  an owner (creator, awaiting future, or reader) — with `MInv` (at most one): exactly one.

  This direction needs one more modelling hypothesis, `¬ ClobberStep`: `al r` / `tn r` store the new
  handle into a FREE register. In the model `putH` replaces an old handle without running its
  destructor (the real harness would drop it), so a clobbered owner handle would leave its slot
  non-free with nobody responsible. `MInv` itself (mutual exclusion) does not need this hypothesis.
-/
import EcModel.Lemmas.MicroInvMain

namespace Ec.Micro
open Ec

/-! ## definitions -/

/-- The step `tid` is about to take stores a new handle (`alBuf`: the `CreatedFrame`; `tnCas`: the
    `SendableFrame`) into a register that is occupied. -/
def ClobberStep (w : MWorld) (tid : Nat) : Prop :=
  ∃ t r, w.threads[tid]? = some t ∧ ((∃ k, t.pc = .alBuf r k) ∨ (∃ i, t.pc = .tnCas r i)) ∧
    getH t.regs r ≠ none

def okWas (a : St) : Prop := a = .sendable ∨ a = .sending ∨ a = .sent ∨ a = .rxBusy

/-- The status a retrying `poll` remembered (`was`) is one the future can be in. -/
def WasOk (t : Thread) : Prop :=
  match t.pc with
  | .poRetry _ was _ => okWas was
  | _ => True

/-- **Every non-free slot has an owner.** -/
structure MOwned (w : MWorld) : Prop where
  owned : ∀ k, (w.sys.slot k).st ≠ .none → 1 ≤ (w.threads.map (fun t => ownerCount t k)).sum
  was : ∀ t ∈ w.threads, WasOk t

/-- No slot becomes non-free. -/
def NoneLe (s s' : Sys) : Prop := ∀ k, (s'.slot k).st ≠ .none → (s.slot k).st ≠ .none

theorem NoneLe.refl (s : Sys) : NoneLe s s := fun _ h => h

theorem NoneLe.congr {s s' : Sys} (e : s'.slots = s.slots) : NoneLe s s' := fun k h => by
  rw [slot_congr e] at h; exact h

theorem NoneLe.set (s : Sys) (k₀ : Nat) (y : Slot) (hy : y.st ≠ .none → (s.slot k₀).st ≠ .none) :
    NoneLe s (s.setSlot k₀ y) := by
  intro k h
  rw [slot_setSlot] at h
  split at h
  · next hk => rw [hk.1]; exact hy h
  · exact h

theorem NoneLe.set_same (s : Sys) (k₀ : Nat) (y : Slot) (hy : y.st = (s.slot k₀).st) :
    NoneLe s (s.setSlot k₀ y) := NoneLe.set s k₀ y (fun h => by rw [← hy]; exact h)

theorem NoneLe.ite {s a b : Sys} {c : Prop} [Decidable c] (h1 : NoneLe s a) (h2 : NoneLe s b) :
    NoneLe s (if c then a else b) := by split <;> assumption

/-! ## generic lemmas -/

theorem sum_set_split {ts : List Thread} {tid : Nat} {t : Thread} (h : ts[tid]? = some t) (f : Thread → Nat) :
    ∃ R : Nat, (ts.map f).sum = R + f t ∧ ∀ t', ((ts.set tid t').map f).sum = R + f t' := by
  induction ts generalizing tid with
  | nil => simp at h
  | cons x xs ih =>
    cases tid with
    | zero =>
      simp only [List.getElem?_cons_zero, Option.some.injEq] at h
      subst h
      exact ⟨(xs.map f).sum, by simp; omega, fun t' => by simp; omega⟩
    | succ i =>
      simp only [List.getElem?_cons_succ] at h
      obtain ⟨R, h1, h2⟩ := ih h
      refine ⟨f x + R, ?_, ?_⟩
      · simp only [List.map_cons, List.sum_cons, h1]; omega
      · intro t'
        simp only [List.set_cons_succ, List.map_cons, List.sum_cons, h2 t']; omega

theorem MOwned.step_generic {w : MWorld} (hO : MOwned w) {tid : Nat} {t : Thread}
    (ht : w.threads[tid]? = some t) {s' : Sys} {t' : Thread} (hwas : WasOk t')
    (hk : ∀ k (R : Nat), ((w.sys.slot k).st ≠ .none → 1 ≤ R + ownerCount t k) →
        (s'.slot k).st ≠ .none → 1 ≤ R + ownerCount t' k) :
    MOwned ⟨s', w.threads.set tid t'⟩ := by
  refine ⟨?_, ?_⟩
  · intro k hne
    obtain ⟨R, h1, h2⟩ := sum_set_split ht (fun t => ownerCount t k)
    simp only
    rw [h2 t']
    refine hk k R ?_ hne
    intro h
    have := hO.owned k h
    rw [h1] at this
    exact this
  · intro x hx
    rcases List.mem_or_eq_of_mem_set hx with hx | rfl
    · exact hO.was x hx
    · exact hwas

/-- No slot becomes non-free and the thread loses no owner claim. -/
theorem MOwned.step_keep {w : MWorld} (hO : MOwned w) {tid : Nat} {t : Thread}
    (ht : w.threads[tid]? = some t) {s' : Sys} {t' : Thread} (hs : NoneLe w.sys s') (hwas : WasOk t')
    (hge : ∀ k, ownerCount t k ≤ ownerCount t' k) :
    MOwned ⟨s', w.threads.set tid t'⟩ := by
  refine hO.step_generic ht hwas ?_
  intro k R h0 hne
  have := h0 (hs k hne)
  have := hge k
  omega

/-- One slot changes status: on other slots the thread loses no owner claim; if the slot is non-free
    afterwards, it has an owner. -/
theorem MOwned.step_set {w : MWorld} (hO : MOwned w) {tid : Nat} {t : Thread}
    (ht : w.threads[tid]? = some t) (k₀ : Nat) (y : Slot) {t' : Thread} (hwas : WasOk t')
    (hoth : ∀ k, k ≠ k₀ → ownerCount t k ≤ ownerCount t' k)
    (hk : y.st ≠ .none → ∀ R, ((w.sys.slot k₀).st ≠ .none → 1 ≤ R + ownerCount t k₀) →
        1 ≤ R + ownerCount t' k₀) :
    MOwned ⟨w.sys.setSlot k₀ y, w.threads.set tid t'⟩ := by
  refine hO.step_generic ht hwas ?_
  intro k R h0 hne
  rw [slot_setSlot] at hne
  split at hne
  · next h =>
    obtain ⟨rfl, _⟩ := h
    exact hk hne R h0
  · next h =>
    by_cases hkk : k = k₀
    · subst hkk
      have hlt : ¬ k < w.sys.n := fun hl => h ⟨rfl, hl⟩
      rw [slot_ge _ _ hlt] at hne
      exact absurd rfl hne
    · have := h0 hne
      have := hoth k hkk
      omega

/-! ## per program counter -/

variable {w : MWorld} {tid : Nat} {prog outs : List String} {regs : List Hd}

/-- Closes goals `ownerCount t k ≤ ownerCount t' k` / `1 ≤ ownerCount t' k` after the counts have
    been normalised: evaluates the role comparisons inside `one`, then linear arithmetic. -/
macro "own_arith" : tactic =>
  `(tactic| ((try simp only [one, reduceCtorEq, and_true, and_false, if_false, true_and, false_and]) <;> omega))

theorem own_idle (hO : MOwned w) (ht : w.threads[tid]? = some ⟨prog, .idle, regs, outs⟩)
    (hR : Regs regs) :
    MOwned (next w tid (stepThread w.sys ⟨prog, .idle, regs, outs⟩)) := by
  simp only [stepThread]
  have key : (begin w.sys ⟨prog, .idle, regs, outs⟩).1 = w.sys ∧
      WasOk (begin w.sys ⟨prog, .idle, regs, outs⟩).2 ∧
      ∀ k ρ, tcount ⟨prog, .idle, regs, outs⟩ k ρ = tcount (begin w.sys ⟨prog, .idle, regs, outs⟩).2 k ρ := by
    unfold begin
    split
    · exact ⟨rfl, trivial, fun _ _ => rfl⟩
    · repeat' (first | split | dsimp only)
      all_goals first
        | exact ⟨rfl, trivial, fun _ _ => rfl⟩
        | (rename_i heq
           exact ⟨rfl, trivial, fun k ρ =>
             congrArg (0 + ·) (hcount_retag hR heq _ rfl _ rfl k ρ).symm⟩)
  obtain ⟨h1, h2, h3⟩ := key
  refine hO.step_keep ht (by rw [h1]; exact NoneLe.refl _) h2 ?_
  intro k
  simp only [ownerCount, h3]
  omega

theorem own_alFetch (hO : MOwned w) {r j : Nat}
    (ht : w.threads[tid]? = some ⟨prog, .alFetch r j, regs, outs⟩) :
    MOwned (next w tid (stepThread w.sys ⟨prog, .alFetch r j, regs, outs⟩)) := by
  simp only [stepThread]
  exact hO.step_keep ht (NoneLe.congr rfl) trivial (fun _ => Nat.le_refl _)

theorem own_alCas (hO : MOwned w) {r j idx : Nat}
    (ht : w.threads[tid]? = some ⟨prog, .alCas r j idx, regs, outs⟩) :
    MOwned (next w tid (stepThread w.sys ⟨prog, .alCas r j idx, regs, outs⟩)) := by
  simp only [stepThread]
  split
  · refine hO.step_set ht idx _ trivial ?_ ?_
    · intro k hne
      simp only [ownerCount, tcount, pcount, Pc.claim]
      omega
    · intro _ R _
      simp only [ownerCount, tcount, pcount, Pc.claim, one_self]
      omega
  · split
    · exact hO.step_keep ht (NoneLe.refl _) trivial (fun _ => Nat.le_refl _)
    · exact hO.step_keep ht (NoneLe.refl _) trivial (fun _ => Nat.le_refl _)

theorem own_alWaker (hO : MOwned w) {r k : Nat}
    (ht : w.threads[tid]? = some ⟨prog, .alWaker r k, regs, outs⟩) :
    MOwned (next w tid (stepThread w.sys ⟨prog, .alWaker r k, regs, outs⟩)) := by
  simp only [stepThread]
  exact hO.step_keep ht (NoneLe.refl _) trivial (fun _ => Nat.le_refl _)

theorem own_alFirst (hO : MOwned w) {r k : Nat}
    (ht : w.threads[tid]? = some ⟨prog, .alFirst r k, regs, outs⟩) :
    MOwned (next w tid (stepThread w.sys ⟨prog, .alFirst r k, regs, outs⟩)) := by
  simp only [stepThread]
  exact hO.step_keep ht (NoneLe.set_same _ _ _ rfl) trivial (fun _ => Nat.le_refl _)

/-- The claim moves from the program counter into the (free) register. -/
theorem own_alBuf (hO : MOwned w) (hnc : ¬ ClobberStep w tid) {r k : Nat}
    (ht : w.threads[tid]? = some ⟨prog, .alBuf r k, regs, outs⟩) :
    MOwned (next w tid (stepThread w.sys ⟨prog, .alBuf r k, regs, outs⟩)) := by
  have hfree : getH regs r = none := by
    by_cases h : getH regs r = none
    · exact h
    · exact absurd ⟨_, r, ht, Or.inl ⟨k, rfl⟩, h⟩ hnc
  simp only [stepThread]
  refine hO.step_keep ht (NoneLe.set_same _ _ _ rfl) trivial ?_
  intro k'
  simp only [ownerCount, tcount, pcount, Pc.claim, Thread.done, hcount_putH, delH_of_none hfree, roleOf_created]
  omega

theorem own_puFetch (hO : MOwned w) {r : Nat} {c : Cmd} {data : List Nat} {lenOv : Option Nat} {rest : Bool}
    (ht : w.threads[tid]? = some ⟨prog, .puFetch r c data lenOv rest, regs, outs⟩) :
    MOwned (next w tid (stepThread w.sys ⟨prog, .puFetch r c data lenOv rest, regs, outs⟩)) := by
  simp only [stepThread]
  exact hO.step_keep ht (NoneLe.congr rfl) trivial (fun _ => Nat.le_refl _)

theorem own_puWrite (hI : MInv w) (hO : MOwned w) {r : Nat} {c : Cmd} {data : List Nat} {lenOv : Option Nat}
    {rest : Bool} {idx : Nat}
    (ht : w.threads[tid]? = some ⟨prog, .puWrite r c data lenOv rest idx, regs, outs⟩) :
    MOwned (next w tid (stepThread w.sys ⟨prog, .puWrite r c data lenOv rest idx, regs, outs⟩)) := by
  have hR : Regs regs := hI.regs _ (mem_of_get ht)
  obtain ⟨⟨reg, k, kind⟩, e, hρ⟩ := hI.need ht (r := r) (ρ := .creator) rfl
  cases kind <;> simp at hρ
  rename_i count last
  have hset : ∀ (y : Slot) (c' : Nat) (l' : Option Nat) (out : String) (p : Option Nat),
      y.st = (w.sys.slot k).st →
      MOwned (next w tid (w.sys.setSlot k y,
        ⟨prog, .puFirst r idx out p, putH regs ⟨r, k, .created c' l'⟩, outs⟩)) := by
    intro y c' l' out p hy
    refine hO.step_keep ht (NoneLe.set_same _ _ _ hy) trivial ?_
    intro k'
    simp only [ownerCount, tcount, pcount, Pc.claim, hcount_putH, hcount_delH_some hR e, roleOf_created]
    omega
  have hdone : ∀ out : String, MOwned (next w tid (w.sys, ⟨prog, .idle, regs, out :: outs⟩)) := fun out =>
    hO.step_keep ht (NoneLe.refl _) trivial (fun _ => Nat.le_refl _)
  simp only [stepThread, e]
  repeat' split
  all_goals first
    | exact hdone _
    | exact hset _ _ _ _ _ rfl

theorem own_puFirst (hO : MOwned w) {r idx : Nat} {out : String} {patch : Option Nat}
    (ht : w.threads[tid]? = some ⟨prog, .puFirst r idx out patch, regs, outs⟩) :
    MOwned (next w tid (stepThread w.sys ⟨prog, .puFirst r idx out patch, regs, outs⟩)) := by
  cases patch with
  | none =>
    simp only [stepThread]
    exact hO.step_keep ht (NoneLe.ite (NoneLe.set_same _ _ _ rfl) (NoneLe.refl _)) trivial
      (fun _ => Nat.le_refl _)
  | some loc =>
    simp only [stepThread]
    exact hO.step_keep ht (NoneLe.ite (NoneLe.set_same _ _ _ rfl) (NoneLe.refl _)) trivial
      (fun _ => Nat.le_refl _)

theorem own_puPatch (hO : MOwned w) {r : Nat} {out : String} {loc : Nat}
    (ht : w.threads[tid]? = some ⟨prog, .puPatch r out loc, regs, outs⟩) :
    MOwned (next w tid (stepThread w.sys ⟨prog, .puPatch r out loc, regs, outs⟩)) := by
  simp only [stepThread]
  exact hO.step_keep ht (NoneLe.set_same _ _ _ rfl) trivial (fun _ => Nat.le_refl _)

theorem own_mkHdr (hO : MOwned w) {r a b : Nat}
    (ht : w.threads[tid]? = some ⟨prog, .mkHdr r a b, regs, outs⟩) :
    MOwned (next w tid (stepThread w.sys ⟨prog, .mkHdr r a b, regs, outs⟩)) := by
  simp only [stepThread]
  exact hO.step_keep ht (NoneLe.set_same _ _ _ rfl) trivial (fun _ => Nat.le_refl _)

theorem own_mkStore (hI : MInv w) (hO : MOwned w) {r a b : Nat}
    (ht : w.threads[tid]? = some ⟨prog, .mkStore r a b, regs, outs⟩) :
    MOwned (next w tid (stepThread w.sys ⟨prog, .mkStore r a b, regs, outs⟩)) := by
  have hR : Regs regs := hI.regs _ (mem_of_get ht)
  obtain ⟨h, e, hρ⟩ := hI.need ht (r := r) (ρ := .creator) rfl
  simp only [stepThread, slotOf, e]
  refine hO.step_set ht h.slot _ trivial ?_ ?_
  · intro k hne
    simp only [ownerCount, tcount, pcount, Pc.claim, hcount_putH, hcount_delH_some hR e, roleOf_fut, hρ,
      one_ne_slot hne]
    omega
  · intro _ R _
    simp only [ownerCount, tcount, pcount, Pc.claim, hcount_putH, roleOf_fut, one_self]
    omega

theorem own_mkDrop (hI : MInv w) (hO : MOwned w) {r : Nat}
    (ht : w.threads[tid]? = some ⟨prog, .mkDrop r, regs, outs⟩) :
    MOwned (next w tid (stepThread w.sys ⟨prog, .mkDrop r, regs, outs⟩)) := by
  obtain ⟨h, e, hρ⟩ := hI.need ht (r := r) (ρ := .fut) rfl
  have hg := hI.of_get ht e
  rw [hρ] at hg
  have hne : ¬ (w.sys.slot h.slot).st = .created := by
    intro hc
    have := hg.1
    rw [hc] at this
    simp [cap] at this
  simp only [stepThread, slotOf, e, if_neg hne]
  exact hO.step_keep ht (NoneLe.refl _) trivial (fun _ => Nat.le_refl _)

theorem own_dcCas (hI : MInv w) (hO : MOwned w) {r : Nat}
    (ht : w.threads[tid]? = some ⟨prog, .dcCas r, regs, outs⟩) :
    MOwned (next w tid (stepThread w.sys ⟨prog, .dcCas r, regs, outs⟩)) := by
  have hR : Regs regs := hI.regs _ (mem_of_get ht)
  obtain ⟨h, e, hρ⟩ := hI.need ht (r := r) (ρ := .creator) rfl
  have hg := hI.of_get ht e
  rw [hρ] at hg
  have hst := cap_creator_pos hg.1
  simp only [stepThread, slotOf, e, if_pos hst]
  refine hO.step_set ht h.slot _ trivial ?_ ?_
  · intro k hne
    simp only [ownerCount, tcount, pcount, Pc.claim, Thread.done, hcount_delH_some hR e k, one_ne_slot hne]
    omega
  · intro hy; exact absurd rfl hy

theorem own_tnCas (hO : MOwned w) (hnc : ¬ ClobberStep w tid) {r i : Nat}
    (ht : w.threads[tid]? = some ⟨prog, .tnCas r i, regs, outs⟩) :
    MOwned (next w tid (stepThread w.sys ⟨prog, .tnCas r i, regs, outs⟩)) := by
  have hfree : getH regs r = none := by
    by_cases h : getH regs r = none
    · exact h
    · exact absurd ⟨_, r, ht, Or.inr ⟨i, rfl⟩, h⟩ hnc
  simp only [stepThread]
  split
  · next hst =>
    have hcnt : ∀ k, ownerCount ⟨prog, .tnCas r i, regs, outs⟩ k ≤
        ownerCount ⟨prog, .idle, putH regs ⟨r, i, .sendable⟩, s!"some.{i}" :: outs⟩ k := by
      intro k
      simp only [ownerCount, tcount, pcount, Pc.claim, hcount_putH, delH_of_none hfree, roleOf_sendable]
      own_arith
    refine hO.step_set ht i _ trivial (fun k _ => hcnt k) ?_
    intro _ R h0
    exact Nat.le_trans (h0 (by rw [hst]; simp)) (Nat.add_le_add_left (hcnt i) R)
  · split
    · exact hO.step_keep ht (NoneLe.refl _) trivial (fun _ => Nat.le_refl _)
    · exact hO.step_keep ht (NoneLe.refl _) trivial (fun _ => Nat.le_refl _)

theorem own_tsRead (hO : MOwned w) {r o : Nat}
    (ht : w.threads[tid]? = some ⟨prog, .tsRead r o, regs, outs⟩) :
    MOwned (next w tid (stepThread w.sys ⟨prog, .tsRead r o, regs, outs⟩)) := by
  simp only [stepThread]
  exact hO.step_keep ht (NoneLe.refl _) trivial (fun _ => Nat.le_refl _)

theorem own_tsMark (hI : MInv w) (hO : MOwned w) {r o : Nat} {bytes : List Nat}
    (ht : w.threads[tid]? = some ⟨prog, .tsMark r o bytes, regs, outs⟩) :
    MOwned (next w tid (stepThread w.sys ⟨prog, .tsMark r o bytes, regs, outs⟩)) := by
  have hR : Regs regs := hI.regs _ (mem_of_get ht)
  obtain ⟨h, e, hρ⟩ := hI.need ht (r := r) (ρ := .tx) rfl
  have hcnt : ∀ (out : String) k, ownerCount ⟨prog, .tsMark r o bytes, regs, outs⟩ k ≤
      ownerCount ⟨prog, .idle, delH regs r, out :: outs⟩ k := by
    intro out k
    simp only [ownerCount, tcount, pcount, Pc.claim, hcount_delH_some hR e k, hρ]
    own_arith
  by_cases hst : (w.sys.slot h.slot).st = .sending
  · simp only [stepThread, slotOf, e, if_pos hst]
    refine hO.step_set ht h.slot _ trivial (fun k _ => hcnt _ k) ?_
    intro _ R h0
    exact Nat.le_trans (h0 (by rw [hst]; simp)) (Nat.add_le_add_left (hcnt _ h.slot) R)
  · simp only [stepThread, slotOf, e, if_neg hst]
    exact hO.step_keep ht (NoneLe.refl _) trivial (fun k => hcnt _ k)

theorem own_rxState (hO : MOwned w) {i : Nat} {p : List Nat} {idx : Nat}
    (ht : w.threads[tid]? = some ⟨prog, .rxState i p idx, regs, outs⟩) :
    MOwned (next w tid (stepThread w.sys ⟨prog, .rxState i p idx, regs, outs⟩)) := by
  simp only [stepThread]
  repeat' split
  all_goals exact hO.step_keep ht (NoneLe.refl _) trivial (fun _ => Nat.le_refl _)

theorem own_rxMarker (hO : MOwned w) {i : Nat} {p : List Nat} {idx : Nat}
    (ht : w.threads[tid]? = some ⟨prog, .rxMarker i p idx, regs, outs⟩) :
    MOwned (next w tid (stepThread w.sys ⟨prog, .rxMarker i p idx, regs, outs⟩)) := by
  simp only [stepThread]
  repeat' split
  all_goals exact hO.step_keep ht (NoneLe.refl _) trivial (fun _ => Nat.le_refl _)

theorem own_rxClaim (hO : MOwned w) {k : Nat} {p : List Nat} {idx : Nat}
    (ht : w.threads[tid]? = some ⟨prog, .rxClaim k p idx, regs, outs⟩) :
    MOwned (next w tid (stepThread w.sys ⟨prog, .rxClaim k p idx, regs, outs⟩)) := by
  simp only [stepThread]
  split
  · next hst =>
    have hcnt : ∀ k', ownerCount ⟨prog, .rxClaim k p idx, regs, outs⟩ k' ≤
        ownerCount ⟨prog, .rxVerify k p idx, regs, outs⟩ k' := by
      intro k'
      simp only [ownerCount, tcount, pcount, Pc.claim]
      own_arith
    refine hO.step_set ht k _ trivial (fun k' _ => hcnt k') ?_
    intro _ R h0
    exact Nat.le_trans (h0 (by rw [hst]; simp)) (Nat.add_le_add_left (hcnt k) R)
  · exact hO.step_keep ht (NoneLe.refl _) trivial (fun _ => Nat.le_refl _)

theorem own_rxVerify (hO : MOwned w) {k : Nat} {p : List Nat} {idx : Nat}
    (ht : w.threads[tid]? = some ⟨prog, .rxVerify k p idx, regs, outs⟩) :
    MOwned (next w tid (stepThread w.sys ⟨prog, .rxVerify k p idx, regs, outs⟩)) := by
  simp only [stepThread]
  split
  all_goals exact hO.step_keep ht (NoneLe.refl _) trivial (fun _ => Nat.le_refl _)

theorem own_rxUnclaim (hO : MOwned w) {k : Nat}
    (ht : w.threads[tid]? = some ⟨prog, .rxUnclaim k, regs, outs⟩) :
    MOwned (next w tid (stepThread w.sys ⟨prog, .rxUnclaim k, regs, outs⟩)) := by
  have hcnt : ∀ (outs' : List String) (k' : Nat),
      ownerCount ⟨prog, .rxUnclaim k, regs, outs⟩ k' ≤ ownerCount ⟨prog, .idle, regs, outs'⟩ k' := by
    intro outs' k'
    simp only [ownerCount, tcount, pcount, Pc.claim]
    own_arith
  by_cases hst : (w.sys.slot k).st = .rxBusy
  · simp only [stepThread, if_pos hst]
    refine hO.step_set ht k _ trivial (fun k' _ => hcnt _ k') ?_
    intro _ R h0
    exact Nat.le_trans (h0 (by rw [hst]; simp)) (Nat.add_le_add_left (hcnt _ k) R)
  · simp only [stepThread, if_neg hst]
    exact hO.step_keep ht (NoneLe.refl _) trivial (fun k' => hcnt _ k')

theorem own_rxCopy (hO : MOwned w) {k : Nat} {p : List Nat}
    (ht : w.threads[tid]? = some ⟨prog, .rxCopy k p, regs, outs⟩) :
    MOwned (next w tid (stepThread w.sys ⟨prog, .rxCopy k p, regs, outs⟩)) := by
  simp only [stepThread]
  split
  · refine hO.step_keep ht (NoneLe.refl _) trivial ?_
    intro k'
    simp only [ownerCount, tcount, pcount, Pc.claim, Thread.done]
    own_arith
  · exact hO.step_keep ht (NoneLe.set_same _ _ _ rfl) trivial (fun _ => Nat.le_refl _)

theorem own_rxMark (hO : MOwned w) {k : Nat}
    (ht : w.threads[tid]? = some ⟨prog, .rxMark k, regs, outs⟩) :
    MOwned (next w tid (stepThread w.sys ⟨prog, .rxMark k, regs, outs⟩)) := by
  have hcnt : ∀ (pc' : Pc) (outs' : List String) (k' : Nat),
      ownerCount ⟨prog, .rxMark k, regs, outs⟩ k' ≤ ownerCount ⟨prog, pc', regs, outs'⟩ k' := by
    intro pc' outs' k'
    simp only [ownerCount, tcount, pcount, Pc.claim]
    own_arith
  simp only [stepThread]
  split
  · next hst =>
    refine hO.step_set ht k _ trivial (fun k' _ => hcnt _ _ k') ?_
    intro _ R h0
    exact Nat.le_trans (h0 (by rw [hst]; simp)) (Nat.add_le_add_left (hcnt _ _ k) R)
  · exact hO.step_keep ht (NoneLe.refl _) trivial (fun k' => hcnt _ _ k')

theorem own_rxWake (hO : MOwned w) {k : Nat}
    (ht : w.threads[tid]? = some ⟨prog, .rxWake k, regs, outs⟩) :
    MOwned (next w tid (stepThread w.sys ⟨prog, .rxWake k, regs, outs⟩)) := by
  simp only [stepThread]
  exact hO.step_keep ht (NoneLe.refl _) trivial (fun _ => Nat.le_refl _)

theorem own_poWaker (hO : MOwned w) {r : Nat}
    (ht : w.threads[tid]? = some ⟨prog, .poWaker r, regs, outs⟩) :
    MOwned (next w tid (stepThread w.sys ⟨prog, .poWaker r, regs, outs⟩)) := by
  simp only [stepThread]
  exact hO.step_keep ht (NoneLe.refl _) trivial (fun _ => Nat.le_refl _)

theorem own_poCas (hI : MInv w) (hO : MOwned w) {r : Nat}
    (ht : w.threads[tid]? = some ⟨prog, .poCas r, regs, outs⟩) :
    MOwned (next w tid (stepThread w.sys ⟨prog, .poCas r, regs, outs⟩)) := by
  have hR : Regs regs := hI.regs _ (mem_of_get ht)
  obtain ⟨⟨reg, k, kind⟩, e, hρ⟩ := hI.need ht (r := r) (ρ := .fut) rfl
  cases kind <;> simp at hρ
  rename_i retries deadline timeout armed
  have hg := hI.of_get ht e
  have hfl := cap_fut_pos hg.1
  simp only at hfl
  have hrel : MOwned (next w tid (w.sys, ⟨prog, .poRelease r, regs, outs⟩)) :=
    hO.step_keep ht (NoneLe.refl _) trivial (fun _ => Nat.le_refl _)
  have hretry : ∀ was dl, okWas was → MOwned (next w tid (w.sys, ⟨prog, .poRetry r was dl, regs, outs⟩)) :=
    fun _ _ hw => hO.step_keep ht (NoneLe.refl _) hw (fun _ => Nat.le_refl _)
  have hretag : ∀ (out : String) (a b c : Nat) (d : Bool),
      MOwned (next w tid (w.sys, ⟨prog, .idle, putH regs ⟨r, k, .fut a b c d⟩, out :: outs⟩)) := by
    intro out a b c d
    refine hO.step_keep ht (NoneLe.refl _) trivial ?_
    intro k'
    simp only [ownerCount, tcount, pcount, Pc.claim, hcount_putH, hcount_delH_some hR e, roleOf_fut]
    omega
  simp only [stepThread, e]
  split
  · refine hO.step_set ht k _ trivial ?_ ?_
    · intro k' hne
      simp only [ownerCount, tcount, pcount, Pc.claim, Thread.done, hcount_putH, hcount_delH_some hR e,
        roleOf_received, roleOf_fut, one_ne_slot hne]
      omega
    · intro _ R _
      simp only [ownerCount, tcount, pcount, Pc.claim, Thread.done, hcount_putH, roleOf_received, one_self]
      omega
  · next hnd =>
    have hok : okWas (w.sys.slot k).st := by
      rcases hfl with h | h | h | h | h
      · exact Or.inl h
      · exact Or.inr (Or.inl h)
      · exact Or.inr (Or.inr (Or.inl h))
      · exact Or.inr (Or.inr (Or.inr h))
      · exact absurd h hnd
    have hok' : (w.sys.slot k).st = .sendable ∨ (w.sys.slot k).st = .sending ∨ (w.sys.slot k).st = .sent ∨
        (w.sys.slot k).st = .rxBusy := hok
    simp only [if_pos hok']
    repeat' split
    all_goals first
      | exact hrel
      | exact hretry _ _ hok
      | exact hretag _ _ _ _ _

theorem own_abandon (hI : MInv w) (hO : MOwned w) {r : Nat} {pc : Pc}
    (hpc : pc = .poRelease r ∨ pc = .dfStore r) {out : String}
    (ht : w.threads[tid]? = some ⟨prog, pc, regs, outs⟩) :
    MOwned (next w tid (w.sys.setSlot (slotOf ⟨prog, pc, regs, outs⟩ r)
        { w.sys.slot (slotOf ⟨prog, pc, regs, outs⟩ r) with st := .none },
      ⟨prog, .idle, delH regs r, out :: outs⟩)) := by
  have hR : Regs regs := hI.regs _ (mem_of_get ht)
  have hneeds : pc.needs = some (r, .fut) := by rcases hpc with rfl | rfl <;> rfl
  have hclaim : pc.claim = none := by rcases hpc with rfl | rfl <;> rfl
  obtain ⟨h, e, hρ⟩ := hI.need ht (r := r) (ρ := .fut) hneeds
  have hk : slotOf ⟨prog, pc, regs, outs⟩ r = h.slot := by simp [slotOf, e]
  have e1 : ∀ k ρ, tcount ⟨prog, pc, regs, outs⟩ k ρ = hcount regs k ρ := by
    intro k ρ; simp only [tcount, pcount, hclaim]; omega
  have e2 : ∀ k ρ, tcount ⟨prog, .idle, delH regs r, out :: outs⟩ k ρ = hcount (delH regs r) k ρ := by
    intro k ρ; exact Nat.zero_add _
  rw [hk]
  refine hO.step_set ht h.slot _ trivial ?_ ?_
  · intro k hne
    simp only [ownerCount, e1, e2, hcount_delH_some hR e k, one_ne_slot hne]
    omega
  · intro hy; exact absurd rfl hy

theorem own_poRelease (hI : MInv w) (hO : MOwned w) {r : Nat}
    (ht : w.threads[tid]? = some ⟨prog, .poRelease r, regs, outs⟩) :
    MOwned (next w tid (stepThread w.sys ⟨prog, .poRelease r, regs, outs⟩)) := by
  simp only [stepThread]
  exact own_abandon hI hO (Or.inl rfl) ht

theorem own_dfStore (hI : MInv w) (hO : MOwned w) {r : Nat}
    (ht : w.threads[tid]? = some ⟨prog, .dfStore r, regs, outs⟩) :
    MOwned (next w tid (stepThread w.sys ⟨prog, .dfStore r, regs, outs⟩)) := by
  simp only [stepThread]
  exact own_abandon hI hO (Or.inr rfl) ht

theorem NoneLe.retry (s : Sys) (k : Nat) :
    NoneLe s (if (s.slot k).st = .sent then s.setSlot k { s.slot k with st := .sendable } else s) := by
  split
  · next h => exact NoneLe.set _ _ _ (fun _ => by rw [h]; simp)
  · exact NoneLe.refl _

theorem own_poRetry (hI : MInv w) (hO : MOwned w) {r : Nat} {was : St} {dl : Nat}
    (ht : w.threads[tid]? = some ⟨prog, .poRetry r was dl, regs, outs⟩) :
    MOwned (next w tid (stepThread w.sys ⟨prog, .poRetry r was dl, regs, outs⟩)) := by
  have hR : Regs regs := hI.regs _ (mem_of_get ht)
  obtain ⟨⟨reg, k, kind⟩, e, hρ⟩ := hI.need ht (r := r) (ρ := .fut) rfl
  cases kind <;> simp at hρ
  rename_i retries deadline timeout armed
  have hw : was = .sendable ∨ was = .sending ∨ was = .sent ∨ was = .rxBusy := hO.was _ (mem_of_get ht)
  simp only [stepThread, e, if_pos hw]
  refine hO.step_keep ht (NoneLe.retry _ _) trivial ?_
  intro k'
  simp only [ownerCount, tcount, pcount, Pc.claim, Thread.done, hcount_putH, hcount_delH_some hR e, roleOf_fut]
  omega

theorem own_fpRead (hI : MInv w) (hO : MOwned w) {r code idx : Nat}
    (ht : w.threads[tid]? = some ⟨prog, .fpRead r code idx, regs, outs⟩) :
    MOwned (next w tid (stepThread w.sys ⟨prog, .fpRead r code idx, regs, outs⟩)) := by
  have hR : Regs regs := hI.regs _ (mem_of_get ht)
  obtain ⟨h, e, hρ⟩ := hI.need ht (r := r) (ρ := .reader) rfl
  have hclr : ∀ out, MOwned (next w tid (w.sys, ⟨prog, .rfClear r out, regs, outs⟩)) := fun out =>
    hO.step_keep ht (NoneLe.refl _) trivial (fun _ => Nat.le_refl _)
  have hview : ∀ (out : String) (off len wkc : Nat),
      MOwned (next w tid (w.sys, ⟨prog, .idle, putH regs ⟨r, h.slot, .view off len wkc⟩, out :: outs⟩)) := by
    intro out off len wkc
    refine hO.step_keep ht (NoneLe.refl _) trivial ?_
    intro k
    simp only [ownerCount, tcount, pcount, Pc.claim, hcount_putH, hcount_delH_some hR e, roleOf_view, hρ]
    omega
  simp only [stepThread, slotOf, e]
  repeat' split
  all_goals first
    | exact hclr _
    | exact hview _ _ _ _

theorem own_rfClear (hO : MOwned w) {r : Nat} {out : String}
    (ht : w.threads[tid]? = some ⟨prog, .rfClear r out, regs, outs⟩) :
    MOwned (next w tid (stepThread w.sys ⟨prog, .rfClear r out, regs, outs⟩)) := by
  simp only [stepThread]
  exact hO.step_keep ht (NoneLe.set_same _ _ _ rfl) trivial (fun _ => Nat.le_refl _)

theorem own_rfCas (hI : MInv w) (hO : MOwned w) {r : Nat} {out : String}
    (ht : w.threads[tid]? = some ⟨prog, .rfCas r out, regs, outs⟩) :
    MOwned (next w tid (stepThread w.sys ⟨prog, .rfCas r out, regs, outs⟩)) := by
  have hR : Regs regs := hI.regs _ (mem_of_get ht)
  obtain ⟨h, e, hρ⟩ := hI.need ht (r := r) (ρ := .reader) rfl
  have hg := hI.of_get ht e
  rw [hρ] at hg
  have hst := cap_reader_pos hg.1
  simp only [stepThread, slotOf, e, if_pos hst]
  refine hO.step_set ht h.slot _ trivial ?_ ?_
  · intro k hne
    simp only [ownerCount, tcount, pcount, Pc.claim, Thread.done, hcount_delH_some hR e k, one_ne_slot hne]
    omega
  · intro hy; exact absurd rfl hy

theorem own_itNext (hO : MOwned w) {r left : Nat} {pos : Option Nat} {acc : List String}
    (ht : w.threads[tid]? = some ⟨prog, .itNext r left pos acc, regs, outs⟩) :
    MOwned (next w tid (stepThread w.sys ⟨prog, .itNext r left pos acc, regs, outs⟩)) := by
  simp only [stepThread]
  repeat' split
  all_goals exact hO.step_keep ht (NoneLe.refl _) trivial (fun _ => Nat.le_refl _)

theorem own_itRead (hO : MOwned w) {r left : Nat} {pos : Option Nat} {acc : List String} {off len wkc : Nat}
    (ht : w.threads[tid]? = some ⟨prog, .itRead r left pos acc off len wkc, regs, outs⟩) :
    MOwned (next w tid (stepThread w.sys ⟨prog, .itRead r left pos acc off len wkc, regs, outs⟩)) := by
  simp only [stepThread]
  repeat' split
  all_goals exact hO.step_keep ht (NoneLe.refl _) trivial (fun _ => Nat.le_refl _)

theorem own_vrRead (hO : MOwned w) {r : Nat}
    (ht : w.threads[tid]? = some ⟨prog, .vrRead r, regs, outs⟩) :
    MOwned (next w tid (stepThread w.sys ⟨prog, .vrRead r, regs, outs⟩)) := by
  simp only [stepThread]
  split
  all_goals exact hO.step_keep ht (NoneLe.refl _) trivial (fun _ => Nat.le_refl _)

/-! ## assembly -/

theorem own_stepThread (hI : MInv w) (hO : MOwned w) (hnc : ¬ ClobberStep w tid) {t : Thread}
    (ht : w.threads[tid]? = some t) : MOwned (next w tid (stepThread w.sys t)) := by
  obtain ⟨prog, pc, regs, outs⟩ := t
  cases pc with
  | idle => exact own_idle hO ht (hI.regs _ (mem_of_get ht))
  | alFetch r j => exact own_alFetch hO ht
  | alCas r j idx => exact own_alCas hO ht
  | alWaker r k => exact own_alWaker hO ht
  | alFirst r k => exact own_alFirst hO ht
  | alBuf r k => exact own_alBuf hO hnc ht
  | puFetch r c data lenOv rest => exact own_puFetch hO ht
  | puWrite r c data lenOv rest idx => exact own_puWrite hI hO ht
  | puFirst r idx out patch => exact own_puFirst hO ht
  | puPatch r out loc => exact own_puPatch hO ht
  | mkHdr r a b => exact own_mkHdr hO ht
  | mkStore r a b => exact own_mkStore hI hO ht
  | mkDrop r => exact own_mkDrop hI hO ht
  | dcCas r => exact own_dcCas hI hO ht
  | tnCas r i => exact own_tnCas hO hnc ht
  | tsRead r o => exact own_tsRead hO ht
  | tsMark r o bytes => exact own_tsMark hI hO ht
  | rxState i p idx => exact own_rxState hO ht
  | rxMarker i p idx => exact own_rxMarker hO ht
  | rxClaim k p idx => exact own_rxClaim hO ht
  | rxVerify k p idx => exact own_rxVerify hO ht
  | rxUnclaim k => exact own_rxUnclaim hO ht
  | rxCopy k p => exact own_rxCopy hO ht
  | rxMark k => exact own_rxMark hO ht
  | rxWake k => exact own_rxWake hO ht
  | poWaker r => exact own_poWaker hO ht
  | poCas r => exact own_poCas hI hO ht
  | poRelease r => exact own_poRelease hI hO ht
  | poRetry r was dl => exact own_poRetry hI hO ht
  | dfStore r => exact own_dfStore hI hO ht
  | fpRead r code idx => exact own_fpRead hI hO ht
  | rfClear r out => exact own_rfClear hO ht
  | rfCas r out => exact own_rfCas hI hO ht
  | itNext r left pos acc => exact own_itNext hO ht
  | itRead r left pos acc off len wkc => exact own_itRead hO ht
  | vrRead r => exact own_vrRead hO ht

/-- **`MOwned` is preserved by every granted step** that stores new handles into free registers,
    from a world where `MInv` holds. -/
theorem MOwned.step {w' : MWorld} (hI : MInv w) (hO : MOwned w) (hnc : ¬ ClobberStep w tid)
    (hs : Micro.step w tid = some w') : MOwned w' := by
  obtain ⟨t, ht, rfl⟩ := step_eq hs
  exact own_stepThread hI hO hnc ht

/-- No step of the schedule abandons inside the window or clobbers a register. -/
def FreshSafeSched : MWorld → List Tick → Prop
  | _, [] => True
  | w, x :: rest =>
    (match x with
     | .run tid => ¬ AbandonInsideStep w tid ∧ ¬ ClobberStep w tid
     | .advance _ => True) ∧ FreshSafeSched (tick w x) rest

theorem FreshSafeSched.safe {w : MWorld} {sched : List Tick} (h : FreshSafeSched w sched) : SafeSched w sched := by
  induction sched generalizing w with
  | nil => trivial
  | cons x rest ih =>
    obtain ⟨hx, hr⟩ := h
    refine ⟨?_, ih hr⟩
    cases x with
    | run tid => exact hx.1
    | advance us => trivial

theorem MOwned_init (n data fi pi : Nat) (progs : List (List String)) :
    MOwned (initWorld n data fi pi progs) := by
  refine ⟨?_, ?_⟩
  · intro k hne
    exact absurd (init_slot_none n data fi pi k) hne
  · intro t ht
    simp only [initWorld, List.mem_map] at ht
    obtain ⟨p, _, rfl⟩ := ht
    trivial

theorem MOwned.run {w : MWorld} (hI : MInv w) (hO : MOwned w) (sched : List Tick)
    (hs : FreshSafeSched w sched) : MInv (runSched w sched) ∧ MOwned (runSched w sched) := by
  induction sched generalizing w with
  | nil => exact ⟨hI, hO⟩
  | cons x rest ih =>
    obtain ⟨hx, hrest⟩ := hs
    cases x with
    | run tid =>
      have hI' : MInv (tick w (.run tid)) := hI.tick (.run tid) hx.1
      have hO' : MOwned (tick w (.run tid)) := by
        simp only [Micro.tick]
        cases hstep : Micro.step w tid with
        | none => simpa using hO
        | some w' => simpa using MOwned.step hI hO hx.2 hstep
      exact ih hI' hO' hrest
    | advance us =>
      exact ih (hI.advance us) ⟨hO.owned, hO.was⟩ hrest

/-- **Exactly one owner.** Under both invariants a non-free slot has an owner thread, and any two
    owner threads coincide. -/
theorem exactly_one_owner {w : MWorld} (hI : MInv w) (hO : MOwned w) {k : Nat}
    (hne : (w.sys.slot k).st ≠ .none) :
    ∃ (i : Nat) (t : Thread), w.threads[i]? = some t ∧ Owner t k ∧
      ∀ (j : Nat) (t' : Thread), w.threads[j]? = some t' → Owner t' k → j = i := by
  have h1 := hO.owned k hne
  have hex : ∃ t ∈ w.threads, 0 < ownerCount t k := by
    have : ∀ ts : List Thread, 1 ≤ (ts.map (fun t => ownerCount t k)).sum → ∃ t ∈ ts, 0 < ownerCount t k := by
      intro ts
      induction ts with
      | nil => intro h; simp at h
      | cons x xs ih =>
        intro h
        simp only [List.map_cons, List.sum_cons] at h
        by_cases hx : 0 < ownerCount x k
        · exact ⟨x, List.mem_cons_self, hx⟩
        · obtain ⟨t, hm, ht⟩ := ih (by omega)
          exact ⟨t, List.mem_cons_of_mem _ hm, ht⟩
    exact this _ h1
  obtain ⟨t, hm, hpos⟩ := hex
  obtain ⟨i, hi⟩ := List.getElem?_of_mem hm
  refine ⟨i, t, hi, (owner_iff t k).mpr hpos, ?_⟩
  intro j t' hj ho
  exact hI.unique_owner hj hi ho ((owner_iff t k).mpr hpos)

end Ec.Micro
