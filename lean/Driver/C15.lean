import EcModel.Drv.C15
def main : IO Unit := Ec.Drv.runDriver Ec.Drv.C15.handle
