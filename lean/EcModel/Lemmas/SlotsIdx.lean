/-
  Ghost bookkeeping of the shared datagram-index counter along a history (C01Idx): which absolute
  draw gave each slot's current occupant its first datagram index.
-/
import EcModel.Lemmas.SlotsRetry

namespace Ec

/-- Ghost state: `ctr` = absolute number of the next index to be drawn (`pi0 + draws`; `reset`
    restarts it at 0 like the real counter), `fd k` = the absolute draw that gave slot `k`'s current
    occupant its FIRST datagram index (`none`: it has pushed no datagram yet). -/
structure G where
  ctr : Nat
  fd : Nat → Option Nat

def G.init (pi : Nat) : G := ⟨pi, fun _ => none⟩

/-- Ghost effect of one operation, computed from the world it is executed in. -/
def gstep (w : World) (g : G) : Op → G
  | .alloc r =>
    if (getH w.2 r).isNone then
      match (allocLoop w.1 (2 * w.1.n)).2 with
      | some i => { g with fd := fun j => if j = i then none else g.fd j }
      | none => g
    else g
  | .push r c d l =>
    match getH w.2 r with
    | some ⟨_, k, .created count last⟩ =>
      match ((slotFrame w.1 (w.1.slot k) count last).pushPdu c d l w.1.pduIdx).2 with
      | some _ => ⟨g.ctr + 1, fun j => if j = k ∧ g.fd k = none then some g.ctr else g.fd j⟩
      | none => ⟨g.ctr + 1, g.fd⟩        -- the index is drawn even when the push fails (TooLong)
    | _ => g
  | .rest r c b =>
    match getH w.2 r with
    | some ⟨_, k, .created count last⟩ =>
      match ((slotFrame w.1 (w.1.slot k) count last).pushRest c b w.1.pduIdx).2 with
      | (.some _ _, _) => ⟨g.ctr + 1, fun j => if j = k ∧ g.fd k = none then some g.ctr else g.fd j⟩
      | (_, true) => ⟨g.ctr + 1, g.fd⟩
      | (_, false) => g                   -- early returns: no index drawn
    | _ => g
  | .reset => if w.2.isEmpty then { g with ctr := 0 } else g
  | _ => g

def gRun : World → G → List Op → G
  | _, g, [] => g
  | w, g, op :: ops => gRun (step w op).1 (gstep w g op) ops

/-- Number of indices drawn by a history from a fresh storage whose counter starts at `pi0`
    (meaningful for histories without `reset`). -/
def draws (n data fi pi0 : Nat) (ops : List Op) : Nat :=
  (gRun (World.init n data fi pi0) (G.init pi0) ops).ctr - pi0

/-- The ghost state describes the real counter and markers. -/
structure IdxInv (s : Sys) (g : G) : Prop where
  ctr : s.pduIdx = g.ctr % 256
  hsome : ∀ k f, (s.slot k).st ≠ .none → g.fd k = some f → (s.slot k).first = f % 256 ∧ f < g.ctr
  hnone : ∀ k, (s.slot k).st ≠ .none → g.fd k = none → (s.slot k).first = Gen.FIRST_PDU_EMPTY
  inj : ∀ j k a b, j ≠ k → (s.slot j).st ≠ .none → (s.slot k).st ≠ .none →
    g.fd j = some a → g.fd k = some b → a ≠ b

/-- Transfer when the ghost state, the counter and every non-`None` slot's marker are kept. -/
theorem IdxInv.keep {s s' : Sys} {g : G} (hI : IdxInv s g) (hp : s'.pduIdx = s.pduIdx)
    (hk : ∀ k, (s'.slot k).st ≠ .none → (s'.slot k).first = (s.slot k).first ∧ (s.slot k).st ≠ .none) :
    IdxInv s' g := by
  refine ⟨by rw [hp]; exact hI.ctr, ?_, ?_, ?_⟩
  · intro k f hs hf; obtain ⟨a, b⟩ := hk k hs; rw [a]; exact hI.hsome k f b hf
  · intro k hs hf; obtain ⟨a, b⟩ := hk k hs; rw [a]; exact hI.hnone k b hf
  · intro j k a b hjk hj hk' ha hb
    exact hI.inj j k a b hjk (hk j hj).2 (hk k hk').2 ha hb

theorem kept_setSlot {s : Sys} {k' k : Nat} {y : Slot}
    (hy : y.st ≠ .none → y.first = (s.slot k').first ∧ (s.slot k').st ≠ .none)
    (h : ((s.setSlot k' y).slot k).st ≠ .none) :
    ((s.setSlot k' y).slot k).first = (s.slot k).first ∧ (s.slot k).st ≠ .none := by
  rw [slot_setSlot] at h ⊢
  split
  · next hk => rw [if_pos hk] at h; rw [hk.1]; exact hy h
  · next hk => rw [if_neg hk] at h; exact ⟨rfl, h⟩

theorem IdxInv.keep_set {s : Sys} {g : G} (hI : IdxInv s g) (k' : Nat) (y : Slot)
    (hy : y.st ≠ .none → y.first = (s.slot k').first ∧ (s.slot k').st ≠ .none) :
    IdxInv (s.setSlot k' y) g :=
  hI.keep rfl (fun _ h => kept_setSlot hy h)

theorem dropReceived_eq {s : Sys} {k : Nat} (h : (s.slot k).st = .rxProcessing) :
    (dropReceived s k).1 = s.setSlot k { s.slot k with first := Gen.FIRST_PDU_EMPTY, st := .none } := by
  simp [dropReceived, h]

theorem IdxInv.dropReceived {s : Sys} {g : G} (hI : IdxInv s g) {k : Nat} (h : (s.slot k).st = .rxProcessing) :
    IdxInv (dropReceived s k).1 g := by
  rw [dropReceived_eq h]
  exact hI.keep_set k _ (fun hn => absurd rfl hn)

theorem J.st_of_cls {s : Sys} {hs : List Hd} (hJ : J s hs) {h : Hd} (hm : h ∈ hs) (ho : h.kind.cls ≠ 4) :
    (s.slot h.slot).st ≠ .none := by
  intro hn
  have := hJ.compat h hm ho
  rw [hn] at this
  have := h.kind.cls_pos
  simp [St.cls] at *
  omega

theorem J.rxProcessing {s : Sys} {hs : List Hd} (hJ : J s hs) {h : Hd} (hm : h ∈ hs) (hk : h.kind.cls = 3) :
    (s.slot h.slot).st = .rxProcessing := by
  have := hJ.compat h hm (by omega)
  rw [hk] at this
  revert this; cases (s.slot h.slot).st <;> simp [St.cls]

/-- Operations that draw no index and initialise no slot keep the bookkeeping as it is. -/
theorem IdxInv_step_plain {w : World} {g : G} (hJ : J w.1 w.2) (hI : IdxInv w.1 g) (op : Op)
    (h1 : ∀ r, op ≠ .alloc r) (h2 : ∀ r c d l, op ≠ .push r c d l) (h3 : ∀ r c b, op ≠ .rest r c b)
    (h4 : op ≠ .reset) : IdxInv (step w op).1.1 g := by
  cases op with
  | alloc r => exact absurd rfl (h1 r)
  | push r c d l => exact absurd rfl (h2 r c d l)
  | rest r c b => exact absurd rfl (h3 r c b)
  | reset => exact absurd rfl h4
  | mark r a b =>
    simp only [step]; unfold opMark
    split
    · next reg k count last e =>
      exact hI.keep_set k _ (fun _ => ⟨rfl, hJ.st_of_cls (getH_some e).1 (by simp [HK.cls])⟩)
    · exact hI
  | dropCreated r =>
    simp only [step]; unfold opDropCreated
    split
    · simp only; split
      · exact hI.keep_set _ _ (fun hn => absurd rfl hn)
      · exact hI
    · exact hI
  | txNext τ =>
    rcases txNext_cases w τ with e | ⟨i, _, _, hsi, _, e⟩
    · rw [e]; exact hI
    · rw [e]; exact hI.keep_set i _ (fun _ => ⟨rfl, by rw [hsi]; simp⟩)
  | txSend τ o =>
    rcases txSend_cases w τ o with ⟨_, e⟩ | ⟨k', _, ⟨hs, e⟩ | ⟨_, e⟩⟩
    · rw [e]; exact hI
    · rw [e]; exact hI.keep_set k' _ (fun _ => ⟨rfl, by rw [hs]; simp⟩)
    · rw [e]; exact hI
  | rx b =>
    simp only [step, opRx]
    rcases receiveFrame_effect w.1 b with ⟨e, _⟩ | ⟨k', _, hst, ⟨p, e⟩ | e⟩
    · rw [e]; exact hI
    · rw [e]; exact hI.keep_set k' _ (fun _ => ⟨rfl, by rw [hst]; simp⟩)
    · rw [e]; exact hI.keep_set k' _ (fun _ => ⟨rfl, by rw [hst]; simp⟩)
  | poll r =>
    cases hg : getH w.2 r with
    | none => simp [step, opPoll, hg]; exact hI
    | some h =>
      obtain ⟨reg, k, kind⟩ := h
      have hr : reg = r := (getH_some hg).2
      subst hr
      cases kind with
      | fut ρ D T a =>
        rcases poll_cases hJ hg with ⟨hd, e⟩ | ⟨_, _, e⟩ | ⟨_, _, _, e⟩ | ⟨_, _, _, e⟩
        · rw [e]; exact hI.keep_set k _ (fun _ => ⟨rfl, by rw [hd]; simp⟩)
        · rw [e]; exact hI
        · rw [e]; exact hI.keep_set k _ (fun hn => absurd rfl hn)
        · rw [e]; simp only
          split
          · next hs => exact hI.keep_set k _ (fun _ => ⟨rfl, by rw [hs]; simp⟩)
          · exact hI
      | _ => simp [step, opPoll, hg]; exact hI
  | dropFut r =>
    simp only [step]; unfold opDropFut
    split
    · exact hI.keep_set _ _ (fun hn => absurd rfl hn)
    · exact hI
  | first r c i =>
    simp only [step]; unfold opFirst
    split
    · next reg k e =>
      have hd := hI.dropReceived (hJ.rxProcessing (getH_some e).1 (by simp [HK.cls]))
      simp only at hd ⊢
      repeat' split
      all_goals first | exact hd | exact hI
    · exact hI
  | iter r m =>
    simp only [step]; unfold opIter
    split
    · next reg k e => exact hI.dropReceived (hJ.rxProcessing (getH_some e).1 (by simp [HK.cls]))
    · exact hI
  | dropReceived r =>
    simp only [step]; unfold opDropReceived
    split
    · next reg k e => exact hI.dropReceived (hJ.rxProcessing (getH_some e).1 (by simp [HK.cls]))
    · exact hI
  | viewRead r => simp only [step]; unfold opViewRead; split <;> exact hI
  | viewTrim r ct => simp only [step]; unfold opViewTrim; split <;> exact hI
  | dropView r =>
    simp only [step]; unfold opDropView
    split
    · next reg k a b c e => exact hI.dropReceived (hJ.rxProcessing (getH_some e).1 (by simp [HK.cls]))
    · exact hI
  | advance us => exact hI.keep rfl (fun _ h => ⟨rfl, h⟩)
  | snap => exact hI

theorem IdxInv_alloc {w : World} {g : G} (hJ : J w.1 w.2) (hI : IdxInv w.1 g) (r : Nat) :
    IdxInv (step w (.alloc r)).1.1 (gstep w g (.alloc r)) := by
  simp only [step, gstep]
  split
  · unfold opAlloc
    cases hA : allocLoop w.1 (2 * w.1.n) with
    | mk s' o =>
      cases o with
      | none =>
        obtain ⟨f, rfl⟩ := allocLoop_none hA
        exact hI.keep rfl (fun _ h => ⟨rfl, h⟩)
      | some i =>
        obtain ⟨hi, hnone, f, rfl⟩ := allocLoop_some hJ.pos hA
        simp only
        have hsl : ∀ k, (({ w.1 with frameIdx := f } : Sys).setSlot i (freshSlot w.1.data)).slot k =
            if k = i then freshSlot w.1.data else w.1.slot k := by
          intro k
          rw [slot_setSlot]
          by_cases hk : k = i
          · subst hk; rw [if_pos ⟨rfl, hi⟩, if_pos rfl]
          · rw [if_neg (fun c => hk c.1), if_neg hk]; rfl
        refine ⟨hI.ctr, ?_, ?_, ?_⟩
        · intro k f' hs hf
          rw [hsl] at hs ⊢
          by_cases hk : k = i
          · simp [hk] at hf
          · simp only [hk, if_false] at hs hf ⊢
            exact hI.hsome k f' hs hf
        · intro k hs hf
          rw [hsl] at hs ⊢
          by_cases hk : k = i
          · simp [hk, freshSlot]
          · simp only [hk, if_false] at hs hf ⊢
            exact hI.hnone k hs hf
        · intro j k a b hjk hj hk ha hb
          rw [hsl] at hj hk
          by_cases hji : j = i
          · simp [hji] at ha
          by_cases hki : k = i
          · simp [hki] at hb
          simp only [hji, hki, if_false] at hj hk ha hb
          exact hI.inj j k a b hjk hj hk ha hb
  · exact hI

/-- A successful push into the `Created` slot `k` with the index `g.ctr % 256`. -/
theorem IdxInv_pushed {s : Sys} {g : G} (hI : IdxInv s g) (k : Nat) (hk : k < s.n) (hst : (s.slot k).st ≠ .none)
    (f : CFrame) (s1 : Sys) (hs1 : s1.slots = s.slots) (hp1 : s1.pduIdx = (s.pduIdx + 1) % 256) :
    IdxInv (s1.setSlot k (frameSlot (s.slot k) f (some s.pduIdx)))
      ⟨g.ctr + 1, fun j => if j = k ∧ g.fd k = none then some g.ctr else g.fd j⟩ := by
  have hk1 : k < s1.n := by rw [n_congr hs1]; exact hk
  have hsl : ∀ j, (s1.setSlot k (frameSlot (s.slot k) f (some s.pduIdx))).slot j =
      if j = k then frameSlot (s.slot k) f (some s.pduIdx) else s.slot j := by
    intro j
    rw [slot_setSlot]
    by_cases hj : j = k
    · simp [hj, hk1]
    · simp [hj, slot_congr hs1]
  have hctr := hI.ctr
  refine ⟨?_, ?_, ?_, ?_⟩
  · show s1.pduIdx = (g.ctr + 1) % 256
    rw [hp1, hctr]; omega
  · intro j f' hs hf
    rw [hsl] at hs ⊢
    simp only at hf
    by_cases hj : j = k
    · subst hj
      simp only [if_true, frameSlot_st] at hs ⊢
      cases hfd : g.fd j with
      | none =>
        simp [hfd] at hf
        subst hf
        have := hI.hnone j hst hfd
        simp [frameSlot, this, hctr]
      | some f0 =>
        simp [hfd] at hf
        subst hf
        obtain ⟨h1, h2⟩ := hI.hsome j f0 hst hfd
        refine ⟨?_, by omega⟩
        simp only [frameSlot, h1]
        have : f0 % 256 ≠ Gen.FIRST_PDU_EMPTY := by simp [Gen.FIRST_PDU_EMPTY]; omega
        simp [this]
    · simp only [hj, if_false, false_and] at hs hf ⊢
      obtain ⟨h1, h2⟩ := hI.hsome j f' hs hf
      exact ⟨h1, by omega⟩
  · intro j hs hf
    rw [hsl] at hs ⊢
    simp only at hf
    by_cases hj : j = k
    · subst hj
      cases hfd : g.fd j with
      | none => simp [hfd] at hf
      | some f0 => simp [hfd] at hf
    · simp only [hj, if_false, false_and] at hs hf ⊢
      exact hI.hnone j hs hf
  · intro i j a b hij hi hj ha hb
    rw [hsl] at hi hj
    simp only at ha hb
    have old : ∀ x c, x ≠ k → (if x = k then frameSlot (s.slot k) f (some s.pduIdx) else s.slot x).st ≠ .none →
        (if x = k ∧ g.fd k = none then some g.ctr else g.fd x) = some c → (s.slot x).st ≠ .none ∧ g.fd x = some c := by
      intro x c hx h1 h2
      simp only [hx, if_false, false_and] at h1 h2
      exact ⟨h1, h2⟩
    have new : ∀ c, (if k = k ∧ g.fd k = none then some g.ctr else g.fd k) = some c →
        (g.fd k = none ∧ c = g.ctr) ∨ g.fd k = some c := by
      intro c h
      cases hfd : g.fd k with
      | none => simp [hfd] at h; exact Or.inl ⟨rfl, h.symm⟩
      | some f0 => simp [hfd] at h; exact Or.inr (by rw [h])
    by_cases hik : i = k
    · subst hik
      have hjk : j ≠ i := fun e => hij e.symm
      obtain ⟨hj', hb'⟩ := old j b hjk hj hb
      rcases new a ha with ⟨_, rfl⟩ | ha'
      · have := (hI.hsome j b hj' hb').2; omega
      · exact hI.inj i j a b hij hst hj' ha' hb'
    · obtain ⟨hi', ha'⟩ := old i a hik hi ha
      by_cases hjk : j = k
      · subst hjk
        rcases new b hb with ⟨_, rfl⟩ | hb'
        · have := (hI.hsome i a hi' ha').2; omega
        · exact hI.inj i j a b hij hi' hst ha' hb'
      · obtain ⟨hj', hb'⟩ := old j b hjk hj hb
        exact hI.inj i j a b hij hi' hj' ha' hb'

/-- A draw that changes no slot. -/
theorem IdxInv_drawn {s : Sys} {g : G} (hI : IdxInv s g) (s1 : Sys) (hs1 : s1.slots = s.slots)
    (hp1 : s1.pduIdx = (s.pduIdx + 1) % 256) : IdxInv s1 ⟨g.ctr + 1, g.fd⟩ := by
  have hctr := hI.ctr
  refine ⟨by show s1.pduIdx = (g.ctr + 1) % 256; rw [hp1, hctr]; omega, ?_, ?_, ?_⟩
  · intro k f hs hf
    rw [slot_congr hs1] at hs ⊢
    obtain ⟨a, b⟩ := hI.hsome k f hs hf
    exact ⟨a, by show f < g.ctr + 1; omega⟩
  · intro k hs hf
    rw [slot_congr hs1] at hs ⊢
    exact hI.hnone k hs hf
  · intro j k a b hjk hj hk ha hb
    rw [slot_congr hs1] at hj hk
    exact hI.inj j k a b hjk hj hk ha hb

theorem pushRest_flag (f : CFrame) (c : Cmd) (b : List Nat) (idx : Nat) :
    match (f.pushRest c b idx).2 with
    | (.some _ _, d) => d = true
    | (.none, d) => d = false
    | (.tooLong, d) => d = true := by
  unfold CFrame.pushRest
  by_cases h1 : b.isEmpty = true
  · simp [h1]
  · by_cases h2 : f.pdu.length - f.used - PDU_OVERHEAD = 0
    · simp [h1, h2]
    · by_cases h3 : f.used + (restLen f b + PDU_OVERHEAD) ≤ f.pdu.length
      · simp [h1, h2, h3]
      · simp [h1, h2, h3]

theorem IdxInv_push {w : World} {g : G} (hJ : J w.1 w.2) (hI : IdxInv w.1 g) (r : Nat) (c : Cmd) (d : List Nat)
    (l : Option Nat) : IdxInv (step w (.push r c d l)).1.1 (gstep w g (.push r c d l)) := by
  simp only [step, gstep]; unfold opPush
  cases hg : getH w.2 r with
  | none => exact hI
  | some h =>
    obtain ⟨reg, k, kind⟩ := h
    cases kind with
    | created count last =>
      have hm := (getH_some hg).1
      have hk := hJ.owner_lt hm (by simp [HK.cls])
      have hst := hJ.st_of_cls hm (by simp [HK.cls])
      simp only at hk hst ⊢
      cases he : ((slotFrame w.1 (w.1.slot k) count last).pushPdu c d l w.1.pduIdx).2 with
      | some h' => exact IdxInv_pushed hI k hk hst _ { w.1 with pduIdx := (w.1.pduIdx + 1) % 256 } rfl rfl
      | none => exact IdxInv_drawn hI { w.1 with pduIdx := (w.1.pduIdx + 1) % 256 } rfl rfl
    | _ => exact hI

theorem IdxInv_rest {w : World} {g : G} (hJ : J w.1 w.2) (hI : IdxInv w.1 g) (r : Nat) (c : Cmd) (b : List Nat) :
    IdxInv (step w (.rest r c b)).1.1 (gstep w g (.rest r c b)) := by
  simp only [step, gstep]; unfold opRest
  cases hg : getH w.2 r with
  | none => exact hI
  | some h =>
    obtain ⟨reg, k, kind⟩ := h
    cases kind with
    | created count last =>
      have hm := (getH_some hg).1
      have hk := hJ.owner_lt hm (by simp [HK.cls])
      have hst := hJ.st_of_cls hm (by simp [HK.cls])
      simp only at hk hst ⊢
      have hfl := pushRest_flag (slotFrame w.1 (w.1.slot k) count last) c b w.1.pduIdx
      rcases hres : (slotFrame w.1 (w.1.slot k) count last).pushRest c b w.1.pduIdx with ⟨f, rr, drew⟩
      rw [hres] at hfl
      cases rr with
      | some n' h' =>
        simp only at hfl; subst hfl
        simp only [if_true]
        exact IdxInv_pushed hI k hk hst f { w.1 with pduIdx := (w.1.pduIdx + 1) % 256 } rfl rfl
      | none =>
        simp only at hfl; subst hfl
        exact hI
      | tooLong =>
        simp only at hfl; subst hfl
        simp only [if_true]
        exact IdxInv_drawn hI { w.1 with pduIdx := (w.1.pduIdx + 1) % 256 } rfl rfl
    | _ => exact hI

theorem IdxInv_reset {w : World} {g : G} (hI : IdxInv w.1 g) :
    IdxInv (step w .reset).1.1 (gstep w g .reset) := by
  simp only [step, gstep]
  split
  · unfold opReset
    refine ⟨rfl, ?_, ?_, ?_⟩
    · intro k f hs; exact absurd (reset_slot_none w.1 k) hs
    · intro k hs; exact absurd (reset_slot_none w.1 k) hs
    · intro j k a b _ hs; exact absurd (reset_slot_none w.1 j) hs
  · exact hI

/-- **The ghost bookkeeping is exact in every step.** -/
theorem IdxInv_step {w : World} {g : G} (hJ : J w.1 w.2) (hI : IdxInv w.1 g) (op : Op) :
    IdxInv (step w op).1.1 (gstep w g op) := by
  by_cases h1 : ∃ r, op = .alloc r
  · obtain ⟨r, rfl⟩ := h1; exact IdxInv_alloc hJ hI r
  by_cases h2 : ∃ r c d l, op = .push r c d l
  · obtain ⟨r, c, d, l, rfl⟩ := h2; exact IdxInv_push hJ hI r c d l
  by_cases h3 : ∃ r c b, op = .rest r c b
  · obtain ⟨r, c, b, rfl⟩ := h3; exact IdxInv_rest hJ hI r c b
  by_cases h4 : op = .reset
  · subst h4; exact IdxInv_reset hI
  have hg : gstep w g op = g := by
    cases op <;> first | rfl | (exfalso; first | exact h1 ⟨_, rfl⟩ | exact h2 ⟨_, _, _, _, rfl⟩ | exact h3 ⟨_, _, _, rfl⟩ | exact h4 rfl)
  rw [hg]
  exact IdxInv_step_plain hJ hI op (fun r e => h1 ⟨r, e⟩) (fun r c d l e => h2 ⟨r, c, d, l, e⟩)
    (fun r c b e => h3 ⟨r, c, b, e⟩) h4

theorem IdxInv_run {w : World} {g : G} (hJ : J w.1 w.2) (hI : IdxInv w.1 g) (ops : List Op) :
    IdxInv (run w ops).1 (gRun w g ops) := by
  induction ops generalizing w g with
  | nil => exact hI
  | cons op ops ih => exact ih (J_step hJ op) (IdxInv_step hJ hI op)

theorem IdxInv_init (n data fi pi : Nat) (hpi : pi < 256) :
    IdxInv (World.init n data fi pi).1 (G.init pi) := by
  refine ⟨by simp [World.init, G.init, Nat.mod_eq_of_lt hpi], ?_, ?_, ?_⟩
  · intro k f hs; exact absurd (init_slot n data fi pi k) hs
  · intro k hs; exact absurd (init_slot n data fi pi k) hs
  · intro j k a b _ hs; exact absurd (init_slot n data fi pi j) hs

end Ec
