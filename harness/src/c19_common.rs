//! C19 — code shared (via `#[path]`) between `src/bin/c19.rs` and the generated crate `gen-types`:
//! the type-expression AST `Ty` (mirror of the `T` grammar of `lean/EcModel/Drv/C19.lean`), the value AST `Val`,
//! their parsers/printers and the emitter of Rust item text for a `Ty`.
#![allow(dead_code)]

use std::fmt::Write as _;

/// `#[wire(...)]` attributes as written (struct level: bits/bytes/unnamed; field level: the rest too).
#[derive(Clone, Debug, Default, PartialEq, Eq, Hash)]
pub struct Attrs {
    pub bits: Option<u64>,
    pub bytes: Option<u64>,
    pub skip: bool,
    pub unnamed: bool,
    pub pre_skip: Option<u64>,
    pub pre_skip_bytes: Option<u64>,
    pub post_skip: Option<u64>,
    pub post_skip_bytes: Option<u64>,
}

#[derive(Clone, Debug, PartialEq, Eq, Hash)]
pub struct Variant {
    pub disc: Option<i128>,
    pub alts: Vec<i128>,
    pub catch_all: bool,
    pub default: bool,
}

#[derive(Clone, Debug, PartialEq, Eq, Hash)]
pub struct EnumTy {
    /// u8 … i64, u128, i128, usize, isize, none
    pub repr: String,
    pub variants: Vec<Variant>,
}

#[derive(Clone, Debug, PartialEq, Eq, Hash)]
pub struct StructTy {
    pub attrs: Attrs,
    pub fields: Vec<(Attrs, Ty)>,
}

#[derive(Clone, Debug, PartialEq, Eq, Hash)]
pub enum Ty {
    /// u8 u16 u32 u64 i8 i16 i32 i64 f32 f64 u128 i128 bool
    Prim(&'static str),
    Unit,
    /// a type the extractor could not resolve
    X,
    /// `xN`: a type with a hand-written impl of which only PACKED_LEN = N is known
    XN(usize),
    Arr(usize, Box<Ty>),
    /// `hv(N,T)`: `heapless::Vec<T, N>` (hand-written impl of impls.rs; read-only)
    HVec(usize, Box<Ty>),
    /// `hs(N)`: `heapless::String<N>` (hand-written impl of impls.rs; read-only)
    HStr(usize),
    Tup(Vec<Ty>),
    Enum(EnumTy),
    Struct(StructTy),
    /// `@Name`: in-crate item of layouts.txt
    Named(String),
}

pub const PRIMS: [&str; 13] = ["u8", "u16", "u32", "u64", "i8", "i16", "i32", "i64", "f32", "f64", "u128", "i128", "bool"];

pub fn prim(name: &str) -> Option<&'static str> {
    PRIMS.iter().copied().find(|p| *p == name)
}

/// Byte size of a numeric/bool primitive as the wire impls see it.
pub fn prim_len(p: &str) -> usize {
    match p {
        "u8" | "i8" | "bool" => 1,
        "u16" | "i16" => 2,
        "u32" | "i32" | "f32" => 4,
        "u64" | "i64" | "f64" => 8,
        _ => 16,
    }
}

// ---------------------------------------------------------------- printing

impl Attrs {
    pub fn show(&self) -> String {
        let mut p: Vec<String> = Vec::new();
        if let Some(n) = self.bits {
            p.push(format!("b{n}"));
        }
        if let Some(n) = self.bytes {
            p.push(format!("B{n}"));
        }
        if self.skip {
            p.push("k".into());
        }
        if self.unnamed {
            p.push("n".into());
        }
        if let Some(n) = self.pre_skip {
            p.push(format!("p{n}"));
        }
        if let Some(n) = self.pre_skip_bytes {
            p.push(format!("P{n}"));
        }
        if let Some(n) = self.post_skip {
            p.push(format!("q{n}"));
        }
        if let Some(n) = self.post_skip_bytes {
            p.push(format!("Q{n}"));
        }
        if p.is_empty() { "-".into() } else { p.join(".") }
    }
}

impl Variant {
    pub fn show(&self) -> String {
        let mut s = match self.disc {
            Some(d) => d.to_string(),
            None => "_".into(),
        };
        for a in &self.alts {
            let _ = write!(s, "/{a}");
        }
        if self.catch_all {
            s.push('c');
        }
        if self.default {
            s.push('d');
        }
        s
    }
}

impl Ty {
    pub fn show(&self) -> String {
        match self {
            Ty::Prim(p) => p.to_string(),
            Ty::Unit => "unit".into(),
            Ty::X => "x".into(),
            Ty::XN(n) => format!("x{n}"),
            Ty::Arr(n, t) => format!("a({n},{})", t.show()),
            Ty::HVec(n, t) => format!("hv({n},{})", t.show()),
            Ty::HStr(n) => format!("hs({n})"),
            Ty::Tup(ts) => format!("t({})", ts.iter().map(|t| t.show()).collect::<Vec<_>>().join(",")),
            Ty::Enum(e) => {
                let mut s = format!("e({}", e.repr);
                for v in &e.variants {
                    s.push(';');
                    s.push_str(&v.show());
                }
                s.push(')');
                s
            }
            Ty::Struct(st) => {
                let mut s = format!("s({}", st.attrs.show());
                for (a, t) in &st.fields {
                    let _ = write!(s, ";{}:{}", a.show(), t.show());
                }
                s.push(')');
                s
            }
            Ty::Named(n) => format!("@{n}"),
        }
    }
    pub fn contains_x(&self) -> bool {
        match self {
            Ty::X | Ty::XN(_) => true,
            Ty::Arr(_, t) | Ty::HVec(_, t) => t.contains_x(),
            Ty::Tup(ts) => ts.iter().any(|t| t.contains_x()),
            Ty::Struct(s) => s.fields.iter().any(|(_, t)| t.contains_x()),
            _ => false,
        }
    }
    /// Contains a `heapless::Vec` / `heapless::String` (not `Copy`: cannot be a field of the generated structs).
    pub fn contains_heapless(&self) -> bool {
        match self {
            Ty::HVec(..) | Ty::HStr(_) => true,
            Ty::Arr(_, t) => t.contains_heapless(),
            Ty::Tup(ts) => ts.iter().any(|t| t.contains_heapless()),
            Ty::Struct(s) => s.fields.iter().any(|(_, t)| t.contains_heapless()),
            _ => false,
        }
    }
    /// Built from the hand-written impls of impls.rs only (no derived struct/enum inside).
    pub fn impl_only(&self) -> bool {
        match self {
            Ty::Prim(_) | Ty::Unit | Ty::HStr(_) => true,
            Ty::Arr(_, t) | Ty::HVec(_, t) => t.impl_only(),
            Ty::Tup(ts) => ts.iter().all(|t| t.impl_only()),
            _ => false,
        }
    }
}

// ---------------------------------------------------------------- parsing

pub struct P<'a> {
    pub s: &'a [u8],
    pub i: usize,
}

impl<'a> P<'a> {
    pub fn new(s: &'a str) -> Self {
        P { s: s.as_bytes(), i: 0 }
    }
    fn peek(&self) -> Option<u8> {
        self.s.get(self.i).copied()
    }
    fn eat(&mut self, c: u8) -> bool {
        if self.peek() == Some(c) {
            self.i += 1;
            true
        } else {
            false
        }
    }
    fn ident(&mut self) -> String {
        let st = self.i;
        while let Some(c) = self.peek() {
            if c.is_ascii_alphanumeric() || c == b'_' || c == b'@' {
                self.i += 1;
            } else {
                break;
            }
        }
        String::from_utf8_lossy(&self.s[st..self.i]).into_owned()
    }
    fn nat(&mut self) -> Option<u64> {
        let st = self.i;
        while matches!(self.peek(), Some(c) if c.is_ascii_digit()) {
            self.i += 1;
        }
        if st == self.i {
            return None;
        }
        std::str::from_utf8(&self.s[st..self.i]).ok()?.parse().ok()
    }
    fn int(&mut self) -> Option<i128> {
        let st = self.i;
        if self.peek() == Some(b'-') {
            self.i += 1;
        }
        let d = self.i;
        while matches!(self.peek(), Some(c) if c.is_ascii_digit()) {
            self.i += 1;
        }
        if d == self.i {
            self.i = st;
            return None;
        }
        std::str::from_utf8(&self.s[st..self.i]).ok()?.parse().ok()
    }

    fn attrs(&mut self) -> Option<Attrs> {
        let mut a = Attrs::default();
        if self.eat(b'-') {
            return Some(a);
        }
        loop {
            let c = self.peek()?;
            self.i += 1;
            match c {
                b'k' => a.skip = true,
                b'n' => a.unnamed = true,
                _ => {
                    let n = self.nat()?;
                    match c {
                        b'b' => a.bits = Some(n),
                        b'B' => a.bytes = Some(n),
                        b'p' => a.pre_skip = Some(n),
                        b'P' => a.pre_skip_bytes = Some(n),
                        b'q' => a.post_skip = Some(n),
                        b'Q' => a.post_skip_bytes = Some(n),
                        _ => return None,
                    }
                }
            }
            if !self.eat(b'.') {
                return Some(a);
            }
        }
    }

    fn variant(&mut self) -> Option<Variant> {
        let disc = if self.eat(b'_') { None } else { Some(self.int()?) };
        let mut alts = Vec::new();
        while self.eat(b'/') {
            alts.push(self.int()?);
        }
        let (mut c, mut d) = (false, false);
        loop {
            if self.eat(b'c') {
                c = true;
            } else if self.eat(b'd') {
                d = true;
            } else {
                break;
            }
        }
        Some(Variant { disc, alts, catch_all: c, default: d })
    }

    pub fn ty(&mut self) -> Option<Ty> {
        let name = self.ident();
        if self.peek() == Some(b'(') && matches!(name.as_str(), "a" | "t" | "e" | "s" | "hv" | "hs") {
            self.i += 1;
            match name.as_str() {
                "a" | "hv" => {
                    let n = self.nat()? as usize;
                    if !self.eat(b',') {
                        return None;
                    }
                    let t = self.ty()?;
                    if !self.eat(b')') {
                        return None;
                    }
                    Some(if name == "a" { Ty::Arr(n, Box::new(t)) } else { Ty::HVec(n, Box::new(t)) })
                }
                "hs" => {
                    let n = self.nat()? as usize;
                    if !self.eat(b')') {
                        return None;
                    }
                    Some(Ty::HStr(n))
                }
                "t" => {
                    let mut ts = Vec::new();
                    if self.eat(b')') {
                        return Some(Ty::Tup(ts));
                    }
                    loop {
                        ts.push(self.ty()?);
                        if self.eat(b')') {
                            return Some(Ty::Tup(ts));
                        }
                        if !self.eat(b',') {
                            return None;
                        }
                    }
                }
                "e" => {
                    let repr = self.ident();
                    let mut variants = Vec::new();
                    loop {
                        if self.eat(b')') {
                            return Some(Ty::Enum(EnumTy { repr, variants }));
                        }
                        if !self.eat(b';') {
                            return None;
                        }
                        variants.push(self.variant()?);
                    }
                }
                _ => {
                    let attrs = self.attrs()?;
                    let mut fields = Vec::new();
                    loop {
                        if self.eat(b')') {
                            return Some(Ty::Struct(StructTy { attrs, fields }));
                        }
                        if !self.eat(b';') {
                            return None;
                        }
                        let a = self.attrs()?;
                        if !self.eat(b':') {
                            return None;
                        }
                        let t = self.ty()?;
                        fields.push((a, t));
                    }
                }
            }
        } else if let Some(n) = name.strip_prefix('@') {
            Some(Ty::Named(n.to_string()))
        } else if name == "unit" {
            Some(Ty::Unit)
        } else if name == "x" {
            Some(Ty::X)
        } else if name.len() > 1 && name.starts_with('x') && name[1..].bytes().all(|c| c.is_ascii_digit()) {
            name[1..].parse().ok().map(Ty::XN)
        } else {
            prim(&name).map(Ty::Prim)
        }
    }

    pub fn val(&mut self) -> Option<Val> {
        match self.peek()? {
            b'T' => {
                self.i += 1;
                Some(Val::Bool(true))
            }
            b'F' => {
                self.i += 1;
                Some(Val::Bool(false))
            }
            b'd' => {
                self.i += 1;
                Some(Val::Dflt)
            }
            b'v' => {
                self.i += 1;
                Some(Val::Unit(self.nat()? as usize))
            }
            b'c' => {
                self.i += 1;
                Some(Val::Catch(self.int()?))
            }
            b'[' => {
                self.i += 1;
                let mut vs = Vec::new();
                if self.eat(b']') {
                    return Some(Val::Seq(vs));
                }
                loop {
                    vs.push(self.val()?);
                    if self.eat(b']') {
                        return Some(Val::Seq(vs));
                    }
                    if !self.eat(b',') {
                        return None;
                    }
                }
            }
            _ => Some(Val::Int(self.int()?)),
        }
    }
}

pub fn parse_ty(s: &str) -> Option<Ty> {
    let mut p = P::new(s);
    let t = p.ty()?;
    if p.i == p.s.len() { Some(t) } else { None }
}

pub fn parse_val(s: &str) -> Option<Val> {
    let mut p = P::new(s);
    let v = p.val()?;
    if p.i == p.s.len() { Some(v) } else { None }
}

// ---------------------------------------------------------------- values

#[derive(Clone, Debug, PartialEq, Eq)]
pub enum Val {
    Int(i128),
    Bool(bool),
    /// unit variant, index in declaration order
    Unit(usize),
    /// catch-all variant with payload
    Catch(i128),
    /// `Default::default()` of a skipped field
    Dflt,
    Seq(Vec<Val>),
}

impl Val {
    pub fn show(&self) -> String {
        match self {
            Val::Int(i) => i.to_string(),
            Val::Bool(b) => if *b { "T" } else { "F" }.into(),
            Val::Unit(i) => format!("v{i}"),
            Val::Catch(r) => format!("c{r}"),
            Val::Dflt => "d".into(),
            Val::Seq(vs) => format!("[{}]", vs.iter().map(|v| v.show()).collect::<Vec<_>>().join(",")),
        }
    }
}

pub fn hex(b: &[u8]) -> String {
    if b.is_empty() {
        return "-".to_string();
    }
    let mut s = String::with_capacity(b.len() * 2);
    for x in b {
        let _ = write!(s, "{:02x}", x);
    }
    s
}

pub fn unhex(s: &str) -> Option<Vec<u8>> {
    if s == "-" {
        return Some(vec![]);
    }
    if s.len() % 2 != 0 {
        return None;
    }
    (0..s.len() / 2).map(|i| u8::from_str_radix(s.get(2 * i..2 * i + 2)?, 16).ok()).collect()
}

// ---------------------------------------------------------------- Rust item text

/// How the emitter names things.
pub struct Emit<'a> {
    /// name of the item itself
    pub name: &'a str,
    /// attribute lines put in front (derives)
    pub prefix: &'a str,
    /// add `#[repr(C, packed)]` (structs)
    pub packed: bool,
    /// Rust type expression of a field / element type
    pub type_name: &'a dyn Fn(&Ty) -> String,
}

fn wire_attr(a: &Attrs) -> String {
    let mut p: Vec<String> = Vec::new();
    if let Some(n) = a.bits {
        p.push(format!("bits = {n}"));
    }
    if let Some(n) = a.bytes {
        p.push(format!("bytes = {n}"));
    }
    if a.skip {
        p.push("skip".into());
    }
    if let Some(n) = a.pre_skip {
        p.push(format!("pre_skip = {n}"));
    }
    if let Some(n) = a.pre_skip_bytes {
        p.push(format!("pre_skip_bytes = {n}"));
    }
    if let Some(n) = a.post_skip {
        p.push(format!("post_skip = {n}"));
    }
    if let Some(n) = a.post_skip_bytes {
        p.push(format!("post_skip_bytes = {n}"));
    }
    if p.is_empty() { String::new() } else { format!("#[wire({})] ", p.join(", ")) }
}

/// Rust type expression for non-item types; items are named by `item`.
pub fn rust_type(t: &Ty, item: &dyn Fn(&Ty) -> String) -> String {
    match t {
        Ty::Prim(p) => p.to_string(),
        Ty::Unit => "()".into(),
        Ty::X | Ty::XN(_) => "Unknown".into(),
        Ty::Arr(n, e) => format!("[{}; {n}]", rust_type(e, item)),
        Ty::HVec(n, e) => format!("heapless::Vec<{}, {n}>", rust_type(e, item)),
        Ty::HStr(n) => format!("heapless::String<{n}>"),
        Ty::Tup(ts) => format!("({})", ts.iter().map(|t| rust_type(t, item) + ",").collect::<Vec<_>>().join(" ")),
        Ty::Enum(_) | Ty::Struct(_) | Ty::Named(_) => item(t),
    }
}

/// The Rust `struct`/`enum` item text for a `Ty::Struct` / `Ty::Enum` — also for layouts the macro rejects.
pub fn emit_item(t: &Ty, cfg: &Emit) -> Option<String> {
    let mut o = String::new();
    o.push_str(cfg.prefix);
    match t {
        Ty::Struct(st) => {
            if cfg.packed {
                o.push_str("#[repr(C, packed)]\n");
            }
            let w = wire_attr(&st.attrs);
            if !w.is_empty() {
                o.push_str(w.trim_end());
                o.push('\n');
            }
            if st.attrs.unnamed {
                let _ = write!(o, "pub struct {}(", cfg.name);
                for (a, ft) in &st.fields {
                    let _ = write!(o, "{}pub {}, ", wire_attr(a), (cfg.type_name)(ft));
                }
                o.push_str(");\n");
            } else {
                let _ = writeln!(o, "pub struct {} {{", cfg.name);
                for (i, (a, ft)) in st.fields.iter().enumerate() {
                    let _ = writeln!(o, "    {}pub f{i}: {},", wire_attr(a), (cfg.type_name)(ft));
                }
                o.push_str("}\n");
            }
            Some(o)
        }
        Ty::Enum(e) => {
            if e.repr != "none" {
                let _ = writeln!(o, "#[repr({})]", e.repr);
            }
            let payload = if e.repr == "none" { "u8" } else { e.repr.as_str() };
            let _ = writeln!(o, "pub enum {} {{", cfg.name);
            for (i, v) in e.variants.iter().enumerate() {
                o.push_str("    ");
                let mut w: Vec<String> = Vec::new();
                if !v.alts.is_empty() {
                    w.push(format!("alternatives = [{}]", v.alts.iter().map(|a| a.to_string()).collect::<Vec<_>>().join(", ")));
                }
                if v.catch_all {
                    w.push("catch_all".into());
                }
                if !w.is_empty() {
                    let _ = write!(o, "#[wire({})] ", w.join(", "));
                }
                if v.default {
                    o.push_str("#[default] ");
                }
                let _ = write!(o, "V{i}");
                if v.catch_all {
                    let _ = write!(o, "({payload})");
                }
                if let Some(d) = v.disc {
                    let _ = write!(o, " = {d}");
                }
                o.push_str(",\n");
            }
            o.push_str("}\n");
            Some(o)
        }
        _ => None,
    }
}
