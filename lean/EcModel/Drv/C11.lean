/- Line protocol for C11: `c11 <path> <args..> <trace>` -> result token. See harness/src/bin/c11.rs. -/
import EcModel.Drv.WkcUtil
import EcModel.WkcEeprom

namespace Ec.Drv.C11
open Ec Ec.Drv Ec.Wkc Ec.Drv.WkcUtil

def hexOk (d : List Nat) : String := "ok:" ++ (if d.isEmpty then "-" else hexBytes d)

/-- A builder method applied to the first event (outside any timeout wrapper). -/
def first (tr : List Ev) (f : Exchange → String) : String :=
  match tr with
  | [] => "badtrace"
  | e :: _ => f (exch none e)

/-- Errors of the EEPROM layers above the provider, as `wkcnet::err_token` prints them. -/
def showEErr : EErr → String
  | .base e => showErr e
  | .sectionOverrun => "other:Eeprom(SectionOverrun)"
  | .internal => "other:Internal"
  | .wireInvalid => "wire"
  | .panic _ => "panic"

def showERes {α : Type} (f : α → String) : ERes α → String
  | .ok a => f a
  | .error e => showEErr e

/-- First token after the key is the harness' recipe (per-case seed, for replay): ignored. -/
def handle (args : List String) : String :=
  match args.drop 1 with
  | ["rx", exp, n, tr] => first (parseTrace tr) fun ex => showRes hexOk ((readBuilder exp).receive ex (unpackBytes (nat! n)))
  | ["rs", exp, tr] => first (parseTrace tr) fun ex => showRes (fun p => hexOk p.data) ((readBuilder exp).receiveSlice ex)
  | ["ws", exp, tr] => first (parseTrace tr) fun ex => showRes (fun _ => "ok") ((writeBuilder exp).send ex)
  | ["wr", exp, n, tr] => first (parseTrace tr) fun ex => showRes hexOk ((writeBuilder exp).sendReceive ex (unpackBytes (nat! n)))
  | ["wrs", exp, tr] => first (parseTrace tr) fun ex => showRes (fun p => hexOk p.data) ((writeBuilder exp).sendReceiveSlice ex)
  | ["regr", n, tr] => showRes hexOk (registerRead (nat! n) (parseTrace tr)).1
  | ["regw", n, tr] => showRes hexOk (registerWrite (nat! n) (parseTrace tr)).1
  | ["status", tr] => showRes (fun (sc : Nat × Nat) => s!"ok:{sc.1}:{sc.2}") (status (parseTrace tr)).1
  | ["eerd", tr] => showRes hexOk (readChunk (parseTrace tr)).1
  | ["eewr", tr] => showRes (fun _ => "ok") (writeWord (parseTrace tr)).1
  | ["eeclr", tr] => showRes (fun _ => "ok") (clearErrors (parseTrace tr)).1
  | ["eeraw", word, cover, skip, n, tr] =>
    showERes (fun (b : List Nat) => s!"ok:{b.length}:" ++ (if b.isEmpty then "-" else hexBytes b))
      (eeRaw (nat! word) (nat! cover) (nat! skip) (nat! n) (parseTrace tr)).1
  | ["eetyped", word, n, tr] => showERes hexOk (eeTyped (nat! word) (nat! n) (parseTrace tr)).1
  | ["eefmmus", tr] => showERes hexOk (eeFmmus (parseTrace tr)).1
  | ["eewrite", word, n, tr] => showERes (fun _ => "ok") (eeWrite (nat! word) (nat! n) (parseTrace tr)).1
  | ["eealias", tr] => showERes (fun _ => "ok") (eeAlias (parseTrace tr)).1
  | ["mbx", rt, tr] => showRes (fun _ => "ok") (mailboxRounds (nat! rt) (parseTrace tr)).1
  | ["grp", mode, pduLen, desired, members, tr] =>
    showRes (fun _ => "ok") (Group.transitionTo (parseMode mode) (nat! pduLen) (nat! desired) (parseNats members) (parseTrace tr)).1
  | ["reqop", members, tr] => showRes (fun _ => "ok") (Group.requestIntoOp (parseNats members) (parseTrace tr)).1
  | ["mdw", num, desired, tr] => showRes (fun _ => "ok") (mdWaitForState (nat! num) (nat! desired) (parseTrace tr)).1
  | _ => "bad-case"

end Ec.Drv.C11
