/-
  C17 — topology and propagation delays are reconstructed correctly from port timestamps.
  Property theorems only; helper lemmas live in EcModel/Lemmas/DcBasic.lean and DcTree.lean.

  Model: EcModel/Dc.lean (hand translation of src/dc.rs, src/subdevice/ports.rs,
  `SubDevice::is_child_of`). Physical specification: EcModel/DcSpec.lean (`Tree`, `visit`,
  `arrivals`, `trueParents`, `trueDownstream`; predicates `NoJunction`, `NoWrap`, `AllDc`,
  `Symmetric`). All theorems hold for both build modes (`m : Mode`) unless stated.

  KNOWN FINDINGS — clauses that are false of the unchanged code, each with a `_partial` theorem
  whose hypothesis excludes the class, and a `_counterexample`:
   * 32-bit wrap between the port latches of one device (c17/port-time-wrap): both tree theorems
     need `NoWrap` (a hypothesis on the clocks, not on the shape of the tree);
     `port_time_wrap_counterexample`.
   * a DC device behind a device without DC (c17/chain-delay-nondc-gap): `chain_delay_exact_partial`
     needs `DcContig`; `chain_delay_exact_counterexample`.
  FIXED (was c17/nested-junction-wrong-parent): after a `LineEnd` the parent search now takes the
  nearest earlier junction that still HAS A FREE DOWNSTREAM PORT (`Ports::has_free_downstream_port`);
  before, it took the nearest junction even when full, and the device landed on that junction's own
  entry port. `parent_is_true_parent` is now the full statement over EVERY tree of the specification
  (any nesting of chains, forks and crosses; the former `_partial` needed `NoNestedJunction`); the
  former counterexample trees are in `parent_is_true_parent_fixed`.
  FIXED (were c17/inconsistent-panic-topology, c17/inconsistent-panic-nofree, c17/nested-junction-panic):
  a DL status without any open port is rejected up front and a junction without a free port gives
  `Err(Error::Topology)`; `inconsistent_is_error` is now the full statement (no hypothesis on the
  reports beyond their types); the former witnesses are in `inconsistent_reports_rejected`.
  FIXED (was c17/offset-i64-overflow): the offset is computed with `wrapping_sub`; `offset_value`
  holds for every pair of 64-bit values in both build modes (`offset_former_witnesses`).
  Configuration note: the model follows the build used by the harness (no `log`/`defmt` feature),
  in which `fmt::debug!` arguments are evaluated; see the header of EcModel/Dc.lean.
-/
import EcModel.Lemmas.DcTree

set_option linter.unusedSimpArgs false

namespace Ec.C17
open Ec Ec.Dc Ec.DcSpec

/-! ### facts regenerated from /repo that the model builds on -/

/-- `Port::index()` is the inverse of the numbering of `Ports::new`: its `unreachable!` arm is dead
    for every port the crate can construct. -/
theorem port_index_total : ∀ i, i < 4 → portIndex? (portNumber i) = some i := by decide

theorem generated_facts :
    Gen.Dc.portNumbers = [0, 3, 1, 2] ∧
    Gen.Dc.topologyArms = [(1, "LineEnd"), (2, "Passthrough"), (3, "Fork"), (4, "Cross")] ∧
    Gen.Dc.junctionKinds = ["Fork", "Cross"] ∧
    Gen.Dc.REG_DcSystemTimeOffset = 0x0920 ∧ Gen.Dc.REG_DcSystemTimeTransmissionDelay = 0x0928 ∧
    Gen.Dc.REG_DcTimePort0 = 0x0900 ∧ Gen.Dc.REG_DcReceiveTime = 0x0918 := by decide

/-! ### clause 1: programmed delays never decrease in frame-processing order -/

/-- For ANY device reports (no hypothesis on topology, times or DC mix): if
    `assign_parent_relationships` returns, the delays of the DC-capable devices are non-decreasing in
    processing order. -/
theorem delay_monotone (m : Mode) (devs out : List Dev) (h0 : ∀ d ∈ devs, d.delay = 0)
    (h : assignParentRelationships m devs = .ok out) :
    List.Pairwise (fun a b => a.dc = true → b.dc = true → a.delay ≤ b.delay) out :=
  assignLoop_mono m devs [] 0 out List.Pairwise.nil (by simp) (by decide) h0 (assign_ok_loop m devs out h)

theorem delay_monotone_reports (m : Mode) (rs : List Report) (out : List Dev)
    (h : assignParentRelationships m (mkDevs rs) = .ok out ∨ assignParentRelationships m (latch rs) = .ok out) :
    List.Pairwise (fun a b => a.dc = true → b.dc = true → a.delay ≤ b.delay) out := by
  rcases h with h | h
  · refine delay_monotone m _ out ?_ h
    intro d hd
    rcases mkDevsFrom_mem _ _ _ d hd with ⟨i, r, _, rfl⟩
    rfl
  · refine delay_monotone m _ out ?_ h
    intro d hd
    rcases mkDevsFrom_mem _ _ _ d hd with ⟨i, r, _, rfl⟩
    unfold latchOne; split <;> rfl

/-! ### clause 2: exact on pure chains -/

/-- Pure chain (`NoJunction`; any of the ports 3/1/2 may carry the line) whose DC-capable devices are
    contiguous in frame order (`DcContig`: devices without DC only before the first / after the last
    DC device), forward delay of every device equal to the return delay of its downstream neighbour
    (`Symmetric`), no 32-bit wrap inside a DC device: the run succeeds and the delay programmed into
    every DC device equals its arrival time minus the arrival time of the FIRST DC device — the true
    one-way delay from the reference clock; devices without DC keep delay 0 (`chainTruth`). -/
theorem chain_delay_exact_partial (m : Mode) (T : Tree) (tin : Nat) (h : T.isNode = true)
    (hchain : NoJunction T) (hdc : DcContig T 0) (hsym : Symmetric T) (hw : NoWrap T tin) :
    ∃ out, assignParentRelationships m (mkDevs (visit T 0 tin).1) = .ok out ∧
      out.map (·.delay) = chainTruth T none tin :=
  chain_exact_contig m T tin h hchain hdc hsym hw

/-- The all-DC special case in terms of `arrivals`: delay `i` = `arrival i − arrival 0`. -/
theorem chain_delay_exact_all_dc (m : Mode) (T : Tree) (tin : Nat) (h : T.isNode = true)
    (hchain : NoJunction T) (hdc : AllDc T) (hsym : Symmetric T) (hw : NoWrap T tin)
    (hfit : (visit T 0 tin).2 - tin ≤ U32_MAX) :
    ∃ out, assignParentRelationships m (mkDevs (visit T 0 tin).1) = .ok out ∧
      out.map (·.delay) = (arrivals T tin).1.map (fun a => a - tin) := by
  rw [visit_snd] at hfit
  exact chain_exact m T tin h hchain hdc hsym hw hfit

/-- What the loop computes on ANY chain-shaped device list, DC or not, symmetric or not: each DC
    device adds `⌊(loop time of its upstream neighbour − its own loop time) / 2⌋`, saturating at
    `u32::MAX`; a device without DC contributes nothing and presents loop time 0 to its downstream
    neighbour. (On a physical chain the difference is `pd(up) + 2·link + ret(this)`, so the error
    against the true delay `pd(up) + link` is `⌊(ret(this) − pd(up)) / 2⌋` per hop: the rounding the
    property allows, made explicit.) -/
theorem chain_delay_formula (m : Mode) (d0 : Dev) (rest : List Dev)
    (hidx : Indexed 0 (d0 :: rest)) (hchain : ChainDevs (d0 :: rest)) :
    ∃ out, assignParentRelationships m (d0 :: rest) = .ok out ∧
      out.map (·.delay) = d0.delay :: chainFold d0.prop 0 rest :=
  chain_run m d0 rest hidx hchain

/-- Witness of c17/chain-delay-nondc-gap: chain DC, non-DC, DC (delays 40 ns, links 100 ns). -/
def wGap : Tree :=
  .node ⟨2, 7, 40, 40, 100⟩ (.node ⟨0, 7, 40, 40, 100⟩ (.node ⟨2, 7, 40, 40, 100⟩ .none .none .none) .none .none) .none .none

/-- Known finding c17/chain-delay-nondc-gap: the third device is programmed with delay 0 although
    the frame reaches it 280 ns after the first (`DcContig` fails, everything else holds). -/
theorem chain_delay_exact_counterexample :
    (match assignParentRelationships .checked (mkDevs (visit wGap 0 1000).1) with
      | .ok out => out.map (·.delay)
      | _ => []) = [0, 0, 0] ∧
    (arrivals wGap 1000).1.map (fun a => a - 1000) = [0, 140, 280] ∧ chainTruth wGap none 1000 = [0, 0, 280] ∧
    NoJunction wGap ∧ Symmetric wGap ∧ NoWrap wGap 1000 ∧ ¬ DcContig wGap 0 := by
  refine ⟨by decide, by decide, by decide, ?_, ?_, ?_, ?_⟩
  · simp [wGap, NoJunction, Tree.isNode]
  · simp [wGap, Symmetric, retDelay, Tree.isNode]
  · simp [wGap, NoWrap, visit, Tree.link, Tree.isNode, Tree.size, local32, U32]
  · simp [wGap, DcContig]

/-! ### clause 3: derived from the true upstream neighbour -/

/-- For EVERY tree wired through port 0 — any nesting of chains, forks and crosses, of any size and
    depth — with any link / processing / forwarding delays, any clock offsets, any mix of DC support
    (no 32-bit wrap inside a DC device, see c17/port-time-wrap): `assign_parent_relationships`
    succeeds, the parent of every device is its physical upstream neighbour, and the downstream
    neighbour recorded on each port is the device physically plugged into it.

    Proof (Lemmas/DcTree `process_node`, `process_tree`): induction over the tree in frame order.
    `Processes T` says: once the root of subtree `T` has been appended to ANY processed prefix,
    running the loop over T's descendants yields exactly T's wiring and leaves the prefix untouched.
    While a device's branches are processed one after the other, everything after it in the list is
    the result of COMPLETED subtrees, all of whose devices are `Closed` (no junction among them has a
    free downstream port: `expected_closed`, any shape), and ends in a line end; the device itself
    still has a free downstream port while a later branch is to come (`rootPorts_free1/2`). So the
    junctions with a free downstream port are exactly the ancestors of the next attachment point,
    the nearest one is found, and its first free port in the order 3, 1, 2 is the physical one. -/
theorem parent_is_true_parent (m : Mode) (T : Tree) (tin : Nat) (h : T.isNode = true)
    (hw : NoWrap T tin) :
    ∃ out, assignParentRelationships m (mkDevs (visit T 0 tin).1) = .ok out ∧
      out.map (·.parent) = trueParents T 0 none ∧
      out.map Dev.downByNumber = trueDownstream T 0 := by
  rcases assign_tree m T tin h hw with ⟨out, ho, hs⟩
  refine ⟨out, ho, ?_, ?_⟩
  · rw [← expected_parents T 0 none, ← hs]
    exact (map_of_shape _ shape_parent out).symm
  · rw [← expected_down T 0 none, ← hs]
    exact (map_of_shape _ shape_down out).symm

def wLeaf : Tree := .node ⟨2, 1000, 40, 40, 100⟩ .none .none .none
def wY : Tree := .node ⟨2, 1000, 40, 40, 100⟩ wLeaf wLeaf .none
/-- Cross A with A.p3 → fork Y → line ends Y1, Y2 and A.p1 → Z. -/
def wT5 : Tree := .node ⟨2, 1000, 40, 40, 100⟩ wY wLeaf .none
/-- ... and A.p2 → W. -/
def wT6 : Tree := .node ⟨2, 1000, 40, 40, 100⟩ wY wLeaf wLeaf

/-- The former witnesses of c17/nested-junction-wrong-parent (before the fix Z, position 4, was given
    parent 1 = Y on Y's own entry port although it hangs off A, position 0; with W the valid tree
    was rejected with `Err(Topology)`, earlier a panic): the model of the repaired code returns the
    physical parents and ports. Both trees have a junction inside a non-last branch of another
    junction (`NoNestedJunction`, the hypothesis of the former `_partial` theorem, fails). -/
theorem parent_is_true_parent_fixed :
    (match assignParentRelationships .checked (mkDevs (visit wT5 0 1000).1) with
      | .ok out => out.map (·.parent)
      | _ => []) = [none, some 0, some 1, some 1, some 0] ∧
    trueParents wT5 0 none = [none, some 0, some 1, some 1, some 0] ∧
    (match assignParentRelationships .checked (mkDevs (visit wT6 0 1000).1) with
      | .ok out => (out.map (·.parent), out.map Dev.downByNumber)
      | _ => ([], [])) = (trueParents wT6 0 none, trueDownstream wT6 0) ∧
    trueParents wT6 0 none = [none, some 0, some 1, some 1, some 0, some 0] ∧
    NoWrap wT5 1000 ∧ NoWrap wT6 1000 ∧ ¬ NoNestedJunction wT5 ∧ ¬ NoNestedJunction wT6 := by
  refine ⟨by decide, by decide, by decide, by decide, ?_, ?_, ?_, ?_⟩
  · simp [wT5, wY, wLeaf, NoWrap, visit, Tree.link, Tree.isNode, Tree.size, local32, U32]
  · simp [wT6, wY, wLeaf, NoWrap, visit, Tree.link, Tree.isNode, Tree.size, local32, U32]
  · simp [wT5, wY, wLeaf, NoNestedJunction, NoJunction, Tree.isNode]
  · simp [wT6, wY, wLeaf, NoNestedJunction, NoJunction, Tree.isNode]

/-- A two-device chain whose first device latches 0xFFFFFFF0 at port 0, so its port 3 latch wraps. -/
def wWrap : Tree :=
  .node ⟨2, 4294966280, 40, 40, 100⟩ (.node ⟨2, 4294966280, 40, 40, 100⟩ .none .none .none) .none .none

/-- Known finding c17/port-time-wrap: the second device is recorded on port 0 of the first. -/
theorem port_time_wrap_counterexample :
    (match assignParentRelationships .checked (mkDevs (visit wWrap 0 1000).1) with
      | .ok out => out.map Dev.downByNumber
      | _ => []) = [(some 1, none, none, none), (none, none, none, none)] ∧
    trueDownstream wWrap 0 = [(none, none, none, some 1), (none, none, none, none)] ∧
    ¬ NoWrap wWrap 1000 := by
  refine ⟨by decide, by decide, ?_⟩
  simp [wWrap, NoWrap, visit, Tree.link, Tree.isNode, Tree.size, local32, U32]

/-! ### clause 4: offset = master time − latched receive time -/

/-- Every build mode, every 64-bit receive time and master time: the value written to 0x0920 is
    `now − receive time` as a two's-complement 64-bit number; the computation cannot fail. -/
theorem offset_value (m : Mode) (rx now : Nat) (h1 : rx < U64) (h2 : now < U64) :
    offsetI64 m rx now = .ok ((now + U64 - rx) % U64) :=
  offsetI64_value m rx now h1 h2

/-- `configure_dc`, either build mode: if it returns a value, then — in frame order, for exactly the
    DC-capable devices — it has written `now − receive time` (64-bit two's complement, little
    endian) to 0x0920 and the programmed delay to 0x0928 of that device's station address, where the
    receive time is the one latched from register 0x0918 of that device. -/
theorem offset_formula (m : Mode) (now : Nat) (rs : List Report) (ws : List Write) (ref : Option Nat)
    (devs : List Dev) (hnow : now < U64) (hrx : ∀ r ∈ rs, r.rx < U64)
    (h : configureDc m now rs = (ws, .ok (ref, devs))) (hdc : ref ≠ none) :
    ws = (devs.filter (fun d => d.dc)).flatMap (dcWrites now (rs.map (·.addr))) ∧
    devs.map Dev.idk = (latch rs).map Dev.idk := by
  unfold configureDc at h
  cases ha : assignParentRelationships m (latch rs) with
  | panic w => rw [ha] at h; simp at h
  | err e => rw [ha] at h; simp at h
  | ok out =>
    rw [ha] at h
    simp only at h
    have hidk := assignLoop_idk m (latch rs) [] 0 out (assign_ok_loop _ _ _ ha)
    simp only [List.nil_append] at hidk
    cases hf : (out.find? (fun d => d.dc)).map (·.index) with
    | none =>
      rw [hf] at h
      simp only [Prod.mk.injEq, Outcome.ok.injEq] at h
      exact absurd h.2.1.symm hdc
    | some i =>
      rw [hf] at h
      simp only at h
      rcases hw : writeLoop m now (rs.map (·.addr)) out with ⟨w, r⟩
      rw [hw] at h
      cases r with
      | panic s => simp at h
      | err e => simp at h
      | ok u =>
        cases u
        simp only [Prod.mk.injEq, Outcome.ok.injEq] at h
        rcases h with ⟨rfl, _, rfl⟩
        refine ⟨?_, hidk⟩
        apply writeLoop_ok m now _ hnow out _ w hw
        intro d hd
        have : d.idk ∈ (latch rs).map Dev.idk := by rw [← hidk]; exact List.mem_map_of_mem hd
        rcases List.mem_map.1 this with ⟨x, hx, hxe⟩
        have hrxe : x.rxTime = d.rxTime := congrArg (fun t => t.2.2) hxe
        rcases mkDevsFrom_mem _ _ _ x hx with ⟨j, r, hr, rfl⟩
        rw [← hrxe]
        unfold latchOne
        split
        · exact hrx r hr
        · simp only; decide

/-- The former witnesses of c17/offset-i64-overflow (panics in checked builds before the fix) now
    give the two's-complement difference in both build modes. -/
theorem offset_former_witnesses (m : Mode) :
    offsetI64 m 9223372036854775808 5 = .ok 9223372036854775813 ∧
    offsetI64 m 9223372036854775809 9223372036854775807 = .ok 18446744073709551614 := by
  cases m <;> refine ⟨by decide, by decide⟩

/-! ### clause 5: the first DC-capable device becomes the reference -/

/-- `configure_dc` returns (and `init` stores) the first device, in frame order, whose support flags
    announce DC; `none` iff there is none. -/
theorem first_dc_is_reference (m : Mode) (now : Nat) (rs : List Report) (ws : List Write) (ref : Option Nat)
    (devs : List Dev) (h : configureDc m now rs = (ws, .ok (ref, devs))) :
    ref = firstDcFrom 0 rs := by
  unfold configureDc at h
  cases ha : assignParentRelationships m (latch rs) with
  | panic w => rw [ha] at h; simp at h
  | err e => rw [ha] at h; simp at h
  | ok out =>
    rw [ha] at h
    simp only at h
    have hidk := assignLoop_idk m (latch rs) [] 0 out (assign_ok_loop _ _ _ ha)
    simp only [List.nil_append] at hidk
    have hfirst : (out.find? (fun d => d.dc)).map (·.index) = firstDcFrom 0 rs := by
      rw [find_dc_of_idk out (latch rs) hidk]
      exact find_dc_latch latchOne latchOne_fields rs 0
    cases hf : (out.find? (fun d => d.dc)).map (·.index) with
    | none =>
      rw [hf] at h hfirst
      simp only [Prod.mk.injEq, Outcome.ok.injEq] at h
      rw [← h.2.1]; exact hfirst
    | some i =>
      rw [hf] at h hfirst
      simp only at h
      rcases hw : writeLoop m now (rs.map (·.addr)) out with ⟨w, r⟩
      rw [hw] at h
      cases r with
      | panic s => simp at h
      | err e => simp at h
      | ok u =>
        simp only [Prod.mk.injEq, Outcome.ok.injEq] at h
        rw [← h.2.1]; exact hfirst

/-! ### clause 6: inconsistent reports produce an error, not a panic -/

theorem timesOk_devOfReport (i : Nat) (r : Report)
    (ht : r.t0 < U32 ∧ r.t1 < U32 ∧ r.t2 < U32 ∧ r.t3 < U32) : TimesOk (devOfReport i r).ports :=
  ⟨ht.1, ht.2.2.2, ht.2.1, ht.2.2.1⟩

/-- ARBITRARY reports — any DL status including "no port open", any `u32` receive times, any DC
    mix, any number of devices: `assign_parent_relationships` returns a value or an error, it never
    panics, in either build mode. (`Ports::topology()`'s `unreachable!`, `entry_port()`'s unwrap, the
    parent lookup, `"Parent assigned port"` and the `u32` sum are all unreachable.) -/
theorem inconsistent_is_error (m : Mode) (rs : List Report) (w : String)
    (htimes : ∀ r ∈ rs, r.t0 < U32 ∧ r.t1 < U32 ∧ r.t2 < U32 ∧ r.t3 < U32) :
    assignParentRelationships m (mkDevs rs) ≠ .panic w := by
  refine assign_no_panic m (mkDevs rs) w ?_ (mkDevsFrom_indexed' _ (fun _ _ => rfl) rs 0)
  intro d hd
  rcases mkDevsFrom_mem _ _ _ d hd with ⟨i, r, hr, rfl⟩
  exact timesOk_devOfReport i r (htimes r hr)

/-- The whole of `configure_dc` (latch, topology, delays, offset and delay writes), either build
    mode, ARBITRARY reports and 64-bit clock values: never a panic. -/
theorem inconsistent_is_error_configure_dc (m : Mode) (now : Nat) (rs : List Report) (ws : List Write) (w : String)
    (htimes : ∀ r ∈ rs, r.t0 < U32 ∧ r.t1 < U32 ∧ r.t2 < U32 ∧ r.t3 < U32)
    (hnow : now < U64) (hrx : ∀ r ∈ rs, r.rx < U64) :
    configureDc m now rs ≠ (ws, .panic w) :=
  configureDc_no_panic m now rs ws w htimes hnow hrx

/-- ... and for every valid tree of any shape (no wrap) there is no panic and no error at all
    (restating `parent_is_true_parent`). -/
theorem valid_tree_no_panic (m : Mode) (T : Tree) (tin : Nat) (h : T.isNode = true)
    (hw : NoWrap T tin) :
    ∃ out, assignParentRelationships m (mkDevs (visit T 0 tin).1) = .ok out := by
  rcases assign_tree m T tin h hw with ⟨out, ho, _⟩
  exact ⟨out, ho⟩

/-- The former witnesses of c17/inconsistent-panic-topology (a device reporting no open port, as a DC
    device or in front of another device) and c17/inconsistent-panic-nofree (a fork followed by four
    line ends) are now rejected with `Err(Topology)`. -/
theorem inconsistent_reports_rejected (m : Mode) :
    assignParentRelationships m (mkDevs [⟨4096, false, false, false, false, true, 0, 0, 0, 0, 0⟩])
      = .err .topology ∧
    assignParentRelationships m
      (mkDevs [⟨4096, false, false, false, false, false, 0, 0, 0, 0, 0⟩, ⟨4097, true, false, false, false, true, 100, 0, 0, 0, 100⟩])
      = .err .topology ∧
    assignParentRelationships m (mkDevs [⟨0, true, true, false, true, true, 100, 900, 0, 500, 100⟩,
      ⟨0, true, false, false, false, true, 100, 0, 0, 0, 100⟩, ⟨0, true, false, false, false, true, 100, 0, 0, 0, 100⟩,
      ⟨0, true, false, false, false, true, 100, 0, 0, 0, 100⟩, ⟨0, true, false, false, false, true, 100, 0, 0, 0, 100⟩])
      = .err .topology := by
  cases m <;> refine ⟨by decide, by decide, by decide⟩

/-! ### non-vacuity -/

def eLeaf : Tree := .node ⟨2, 5, 40, 40, 100⟩ .none .none .none
/-- A coupler with a non-DC terminal line on port 3 and a further coupler (two terminals) on its
    last port, mixed DC. -/
def eFork : Tree :=
  .node ⟨2, 123456, 40, 40, 0⟩ (.node ⟨0, 9, 35, 45, 150⟩ eLeaf .none .none)
    (.node ⟨3, 77, 50, 50, 200⟩ eLeaf eLeaf .none) .none

/-- `eFork` satisfies every hypothesis of `parent_is_true_parent`, and the result is the wiring. -/
example : eFork.isNode = true ∧ NoWrap eFork 1000 ∧
    (match assignParentRelationships .checked (mkDevs (visit eFork 0 1000).1) with
      | .ok out => out.map (·.parent)
      | _ => []) = [none, some 0, some 1, some 0, some 3, some 3] := by
  refine ⟨rfl, ?_, by decide⟩
  · simp [eFork, eLeaf, NoWrap, visit, Tree.link, Tree.isNode, Tree.size, local32, U32]

/-- Junctions nested three deep, each inside a NON-last branch of the next: cross A; A.p3 → fork B;
    B.p3 → fork C (on ports 3 and 2); C.p3 → leaf, C.p2 → leaf; B.p1 → leaf; A.p1 → passthrough →
    leaf; A.p2 → leaf. Mixed DC. -/
def eDeep : Tree :=
  .node ⟨2, 123456, 40, 40, 0⟩
    (.node ⟨3, 77, 50, 50, 200⟩ (.node ⟨2, 5, 40, 40, 100⟩ eLeaf .none eLeaf) eLeaf .none)
    (.node ⟨0, 9, 35, 45, 150⟩ .none eLeaf .none)
    eLeaf

/-- `eDeep` satisfies every hypothesis of `parent_is_true_parent` (and not the one of the former
    `_partial` theorem); parents and ports are the wiring. -/
example : eDeep.isNode = true ∧ NoWrap eDeep 1000 ∧ ¬ NoNestedJunction eDeep ∧
    (match assignParentRelationships .checked (mkDevs (visit eDeep 0 1000).1) with
      | .ok out => (out.map (·.parent), out.map Dev.downByNumber)
      | _ => ([], [])) = (trueParents eDeep 0 none, trueDownstream eDeep 0) ∧
    trueParents eDeep 0 none = [none, some 0, some 1, some 2, some 2, some 1, some 0, some 6, some 0] := by
  refine ⟨rfl, ?_, ?_, by decide, by decide⟩
  · simp [eDeep, eLeaf, NoWrap, visit, Tree.link, Tree.isNode, Tree.size, local32, U32]
  · simp [eDeep, eLeaf, NoNestedJunction, NoJunction, Tree.isNode]

/-- A symmetric chain over mixed ports with a non-DC coupler first and a non-DC terminal last; the
    first DC device sits close to the 32-bit wrap. -/
def eChain : Tree :=
  .node ⟨0, 1, 40, 40, 0⟩
    (.node ⟨2, 4294960000, 40, 40, 300⟩
      (.node ⟨3, 5, 40, 40, 100⟩ .none
        (.node ⟨2, 9, 40, 40, 2000⟩ .none .none (.node ⟨0, 0, 40, 40, 10⟩ .none .none .none)) .none)
      .none .none) .none .none

/-- `eChain` satisfies every hypothesis of `chain_delay_exact_partial`; the delays are as stated. -/
example : eChain.isNode = true ∧ NoJunction eChain ∧ DcContig eChain 0 ∧ Symmetric eChain ∧ NoWrap eChain 1000 ∧
    chainTruth eChain none 1000 = [0, 0, 140, 2180, 0] ∧
    (match assignParentRelationships .checked (mkDevs (visit eChain 0 1000).1) with
      | .ok out => out.map (·.delay)
      | _ => []) = [0, 0, 140, 2180, 0] := by
  refine ⟨rfl, ?_, ?_, ?_, ?_, by decide, by decide⟩
  · simp [eChain, NoJunction, Tree.isNode]
  · simp [eChain, DcContig]
  · simp [eChain, Symmetric, retDelay, Tree.isNode]
  · simp [eChain, NoWrap, visit, Tree.link, Tree.isNode, Tree.size, local32, U32]

end Ec.C17
