/-
  C13 — no EEPROM content can hang or crash the MainDevice.
  Property theorems only; the calculus and the per-function lemmas live in EcModel/Lemmas/EepromSafe.lean,
  the build-mode agreement of the category walk in EcModel/Lemmas/EepromAgree.lean.
-/
import EcModel.Lemmas.EepromAgree

namespace Ec.C13
open Ec Ec.Eeprom

/-- The EEPROM-derived queries of `SubDeviceEeprom` (what `SubDevice::new`, configuration and the public
    `name/description/identity/eeprom_size/...` entry points call). -/
inductive Query where
  | category (cat : Nat)
  | stationAlias | size | identity | mailboxConfig | general
  | syncManagers | fmmus | fmmuMappings
  | pdos (cat : Nat)
  | findString (N idx : Nat)
  | deviceName (N : Nat)
  | deviceDescription (N : Nat)

/-- Keep outcome class and cost, forget the value. -/
def forget {α : Type} (x : M α) : M Unit :=
  (match x.1 with | .ok _ => .ok () | .err e => .err e | .panic w => .panic w, x.2)

def Query.run (m : Mode) (p : Prov) : Query → M Unit
  | .category cat => forget (Eeprom.category m p cat)
  | .stationAlias => forget (Eeprom.stationAlias m p)
  | .size => forget (Eeprom.size m p)
  | .identity => forget (Eeprom.identity m p)
  | .mailboxConfig => forget (Eeprom.mailboxConfig m p)
  | .general => forget (Eeprom.general m p)
  | .syncManagers => forget (Eeprom.syncManagers m p)
  | .fmmus => forget (Eeprom.fmmus m p)
  | .fmmuMappings => forget (Eeprom.fmmuMappings m p)
  | .pdos cat => forget (Eeprom.pdos m p cat)
  | .findString N idx => forget (Eeprom.findString m p N idx)
  | .deviceName N => forget (Eeprom.deviceName m p N)
  | .deviceDescription N => forget (Eeprom.deviceDescription m p N)

/-- Provider-call bound of a query, given the bound `CB` of one category search. -/
def Query.bound (CB : Nat) : Query → Nat
  | .category _ => CB
  | .stationAlias => 3
  | .size => 3
  | .identity => 17
  | .mailboxConfig => 11
  | .general => CB + 19
  | .syncManagers => CB + 90
  | .fmmus => CB + 17
  | .fmmuMappings => CB + 72
  | .pdos _ => CB + 152064
  | .findString N idx => CB + 2 * idx + N + 5
  | .deviceName N => 2 * CB + N + 534
  | .deviceDescription N => 2 * CB + N + 534

theorem forget_tri {α : Type} {K : List String} {hang : Bool} {B : Nat} {Q : α → Prop} {x : M α}
    (h : Tri K hang B Q x) : Tri K hang B (fun _ => True) (forget x) := by
  unfold forget
  refine ⟨h.cost, ?_, ?_, fun _ _ => trivial⟩
  · intro hh h'
    cases hx : x.1 with
    | ok a => rw [hx] at h'; cases h'
    | err e => rw [hx] at h'; cases h'; exact h.nofuel hh hx
    | panic w => rw [hx] at h'; cases h'
  · intro w h'
    cases hx : x.1 with
    | ok a => rw [hx] at h'; cases h'
    | err e => rw [hx] at h'; cases h'
    | panic w' => rw [hx] at h'; cases h'; exact h.panics _ hx

/-- The calculus applied to every query, relative to what is known about the category search. -/
theorem query_tri (m : Mode) (p : Prov) (hcs : 4 ≤ p.cs) (hb : ∀ a, p.rd a < 256) {hang : Bool} {CB : Nat}
    (hc : CatOK m p hang CB) (q : Query) :
    Tri (sites m) hang (q.bound CB) (fun _ => True) (q.run m p) := by
  cases q with
  | category cat => exact forget_tri (hc cat)
  | stationAlias => exact forget_tri (stationAlias_tri m hang p (by omega))
  | size => exact forget_tri (size_tri m hang p (by omega))
  | identity => exact forget_tri (identity_tri m hang p (by omega))
  | mailboxConfig => exact forget_tri (mailboxConfig_tri m hang p (by omega))
  | general => exact forget_tri (general_tri m p hcs hc hb)
  | syncManagers => exact forget_tri (syncManagers_tri m p hcs hc)
  | fmmus => exact forget_tri (fmmus_tri m p hcs hc)
  | fmmuMappings => exact forget_tri (fmmuMappings_tri m p hcs hc)
  | pdos cat => exact forget_tri (pdos_tri m p hcs hc hb cat)
  | findString N idx => exact forget_tri (findString_tri m p hcs hc N idx)
  | deviceName N => exact forget_tri (deviceName_tri m p hcs hc hb N)
  | deviceDescription N => exact forget_tri (deviceDescription_tri m p hcs hc hb N)

/-- **Overflow-checked builds, every image.** For every memory content (any bytes), chunk size ≥ 4 and every
    query: the query terminates (never runs out of fuel), makes at most `bound` provider calls, and returns a
    value, "absent" or an error — or panics at one of the eight `u16` overflow sites listed in `knownSites`,
    and nowhere else (no index, slice, unwrap or capacity panic exists). -/
theorem eeprom_queries_total_checked (p : Prov) (hcs : 4 ≤ p.cs) (hb : ∀ a, p.rd a < 256) (q : Query) :
    (q.run .checked p).1 ≠ .err .fuel ∧
    (q.run .checked p).2 ≤ q.bound (catBound .checked) ∧
    (∀ w, (q.run .checked p).1 = .panic w → w ∈ knownSites) :=
  have h := query_tri .checked p hcs hb (catOK_all .checked p hcs) q
  ⟨h.nofuel rfl, h.cost, h.panics⟩

/-- **Wrapping builds, every image.** No query can panic, whatever the memory holds; every loop other than the
    category walk is bounded. (The category walk itself may fail to terminate: see
    `category_wrap_hang_counterexample`.) -/
theorem eeprom_queries_never_panic_wrapping (p : Prov) (hcs : 4 ≤ p.cs) (hb : ∀ a, p.rd a < 256) (q : Query) :
    (∀ w, (q.run .wrapping p).1 ≠ .panic w) ∧ (q.run .wrapping p).2 ≤ q.bound catFuel := by
  have h := query_tri .wrapping p hcs hb (catOK_all .wrapping p hcs) q
  refine ⟨fun w hw => ?_, h.cost⟩
  have := h.panics w hw
  simp [sites] at this

/-- **`eeprom_queries_total`, PARTIAL.** Hypothesis: no category search overflows `u16` on this image (the
    checked search for every category type ends without a panic: the chain of category headers stays below
    word 0x8000 and a found category fits the 16-bit byte cursor). Then in wrapping builds every query
    terminates, never panics, and makes at most the tight (checked) number of provider calls; in checked
    builds the only remaining panics are the `size`, `skip_ahead_bytes` and `read_byte` sites. The full
    statement without the hypothesis is false: see the counterexamples below. -/
theorem eeprom_queries_total_partial (p : Prov) (hcs : 4 ≤ p.cs) (hb : ∀ a, p.rd a < 256)
    (hnw : ∀ cat, NoPanic (Eeprom.category .checked p cat)) (q : Query) :
    (q.run .wrapping p).1 ≠ .err .fuel ∧
    (∀ w, (q.run .wrapping p).1 ≠ .panic w) ∧
    (q.run .wrapping p).2 ≤ q.bound (catBound .checked) := by
  have h := query_tri .wrapping p hcs hb (catOK_noWrap p hcs hnw) q
  refine ⟨h.nofuel rfl, fun w hw => ?_, h.cost⟩
  have := h.panics w hw
  simp [sites] at this

/-- **Access bound**, explicit: a category search makes at most 32 737 provider calls in a checked build (the
    word address grows by at least 2 per call from 0x40), hence every query with string capacity and index up
    to 255 stays below 185 000 calls. -/
theorem access_bound (q : Query)
    (hq : ∀ N idx, (q = .findString N idx → N ≤ 255 ∧ idx ≤ 255) ∧ (q = .deviceName N → N ≤ 255) ∧
      (q = .deviceDescription N → N ≤ 255)) :
    catBound .checked = 32737 ∧ q.bound (catBound .checked) ≤ 184801 := by
  refine ⟨by decide, ?_⟩
  have hcb : catBound .checked = 32737 := by decide
  rw [hcb]
  cases q with
  | findString N idx => have := (hq N idx).1 rfl; simp only [Query.bound]; omega
  | deviceName N => have := (hq N 0).2.1 rfl; simp only [Query.bound]; omega
  | deviceDescription N => have := (hq N 0).2.2 rfl; simp only [Query.bound]; omega
  | _ => simp [Query.bound]

/-- **Collections are bounded**: whatever the image, in both build modes, a returned list never exceeds the
    `heapless` capacity (more items give `Err(Capacity)`), and a returned string never exceeds `N` bytes. -/
theorem collections_bounded (m : Mode) (p : Prov) (hcs : 4 ≤ p.cs) (hb : ∀ a, p.rd a < 256) :
    (∀ l, (syncManagers m p).1 = .ok l → l.length ≤ 8) ∧
    (∀ l, (fmmus m p).1 = .ok l → l.length ≤ 16) ∧
    (∀ l, (fmmuMappings m p).1 = .ok l → l.length ≤ 16) ∧
    (∀ cat l, (pdos m p cat).1 = .ok l → l.length ≤ 64) ∧
    (∀ N idx b, (findString m p N idx).1 = .ok (some b) → b.length ≤ N) ∧
    (∀ N b, (deviceName m p N).1 = .ok (some b) → b.length ≤ N) ∧
    (∀ N b, (deviceDescription m p N).1 = .ok (some b) → b.length ≤ N) := by
  have hc := catOK_all m p hcs
  refine ⟨fun l h => (syncManagers_tri m p hcs hc).post l h, fun l h => (fmmus_tri m p hcs hc).post l h,
    fun l h => (fmmuMappings_tri m p hcs hc).post l h, fun cat l h => (pdos_tri m p hcs hc hb cat).post l h,
    fun N idx b h => (findString_tri m p hcs hc N idx).post _ h b rfl,
    fun N b h => (deviceName_tri m p hcs hc hb N).post _ h b rfl,
    fun N b h => (deviceDescription_tri m p hcs hc hb N).post _ h b rfl⟩

/-- T1 obligation: the capacities named in `collections_bounded` are the ones regenerated from /repo. -/
theorem t1_capacities :
    Gen.Eeprom.CAP_SYNC_MANAGERS = 8 ∧ Gen.Eeprom.CAP_FMMUS = 16 ∧ Gen.Eeprom.CAP_FMMU_EX = 16 ∧
    Gen.Eeprom.CAP_PDOS = 64 ∧ Gen.Eeprom.FMMU_READ_BUF = 16 ∧ Gen.Eeprom.EMPTY_CATEGORY_LIMIT = 32 := by
  decide

/-! ## The full statement is false of the code as it is: one concrete image per defect class

  Memories are given as functions; every byte not mentioned is 0. All witnesses are replayed on the real code by
  `harness/src/bin/c13.rs` (adversarial corpus). -/

/-- 128 header bytes, then a first category of type 1 with length word 0xFFFF. -/
def imgLenFFFF (a : Nat) : Nat := if a = 128 then 1 else if a = 130 then 255 else if a = 131 then 255 else 0

set_option maxRecDepth 100000 in
/-- Checked builds: `word_addr += len_words` overflows (`subdevice/eeprom.rs`, end of the `category` loop):
    every category-based query panics on this image. -/
theorem category_len_overflow_counterexample :
    (general .checked ⟨imgLenFFFF, 4⟩).1 = .panic "category:add" ∧
    (syncManagers .checked ⟨imgLenFFFF, 8⟩).1 = .panic "category:add" ∧
    (deviceName .checked ⟨imgLenFFFF, 4⟩ 64).1 = .panic "category:add" := by decide

/-- EEPROM size word (word 0x3E) = `lo + 256 * hi`, everything else 0. -/
def imgSize (lo hi : Nat) (a : Nat) : Nat := if a = 124 then lo else if a = 125 then hi else 0

/-- `(word + 1) * 128` in `u16`: size word 511 (a 512 Kbit EEPROM) overflows the multiplication, size word
    0xFFFF (a blank, all-ones EEPROM) the addition. Checked builds panic; wrapping builds report 0 bytes. -/
theorem size_overflow_counterexample :
    (size .checked ⟨imgSize 255 1, 4⟩).1 = .panic "size:mul" ∧
    (size .wrapping ⟨imgSize 255 1, 4⟩).1 = .ok 0 ∧
    (size .checked ⟨fun _ => 255, 4⟩).1 = .panic "size:add" ∧
    (size .wrapping ⟨fun _ => 255, 4⟩).1 = .ok 0 := by decide

/-- First category (type 1) with length 0x7FBC: the next header sits at word 0x7FFE. -/
def imgFar (a : Nat) : Nat := if a = 128 then 1 else if a = 130 then 0xbc else if a = 131 then 0x7f else 0

set_option maxRecDepth 100000 in
/-- A category header at word 0x7FFE or beyond (a well-formed EEPROM larger than 64 KiB has them) cannot be
    passed: in this build configuration the evaluated trace argument `word_addr * 2` overflows. -/
theorem category_beyond_32k_counterexample :
    (fmmus .checked ⟨imgFar, 4⟩).1 = .panic "category:mul" := by decide

/-- A `General` category (type 30) found at word 0x40 with a length word of 0x8000 / 0x7FC0. -/
def imgBigCat (lo hi : Nat) (a : Nat) : Nat :=
  if a = 128 then 30 else if a = 130 then lo else if a = 131 then hi else 0

set_option maxRecDepth 100000 in
/-- `EepromRange::new(word_addr, len_words)`: `len_words * 2` and `start * 2 + len * 2` overflow. -/
theorem found_category_overflow_counterexample :
    (general .checked ⟨imgBigCat 0 0x80, 4⟩).1 = .panic "new:mul" ∧
    (general .checked ⟨imgBigCat 0xc0 0x7f, 4⟩).1 = .panic "new:add" := by decide

/-- Strings category (6 words) at word 0x7FF0 (byte 0xFFE0), holding 5 strings, the first 255 bytes long. -/
def imgSkip (a : Nat) : Nat :=
  if a = 128 then 1 else if a = 130 then 0xac else if a = 131 then 0x7f
  else if a = 0xffdc then 10 else if a = 0xffde then 6
  else if a = 0xffe0 then 5 else if a = 0xffe1 then 255 else 0

set_option maxRecDepth 100000 in
/-- `skip_ahead_bytes`: `self.byte_pos + skip` overflows for a string table near the top of the byte space. -/
theorem skip_overflow_counterexample :
    (findString .checked ⟨imgSkip, 4⟩ 16 2).1 = .panic "skip_ahead_bytes:add" := by decide

/-- Empty Strings category whose header is at word 0x7FFD: the range is `[65534, 65534)`. -/
def imgReadByte (a : Nat) : Nat :=
  if a = 128 then 1 else if a = 130 then 0xbb else if a = 131 then 0x7f
  else if a = 0xfffa then 10 else if a = 0xfffe then 5 else 0

set_option maxRecDepth 100000 in
/-- `read_byte` never compares with `end`: it reads past an empty category and `byte_pos += 1` overflows. -/
theorem read_byte_overflow_counterexample :
    (findString .checked ⟨imgReadByte, 4⟩ 16 2).1 = .panic "read_byte:add" := by decide

/-- 128 header bytes, then a first category of type 2 (not searched for) with length word 0xFFFE. -/
def imgWrapToSelf (a : Nat) : Nat := if a = 128 then 2 else if a = 130 then 254 else if a = 131 then 255 else 0

/-- **Wrapping builds loop forever**: the next header address is `0x42 + 0xFFFE = 0x40 (mod 2^16)`, the header
    just read. For EVERY amount of fuel the walk is still running; it has made `fuel` provider calls. (Every
    category-based query, hence `SubDevice` initialisation, never returns for this device.) -/
theorem category_wrap_hang_counterexample (cat : Nat) (hcat : cat ≠ 1) (fuel : Nat) :
    ∀ calls, catLoop .wrapping ⟨imgWrapToSelf, 4⟩ cat fuel 64 0 calls = (.err .fuel, calls + fuel) := by
  induction fuel with
  | zero => intro calls; rfl
  | succ fuel ih =>
    intro calls
    have hstep : catStep .wrapping cat (chunkAt ⟨imgWrapToSelf, 4⟩ 64) 64 0 = (.ok (.next 64 0), 0) := by
      have hchunk : chunkAt ⟨imgWrapToSelf, 4⟩ 64 = [2, 0, 254, 255] := by decide
      rw [hchunk]
      unfold catStep
      have hc : catOf (rd16 [2, 0, 254, 255]) = 1 := by decide
      have hl : rd16 (List.drop 2 [2, 0, 254, 255]) = 65534 := by decide
      simp only [hc, hl]
      have hne : ¬ (1 = cat) := fun h => hcat h.symm
      simp [hne, mul16, add16, Gen.Eeprom.EMPTY_CATEGORY_LIMIT, Gen.Eeprom.CAT_END, ret, Eeprom.bind]
    unfold catLoop
    rw [hstep]
    simp only
    rw [ih (calls + 1)]
    congr 1; omega

/-- In particular the search for the General category (30) with the fuel the model's `category` uses. -/
theorem general_hangs_counterexample :
    (Eeprom.category .wrapping ⟨imgWrapToSelf, 4⟩ 30).1 = .err .fuel := by
  unfold Eeprom.category
  show (catLoop .wrapping ⟨imgWrapToSelf, 4⟩ 30 catFuel 64 0 0).1 = .err .fuel
  rw [category_wrap_hang_counterexample 30 (by decide) catFuel 0]

/-! ## non-vacuity: the hypotheses of the partial theorem are satisfiable, and queries do return values -/

/-- A small well-formed image: General category (18 bytes, order string 1) and an End marker. -/
def imgOk (a : Nat) : Nat :=
  if a = 128 then 30 else if a = 130 then 9 else if a = 134 then 1 else if a = 150 then 255 else if a = 151 then 255 else 0

set_option maxRecDepth 100000 in
example : (Eeprom.category .checked ⟨imgOk, 4⟩ 30).1 = .ok (some ⟨132, 150⟩) := by decide

set_option maxRecDepth 100000 in
example : (Eeprom.category .checked ⟨imgOk, 4⟩ 41).1 = .ok none := by decide

set_option maxRecDepth 100000 in
example : (Query.run .wrapping ⟨imgOk, 8⟩ .syncManagers).1 = .ok () := by decide

end Ec.C13
