/-
  Helper lemmas for C07: what one pass of the transmit half (`buildFrame`) puts into a frame.
-/
import EcModel.TxRx
import EcModel.Lemmas.FrameInv

namespace Ec.TxRx
open Ec

/-- A datagram without its index: (command, declared length, data). -/
def desc (d : Dgram) : Cmd × Nat × List Nat := (d.cmd, d.len, d.data)

/-- The frame under construction is the encoding of the accepted datagrams (C04 invariant). -/
structure BInv (cap : Nat) (b : Build) : Prop where
  inv : FInv b.f b.acc
  cap : b.f.cap = cap

theorem BInv.new (cap idx : Nat) : BInv cap (Build.new cap idx) :=
  ⟨FInv.init cap, rfl⟩

theorem BInv.used_le {cap : Nat} {b : Build} (h : BInv cap b) : b.f.used ≤ cap - 16 := by
  have := h.inv.fits; rw [h.cap] at this; exact this

theorem BInv.plen {cap : Nat} {b : Build} (h : BInv cap b) : b.f.pdu.length = cap - 16 := by
  have := h.inv.plen; rw [h.cap] at this; exact this

theorem push_some {cap : Nat} {b : Build} (h : BInv cap b) (hcap : cap ≤ 2063) (c : Cmd)
    (data : List Nat) (lenOv : Option Nat)
    (hfit : b.f.used + (declLen data lenOv + 12) ≤ cap - 16) :
    ∃ b', b.push c data lenOv = some b' ∧ BInv cap b' ∧
      b'.acc = b.acc ++ [⟨c, b.idx, declLen data lenOv, data⟩] ∧ b'.idx = nextIdx b.idx ∧
      b'.f.used = b.f.used + (declLen data lenOv + 12) := by
  have hp := h.plen
  have hfit' : b.f.used + (declLen data lenOv + PDU_OVERHEAD) ≤ b.f.pdu.length := by
    simp only [PDU_OVERHEAD]; omega
  have hb : data.length ≤ declLen data lenOv := by unfold declLen; split <;> omega
  have e : b.f.pushPdu c data lenOv b.idx
      = ((b.f.commit c b.idx (declLen data lenOv) data).1,
         some (b.f.commit c b.idx (declLen data lenOv) data).2) := by
    unfold CFrame.pushPdu; rw [if_pos hfit']
  refine ⟨⟨(b.f.commit c b.idx (declLen data lenOv) data).1,
      b.acc ++ [⟨c, b.idx, declLen data lenOv, data⟩], nextIdx b.idx⟩, ?_, ⟨?_, ?_⟩, rfl, rfl, ?_⟩
  · unfold Build.push; rw [e]
  · exact h.inv.commit c b.idx _ data hb hfit' (by rw [h.cap]; exact hcap)
  · simp [commit_cap, h.cap]
  · simp [CFrame.commit, PDU_OVERHEAD]

theorem push_none {cap : Nat} {b : Build} (h : BInv cap b) (c : Cmd)
    (data : List Nat) (lenOv : Option Nat)
    (hfit : ¬ b.f.used + (declLen data lenOv + 12) ≤ cap - 16) :
    b.push c data lenOv = none := by
  have hp := h.plen
  have hfit' : ¬ b.f.used + (declLen data lenOv + PDU_OVERHEAD) ≤ b.f.pdu.length := by
    simp only [PDU_OVERHEAD]; omega
  unfold Build.push CFrame.pushPdu; rw [if_neg hfit']

/-- The state-check datagram for SubDevice `a`. -/
def fprdDesc (a : Nat) : Cmd × Nat × List Nat := (.fprd a 304, 2, [])

/-- Number of state checks `pushStateChecks` adds: as many as there are SubDevices left, as fit, and the
    per-frame cap of 129 allows. -/
def checksFit (cap used : Nat) (subs : List Nat) (num : Nat) : Nat :=
  min (min subs.length ((cap - 16 - used) / 14)) (129 - num)

theorem pushStateChecks_spec (cap : Nat) (hcap : cap ≤ 2063) :
    ∀ (subs : List Nat) (b : Build) (num : Nat), BInv cap b → num ≤ 128 →
    ∃ b', pushStateChecks b subs num
        = some (b', subs.drop (checksFit cap b.f.used subs num), num + checksFit cap b.f.used subs num) ∧
      BInv cap b' ∧
      b'.acc.map desc = b.acc.map desc ++ (subs.take (checksFit cap b.f.used subs num)).map fprdDesc ∧
      b'.f.used = b.f.used + 14 * checksFit cap b.f.used subs num := by
  intro subs
  induction subs with
  | nil =>
    intro b num h _
    refine ⟨b, ?_, h, ?_, ?_⟩ <;> simp [pushStateChecks, checksFit]
  | cons a rest ih =>
    intro b num h hnum
    have hu := h.used_le
    have hp := h.plen
    by_cases hfit : b.f.used + 14 ≤ cap - 16
    · -- one more fits
      have hcan : b.f.canPush Gen.TxRx.AL_CONTROL_PACKED_LEN = true := by
        simp [CFrame.canPush, Gen.TxRx.AL_CONTROL_PACKED_LEN, PDU_OVERHEAD, hp]; omega
      obtain ⟨b1, e1, h1, hacc1, _, hused1⟩ :=
        push_some h hcap (.fprd a Gen.TxRx.REG_AlStatus) [] (some Gen.TxRx.AL_CONTROL_PACKED_LEN)
          (by simp [declLen, Gen.TxRx.AL_CONTROL_PACKED_LEN]; omega)
      have hdl : declLen [] (some Gen.TxRx.AL_CONTROL_PACKED_LEN) = 2 := by
        simp [declLen, Gen.TxRx.AL_CONTROL_PACKED_LEN]
      rw [hdl] at hused1 hacc1
      by_cases hbrk : num + 1 > Gen.TxRx.STATE_CHECKS_BREAK_AFTER
      · -- the 129th check of this frame
        have hn : num = 128 := by simp [Gen.TxRx.STATE_CHECKS_BREAK_AFTER] at hbrk; omega
        have hcf : checksFit cap b.f.used (a :: rest) num = 1 := by
          simp [checksFit, hn]; omega
        refine ⟨b1, ?_, h1, ?_, ?_⟩
        · simp [pushStateChecks, hcan, e1, hbrk, hcf]
        · simp [hacc1, hcf, desc, fprdDesc, Gen.TxRx.REG_AlStatus]
        · rw [hused1, hcf]
      · have hn : num + 1 ≤ 128 := by simp [Gen.TxRx.STATE_CHECKS_BREAK_AFTER] at hbrk; omega
        obtain ⟨b2, e2, h2, hacc2, hused2⟩ := ih b1 (num + 1) h1 hn
        have hcf : checksFit cap b.f.used (a :: rest) num = checksFit cap b1.f.used rest (num + 1) + 1 := by
          simp only [checksFit, List.length_cons, hused1]; omega
        refine ⟨b2, ?_, h2, ?_, ?_⟩
        · simp only [pushStateChecks, hcan, if_true, e1, hbrk, if_false, e2, hcf, List.drop_succ_cons]
          congr 3; omega
        · rw [hacc2, hacc1, hcf]
          simp [desc, fprdDesc, Gen.TxRx.REG_AlStatus]
        · rw [hcf]; omega
    · -- frame full
      have hcan : b.f.canPush Gen.TxRx.AL_CONTROL_PACKED_LEN = false := by
        simp [CFrame.canPush, Gen.TxRx.AL_CONTROL_PACKED_LEN, PDU_OVERHEAD, hp]; omega
      have hcf : checksFit cap b.f.used (a :: rest) num = 0 := by
        simp only [checksFit]; omega
      refine ⟨b, ?_, h, ?_, ?_⟩
      · simp [pushStateChecks, hcan, hcf]
      · simp [hcf]
      · simp [hcf]

/-- Standing assumptions on the configuration (the property's quantifier): frame size between the smallest
    that carries one state check (plus the clock datagram for the clock variants) and the 11-bit limit, and a
    logical window inside the 32-bit address space. -/
structure CfgOk (c : Cfg) (pdiLen : Nat) : Prop where
  capHi : c.cap ≤ 2063
  capLo : 30 ≤ c.cap
  capDc : c.dc.isSome = true → 50 ≤ c.cap
  window : c.pdiStart + pdiLen ≤ 2 ^ 32

/-- Is the clock datagram due in this pass? -/
def needDc (c : Cfg) (s : St) : Bool := c.dc.isSome && !s.timeRead
/-- Bytes used by the clock datagram. -/
def u0 (c : Cfg) (s : St) : Nat := if needDc c s then 20 else 0
/-- Image bytes still to send. -/
def remOf (s : St) : Nat := s.image.length - s.sent
/-- Image bytes the LRW of this pass carries. -/
def kOf (c : Cfg) (s : St) : Nat := min (remOf s) (c.cap - 16 - u0 c s - 12)
/-- Bytes used after the LRW. -/
def u1 (c : Cfg) (s : St) : Nat := u0 c s + (if remOf s = 0 then 0 else kOf c s + 12)
/-- State checks of this pass. -/
def tOf (c : Cfg) (s : St) : Nat := checksFit c.cap (u1 c s) s.subs 0

def dcDescs (c : Cfg) (s : St) : List (Cmd × Nat × List Nat) :=
  match c.dc with
  | some r => if s.timeRead then [] else [(.frmw r 2320, 8, le64 0)]
  | none => []

def lrwDescs (c : Cfg) (s : St) : List (Cmd × Nat × List Nat) :=
  if remOf s = 0 then []
  else [(.lrw (c.pdiStart + s.sent), kOf c s, (s.image.drop s.sent).take (kOf c s))]

/-- The datagrams of one pass, as (command, length, data). -/
def planDescs (c : Cfg) (s : St) : List (Cmd × Nat × List Nat) :=
  dcDescs c s ++ lrwDescs c s ++ (s.subs.take (tOf c s)).map fprdDesc

theorem u0_le (c : Cfg) (s : St) : u0 c s ≤ 20 := by unfold u0; split <;> omega

theorem room_after_dc {c : Cfg} {s : St} {n : Nat} (h : CfgOk c n) : u0 c s + 14 ≤ c.cap - 16 := by
  have := h.capLo
  unfold u0 needDc
  cases hd : c.dc.isSome
  · simp; omega
  · have := h.capDc hd
    cases s.timeRead <;> simp <;> omega

theorem pushDcIf_spec {c : Cfg} {s : St} {n : Nat} (h : CfgOk c n) :
    ∃ b1, pushDcIf c s (Build.new c.cap s.idx) = some (b1, needDc c s) ∧ BInv c.cap b1 ∧
      b1.acc.map desc = dcDescs c s ∧ b1.f.used = u0 c s := by
  have h0 := BInv.new c.cap s.idx
  have hused0 : (Build.new c.cap s.idx).f.used = 0 := rfl
  cases hd : c.dc with
  | none =>
    refine ⟨Build.new c.cap s.idx, ?_, h0, ?_, ?_⟩ <;>
      simp [pushDcIf, hd, needDc, dcDescs, u0, Build.new, CFrame.init]
  | some r =>
    cases ht : s.timeRead with
    | true =>
      refine ⟨Build.new c.cap s.idx, ?_, h0, ?_, ?_⟩ <;>
        simp [pushDcIf, hd, ht, needDc, dcDescs, u0, Build.new, CFrame.init]
    | false =>
      have hcap50 : 50 ≤ c.cap := h.capDc (by simp [hd])
      have hdl : declLen (le64 0) none = 8 := by simp [declLen, le64, le32]
      obtain ⟨b1, e1, h1, hacc1, _, hused1⟩ :=
        push_some h0 h.capHi (.frmw r Gen.TxRx.REG_DcSystemTime) (le64 0) none (by rw [hdl, hused0]; omega)
      refine ⟨b1, ?_, h1, ?_, ?_⟩
      · simp [pushDcIf, hd, ht, e1, needDc]
      · rw [hacc1, hdl]; simp [Build.new, desc, dcDescs, hd, ht, Gen.TxRx.REG_DcSystemTime]
      · rw [hused1, hdl, hused0]; simp [u0, needDc, hd, ht]

theorem chunkOf_eq {s : St} (hs : s.sent ≤ s.image.length) :
    chunkOf s = (s.image.drop s.sent).take (remOf s) := by
  simp [chunkOf, remOf, Nat.min_eq_left hs]

theorem chunkOf_length {s : St} (hs : s.sent ≤ s.image.length) : (chunkOf s).length = remOf s := by
  rw [chunkOf_eq hs]; simp [remOf]

theorem addU_lt {bits : Nat} {m : Mode} {a b : Nat} (h : a + b < 2 ^ bits) : addU bits m a b = some (a + b) := by
  simp [addU, h]

theorem buildFrame_spec {c : Cfg} {s : St} (h : CfgOk c s.image.length) (hs : s.sent ≤ s.image.length) :
    ∃ bt, buildFrame c s = .ok bt ∧ BInv c.cap bt.b ∧ bt.b.acc.map desc = planDescs c s ∧
      bt.dcPushed = needDc c s ∧ bt.pushed = (if remOf s = 0 then none else some (kOf c s)) ∧
      bt.subs = s.subs.drop (tOf c s) ∧ bt.num = tOf c s ∧ bt.b.f.used = u1 c s + 14 * tOf c s := by
  obtain ⟨b1, e1, h1, hacc1, hused1⟩ := pushDcIf_spec (s := s) h
  have hroom := room_after_dc (s := s) h
  have hclen := chunkOf_length hs
  by_cases hrem : remOf s = 0
  · -- nothing left of the image
    have hempty : (chunkOf s).isEmpty = true := by
      rw [List.isEmpty_iff]; exact List.eq_nil_of_length_eq_zero (by rw [hclen, hrem])
    have hu1 : u1 c s = u0 c s := by simp [u1, hrem]
    obtain ⟨b2, e2, h2, hacc2, hused2⟩ := pushStateChecks_spec c.cap h.capHi s.subs b1 0 h1 (by omega)
    rw [hused1] at e2 hacc2 hused2
    refine ⟨⟨b2, needDc c s, none, s.subs.drop (tOf c s), tOf c s⟩, ?_, h2, ?_, rfl, ?_, rfl, rfl, ?_⟩
    · simp [buildFrame, e1, hempty, finishBuild, e2, tOf, hu1]
    · simp [hacc2, hacc1, planDescs, lrwDescs, hrem, tOf, hu1]
    · simp [hrem]
    · simp [hused2, tOf, hu1]
  · -- an LRW carrying `kOf` bytes
    have hne : (chunkOf s).isEmpty = false := by
      cases hc : chunkOf s with
      | nil => rw [hc] at hclen; simp at hclen; omega
      | cons _ _ => rfl
    have hsent : s.sent < s.image.length := by unfold remOf at hrem; omega
    have hw := h.window
    have hmod : s.sent % 2 ^ 32 = s.sent := Nat.mod_eq_of_lt (by omega)
    have haddr : addU 32 c.mode c.pdiStart (s.sent % 2 ^ 32) = some (c.pdiStart + s.sent) := by
      rw [hmod]; exact addU_lt (by omega)
    have hp := h1.plen
    have hrest : restLen b1.f (chunkOf s) = kOf c s := by
      simp only [restLen, hp, hused1, hclen, kOf, PDU_OVERHEAD]; omega
    have hk : 0 < kOf c s := by unfold kOf; omega
    have hkle : kOf c s ≤ remOf s := by unfold kOf; omega
    have hfit : b1.f.used + (kOf c s + PDU_OVERHEAD) ≤ b1.f.pdu.length := by
      simp only [hp, hused1, PDU_OVERHEAD, kOf]; omega
    have hz : ¬ (b1.f.pdu.length - b1.f.used - PDU_OVERHEAD = 0) := by
      simp only [hp, hused1, PDU_OVERHEAD]; omega
    have hpr : b1.f.pushRest (.lrw (c.pdiStart + s.sent)) (chunkOf s) b1.idx
        = ((b1.f.commit (.lrw (c.pdiStart + s.sent)) b1.idx (kOf c s) ((chunkOf s).take (kOf c s))).1,
           .some (kOf c s)
             (b1.f.commit (.lrw (c.pdiStart + s.sent)) b1.idx (kOf c s) ((chunkOf s).take (kOf c s))).2, true) := by
      unfold CFrame.pushRest
      rw [hne]; simp only [Bool.false_eq_true, if_false]
      rw [if_neg hz, hrest, if_pos hfit]
    have htake : (chunkOf s).take (kOf c s) = (s.image.drop s.sent).take (kOf c s) := by
      rw [chunkOf_eq hs, List.take_take, Nat.min_eq_left hkle]
    let b2 : Build :=
      ⟨(b1.f.commit (.lrw (c.pdiStart + s.sent)) b1.idx (kOf c s) ((chunkOf s).take (kOf c s))).1,
       b1.acc ++ [⟨.lrw (c.pdiStart + s.sent), b1.idx, kOf c s, (chunkOf s).take (kOf c s)⟩], nextIdx b1.idx⟩
    have hb2 : BInv c.cap b2 :=
      ⟨h1.inv.commit _ b1.idx _ _ (by simp; omega) hfit (by rw [h1.cap]; exact h.capHi), by simp [b2, commit_cap, h1.cap]⟩
    have hused2 : b2.f.used = u1 c s := by
      simp [b2, CFrame.commit, hused1, u1, hrem, PDU_OVERHEAD]
    obtain ⟨b3, e3, h3, hacc3, hused3⟩ := pushStateChecks_spec c.cap h.capHi s.subs b2 0 hb2 (by omega)
    rw [hused2] at e3 hacc3 hused3
    refine ⟨⟨b3, needDc c s, some (kOf c s), s.subs.drop (tOf c s), tOf c s⟩, ?_, h3, ?_, rfl, ?_, rfl, rfl, ?_⟩
    · simp only [buildFrame, e1, hne, haddr, hpr, finishBuild]
      simp [b2] at e3
      simp [e3, tOf]
    · rw [hacc3]; simp [b2, hacc1, planDescs, lrwDescs, hrem, tOf, desc, htake]
    · simp [hrem]
    · simp [hused3, tOf]

end Ec.TxRx
