/-
  C15 helper lemmas: aborts, foreign responses, emergencies, download responses.
-/
import EcModel.Lemmas.CoeServe

namespace Ec.Coe
open Ec Ec.Gen.Coe Ec.CoeSrv

theorem abort_image (rmbx c index sub code : Nat) (hr : 16 ≤ rmbx) :
    image rmbx (abortMessage c index sub code) =
      10 :: 0 :: 0 :: 0 :: 0 :: (3 + 16 * (c % 8)) :: 0 :: 32 :: 128 :: (index % 256) :: (index / 256 % 256) :: sub ::
        (le32 code ++ zeros (rmbx - 16)) := by
  have hl : (abortMessage c index sub code).length = 16 := by simp [abortMessage, frame, le32]
  rw [image_of_le _ _ (by rw [hl]; exact hr), hl]
  simp [abortMessage, frame, le32]

/-- Abort SDO Transfer is reported with the device's abort code and the object it names, whatever was requested. -/
theorem triage_abort {ρ : Type} (cfg : Cfg) (u : List Nat → Res ρ) (v : Nat → Nat → Bool) (c index sub code : Nat)
    (hi : index < 65536) (hc : code < 4294967296) (hr : 16 ≤ cfg.rmbx) :
    triage cfg u v (mkPdu cfg (image cfg.rmbx (abortMessage c index sub code))) = .err (.aborted code index sub) := by
  rw [triage_eq_bytes _ _ _ _ (mkPdu_ok _ _), mkPdu_bytes, abort_image _ _ _ _ _ hr]
  unfold triageB
  have hcmd : bitsOf 128 5 3 = 4 := by decide
  rw [unpackCoeHeaders_cons _ _ _ _ _ _ _ _ _ (by rw [bits_type]; exact validMbx3)
    (by rw [show (32 : Nat) = 16 * 2 from rfl, bits_svc 2 (by decide)]; exact validSvc2)]
  rw [unpackHeadersRaw_cons _ _ _ _ _ _ _ _ _ _ _ _ _ (by rw [bits_type]; exact validMbx3)
    (by rw [show (32 : Nat) = 16 * 2 from rfl, bits_svc 2 (by decide)]; exact validSvc2)
    (by rw [hcmd]; exact validCmd4)]
  have hu : unpackU32 (List.drop LEN_HeadersRaw
      (10 :: 0 :: 0 :: 0 :: 0 :: (3 + 16 * (c % 8)) :: 0 :: 32 :: 128 :: (index % 256) :: (index / 256 % 256) :: sub ::
        (le32 code ++ zeros (cfg.rmbx - 16)))) = .ok code := by
    simp only [LEN_HeadersRaw, List.drop_succ_cons, List.drop_zero]
    unfold unpackU32
    rw [if_neg (by simp [le32]), rd32_le32_append _ _ hc]
  simp only [Res.bind_ok, show (32 : Nat) = 16 * 2 from rfl, bits_svc 2 (by decide), hcmd, svcEmergency_eq, cmdAbort_eq,
    le16_index index hi, hu]
  simp

/-- An expedited upload response naming ANOTHER object than the one requested is refused with
    `SdoResponseInvalid { address, sub_index }` of the object it names. -/
theorem triage_foreign_expedited (cfg : Cfg) (c index sub rIndex rSub : Nat) (complete : Bool) (obj : List Nat)
    (h1 : 1 ≤ obj.length) (h4 : obj.length ≤ 4) (hi : index < 65536) (hr : 16 ≤ cfg.rmbx)
    (hne : ¬ (index = rIndex ∧ sub = rSub)) :
    triage cfg unpackSdoNormal (validateIdx rIndex rSub)
        (mkPdu cfg (image cfg.rmbx (expeditedResponse c index sub complete obj))) =
      .err (.responseInvalid index sub) := by
  have hb := bits_expedited obj.length complete h1 h4
  have hlen : ([0x43 + 4 * (4 - obj.length) + completeBit complete, index % 256, index / 256 % 256, sub] ++ obj ++
      zeros (4 - obj.length)).length = 8 := by
    simp [zeros]; omega
  have himg : image cfg.rmbx (expeditedResponse c index sub complete obj) =
      10 :: 0 :: 0 :: 0 :: 0 :: (3 + 16 * (c % 8)) :: 0 :: 48 ::
        (0x43 + 4 * (4 - obj.length) + completeBit complete) :: (index % 256) :: (index / 256 % 256) :: sub ::
        (obj ++ zeros (4 - obj.length) ++ zeros (cfg.rmbx - 16)) := by
    have hl : (expeditedResponse c index sub complete obj).length = 16 := by
      unfold expeditedResponse frame
      simp only [List.length_append, hlen, List.length_cons, List.length_nil]
    rw [image_of_le _ _ (by rw [hl]; omega), hl]
    unfold expeditedResponse frame
    rw [hlen]
    simp
  rw [triage_eq_bytes _ _ _ _ (mkPdu_ok _ _), mkPdu_bytes, himg]
  unfold triageB
  rw [unpackCoeHeaders_cons _ _ _ _ _ _ _ _ _ (by rw [bits_type]; exact validMbx3)
    (by rw [show (48 : Nat) = 16 * 3 from rfl, bits_svc 3 (by decide)]; exact validSvc3)]
  rw [unpackHeadersRaw_cons _ _ _ _ _ _ _ _ _ _ _ _ _ (by rw [bits_type]; exact validMbx3)
    (by rw [show (48 : Nat) = 16 * 3 from rfl, bits_svc 3 (by decide)]; exact validSvc3)
    (by rw [hb.2.2.2.2]; exact validCmd2)]
  have hv : validateIdx rIndex rSub index sub = false := by
    unfold validateIdx
    by_cases h : index = rIndex
    · have : sub ≠ rSub := fun h' => hne ⟨h, h'⟩
      simp [h, this]
    · simp [h]
  simp only [Res.bind_ok, show (48 : Nat) = 16 * 3 from rfl, bits_svc 3 (by decide), bits_type, hb.2.2.2.2,
    le16_index index hi, svcEmergency_eq, cmdAbort_eq, mbxCoe_eq, hv]
  simp

theorem emergency_image (rmbx c code reg : Nat) (data : List Nat) (hr : 16 ≤ rmbx) :
    image rmbx (emergencyMessage c code reg data) =
      10 :: 0 :: 0 :: 0 :: 0 :: (3 + 16 * (c % 8)) :: 0 :: 16 :: (code % 256) :: (code / 256 % 256) :: (reg % 256) ::
        ((data ++ zeros 5).take 5 ++ zeros (rmbx - 16)) := by
  have h5 : ((data ++ zeros 5).take 5).length = 5 := by simp [zeros]
  have hl : (emergencyMessage c code reg data).length = 16 := by
    simp only [emergencyMessage, frame, le16, List.length_append, List.length_cons, List.length_nil, h5]
  rw [image_of_le _ _ (by rw [hl]; exact hr), hl]
  simp only [emergencyMessage, frame, le16, List.length_append, List.length_cons, List.length_nil, h5]
  simp

/-- An emergency message in place of the response is reported as `MailboxError::Emergency` with the error code and
    error register the device sent, whatever the code's bytes are. -/
theorem triage_emergency {ρ : Type} (cfg : Cfg) (u : List Nat → Res ρ) (v : Nat → Nat → Bool) (c code reg : Nat)
    (data : List Nat) (hr : 16 ≤ cfg.rmbx) (hc : code < 65536) (hreg : reg < 256) :
    triage cfg u v (mkPdu cfg (image cfg.rmbx (emergencyMessage c code reg data))) = .err (.emergency code reg) := by
  rw [triage_eq_bytes _ _ _ _ (mkPdu_ok _ _), mkPdu_bytes, emergency_image _ _ _ _ _ hr]
  unfold triageB
  have hsvc : bitsOf 16 4 4 = 1 := by decide
  have h5 : ((data ++ zeros 5).take 5).length = 5 := by simp [zeros]
  rw [unpackCoeHeaders_cons _ _ _ _ _ _ _ _ _ (by rw [bits_type]; exact validMbx3) (by rw [hsvc]; decide)]
  have hlen : ¬ (List.drop LEN_CoeHeadersRaw
      (10 :: 0 :: 0 :: 0 :: 0 :: (3 + 16 * (c % 8)) :: 0 :: 16 :: (code % 256) :: (code / 256 % 256) :: (reg % 256) ::
        ((data ++ zeros 5).take 5 ++ zeros (cfg.rmbx - 16)))).length < LEN_EmergencyData := by
    simp [LEN_CoeHeadersRaw, LEN_EmergencyData, zeros]
  simp only [Res.bind_ok, hsvc, svcEmergency_eq, beq_self_eq_true, if_true, unpackEmergency, if_neg hlen]
  simp only [LEN_CoeHeadersRaw, List.drop_succ_cons, List.drop_zero, rd16, List.getD_cons_zero, List.getD_cons_succ]
  have e1 : code % 256 + 256 * (code / 256 % 256) = code := by omega
  rw [e1, Nat.mod_eq_of_lt hreg]

end Ec.Coe
