//! C17 — topology reconstruction and propagation delays.
//!
//! The REAL `assign_parent_relationships` (hook `verif::dc::assign_parent_relationships`) and the
//! REAL `configure_dc` (hook `verif::dc::configure_dc`, driven through PduTx/PduRx against a
//! register-level responder) run on device reports produced by an independent physical oracle
//! (`Oracle`: an event walk of the frame through a tree of devices with link / processing /
//! forwarding delays and free-running local clocks), and on arbitrary inconsistent reports.
use core::pin::pin;
use ecverif::dcnet::{self, Net, Responder};
use ecverif::rng::Rng;
use ecverif::util::{Report, hex};
use ethercrab::DcSupport;
use ethercrab::error::Error;
use ethercrab::verif::dc::{DcAssigned, DcReport};
use std::panic::{AssertUnwindSafe, catch_unwind};

const U32: u128 = 1 << 32;

fn mode() -> &'static str {
    if cfg!(debug_assertions) { "chk" } else { "wrap" }
}

// ------------------------------------------------------------------------------------------------
// physical oracle
// ------------------------------------------------------------------------------------------------

#[derive(Clone, Debug)]
struct NodeD {
    /// 0 none, 1 ref-only, 2 64 bit, 3 32 bit
    dc: u8,
    off: u64,
    pd: u64,
    fd: u64,
    link: u64,
    /// children on ports 3, 1, 2 (frame order)
    ch: [Option<usize>; 3],
    parent: Option<(usize, usize)>,
}

#[derive(Clone, Debug, Default)]
struct TreeD {
    nodes: Vec<NodeD>,
}

/// frame order of the ports and the port NUMBER of child slot k
const SLOT_PORT: [usize; 3] = [3, 1, 2];

#[derive(Clone, Debug, Default)]
struct Truth {
    /// arena index of the device at each discovery position
    order: Vec<usize>,
    /// global arrival time at port 0, per discovery position
    arrival: Vec<u64>,
    /// global arrival times back at ports 1,2,3 (by port number; index 0 = port 0 arrival)
    port_arrival: Vec<[Option<u64>; 4]>,
    parent: Vec<Option<u16>>,
    /// downstream neighbour by port number
    down: Vec<[Option<u16>; 4]>,
}

impl TreeD {
    fn to_tokens(&self, i: usize, out: &mut Vec<String>) {
        let n = &self.nodes[i];
        out.push(format!("N,{},{},{},{},{}", n.dc, n.off, n.pd, n.fd, n.link));
        for k in 0..3 {
            match n.ch[k] {
                Some(c) => self.to_tokens(c, out),
                None => out.push("_".into()),
            }
        }
    }

    /// Event walk: follow the frame from the MainDevice through every port until it comes back.
    fn walk(&self, tin: u64) -> Truth {
        let n = self.nodes.len();
        let mut pos_of = vec![usize::MAX; n];
        let mut t = Truth::default();
        // (device, port number the frame is entering through, time)
        let mut dev = 0usize;
        let mut port = 0usize;
        let mut time = tin;
        loop {
            if port == 0 {
                pos_of[dev] = t.order.len();
                t.order.push(dev);
                t.arrival.push(time);
                t.port_arrival.push([Some(time), None, None, None]);
                t.parent.push(self.nodes[dev].parent.map(|(p, _)| pos_of[p] as u16));
                t.down.push([None; 4]);
            } else {
                t.port_arrival[pos_of[dev]][port] = Some(time);
            }
            // next open port after `port` in the order 0 -> 3 -> 1 -> 2 -> 0
            let nd = &self.nodes[dev];
            let seq = [0usize, 3, 1, 2];
            let at = seq.iter().position(|p| *p == port).unwrap();
            let mut next = 0usize;
            for step in 1..=4 {
                let cand = seq[(at + step) % 4];
                let open = cand == 0 || nd.ch[SLOT_PORT.iter().position(|p| *p == cand).unwrap()].is_some();
                if open {
                    next = cand;
                    break;
                }
            }
            let leave = time + if port == 0 { nd.pd } else { nd.fd };
            if next == 0 {
                // out through port 0: to the upstream neighbour, or back to the MainDevice
                match nd.parent {
                    None => break,
                    Some((p, slot)) => {
                        time = leave + nd.link;
                        port = SLOT_PORT[slot];
                        dev = p;
                    }
                }
            } else {
                let slot = SLOT_PORT.iter().position(|p| *p == next).unwrap();
                let c = nd.ch[slot].unwrap();
                time = leave + self.nodes[c].link;
                dev = c;
                port = 0;
            }
        }
        for (pos, &d) in t.order.iter().enumerate() {
            for k in 0..3 {
                if let Some(c) = self.nodes[d].ch[k] {
                    t.down[pos][SLOT_PORT[k]] = Some(pos_of[c] as u16);
                }
            }
        }
        t
    }

    fn is_junction(&self, i: usize) -> bool {
        self.nodes[i].ch.iter().filter(|c| c.is_some()).count() >= 2
    }

    fn has_junction(&self, i: usize) -> bool {
        self.is_junction(i) || self.nodes[i].ch.iter().flatten().any(|c| self.has_junction(*c))
    }

    /// Some junction has a junction inside one of its branches other than the last.
    fn nested_junction(&self) -> bool {
        (0..self.nodes.len()).any(|i| {
            let kids: Vec<usize> = self.nodes[i].ch.iter().flatten().copied().collect();
            kids.len() >= 2 && kids[..kids.len() - 1].iter().any(|c| self.has_junction(*c))
        })
    }

    /// Largest number of junctions on one root-to-leaf path such that each (but the first) lies inside
    /// a NON-last branch of the previous one, minus one: 0 = no nested junction.
    fn nest_depth(&self) -> usize {
        fn go(t: &TreeD, i: usize) -> usize {
            // longest such sequence of junctions starting at or below `i` (counted in junctions)
            let kids: Vec<usize> = t.nodes[i].ch.iter().flatten().copied().collect();
            let below = kids.iter().map(|c| go(t, *c)).max().unwrap_or(0);
            if kids.len() >= 2 {
                let inner = kids[..kids.len() - 1].iter().map(|c| go(t, *c)).max().unwrap_or(0);
                below.max(1 + inner)
            } else {
                below
            }
        }
        go(self, 0).saturating_sub(1)
    }

    fn is_chain(&self) -> bool {
        (0..self.nodes.len()).all(|i| self.nodes[i].ch.iter().flatten().count() <= 1)
    }
}

/// The registers each device would hold after the latch, from the oracle's global times.
fn reports_of(tree: &TreeD, truth: &Truth) -> Vec<Rep> {
    truth
        .order
        .iter()
        .enumerate()
        .map(|(pos, &d)| {
            let n = &tree.nodes[d];
            let mut active = [true, false, false, false];
            let mut times = [0u32; 4];
            for p in 1..4 {
                active[p] = truth.port_arrival[pos][p].is_some();
            }
            let mut rx = 0u64;
            if n.dc != 0 {
                for p in 0..4 {
                    if let Some(g) = truth.port_arrival[pos][p] {
                        times[p] = ((g as u128 + n.off as u128) % U32) as u32;
                    }
                }
                let l = truth.arrival[pos] as u128 + n.off as u128;
                rx = if n.dc == 2 { (l % (1u128 << 64)) as u64 } else { (l % U32) as u64 };
            }
            Rep { active, dc: n.dc, times, rx }
        })
        .collect()
}

/// A DC device whose 32-bit port latches wrap between its first and last latch.
fn wraps(tree: &TreeD, truth: &Truth, pos: usize) -> bool {
    let n = &tree.nodes[truth.order[pos]];
    if n.dc == 0 {
        return false;
    }
    let first = truth.arrival[pos];
    let last = truth.port_arrival[pos].iter().flatten().copied().max().unwrap();
    (first as u128 + n.off as u128) % U32 + (last - first) as u128 >= U32
}

// ------------------------------------------------------------------------------------------------
// cases
// ------------------------------------------------------------------------------------------------

#[derive(Clone, Debug, PartialEq)]
pub struct Rep {
    /// by port number
    active: [bool; 4],
    dc: u8,
    times: [u32; 4],
    rx: u64,
}

fn reps_to_string(rs: &[Rep]) -> String {
    if rs.is_empty() {
        return "-".into();
    }
    rs.iter()
        .map(|r| {
            format!(
                "{}{}{}{},{},{},{},{},{},{}",
                r.active[0] as u8, r.active[1] as u8, r.active[2] as u8, r.active[3] as u8, r.dc, r.times[0], r.times[1], r.times[2], r.times[3], r.rx
            )
        })
        .collect::<Vec<_>>()
        .join(";")
}

fn parse_reps(s: &str) -> Vec<Rep> {
    if s == "-" {
        return vec![];
    }
    s.split(';')
        .map(|r| {
            let f: Vec<&str> = r.split(',').collect();
            let b: Vec<bool> = f[0].chars().map(|c| c == '1').collect();
            Rep {
                active: [b[0], b[1], b[2], b[3]],
                dc: f[1].parse().unwrap(),
                times: [f[2].parse().unwrap(), f[3].parse().unwrap(), f[4].parse().unwrap(), f[5].parse().unwrap()],
                rx: f[6].parse().unwrap(),
            }
        })
        .collect()
}

fn dc_support(n: u8) -> DcSupport {
    match n {
        0 => DcSupport::None,
        1 => DcSupport::RefOnly,
        2 => DcSupport::Bits64,
        _ => DcSupport::Bits32,
    }
}

fn to_hook(rs: &[Rep]) -> Vec<DcReport> {
    rs.iter()
        .enumerate()
        .map(|(i, r)| DcReport { configured_address: 0x1000 + i as u16, active: r.active, times: r.times, dc_support: dc_support(r.dc), dc_receive_time: r.rx })
        .collect()
}

fn opt(o: Option<u16>) -> String {
    o.map_or("-".to_string(), |v| v.to_string())
}

fn devs_to_string(ds: &[DcAssigned]) -> String {
    if ds.is_empty() {
        return "-".into();
    }
    ds.iter()
        .map(|d| format!("{},{},{},{},{},{}", opt(d.parent_index), d.propagation_delay, opt(d.downstream[0]), opt(d.downstream[1]), opt(d.downstream[2]), opt(d.downstream[3])))
        .collect::<Vec<_>>()
        .join(";")
}

fn panic_class(msg: &str) -> &'static str {
    if msg.contains("Invalid topology") {
        "topology"
    } else if msg.contains("no free ports on parent") {
        "nofree"
    } else if msg.contains("Parent assigned port") {
        "assigned"
    } else if msg.contains("self.active_ports()") {
        "entry"
    } else if msg.contains("parents.iter_mut().find") {
        "parentfind"
    } else if msg.contains("overflow") {
        "overflow"
    } else {
        "other"
    }
}

fn err_token(e: &Error) -> String {
    match e {
        Error::Topology => "err:Topology".into(),
        Error::Internal => "err:Internal".into(),
        e => format!("err:Other({e:?})").replace(' ', "_"),
    }
}

/// Outcome of the real `assign_parent_relationships`.
enum Out {
    Ok(Vec<DcAssigned>),
    Err(String),
    Panic(&'static str, String),
}

fn run_assign(rs: &[Rep]) -> Out {
    let hook = to_hook(rs);
    match catch_unwind(AssertUnwindSafe(|| ethercrab::verif::dc::assign_parent_relationships(&hook))) {
        Ok(Ok(v)) => Out::Ok(v.to_vec()),
        Ok(Err(e)) => Out::Err(err_token(&e)),
        Err(_) => {
            let m = dcnet::take_panic();
            Out::Panic(panic_class(&m), m)
        }
    }
}

/// What the property says about a case, from the oracle.
#[derive(Clone, Default)]
struct Expect {
    valid_tree: bool,
    parent: Vec<Option<u16>>,
    down: Vec<[Option<u16>; 4]>,
    arrival: Vec<u64>,
    chain: bool,
    /// junctions nested inside non-last branches (input distribution only; nothing is excused by it)
    nest_depth: usize,
    wrap: bool,
    /// per position k >= 1 of a chain: (pd of the upstream neighbour, return delay of this device)
    chain_fwd_ret: Vec<(u64, u64)>,
}

fn check_monotone(rs: &[Rep], ds: &[DcAssigned], rep: &mut Report, line: &str) {
    let mut last = 0u32;
    for (r, d) in rs.iter().zip(ds) {
        if r.dc != 0 {
            if d.propagation_delay < last {
                rep.fail("c17/delay-not-monotone", &format!("programmed delay {} after {}", d.propagation_delay, last), line);
                return;
            }
            last = d.propagation_delay;
        }
    }
}

fn monitor_assign(rs: &[Rep], out: &Out, ex: &Expect, rep: &mut Report, line: &str) {
    match out {
        Out::Ok(ds) => {
            check_monotone(rs, ds, rep, line);
            if !ex.valid_tree {
                return;
            }
            // derived from the true upstream neighbour, through the physical port
            let wrong_parent = ds.iter().zip(&ex.parent).position(|(d, p)| d.parent_index != *p);
            let wrong_port = ds.iter().zip(&ex.down).position(|(d, p)| d.downstream != *p);
            if wrong_parent.is_some() || wrong_port.is_some() {
                // (nested junctions are ordinary valid trees since the parent search skips full junctions)
                let key = if ex.wrap { "c17/port-time-wrap" } else { "c17/wrong-parent" };
                let what = match wrong_parent {
                    Some(i) => format!("device {i}: parent {:?}, true upstream neighbour {:?}", ds[i].parent_index, ex.parent[i]),
                    None => {
                        let i = wrong_port.unwrap();
                        format!("device {i}: downstream ports {:?}, physically {:?}", ds[i].downstream, ex.down[i])
                    }
                };
                rep.fail(key, &what, line);
            }
            // pure chains: delay = true one-way delay from the first DC device
            if ex.chain {
                if let Some(r0) = rs.iter().position(|r| r.dc != 0) {
                    let last_dc = rs.iter().rposition(|r| r.dc != 0).unwrap();
                    let gap = rs[r0..=last_dc].iter().any(|r| r.dc == 0);
                    // allowed deviation: half the forward/return asymmetry of every hop, rounded up
                    let mut slack = 0u64;
                    for i in r0..rs.len() {
                        if i > r0 {
                            let (f, r) = ex.chain_fwd_ret[i];
                            slack += (f.abs_diff(r) + 1) / 2;
                        }
                        if rs[i].dc == 0 {
                            continue;
                        }
                        let truth = ex.arrival[i] - ex.arrival[r0];
                        let got = ds[i].propagation_delay as u64;
                        if got.abs_diff(truth) > slack {
                            let key = if ex.wrap {
                                "c17/port-time-wrap"
                            } else if gap {
                                "c17/chain-delay-nondc-gap"
                            } else {
                                "c17/chain-delay"
                            };
                            rep.fail(key, &format!("chain device {i}: programmed delay {got} ns, true one-way delay from the first DC device {truth} ns (allowed asymmetry slack {slack})"), line);
                            break;
                        }
                    }
                }
            }
        }
        Out::Err(e) => {
            if ex.valid_tree {
                let key = if ex.wrap { "c17/port-time-wrap" } else { "c17/valid-tree-error" };
                rep.fail(key, &format!("valid tree rejected: {e}"), line);
            }
        }
        Out::Panic(class, msg) => {
            let key = if ex.valid_tree {
                if ex.wrap {
                    "c17/port-time-wrap".to_string()
                } else {
                    format!("c17/valid-tree-panic-{class}")
                }
            } else {
                format!("c17/inconsistent-panic-{class}")
            };
            rep.fail(&key, &format!("panic instead of a value or Err(Topology): {msg}"), line);
        }
    }
}

fn run_assign_case(rs: &[Rep], ex: &Expect, fail_line: Option<&str>, rep: &mut Report) -> Out {
    let line = format!("c17 assign {} {}", mode(), reps_to_string(rs));
    let out = run_assign(rs);
    monitor_assign(rs, &out, ex, rep, fail_line.unwrap_or(&line));
    let impl_line = match &out {
        Out::Ok(ds) => {
            rep.hit("assign=ok");
            format!("ok|{}", devs_to_string(ds))
        }
        Out::Err(e) => {
            rep.hit("assign=err");
            e.clone()
        }
        Out::Panic(c, _) => {
            rep.hit(&format!("assign=panic:{c}"));
            format!("panic:{c}")
        }
    };
    if rs.len() >= 3 {
        rep.nontrivial.insert(line.clone());
    }
    rep.case(line, impl_line);
    out
}

// ---- configure_dc through the wire

struct DcNet {
    reps: Vec<Rep>,
    writes: Vec<(u16, u16, Vec<u8>)>,
    other: Vec<String>,
}

impl Responder for DcNet {
    fn on_pdu(&mut self, cmd: u8, adp: u16, ado: u16, data: &mut [u8]) -> u16 {
        let dev = (adp as usize).checked_sub(0x1000).filter(|i| *i < self.reps.len());
        match (cmd, ado) {
            (dcnet::BWR, 0x0900) => self.reps.iter().filter(|r| r.dc != 0).count() as u16,
            (dcnet::FPRD, 0x0918) if dev.is_some() && data.len() == 8 => {
                data.copy_from_slice(&self.reps[dev.unwrap()].rx.to_le_bytes());
                1
            }
            (dcnet::FPRD, 0x0900) if dev.is_some() && data.len() == 16 => {
                for p in 0..4 {
                    data[4 * p..4 * p + 4].copy_from_slice(&self.reps[dev.unwrap()].times[p].to_le_bytes());
                }
                1
            }
            (dcnet::FPWR, _) => {
                self.writes.push((adp, ado, data.to_vec()));
                1
            }
            (c, _) => {
                self.other.push(format!("{c}:{adp}:{ado}:{}", data.len()));
                0
            }
        }
    }
}

fn run_dc_case(rs: &[Rep], now: u64, ex: &Expect, fail_line: Option<&str>, net: &mut Option<Net>, rep: &mut Report) {
    let case_line = format!("c17 dc {} {} {}", mode(), now, reps_to_string(rs));
    let line = fail_line.map_or(case_line.clone(), |l| l.to_string());
    let hook = to_hook(rs);
    let n = net.get_or_insert_with(dcnet::new_net);
    let md = n.maindevice;
    let mut dn = DcNet { reps: rs.to_vec(), writes: vec![], other: vec![] };
    let res = catch_unwind(AssertUnwindSafe(|| {
        let fut = pin!(ethercrab::verif::dc::configure_dc(md, &hook, now));
        dcnet::drive(fut, n, &mut dn)
    }));
    let ws = if dn.writes.is_empty() { "-".to_string() } else { dn.writes.iter().map(|(a, r, d)| format!("{a}:{r}:{}", hex(d))).collect::<Vec<_>>().join(",") };
    if !dn.other.is_empty() {
        rep.fail("c17/unexpected-datagram", &format!("{:?}", dn.other), &line);
    }
    let first_dc = rs.iter().position(|r| r.dc != 0);
    // i64 arithmetic of the offset, independently (i128)
    let overflow_at = rs.iter().position(|r| {
        if r.dc == 0 {
            return false;
        }
        let a = r.rx as i64 as i128;
        let b = now as i64 as i128;
        a == i64::MIN as i128 || -a + b > i64::MAX as i128 || -a + b < i64::MIN as i128
    });
    let impl_line = match res {
        Ok(Some(Ok((reference, ds)))) => {
            rep.hit("dc=ok");
            let ds = ds.to_vec();
            // the latch stores what the registers hold
            for (i, (d, r)) in ds.iter().zip(rs).enumerate() {
                if r.dc != 0 && d.dc_receive_time != r.rx {
                    rep.fail("c17/latch", &format!("device {i}: dc_receive_time {} != register {}", d.dc_receive_time, r.rx), &line);
                }
            }
            // same topology/delays as the pure run
            monitor_assign(rs, &Out::Ok(ds.clone()), ex, rep, &line);
            // first DC device is the reference
            if reference != first_dc.map(|i| 0x1000 + i as u16) {
                rep.fail("c17/reference", &format!("reference {reference:?}, first DC device {first_dc:?}"), &line);
            }
            // offset = master time - latched receive time (two's complement), delay as programmed
            let mut k = 0;
            let mut bad = None;
            for (i, r) in rs.iter().enumerate() {
                if r.dc == 0 {
                    continue;
                }
                let a = 0x1000 + i as u16;
                let want_off = now.wrapping_sub(r.rx).to_le_bytes().to_vec();
                let want_delay = ds[i].propagation_delay.to_le_bytes().to_vec();
                if dn.writes.len() < k + 2 || dn.writes[k] != (a, 0x0920, want_off) || dn.writes[k + 1] != (a, 0x0928, want_delay) {
                    bad = Some(i);
                    break;
                }
                k += 2;
            }
            if bad.is_none() && k != dn.writes.len() {
                bad = Some(usize::MAX);
            }
            if let Some(i) = bad {
                rep.fail("c17/offset-formula", &format!("device {i}: offset/delay registers are not (now - receive time, delay)"), &line);
            }
            if rs.len() >= 3 && first_dc.is_some() {
                rep.nontrivial.insert(case_line.clone());
            }
            format!("ok:{}|{}|{}", opt(reference), devs_to_string(&ds), ws)
        }
        Ok(Some(Err(e))) => {
            rep.hit("dc=err");
            monitor_assign(rs, &Out::Err(err_token(&e)), ex, rep, &line);
            format!("{}|-|{}", err_token(&e), ws)
        }
        Ok(None) => {
            *net = None;
            rep.fail("c17/stuck", "configure_dc neither finished nor sent a frame", &line);
            format!("stuck|-|{ws}")
        }
        Err(_) => {
            *net = None;
            let m = dcnet::take_panic();
            let c = panic_class(&m);
            rep.hit(&format!("dc=panic:{c}"));
            if c == "overflow" && m.contains("dc.rs") {
                let what = format!("write_dc_parameters panics: {m} (device {overflow_at:?})");
                rep.fail("c17/offset-i64-overflow", &what, &line);
            } else {
                monitor_assign(rs, &Out::Panic(c, m), ex, rep, &line);
            }
            format!("panic:{c}|-|{ws}")
        }
    };
    rep.case(case_line, impl_line);
}

// ------------------------------------------------------------------------------------------------
// generators
// ------------------------------------------------------------------------------------------------

#[derive(Clone, Copy, PartialEq)]
enum Shape {
    Any,
    /// no junction inside a non-last branch of another junction
    Flat,
    Chain,
    /// at least one junction inside a non-last branch of another junction
    Nested,
}

#[derive(Clone, Copy, PartialEq)]
enum Clocks {
    /// no 32-bit wrap between the latches of one device (wraps between devices are fine)
    NoWrap,
    /// at least one DC device wraps between its own latches
    Wrap,
}

#[derive(Clone, Copy, PartialEq)]
enum DcMix {
    All,
    Mixed,
    /// DC devices contiguous in frame order (non-DC only before the first / after the last)
    Contiguous,
}

fn gen_tree(rng: &mut Rng, n: usize, shape: Shape, sym: bool, mix: DcMix) -> TreeD {
    loop {
        let f = rng.range(1, 600);
        let mut t = TreeD::default();
        let mk = |rng: &mut Rng, parent: Option<(usize, usize)>| NodeD {
            dc: 2,
            off: 0,
            pd: if sym { f } else { rng.range(0, 900) },
            fd: if sym { f } else { rng.range(0, 900) },
            link: rng.range(10, 2000),
            ch: [None; 3],
            parent,
        };
        let root = mk(rng, None);
        t.nodes.push(root);
        while t.nodes.len() < n {
            let cand: Vec<usize> = (0..t.nodes.len())
                .filter(|i| {
                    let kids = t.nodes[*i].ch.iter().flatten().count();
                    if shape == Shape::Chain { kids == 0 && *i == t.nodes.len() - 1 } else { kids < 3 }
                })
                .collect();
            // bias towards extending the most recent device (lines are the common case)
            let p = if rng.chance(1, 2) { *cand.last().unwrap() } else { *rng.pick(&cand) };
            let free: Vec<usize> = (0..3).filter(|k| t.nodes[p].ch[*k].is_none()).collect();
            let slot = *rng.pick(&free);
            let id = t.nodes.len();
            let nd = mk(rng, Some((p, slot)));
            t.nodes.push(nd);
            t.nodes[p].ch[slot] = Some(id);
        }
        let ok = match shape {
            Shape::Any | Shape::Chain => true,
            Shape::Flat => !t.nested_junction(),
            Shape::Nested => t.nested_junction(),
        };
        if !ok {
            continue;
        }
        assign_dc(rng, &mut t, mix);
        return t;
    }
}

/// DC support in frame order.
fn assign_dc(rng: &mut Rng, t: &mut TreeD, mix: DcMix) {
    let order = t.walk(0).order;
    let k = order.len();
    match mix {
        DcMix::All => {
            for i in 0..k {
                t.nodes[order[i]].dc = *rng.pick(&[2u8, 2, 3, 1]);
            }
        }
        DcMix::Mixed => {
            for i in 0..k {
                t.nodes[order[i]].dc = *rng.pick(&[0u8, 0, 2, 2, 3, 1]);
            }
        }
        DcMix::Contiguous => {
            let a = rng.below(k as u64) as usize;
            let b = rng.range(a as u64, k as u64 - 1) as usize;
            for i in 0..k {
                t.nodes[order[i]].dc = if i >= a && i <= b { *rng.pick(&[2u8, 3, 1]) } else { 0 };
            }
        }
    }
}

/// A spine of `junctions` (2..=5) forks/crosses, each inside a NON-last branch of the previous one
/// (nesting depth `junctions - 1`, up to 4), optionally separated by passthrough devices, then grown
/// with random devices anywhere up to about `n` devices (at most 24).
fn gen_nested_tree(rng: &mut Rng, n: usize, junctions: usize, sym: bool, mix: DcMix) -> TreeD {
    let f = rng.range(1, 600);
    let mut t = TreeD::default();
    let mk = |rng: &mut Rng, parent: Option<(usize, usize)>| NodeD {
        dc: 2,
        off: 0,
        pd: if sym { f } else { rng.range(0, 900) },
        fd: if sym { f } else { rng.range(0, 900) },
        link: rng.range(10, 2000),
        ch: [None; 3],
        parent,
    };
    fn add(t: &mut TreeD, nd: NodeD, p: usize, slot: usize) -> usize {
        let id = t.nodes.len();
        t.nodes.push(nd);
        t.nodes[p].ch[slot] = Some(id);
        id
    }
    let root = mk(rng, None);
    t.nodes.push(root);
    let mut at = 0usize;
    for level in 0..junctions {
        // room left for the remaining junctions (2 children each at least)?
        let need = 2 * (junctions - level);
        if rng.chance(1, 3) && t.nodes.len() + need + 1 <= 24 {
            let slot = rng.below(3) as usize;
            let nd = mk(rng, Some((at, slot)));
            at = add(&mut t, nd, at, slot);
        }
        let three = rng.chance(1, 3) && t.nodes.len() + need + 1 <= 24;
        let slots: Vec<usize> = if three { vec![0, 1, 2] } else { let skip = rng.below(3) as usize; (0..3).filter(|k| *k != skip).collect() };
        let mut kids = Vec::new();
        for &slot in &slots {
            let nd = mk(rng, Some((at, slot)));
            kids.push(add(&mut t, nd, at, slot));
        }
        // the next junction sits in a branch that is not the last one of this junction
        at = kids[rng.below(kids.len() as u64 - 1) as usize];
    }
    while t.nodes.len() < n.min(24) {
        let cand: Vec<usize> = (0..t.nodes.len()).filter(|i| t.nodes[*i].ch.iter().flatten().count() < 3).collect();
        let p = *rng.pick(&cand);
        let free: Vec<usize> = (0..3).filter(|k| t.nodes[p].ch[*k].is_none()).collect();
        let slot = *rng.pick(&free);
        let nd = mk(rng, Some((p, slot)));
        add(&mut t, nd, p, slot);
    }
    assign_dc(rng, &mut t, mix);
    t
}

/// Choose local clock offsets. Returns false if the requested clock class cannot be met.
fn set_clocks(rng: &mut Rng, t: &mut TreeD, tin: u64, clocks: Clocks) -> bool {
    let truth = t.walk(tin);
    let mut wrapped_one = false;
    for (pos, &d) in truth.order.iter().enumerate() {
        let first = truth.arrival[pos];
        let last = truth.port_arrival[pos].iter().flatten().copied().max().unwrap();
        let span = (last - first) as u128;
        let hi = match rng.below(4) {
            0 => 0u64,
            1 => rng.next() & 0x7fff_ffff_0000_0000,
            2 => rng.next() & 0xffff_ffff_0000_0000,
            _ => (rng.below(1 << 20)) << 32,
        };
        // target value of the 32-bit latch at port 0
        let want_wrap = clocks == Clocks::Wrap && span > 0 && t.nodes[d].dc != 0 && (!wrapped_one || rng.chance(1, 4));
        let l0: u128 = if want_wrap {
            wrapped_one = true;
            U32 - 1 - rng.below(span as u64) as u128
        } else {
            let max = U32 - 1 - span; // largest start without a wrap
            match rng.below(8) {
                0 => max,                                        // last latch = 0xFFFF_FFFF
                1 => max - (rng.below(50) as u128).min(max),     // just below the wrap
                2 => 0,
                3 => rng.below(1000) as u128,                    // just after a wrap
                // the latches of this device straddle 2^31 (a signed reading of the 32-bit times must not change
                // their order; added after seed C17d), or sit just below / above it
                4 if span > 0 => ((1u128 << 31) - 1 - rng.below(span as u64) as u128).min(max),
                5 => ((1u128 << 31) - 1 - rng.below(2000) as u128).min(max),
                6 => ((1u128 << 31) + rng.below(2000) as u128).min(max),
                _ => rng.below(max as u64 + 1) as u128,
            }
        };
        let low = ((l0 + U32 - (first as u128 % U32)) % U32) as u64;
        t.nodes[d].off = hi | low;
    }
    clocks == Clocks::NoWrap || wrapped_one
}

fn expect_of(t: &TreeD, truth: &Truth) -> Expect {
    let mut chain_fwd_ret = vec![(0, 0); truth.order.len()];
    if t.is_chain() {
        for pos in 1..truth.order.len() {
            let me = &t.nodes[truth.order[pos]];
            let up = &t.nodes[truth.order[pos - 1]];
            let leaf = me.ch.iter().all(|c| c.is_none());
            chain_fwd_ret[pos] = (up.pd, if leaf { me.pd } else { me.fd });
        }
    }
    Expect {
        valid_tree: true,
        parent: truth.parent.clone(),
        down: truth.down.clone(),
        arrival: truth.arrival.clone(),
        chain: t.is_chain(),
        nest_depth: t.nest_depth(),
        wrap: (0..truth.order.len()).any(|p| wraps(t, truth, p)),
        chain_fwd_ret,
    }
}

/// One tree: the spec line (oracle vs Lean spec), the pure run, optionally the wire run.
fn tree_case(t: &TreeD, tin: u64, now: Option<u64>, net: &mut Option<Net>, rep: &mut Report) {
    let truth = t.walk(tin);
    let reps = reports_of(t, &truth);
    let ex = expect_of(t, &truth);
    let mut toks = Vec::new();
    t.to_tokens(0, &mut toks);
    let spec_out = format!(
        "{}|{}|{}|{}",
        reps.iter()
            .map(|r| format!("{}{}{}{},{},{},{},{},{},{}", r.active[0] as u8, r.active[1] as u8, r.active[2] as u8, r.active[3] as u8, (r.dc != 0) as u8, r.times[0], r.times[1], r.times[2], r.times[3], r.rx))
            .collect::<Vec<_>>()
            .join(";"),
        truth.arrival.iter().map(|a| a.to_string()).collect::<Vec<_>>().join(","),
        truth.parent.iter().map(|p| opt(*p)).collect::<Vec<_>>().join(","),
        truth.down.iter().map(|d| format!("{},{},{},{}", opt(d[0]), opt(d[1]), opt(d[2]), opt(d[3]))).collect::<Vec<_>>().join(";"),
    );
    let spec_line = format!("c17 spec {} {} {}", tin, now.map_or("-".to_string(), |n| n.to_string()), toks.join(","));
    rep.case(spec_line.clone(), spec_out);
    rep.hit(&format!("tree:n={}", match reps.len() { 1 => "1", 2..=4 => "2-4", 5..=12 => "5-12", _ => "13-24" }));
    rep.hit(if ex.chain { "tree:chain" } else if ex.nest_depth > 0 { "tree:nested-junction" } else { "tree:flat-junctions" });
    if ex.nest_depth > 0 {
        rep.hit(&format!("tree:nest-depth={}", ex.nest_depth.min(4)));
    }
    if ex.wrap {
        rep.hit("tree:intra-device-wrap");
    }
    if reps.iter().any(|r| r.dc == 0) {
        rep.hit("tree:mixed-dc");
    }
    for r in &reps {
        rep.hit(&format!("ports={}", r.active.iter().filter(|a| **a).count()));
    }
    run_assign_case(&reps, &ex, Some(&spec_line), rep);
    if let Some(now) = now {
        run_dc_case(&reps, now, &ex, Some(&spec_line), net, rep);
    }
}

/// Rebuild a tree from its preorder tokens (replay of a `c17 spec` line).
fn parse_tree(toks: &[&str], at: &mut usize, parent: Option<(usize, usize)>, t: &mut TreeD) -> Option<usize> {
    if toks[*at] == "_" {
        *at += 1;
        return None;
    }
    let n = |k: usize| toks[*at + k].parse::<u64>().unwrap();
    let id = t.nodes.len();
    t.nodes.push(NodeD { dc: n(1) as u8, off: n(2), pd: n(3), fd: n(4), link: n(5), ch: [None; 3], parent });
    *at += 6;
    for k in 0..3 {
        let c = parse_tree(toks, at, Some((id, k)), t);
        t.nodes[id].ch[k] = c;
    }
    Some(id)
}

fn gen_inconsistent(rng: &mut Rng) -> Vec<Rep> {
    let n = rng.range(1, 24) as usize;
    let base = rng.edgy(u32::MAX as u64) as u32;
    (0..n)
        .map(|_| {
            let mut active = [rng.chance(9, 10), rng.chance(1, 2), rng.chance(1, 3), rng.chance(1, 3)];
            match rng.below(12) {
                0 => active = [false; 4],
                1 => active = [true; 4],
                2 => active = [false, true, false, false],
                _ => {}
            }
            let t = |rng: &mut Rng| match rng.below(5) {
                0 => rng.edgy(u32::MAX as u64) as u32,
                1 => 0,
                _ => base.wrapping_add(rng.below(5000) as u32),
            };
            Rep { active, dc: *rng.pick(&[0u8, 2, 2, 3, 1]), times: [t(rng), t(rng), t(rng), t(rng)], rx: match rng.below(6) { 0 => 0, 1 => u64::MAX, 2 => 1 << 63, 3 => (1 << 63) + rng.below(3), _ => rng.next() } }
        })
        .collect()
}

fn edgy_now(rng: &mut Rng) -> u64 {
    match rng.below(8) {
        0 => 0,
        1 => u64::MAX,
        2 => 1 << 63,
        3 => (1 << 63) - 1,
        4 => rng.next(),
        // nanoseconds since 2000-01-01 around 2026
        _ => 830_000_000_000_000_000 + rng.below(1 << 50),
    }
}

/// The lead's confirmed shape: cross A; A.3 -> fork Y -> leaves Y1, Y2; A.1 -> Z; A.2 -> W.
fn nested_witness() -> TreeD {
    let nd = |parent, ch| NodeD { dc: 2, off: 1000, pd: 40, fd: 40, link: 100, ch, parent };
    TreeD {
        nodes: vec![
            nd(None, [Some(1), Some(4), Some(5)]),   // A
            nd(Some((0, 0)), [Some(2), Some(3), None]), // Y on A.3
            nd(Some((1, 0)), [None; 3]),             // Y1 on Y.3
            nd(Some((1, 1)), [None; 3]),             // Y2 on Y.1
            nd(Some((0, 1)), [None; 3]),             // Z on A.1
            nd(Some((0, 2)), [None; 3]),             // W on A.2
        ],
    }
}

fn chain_of(dcs: &[u8], f: u64, link: u64, off: u64) -> TreeD {
    let n = dcs.len();
    TreeD {
        nodes: (0..n)
            .map(|i| NodeD {
                dc: dcs[i],
                off,
                pd: f,
                fd: f,
                link,
                ch: if i + 1 < n { [Some(i + 1), None, None] } else { [None; 3] },
                parent: if i == 0 { None } else { Some((i - 1, 0)) },
            })
            .collect(),
    }
}

pub fn run(tier: &str, seed: u64, rep: &mut Report) {
    let mut rng = Rng::new(seed ^ 0xc17);
    let mut net: Option<Net> = None;
    let none = Expect::default();

    // ---- corpus
    tree_case(&chain_of(&[2], 40, 100, 0), 1000, Some(5000), &mut net, rep);
    tree_case(&chain_of(&[2, 2, 3, 2], 40, 100, 7), 1000, Some(830_000_000_000_000_000), &mut net, rep);
    // witness of c17/chain-delay-nondc-gap: DC, non-DC, DC
    tree_case(&chain_of(&[2, 0, 2], 40, 100, 7), 1000, Some(5000), &mut net, rep);
    // witness of c17/port-time-wrap: the first device's port 0 latch is 0xFFFF_FFF0, its port 3 latch wraps
    tree_case(&chain_of(&[2, 2], 40, 100, 0xFFFF_FFF0 - 1000), 1000, None, &mut net, rep);
    // former witnesses of c17/nested-junction-wrong-parent (fixed: the parent search skips junctions without a free downstream
    // port): with W the valid tree was rejected (a panic before that), without W, Z got parent Y. Ordinary valid trees now.
    tree_case(&nested_witness(), 1000, Some(5000), &mut net, rep);
    {
        let mut t = nested_witness();
        t.nodes.pop();
        t.nodes[0].ch[2] = None;
        tree_case(&t, 1000, None, &mut net, rep);
    }
    // five crosses nested four deep, each on port 3 (the FIRST branch) of the enclosing cross, whose ports 1 and 2 carry line ends
    {
        let nd = |parent, ch| NodeD { dc: 2, off: 77, pd: 40, fd: 50, link: 100, ch, parent };
        let mut t = TreeD { nodes: vec![nd(None, [None; 3])] };
        let mut at = 0usize;
        for _ in 0..5 {
            let base = t.nodes.len();
            for k in 0..3 {
                t.nodes.push(nd(Some((at, k)), [None; 3]));
                t.nodes[at].ch[k] = Some(base + k);
            }
            at = base;
        }
        tree_case(&t, 1000, Some(5000), &mut net, rep);
    }
    // former witnesses of c17/offset-i64-overflow (now plain values): receive time 2^63 (negate), and 2^63 + 1 with a large master time (add)
    run_dc_case(&[Rep { active: [true, false, false, false], dc: 2, times: [5, 0, 0, 0], rx: 1 << 63 }], 5, &none, None, &mut net, rep);
    run_dc_case(&[Rep { active: [true, false, false, false], dc: 2, times: [5, 0, 0, 0], rx: (1 << 63) + 1 }], (1 << 63) - 1, &none, None, &mut net, rep);
    // inconsistent reports (former panic witnesses, now errors): no open port at all (first / middle / last, DC or not), fork followed by four line ends,
    // line end first then anything (Err(Topology))
    let leaf = |dc: u8| Rep { active: [true, false, false, false], dc, times: [100, 0, 0, 0], rx: 100 };
    let closed = |dc: u8| Rep { active: [false; 4], dc, times: [0; 4], rx: 0 };
    let pass = |dc: u8| Rep { active: [true, true, false, false], dc, times: [100, 400, 0, 0], rx: 100 };
    let fork = |dc: u8| Rep { active: [true, true, false, true], dc, times: [100, 900, 0, 500], rx: 100 };
    for rs in [
        vec![closed(2)],
        vec![closed(0)],
        vec![closed(0), leaf(2)],
        vec![pass(2), closed(0)],
        vec![pass(2), closed(2)],
        vec![fork(2), leaf(2), leaf(2), leaf(2), leaf(2)],
        vec![fork(2), leaf(2), leaf(2), leaf(2)],
        vec![leaf(2), leaf(2)],
        vec![leaf(2), pass(2), leaf(2)],
        vec![],
    ] {
        run_assign_case(&rs, &none, None, rep);
        run_dc_case(&rs, 5000, &none, None, &mut net, rep);
    }

    // ---- generated
    let scale = if tier == "thorough" { 60 } else { 12 };
    let tin_of = |rng: &mut Rng| match rng.below(4) {
        0 => 0,
        1 => rng.below(1 << 40),
        _ => rng.below(1 << 33),
    };
    // valid trees of every shape (flat, arbitrary, junctions nested up to 4 deep inside non-last branches), no intra-device
    // wrap: everything must hold
    for i in 0..600 * scale {
        let n = if i % 7 == 0 { rng.range(13, 24) } else { rng.range(1, 12) } as usize;
        let mix = *rng.pick(&[DcMix::All, DcMix::Mixed, DcMix::Contiguous]);
        let sym = rng.chance(1, 2);
        let mut t = match i % 4 {
            0 => gen_tree(&mut rng, n, Shape::Flat, sym, mix),
            1 => gen_tree(&mut rng, n, Shape::Any, sym, mix),
            2 => gen_tree(&mut rng, n.max(5), Shape::Nested, sym, mix),
            _ => {
                let j = rng.range(2, 5) as usize;
                gen_nested_tree(&mut rng, n, j, sym, mix)
            }
        };
        let tin = tin_of(&mut rng);
        set_clocks(&mut rng, &mut t, tin, Clocks::NoWrap);
        let now = if i % 3 == 0 { Some(edgy_now(&mut rng)) } else { None };
        tree_case(&t, tin, now, &mut net, rep);
    }
    // pure chains: symmetric and asymmetric forwarding, DC everywhere / contiguous / with gaps
    for i in 0..500 * scale {
        let n = rng.range(1, 24) as usize;
        let mix = match i % 5 {
            0 => DcMix::Mixed,
            1 | 2 => DcMix::All,
            _ => DcMix::Contiguous,
        };
        let mut t = gen_tree(&mut rng, n, Shape::Chain, i % 2 == 0, mix);
        let tin = tin_of(&mut rng);
        set_clocks(&mut rng, &mut t, tin, Clocks::NoWrap);
        tree_case(&t, tin, if i % 4 == 0 { Some(edgy_now(&mut rng)) } else { None }, &mut net, rep);
    }
    // nested junctions: rejection-sampled random trees, and spines of 2-5 junctions each inside a non-last branch of the previous
    for i in 0..300 * scale {
        let n = rng.range(4, 24) as usize;
        let sym = rng.chance(1, 2);
        let mix = *rng.pick(&[DcMix::All, DcMix::Mixed]);
        let mut t = match i % 3 {
            0 => gen_tree(&mut rng, n.max(5), Shape::Nested, sym, mix),
            1 => gen_tree(&mut rng, n.max(5), Shape::Any, sym, mix),
            _ => {
                let j = rng.range(2, 5) as usize;
                gen_nested_tree(&mut rng, n, j, sym, mix)
            }
        };
        let tin = tin_of(&mut rng);
        set_clocks(&mut rng, &mut t, tin, Clocks::NoWrap);
        tree_case(&t, tin, if i % 5 == 0 { Some(edgy_now(&mut rng)) } else { None }, &mut net, rep);
    }
    // 32-bit wrap between the latches of one device
    for _ in 0..200 * scale {
        let n = rng.range(2, 16) as usize;
        let shape = *rng.pick(&[Shape::Flat, Shape::Chain, Shape::Any]);
        let sym = rng.chance(1, 2);
        let mut t = gen_tree(&mut rng, n, shape, sym, DcMix::All);
        let tin = tin_of(&mut rng);
        if set_clocks(&mut rng, &mut t, tin, Clocks::Wrap) {
            tree_case(&t, tin, None, &mut net, rep);
        }
    }
    // arbitrary reports
    for i in 0..1500 * scale {
        let rs = gen_inconsistent(&mut rng);
        rep.hit("inconsistent");
        run_assign_case(&rs, &none, None, rep);
        if i % 3 == 0 {
            run_dc_case(&rs, edgy_now(&mut rng), &none, None, &mut net, rep);
        }
    }
}

fn main() {
    let args = ecverif::parse_args();
    dcnet::install_panic_capture();
    let mut rep = Report::default();
    if let Some(cases) = ecverif::replay_cases(&args) {
        let mut net = None;
        let none = Expect::default();
        for c in cases.iter().filter(|c| c.starts_with("c17 ")) {
            let t: Vec<&str> = c.split(' ').collect();
            match t[1] {
                "assign" if t.len() == 4 => {
                    run_assign_case(&parse_reps(t[3]), &none, None, &mut rep);
                }
                "dc" if t.len() == 5 => run_dc_case(&parse_reps(t[4]), t[3].parse().unwrap(), &none, None, &mut net, &mut rep),
                "spec" if t.len() == 5 => {
                    let toks: Vec<&str> = t[4].split(',').collect();
                    let mut tree = TreeD::default();
                    let mut at = 0;
                    parse_tree(&toks, &mut at, None, &mut tree);
                    tree_case(&tree, t[2].parse().unwrap(), t[3].parse().ok(), &mut net, &mut rep);
                }
                _ => {}
            }
        }
    } else {
        run(&args.tier, args.seed, &mut rep);
    }
    rep.write(&args.out, "c17");
}
