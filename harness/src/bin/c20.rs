//! C20 — tasks sharing one MainDevice do not disturb each other.
//!
//! Per case: 2..4 cooperative tasks run random programs (process-data cycles of their own group with
//! changing outputs, register reads/writes, SDO uploads/downloads, EEPROM reads) through the REAL
//! ethercrab API on ONE MainDevice over a simulated segment of 2..8 devices in 2..3 groups (real
//! `MainDevice::init` with a group filter, real `into_op`). The deterministic executor picks the task
//! to poll from a seeded PRNG at every step, every frame gets its own latency 0..500 µs (responses
//! are reordered), the frame storage has 2 (one slot per task), 4, 8 or 16 slots, timeouts are large.
//!
//! Oracles / monitors (independent of the Lean model):
//!   * the same programs run SEQUENTIALLY (one operation at a time, zero latency) on an identically
//!     built and initialised segment, in the order in which the segment saw the first frame of each
//!     operation of the concurrent run: every operation result, the final group images and the final
//!     device memories / object dictionaries must be equal;
//!   * cases without shared registers: additionally each task ALONE on its own fresh segment;
//!   * tags: every byte a task writes carries its id in the high nibble; a private location must never
//!     show a foreign tag, an output SM only the tag of the group's owner;
//!   * no operation may fail (SwapState / timeout / anything) — all cases keep at most one frame per
//!     task in flight and have at least one slot per task;
//!   * every response must be accepted by `receive_frame`.
//! Correspondence: the recorded schedule (who issued which request, in which order the segment
//! processed the frames, in which order the responses were delivered, when each task picked its
//! response up) and the recorded segment responses are written as a case line; the Lean model
//! (`drv_c20`: `Ec.Tasks.run` with the recorded tables) must predict the wire indices, the
//! admissibility of the schedule, every operation result of every task and the final images.
//!
//! Case line: `c20 g<kind>.<seed> <nslots> <cursor0> <total0> <img0> <tasks> <sched> <resps>`
//!   img0   `hex/hex/hex`                       input image of each group before the concurrent phase
//!   tasks  per task `/`-separated, per request `;`-separated: `extra,grp,op,off,len,ioff` (result slice of the
//!          response data; for an LRW chunk of group grp the slice also goes to offset ioff of the image)
//!   sched  `;`-separated `i<t>` task t issues its next request (frames are numbered in this order from 0),
//!          `a<k>` segment processes frame k, `d<k>` response to frame k delivered, `c<t>` task t polled (picks up)
//!   resps  `;`-separated, in segment order: `<hex data of first datagram>.<wkc>`
//! Answer: `adm=<0|1> idx=<first index per issue> f=<SwapState failures per task> t0=<op:hex[w<wkc>]|…> … img=<hex/hex/hex>`
use ecverif::exec::{ExecEvent, Fate, Net, Stuck, run, run_many};
use ecverif::rng::Rng;
use ecverif::sim::{DeviceDesc, Segment};
use ecverif::util::{Report, hex};
use ethercrab::error::Error;
use ethercrab::subdevice_group::{Op, SubDeviceGroupHandle};
use ethercrab::{DefaultLock, MainDevice, MainDeviceConfig, SubDeviceGroup, Timeouts};
use std::cell::RefCell;
use std::collections::BTreeMap;
use std::future::Future;
use std::panic::{AssertUnwindSafe, catch_unwind};
use std::pin::Pin;
use std::rc::Rc;
use std::time::Duration;

type Md = &'static MainDevice<'static>;
const MAXSD: usize = 8;
const PDI: usize = 64;
type OpGroup = SubDeviceGroup<MAXSD, PDI, DefaultLock, Op>;

const SCRATCH_PRIV: u16 = 0x2000;
const SCRATCH_SHARED: u16 = 0x2800;
const OBJ_BASE: u16 = 0x2000;

#[derive(Default)]
struct Groups {
    g0: SubDeviceGroup<MAXSD, PDI>,
    g1: SubDeviceGroup<MAXSD, PDI>,
    g2: SubDeviceGroup<MAXSD, PDI>,
}

/// Kind of simulated device.
#[derive(Clone, Copy, Debug, PartialEq)]
enum Kind {
    Coupler,
    DigIn(u8),
    DigOut(u8),
    /// in bytes, out bytes, mailbox size, mailbox response delay
    Coe(usize, usize, u16, u32),
}

#[derive(Clone, Debug, PartialEq)]
enum OpSpec {
    Cycle { g: usize, fill: u8 },
    RegRead { dev: usize, addr: u16, n: usize },
    RegWrite { dev: usize, addr: u16, data: Vec<u8> },
    SdoRead { dev: usize, index: u16, n: usize },
    SdoWrite { dev: usize, index: u16, data: Vec<u8> },
    Eeprom { dev: usize, word: u16, n: usize },
}

impl OpSpec {
    fn kind(&self) -> &'static str {
        match self {
            OpSpec::Cycle { .. } => "cycle",
            OpSpec::RegRead { .. } => "regread",
            OpSpec::RegWrite { .. } => "regwrite",
            OpSpec::SdoRead { .. } => "sdoread",
            OpSpec::SdoWrite { .. } => "sdowrite",
            OpSpec::Eeprom { .. } => "eeprom",
        }
    }
}

#[derive(Clone, Debug)]
struct Case {
    kind: u32,
    seed: u64,
    devs: Vec<Kind>,
    /// group of each device
    group_of: Vec<usize>,
    ngroups: usize,
    ntasks: usize,
    /// task that cycles group g
    cycler: Vec<usize>,
    /// task that owns device d's private state (mailbox, EEPROM interface, private scratch)
    owner: Vec<usize>,
    slots: usize,
    progs: Vec<Vec<OpSpec>>,
    /// 0 = all zero, 1 = uniform 0..500, 2 = 0 or 500, 3 = decreasing (later frames faster), 4 = first task slow
    lat_mode: u32,
    wire_time: bool,
    loop_delay_us: u64,
    shared_ops: bool,
    sii_chunk: usize,
    /// PDU data bytes one frame can carry (frame buffer = 28 + this). Small values make a group's
    /// cycle span several frames (image chunks and/or state checks spill over).
    frame_data: usize,
}

fn tag(t: usize) -> u8 {
    ((t as u8) + 1) << 4
}

fn tagged(rng: &mut Rng, t: usize, n: usize) -> Vec<u8> {
    (0..n).map(|_| tag(t) | (rng.byte() & 0x0f)).collect()
}

fn descs(c: &Case) -> Vec<DeviceDesc> {
    c.devs
        .iter()
        .enumerate()
        .map(|(i, k)| {
            let name = format!("D{i}");
            let d = match *k {
                Kind::Coupler => DeviceDesc::coupler(&name),
                Kind::DigIn(b) => DeviceDesc::digital_in(&name, b),
                Kind::DigOut(b) => DeviceDesc::digital_out(&name, b),
                Kind::Coe(i_, o, m, _) => {
                    let mut d = DeviceDesc::coe_io(&name, i_, o, m);
                    // private objects: expedited sizes and two that need a normal transfer
                    for (k, n) in [1usize, 2, 4, 6, 10].iter().enumerate() {
                        d.od.insert((OBJ_BASE + k as u16, 0), vec![tag(c.owner[i]) | k as u8; *n]);
                    }
                    d
                }
            };
            d.with_chunk(c.sii_chunk).with_alias(0x100 + i as u16)
        })
        .collect()
}

const OBJ_SIZES: [usize; 5] = [1, 2, 4, 6, 10];

fn gen_case(kind: u32, seed: u64) -> Case {
    let mut rng = Rng::new(seed ^ 0xC20C20);
    if kind == 1 || kind == 2 {
        return witness_case(kind, seed);
    }
    // kind 4: small frames, big groups: a cycle spans 2..4 frames; storage mostly exactly one slot per task
    let multi = kind == 4;
    let ndev = if multi { rng.range(4, 8) as usize } else { rng.range(2, 8) as usize };
    let ngroups = if multi { 2 } else { (rng.range(2, 3) as usize).min(ndev) };
    let ntasks = if multi { *rng.pick(&[2usize, 2, 3, 4]) } else { rng.range(2, 4) as usize };
    // a third of the small-frame cases has digital terminals only and even smaller frames
    let digital_only = multi && rng.chance(1, 3);
    let frame_data = if digital_only { *rng.pick(&[24usize, 32, 40]) } else if multi { *rng.pick(&[48usize, 48, 56, 64]) } else { 200 };
    // every group gets at least one device; contiguous or interleaved assignment
    let mut group_of: Vec<usize> = (0..ndev).map(|i| if i < ngroups { i } else { rng.below(ngroups as u64) as usize }).collect();
    if rng.chance(1, 2) {
        group_of.sort();
    }
    let mut devs = Vec::new();
    for _ in 0..ndev {
        devs.push(match rng.below(8) {
            _ if digital_only => {
                if rng.chance(1, 2) { Kind::DigIn(*rng.pick(&[8u8, 16])) } else { Kind::DigOut(*rng.pick(&[8u8, 16])) }
            }
            _ if multi => match rng.below(4) {
                0 => Kind::DigIn(16),
                1 => Kind::DigOut(16),
                _ => Kind::Coe(rng.range(2, 4) as usize, rng.range(2, 4) as usize, 48, *rng.pick(&[0u32, 0, 1])),
            },
            0 => Kind::Coupler,
            1 => Kind::DigIn(*rng.pick(&[8u8, 16])),
            2 => Kind::DigOut(*rng.pick(&[8u8, 16])),
            _ => Kind::Coe(rng.range(1, 4) as usize, rng.range(1, 4) as usize, *rng.pick(&[48u16, 64, 128]), *rng.pick(&[0u32, 0, 1, 3])),
        });
    }
    // make sure every group has some process data so that a cycle sends something
    for g in 0..ngroups {
        if !(0..ndev).any(|d| group_of[d] == g && !matches!(devs[d], Kind::Coupler)) {
            let d = (0..ndev).find(|&d| group_of[d] == g).unwrap();
            devs[d] = if digital_only { Kind::DigIn(16) } else { Kind::Coe(2, 2, 48, 0) };
        }
    }
    let cycler: Vec<usize> = (0..ngroups).map(|g| g % ntasks).collect();
    // device ownership: the group's cycler, or (if there are more tasks than groups) handed to an extra task
    let mut owner: Vec<usize> = (0..ndev).map(|d| cycler[group_of[d]]).collect();
    if ntasks > ngroups {
        for d in 0..ndev {
            if rng.chance(1, 2) {
                owner[d] = rng.range(ngroups as u64, ntasks as u64 - 1) as usize;
            }
        }
    } else if ntasks < ngroups {
        // a task cycles two groups
    }
    let slots = *rng.pick(&match (ntasks, multi) {
        (2, true) => vec![2usize, 2, 2, 4],
        (4, true) => vec![4usize, 4, 4, 8],
        (_, true) => vec![4usize, 4, 8],
        (2, false) => vec![2usize, 2, 4, 8, 16],
        _ => vec![4usize, 4, 8, 16],
    });
    let shared_ops = rng.chance(2, 3);
    let mut progs = Vec::new();
    for t in 0..ntasks {
        let my_groups: Vec<usize> = (0..ngroups).filter(|&g| cycler[g] == t).collect();
        let my_devs: Vec<usize> = (0..ndev).filter(|&d| owner[d] == t).collect();
        let my_coe: Vec<usize> = my_devs.iter().copied().filter(|&d| matches!(devs[d], Kind::Coe(..))).collect();
        let nops = if kind == 3 { rng.range(8, 30) as usize } else { rng.range(3, 10) as usize };
        let mut p = Vec::new();
        for _ in 0..nops {
            let op = loop {
                match if multi && !my_groups.is_empty() && rng.chance(1, 2) { 0 } else { rng.below(10) } {
                    0..=2 if !my_groups.is_empty() => break OpSpec::Cycle { g: *rng.pick(&my_groups), fill: rng.byte() },
                    3 if !my_groups.is_empty() => {
                        // poke the inputs of one of my group's devices (the "process" moves)
                        let g = *rng.pick(&my_groups);
                        let cands: Vec<usize> = (0..ndev).filter(|&d| group_of[d] == g && in_area(&devs[d]).is_some()).collect();
                        if cands.is_empty() {
                            continue;
                        }
                        let d = *rng.pick(&cands);
                        let (a, n) = in_area(&devs[d]).unwrap();
                        break OpSpec::RegWrite { dev: d, addr: a, data: tagged(&mut rng, t, n.min(2).max(1)) };
                    }
                    4 if !my_devs.is_empty() => {
                        let d = *rng.pick(&my_devs);
                        let n = *rng.pick(&[1usize, 2, 4, 8]);
                        let a = SCRATCH_PRIV + 8 * rng.below(4) as u16;
                        break if rng.chance(1, 2) { OpSpec::RegRead { dev: d, addr: a, n } } else { OpSpec::RegWrite { dev: d, addr: a, data: tagged(&mut rng, t, n) } };
                    }
                    5 if shared_ops => {
                        let d = rng.below(ndev as u64) as usize;
                        let n = *rng.pick(&[1usize, 2, 4]);
                        let a = SCRATCH_SHARED + 4 * rng.below(2) as u16;
                        break if rng.chance(1, 2) { OpSpec::RegRead { dev: d, addr: a, n } } else { OpSpec::RegWrite { dev: d, addr: a, data: tagged(&mut rng, t, n) } };
                    }
                    6 => {
                        // read-only registers of ANY device: station address, alias, AL status, DL status
                        let d = rng.below(ndev as u64) as usize;
                        break OpSpec::RegRead { dev: d, addr: *rng.pick(&[0x0010u16, 0x0012, 0x0130, 0x0110]), n: 2 };
                    }
                    7 | 8 if !my_coe.is_empty() => {
                        let d = *rng.pick(&my_coe);
                        break if rng.chance(1, 2) {
                            let k = rng.below(5) as usize;
                            OpSpec::SdoRead { dev: d, index: OBJ_BASE + k as u16, n: OBJ_SIZES[k] }
                        } else {
                            // `sdo_write` supports expedited downloads only (documented): objects of 1, 2, 4 bytes
                            let k = rng.below(3) as usize;
                            OpSpec::SdoWrite { dev: d, index: OBJ_BASE + k as u16, data: tagged(&mut rng, t, OBJ_SIZES[k]) }
                        };
                    }
                    9 if !my_devs.is_empty() => {
                        let d = *rng.pick(&my_devs);
                        break OpSpec::Eeprom { dev: d, word: rng.range(0, 40) as u16, n: *rng.pick(&[2usize, 4, 8]) };
                    }
                    _ => continue,
                }
            };
            p.push(op);
        }
        progs.push(p);
    }
    Case {
        kind,
        seed,
        devs,
        group_of,
        ngroups,
        ntasks,
        cycler,
        owner,
        slots,
        progs,
        lat_mode: rng.below(5) as u32,
        wire_time: rng.chance(1, 2),
        loop_delay_us: *rng.pick(&[0u64, 20, 200]),
        shared_ops,
        sii_chunk: *rng.pick(&[4usize, 8]),
        frame_data,
    }
}

/// Input area (address, bytes) of a device that can be poked with a register write.
fn in_area(k: &Kind) -> Option<(u16, usize)> {
    match *k {
        Kind::DigIn(b) => Some((0x1000, (b as usize).div_ceil(8))),
        Kind::Coe(i, _, _, _) if i > 0 => Some((0x1c00, i)),
        _ => None,
    }
}
fn out_area(k: &Kind) -> Option<(u16, usize)> {
    match *k {
        Kind::DigOut(b) => Some((0x0f00, (b as usize).div_ceil(8))),
        Kind::Coe(_, o, _, _) if o > 0 => Some((0x1800, o)),
        _ => None,
    }
}

/// Known finding c20/index-reuse-in-flight. Kind 1: task 0 reads a register with a slow frame; task 1
/// meanwhile uses up 256 datagram indices with register reads; its next request gets the first index
/// of task 0's request, which is still in flight in a LOWER slot: the two tasks receive each other's
/// data. Kind 2: the same with process-data cycles of two groups of equal shape (each cycle frame
/// takes two indices: LRW + one state check): the two groups' images are exchanged.
fn witness_case(kind: u32, seed: u64) -> Case {
    let devs = vec![Kind::Coe(2, 2, 64, 0), Kind::Coe(2, 2, 64, 0)];
    let mut p1 = Vec::new();
    let p0 = if kind == 1 {
        for k in 0..257u32 {
            p1.push(OpSpec::RegRead { dev: 1, addr: SCRATCH_PRIV + 8 * (k % 4) as u16, n: 2 });
        }
        vec![OpSpec::RegRead { dev: 0, addr: SCRATCH_PRIV, n: 2 }]
    } else {
        for k in 0..130u32 {
            p1.push(OpSpec::Cycle { g: 1, fill: k as u8 });
        }
        vec![OpSpec::Cycle { g: 0, fill: 7 }]
    };
    Case {
        kind,
        seed,
        devs,
        group_of: vec![0, 1],
        ngroups: 2,
        ntasks: 2,
        cycler: vec![0, 1],
        owner: vec![0, 1],
        slots: 2,
        progs: vec![p0, p1],
        lat_mode: 4,
        wire_time: false,
        loop_delay_us: 0,
        shared_ops: false,
        sii_chunk: 4,
        frame_data: 200,
    }
}

struct Bench {
    net: Net,
    md: Md,
    gs: Vec<Option<OpGroup>>,
}

fn build_segment(c: &Case) -> Segment {
    let ds = descs(c);
    let mut seg = Segment::from_descs(&ds);
    for (i, d) in seg.devices.iter_mut().enumerate() {
        if let Kind::Coe(_, _, _, delay) = c.devs[i] {
            d.mbx_response_delay = delay;
        }
        let o = tag(c.owner[i]);
        for k in 0..0x40usize {
            d.mem[SCRATCH_PRIV as usize + k] = o | (k as u8 & 0x0f);
        }
        if let Some((a, n)) = in_area(&c.devs[i]) {
            let cy = tag(c.cycler[c.group_of[i]]);
            for k in 0..n {
                d.mem[a as usize + k] = cy | (k as u8 + 1);
            }
        }
    }
    seg
}

fn err_token(e: &Error) -> String {
    match e {
        Error::Pdu(ethercrab::error::PduError::SwapState) => "!SwapState".into(),
        Error::Timeout(_) => "!Timeout".into(),
        Error::WorkingCounter { .. } => "!Wkc".into(),
        Error::Pdu(p) => format!("!Pdu{:?}", p).replace(' ', "").replace(['(', ')'], "_"),
        Error::Mailbox(m) => format!("!Mbx{:?}", m).chars().filter(|c| c.is_alphanumeric()).take(24).collect::<String>().replacen("Mbx", "!Mbx", 0),
        e => format!("!{:?}", e).chars().filter(|c| c.is_alphanumeric() || *c == '!').take(24).collect(),
    }
}

fn setup(c: &Case) -> Result<Bench, String> {
    let seg = build_segment(c);
    let t = Timeouts {
        pdu: Duration::from_millis(1000),
        eeprom: Duration::from_millis(1000),
        mailbox_echo: Duration::from_millis(1000),
        mailbox_response: Duration::from_millis(2000),
        state_transition: Duration::from_millis(5000),
        wait_loop_delay: Duration::from_micros(c.loop_delay_us),
    };
    let (mut net, md) = Net::new(seg, c.slots, 28 + c.frame_data, t, MainDeviceConfig { dc_static_sync_iterations: 10, ..Default::default() });
    let group_of = c.group_of.clone();
    let r = run(&mut net, async {
        let gs = md
            .init::<MAXSD, Groups>(
                || ecverif::clock::now() * 1000,
                Groups::default(),
                |g: &Groups, sd| {
                    let i = sd.configured_address().wrapping_sub(0x1000) as usize;
                    let h: &dyn SubDeviceGroupHandle = match group_of.get(i) {
                        Some(0) => &g.g0,
                        Some(1) => &g.g1,
                        Some(2) => &g.g2,
                        _ => return Err(Error::UnknownSubDevice),
                    };
                    Ok(h)
                },
            )
            .await
            .map_err(|e| format!("init: {e:?}"))?;
        let Groups { g0, g1, g2 } = gs;
        let mut out: Vec<Option<OpGroup>> = Vec::new();
        for g in [g0, g1, g2] {
            if g.is_empty() {
                out.push(None);
            } else {
                out.push(Some(g.into_op(md).await.map_err(|e| format!("into_op: {e:?}"))?));
            }
        }
        Ok::<_, String>(out)
    });
    match r {
        Ok(Ok(gs)) => Ok(Bench { net, md, gs }),
        Ok(Err(e)) => Err(e),
        Err(s) => Err(format!("setup stuck {s:?}")),
    }
}

/// Position of ring device `dev` inside its group.
fn pos_in_group(c: &Case, dev: usize) -> (usize, usize) {
    let g = c.group_of[dev];
    (g, (0..dev).filter(|&d| c.group_of[d] == g).count())
}

macro_rules! sized {
    ($n:expr, $f:ident) => {
        match $n {
            1 => $f!(1),
            2 => $f!(2),
            4 => $f!(4),
            6 => $f!(6),
            8 => $f!(8),
            10 => $f!(10),
            _ => "!size".to_string(),
        }
    };
}

/// One operation through the real API. Result token: hex of the returned value (`-` if none),
/// cycles `hex(inputs)w<wkc>`, errors `!Token`.
async fn exec_op(c: &Case, md: Md, gs: &[Option<OpGroup>], t: usize, op: &OpSpec, counter: u8) -> String {
    match op {
        OpSpec::Cycle { g, fill } => {
            let Some(grp) = gs[*g].as_ref() else { return "!nogroup".into() };
            for sd in grp.iter(md) {
                let mut o = sd.outputs_raw_mut();
                for (k, b) in o.iter_mut().enumerate() {
                    *b = tag(t) | ((fill.wrapping_add(counter).wrapping_add(k as u8)) & 0x0f);
                }
            }
            match grp.tx_rx(md).await {
                Ok(r) => {
                    let mut v = Vec::new();
                    for sd in grp.iter(md) {
                        v.extend_from_slice(&sd.inputs_raw());
                    }
                    format!("{}w{}", hex(&v), r.working_counter)
                }
                Err(e) => err_token(&e),
            }
        }
        OpSpec::RegRead { dev, addr, n } => {
            let (g, k) = pos_in_group(c, *dev);
            let Some(grp) = gs[g].as_ref() else { return "!nogroup".into() };
            let sd = match grp.subdevice(md, k) {
                Ok(s) => s,
                Err(e) => return err_token(&e),
            };
            macro_rules! rd {
                ($N:literal) => {
                    match sd.register_read::<[u8; $N]>(*addr).await {
                        Ok(v) => hex(&v),
                        Err(e) => err_token(&e),
                    }
                };
            }
            sized!(*n, rd)
        }
        OpSpec::RegWrite { dev, addr, data } => {
            let (g, k) = pos_in_group(c, *dev);
            let Some(grp) = gs[g].as_ref() else { return "!nogroup".into() };
            let sd = match grp.subdevice(md, k) {
                Ok(s) => s,
                Err(e) => return err_token(&e),
            };
            macro_rules! wr {
                ($N:literal) => {{
                    let mut a = [0u8; $N];
                    a.copy_from_slice(data);
                    match sd.register_write::<[u8; $N]>(*addr, a).await {
                        Ok(v) => hex(&v),
                        Err(e) => err_token(&e),
                    }
                }};
            }
            sized!(data.len(), wr)
        }
        OpSpec::SdoRead { dev, index, n } => {
            let (g, k) = pos_in_group(c, *dev);
            let Some(grp) = gs[g].as_ref() else { return "!nogroup".into() };
            let sd = match grp.subdevice(md, k) {
                Ok(s) => s,
                Err(e) => return err_token(&e),
            };
            macro_rules! rd {
                ($N:literal) => {
                    match sd.sdo_read::<[u8; $N]>(*index, 0u8).await {
                        Ok(v) => hex(&v),
                        Err(e) => err_token(&e),
                    }
                };
            }
            sized!(*n, rd)
        }
        OpSpec::SdoWrite { dev, index, data } => {
            let (g, k) = pos_in_group(c, *dev);
            let Some(grp) = gs[g].as_ref() else { return "!nogroup".into() };
            let sd = match grp.subdevice(md, k) {
                Ok(s) => s,
                Err(e) => return err_token(&e),
            };
            macro_rules! wr {
                ($N:literal) => {{
                    let mut a = [0u8; $N];
                    a.copy_from_slice(data);
                    match sd.sdo_write::<[u8; $N]>(*index, 0u8, a).await {
                        Ok(()) => "-".to_string(),
                        Err(e) => err_token(&e),
                    }
                }};
            }
            sized!(data.len(), wr)
        }
        OpSpec::Eeprom { dev, word, n } => {
            let (g, k) = pos_in_group(c, *dev);
            let Some(grp) = gs[g].as_ref() else { return "!nogroup".into() };
            let sd = match grp.subdevice(md, k) {
                Ok(s) => s,
                Err(e) => return err_token(&e),
            };
            macro_rules! rd {
                ($N:literal) => {
                    match sd.eeprom_read::<[u8; $N]>(md, *word).await {
                        Ok(v) => hex(&v),
                        Err(e) => err_token(&e),
                    }
                };
            }
            sized!(*n, rd)
        }
    }
}

/// Shared between the tasks and the fate closure: which frames belong to which operation.
#[derive(Default)]
struct Rec {
    frames_sent: u64,
    /// (task, op number, frames sent before the op started, frames sent when it finished)
    marks: Vec<(usize, usize, u64, u64)>,
    /// (task, op, slots not free when an operation failed, number of polls of the task so far)
    fail_inflight: Vec<(usize, usize, usize, u64)>,
    /// polls per task (counted by the `Counted` wrapper)
    polls: Vec<u64>,
}

/// Counts the polls of a task, so that a failure can be located in the executor trace.
struct Counted<'a> {
    f: Pin<Box<dyn Future<Output = Vec<String>> + 'a>>,
    t: usize,
    rec: Rc<RefCell<Rec>>,
}

impl Future for Counted<'_> {
    type Output = Vec<String>;
    fn poll(mut self: Pin<&mut Self>, cx: &mut std::task::Context<'_>) -> std::task::Poll<Self::Output> {
        {
            let mut r = self.rec.borrow_mut();
            let t = self.t;
            if r.polls.len() <= t {
                r.polls.resize(t + 1, 0);
            }
            r.polls[t] += 1;
        }
        self.f.as_mut().poll(cx)
    }
}

fn slots_in_use(md: Md) -> usize {
    let pl = md.verif_pdu_loop();
    let (n, _) = ethercrab::verif::storage_dims(pl);
    (0..n).filter(|&i| ethercrab::verif::slot_snapshot(pl, i).0 != 0).count()
}

async fn task_main(c: &Case, md: Md, gs: &[Option<OpGroup>], t: usize, rec: Rc<RefCell<Rec>>) -> Vec<String> {
    let mut out = Vec::new();
    for (k, op) in c.progs[t].iter().enumerate() {
        let start = rec.borrow().frames_sent;
        let r = exec_op(c, md, gs, t, op, k as u8).await;
        if r.starts_with('!') {
            let used = slots_in_use(md);
            let polls = rec.borrow().polls.get(t).copied().unwrap_or(0);
            rec.borrow_mut().fail_inflight.push((t, k, used, polls));
        }
        let end = rec.borrow().frames_sent;
        rec.borrow_mut().marks.push((t, k, start, end));
        out.push(r);
    }
    out
}

#[derive(Clone, Debug)]
struct FrameInfo {
    idx: u8,
    npdu: usize,
    cmd: u8,
    ado: u16,
    len: usize,
}

fn parse_frame(b: &[u8]) -> FrameInfo {
    let mut pos = 16;
    let mut n = 0;
    let mut first = None;
    while pos + 10 <= b.len() {
        let lf = u16::from_le_bytes([b[pos + 6], b[pos + 7]]);
        let len = (lf & 0x7ff) as usize;
        if first.is_none() {
            first = Some((b[pos], b[pos + 1], u16::from_le_bytes([b[pos + 4], b[pos + 5]]), len));
        }
        n += 1;
        pos += 10 + len + 2;
        if lf & 0x8000 == 0 {
            break;
        }
    }
    let (cmd, idx, ado, len) = first.unwrap_or((0, 0, 0, 0));
    FrameInfo { idx, npdu: n, cmd, ado, len }
}

struct Concurrent {
    results: Vec<Vec<String>>,
    line: String,
    impl_out: String,
    adm: bool,
    /// (task, op) in the order in which the segment saw the first frame of each operation
    op_order: Vec<(usize, usize)>,
    rx_errors: Vec<String>,
    /// (task, op, slots not free, frames in flight = sent and response not yet delivered) at the failure
    fail_inflight: Vec<(usize, usize, usize, usize)>,
    reordered: bool,
    max_in_flight: usize,
    frames: usize,
    /// most frames any single process-data cycle took
    max_cycle_frames: usize,
}

fn images(c: &Case, md: Md, gs: &[Option<OpGroup>]) -> Vec<Vec<u8>> {
    (0..3)
        .map(|g| {
            let mut v = Vec::new();
            if g < c.ngroups {
                if let Some(grp) = gs[g].as_ref() {
                    for sd in grp.iter(md) {
                        v.extend_from_slice(&sd.inputs_raw());
                    }
                }
            }
            v
        })
        .collect()
}

fn run_concurrent(c: &Case, b: &mut Bench) -> Result<Concurrent, String> {
    let md = b.md;
    let rec = Rc::new(RefCell::new(Rec::default()));
    let mut lat_rng = Rng::new(c.seed ^ 0x1A7E);
    let mut sched_rng = Rng::new(c.seed ^ 0x5C4ED);
    let (lat_mode, wire) = (c.lat_mode, c.wire_time);
    let rec2 = rec.clone();
    let witness = c.kind == 1 || c.kind == 2;
    b.net.fate = Some(Box::new(move |bytes: &[u8]| {
        let n = {
            let mut r = rec2.borrow_mut();
            r.frames_sent += 1;
            r.frames_sent
        };
        if wire {
            ecverif::clock::advance(((bytes.len().max(60) as u64 + 24) * 8).div_ceil(100));
        }
        let d = match lat_mode {
            0 => 0,
            1 => lat_rng.range(0, 500),
            2 => *lat_rng.pick(&[0u64, 500]),
            3 => 500u64.saturating_sub(n * 7),
            _ => {
                if witness {
                    if n == 1 { 500 } else { 0 }
                } else if lat_rng.chance(1, 4) {
                    500
                } else {
                    lat_rng.range(0, 30)
                }
            }
        };
        Fate::Delay(d)
    }));
    b.net.record_tx = true;
    b.net.sent.clear();
    b.net.seg.log.clear();
    b.net.seg.log_data = true;
    b.net.rx_errors.clear();
    b.net.trace.clear();
    b.net.trace_on = true;
    let frames_before = b.net.stats.frames_sent;
    let (cursor0, total0) = ethercrab::verif::counters(md.verif_pdu_loop());
    let img0 = images(c, md, &b.gs);
    let gs = &b.gs;
    let tasks: Vec<Pin<Box<dyn Future<Output = Vec<String>> + '_>>> = (0..c.ntasks)
        .map(|t| Box::pin(Counted { f: Box::pin(task_main(c, md, gs, t, rec.clone())), t, rec: rec.clone() }) as Pin<Box<dyn Future<Output = Vec<String>> + '_>>)
        .collect();
    let results = match run_many(&mut b.net, tasks, |r| sched_rng.below(r.len() as u64) as usize) {
        Ok(r) => r,
        Err(Stuck::StepLimit) => return Err("stuck:steplimit".into()),
        Err(Stuck::Deadlock) => return Err("stuck:deadlock".into()),
    };
    b.net.fate = None;
    b.net.trace_on = false;
    let rec = rec.borrow();
    let nframes = b.net.sent.len();
    let frames: Vec<FrameInfo> = b.net.sent.iter().map(|f| parse_frame(f)).collect();
    // owner task of every frame, schedule events
    let mut owner_of = vec![usize::MAX; nframes];
    let mut sched: Vec<String> = Vec::new();
    let mut cur = usize::MAX;
    let mut send_order: Vec<usize> = Vec::new();
    let mut deliver_order: Vec<usize> = Vec::new();
    // slots in use as the model counts them: from the issue to the first poll of the task the
    // response was attributed to after its delivery
    let mut delivered_for = vec![0usize; c.ntasks];
    let mut in_flight_now = 0usize;
    let mut max_in_flight = 0usize;
    for ev in &b.net.trace {
        match ev {
            ExecEvent::Poll(t) => {
                cur = *t;
                // a polled task picks up the response stored in its slot, if there is one
                sched.push(format!("c{cur}"));
                in_flight_now -= delivered_for[cur].min(in_flight_now);
                delivered_for[cur] = 0;
            }
            ExecEvent::Sent { frame } => {
                let k = (*frame - frames_before - 1) as usize;
                if k < nframes {
                    owner_of[k] = cur;
                }
                sched.push(format!("i{cur}"));
                sched.push(format!("a{k}"));
                send_order.push(k);
                in_flight_now += 1;
                max_in_flight = max_in_flight.max(in_flight_now);
            }
            ExecEvent::Delivered { frame, .. } => {
                let k = (*frame - frames_before - 1) as usize;
                sched.push(format!("d{k}"));
                let t = owner_of.get(k).copied().unwrap_or(usize::MAX);
                if t < c.ntasks {
                    delivered_for[t] += 1;
                }
                deliver_order.push(k);
            }
        }
    }
    let reordered = deliver_order.windows(2).any(|w| w[0] > w[1]);
    // which operation does each frame belong to
    let mut op_of = vec![usize::MAX; nframes];
    for &(t, k, s, e) in &rec.marks {
        for f in s..e {
            let f = f as usize;
            if f < nframes && owner_of[f] == t {
                op_of[f] = k;
            }
        }
    }
    // extraction spec per frame
    let responses: Vec<(Vec<u8>, u16)> = b.net.seg.log.iter().map(|f| f.datagrams.first().map(|d| (d.data_out.clone(), d.wkc_out)).unwrap_or_default()).collect();
    let mut spec: Vec<(usize, usize)> = vec![(0, 0); nframes];
    let mut img_off: Vec<usize> = vec![0; nframes];
    for t in 0..c.ntasks {
        for (k, op) in c.progs[t].iter().enumerate() {
            let fs: Vec<usize> = (0..nframes).filter(|&f| owner_of[f] == t && op_of[f] == k).collect();
            match op {
                OpSpec::Cycle { g, .. } => {
                    // the image travels in chunks; the inputs are the first `rl` bytes of the image
                    let rl = img0[*g].len();
                    let mut off = 0usize;
                    for &f in &fs {
                        if frames[f].cmd == 12 {
                            let take = rl.saturating_sub(off).min(frames[f].len);
                            spec[f] = (0, take);
                            img_off[f] = off.min(rl);
                            off += frames[f].len;
                        }
                    }
                }
                OpSpec::RegRead { n, .. } => {
                    for &f in &fs {
                        spec[f] = (0, *n);
                    }
                }
                OpSpec::RegWrite { data, .. } => {
                    for &f in &fs {
                        spec[f] = (0, data.len());
                    }
                }
                OpSpec::SdoRead { dev, .. } => {
                    // the last successful read of the device -> MainDevice mailbox carries the value
                    let _ = dev;
                    if let Some(&f) = fs.iter().rev().find(|&&f| frames[f].cmd == 4 && frames[f].ado == 0x1400 && responses.get(f).is_some_and(|r| r.1 == 1)) {
                        let r = &responses[f].0;
                        if r.len() >= 12 {
                            let cmdb = r[8];
                            if cmdb & 0x02 != 0 {
                                let n = if cmdb & 0x01 != 0 { 4 - ((cmdb >> 2) & 3) as usize } else { 4 };
                                spec[f] = (12, n);
                            } else if r.len() >= 16 {
                                let n = u32::from_le_bytes([r[12], r[13], r[14], r[15]]) as usize;
                                spec[f] = (16, n);
                            }
                        }
                    }
                }
                OpSpec::SdoWrite { .. } => {}
                OpSpec::Eeprom { n, .. } => {
                    let mut left = *n;
                    for &f in &fs {
                        if frames[f].cmd == 4 && frames[f].ado == 0x0508 && left > 0 {
                            let take = frames[f].len.min(left);
                            spec[f] = (0, take);
                            left -= take;
                        }
                    }
                }
            }
        }
    }
    // admissibility (window assumption), recomputed here independently of the model
    let mut adm = true;
    {
        let mut total: u64 = total0 as u64;
        let mut abs_of = vec![0u64; nframes];
        let mut flying: Vec<usize> = Vec::new();
        let mut si = 0;
        let mut di = 0;
        for ev in &b.net.trace {
            match ev {
                ExecEvent::Sent { .. } => {
                    let k = send_order[si];
                    si += 1;
                    for &f in &flying {
                        if total - abs_of[f] >= 256 {
                            adm = false;
                        }
                    }
                    abs_of[k] = total;
                    total += frames[k].npdu as u64;
                    flying.push(k);
                }
                ExecEvent::Delivered { .. } => {
                    let k = deliver_order[di];
                    di += 1;
                    flying.retain(|&f| f != k);
                }
                _ => {}
            }
        }
    }
    // case line
    let mut task_fields = Vec::new();
    for t in 0..c.ntasks {
        let mut reqs = Vec::new();
        for f in 0..nframes {
            if owner_of[f] == t {
                let grp = match c.progs[t].get(op_of[f]) {
                    Some(OpSpec::Cycle { g, .. }) if frames[f].cmd == 12 => g.to_string(),
                    _ => "-".to_string(),
                };
                reqs.push(format!("{},{},{},{},{},{}", frames[f].npdu - 1, grp, op_of[f], spec[f].0, spec[f].1, img_off[f]));
            }
        }
        task_fields.push(if reqs.is_empty() { "-".to_string() } else { reqs.join(";") });
    }
    let resps: Vec<String> = responses.iter().map(|(d, w)| format!("{}.{}", hex(d), w)).collect();
    let line = format!(
        "c20 g{}.{} {} {} {} {} {} {} {}",
        c.kind,
        c.seed,
        c.slots,
        cursor0,
        total0,
        img0.iter().map(|i| hex(i)).collect::<Vec<_>>().join("/"),
        task_fields.join("/"),
        if sched.is_empty() { "-".to_string() } else { sched.join(";") },
        if resps.is_empty() { "-".to_string() } else { resps.join(";") }
    );
    // implementation's answer
    let idxs: Vec<String> = send_order.iter().map(|&k| frames[k].idx.to_string()).collect();
    let mut fails = vec![0usize; c.ntasks];
    for (t, rs) in results.iter().enumerate() {
        fails[t] = rs.iter().filter(|r| r.as_str() == "!SwapState").count();
    }
    let mut impl_out = format!("adm={} idx={} f={}", adm as u8, if idxs.is_empty() { "-".to_string() } else { idxs.join(",") }, fails.iter().map(|f| f.to_string()).collect::<Vec<_>>().join(","));
    for (t, rs) in results.iter().enumerate() {
        // operations that sent no frame and returned nothing do not appear in the model's answer either
        let toks: Vec<String> = rs.iter().enumerate().filter(|(k, _)| (0..nframes).any(|f| owner_of[f] == t && op_of[f] == *k)).map(|(k, r)| format!("{k}:{r}")).collect();
        impl_out.push_str(&format!(" t{}={}", t, if toks.is_empty() { "-".to_string() } else { toks.join("|") }));
    }
    let img1 = images(c, md, &b.gs);
    impl_out.push_str(&format!(" img={}", img1.iter().map(|i| hex(i)).collect::<Vec<_>>().join("/")));
    // order of operations for the sequential oracle
    let mut first_frame: BTreeMap<(usize, usize), usize> = BTreeMap::new();
    for f in 0..nframes {
        if owner_of[f] < c.ntasks && op_of[f] != usize::MAX {
            first_frame.entry((owner_of[f], op_of[f])).or_insert(f);
        }
    }
    let mut op_order: Vec<((usize, usize), usize)> = first_frame.into_iter().collect();
    op_order.sort_by_key(|x| x.1);
    let mut op_order: Vec<(usize, usize)> = op_order.into_iter().map(|x| x.0).collect();
    // operations that never sent a frame go last, in program order
    for t in 0..c.ntasks {
        for k in 0..c.progs[t].len() {
            if !op_order.contains(&(t, k)) {
                op_order.push((t, k));
            }
        }
    }
    Ok(Concurrent {
        results,
        line,
        impl_out,
        adm,
        op_order,
        rx_errors: b.net.rx_errors.clone(),
        fail_inflight: rec
            .fail_inflight
            .iter()
            .map(|&(t, k, used, polls)| {
                // frames in flight when the failing poll of task t started
                let (mut seen, mut sent, mut delivered) = (0u64, 0usize, 0usize);
                for ev in &b.net.trace {
                    match ev {
                        ExecEvent::Poll(x) if *x == t => {
                            seen += 1;
                            if seen == polls {
                                break;
                            }
                        }
                        ExecEvent::Sent { .. } => sent += 1,
                        ExecEvent::Delivered { .. } => delivered += 1,
                        _ => {}
                    }
                }
                (t, k, used, sent - delivered.min(sent))
            })
            .collect(),
        reordered,
        max_in_flight,
        frames: nframes,
        max_cycle_frames: (0..c.ntasks)
            .flat_map(|t| c.progs[t].iter().enumerate().filter(|(_, op)| matches!(op, OpSpec::Cycle { .. })).map(move |(k, _)| (t, k)))
            .map(|(t, k)| (0..nframes).filter(|&f| owner_of[f] == t && op_of[f] == k).count())
            .max()
            .unwrap_or(0),
    })
}

/// The same operations, one at a time, zero latency, in the given order, on a fresh bench.
fn run_sequential(c: &Case, b: &mut Bench, order: &[(usize, usize)]) -> Result<Vec<Vec<String>>, String> {
    let md = b.md;
    let gs = &b.gs;
    let mut res: Vec<Vec<String>> = c.progs.iter().map(|p| vec![String::new(); p.len()]).collect();
    let r = run(&mut b.net, async {
        for &(t, k) in order {
            res[t][k] = exec_op(c, md, gs, t, &c.progs[t][k], k as u8).await;
        }
    });
    match r {
        Ok(()) => Ok(res),
        Err(s) => Err(format!("oracle stuck {s:?}")),
    }
}

/// Device state that must agree between the concurrent run and the oracle.
fn device_digest(c: &Case, b: &Bench) -> Vec<(String, Vec<u8>)> {
    let mut out = Vec::new();
    for (i, d) in b.net.seg.devices.iter().enumerate() {
        out.push((format!("dev{i}.scratch"), d.mem[SCRATCH_PRIV as usize..SCRATCH_SHARED as usize + 0x10].to_vec()));
        if let Some((a, n)) = out_area(&c.devs[i]) {
            out.push((format!("dev{i}.outputs"), d.mem[a as usize..a as usize + n].to_vec()));
        }
        if let Some((a, n)) = in_area(&c.devs[i]) {
            out.push((format!("dev{i}.inputs"), d.mem[a as usize..a as usize + n].to_vec()));
        }
        out.push((format!("dev{i}.regs"), d.mem[0x0010..0x0014].to_vec()));
        out.push((format!("dev{i}.eeprom"), d.eeprom.clone()));
        if let Some(coe) = d.coe.as_ref() {
            for k in 0..5u16 {
                if let Some(v) = coe.od.get(&(OBJ_BASE + k, 0)) {
                    out.push((format!("dev{i}.od{:04x}", OBJ_BASE + k), v.clone()));
                }
            }
        }
    }
    out
}

fn one_case(c: &Case, rep: &mut Report) {
    if std::env::var("C20_DEBUG").is_ok() {
        eprintln!("{c:#?}");
    }
    let gtag = format!("g{}.{}", c.kind, c.seed);
    rep.hit(&format!("tasks={}", c.ntasks));
    rep.hit(&format!("devices={}", c.devs.len()));
    rep.hit(&format!("groups={}", c.ngroups));
    rep.hit(&format!("slots={}", c.slots));
    rep.hit(&format!("latmode={}", c.lat_mode));
    rep.hit(&format!("frame-data={}", c.frame_data));
    for p in &c.progs {
        for op in p {
            rep.hit(&format!("op:{}", op.kind()));
        }
    }
    let r = catch_unwind(AssertUnwindSafe(|| -> Result<(), (String, String)> {
        let mut b = setup(c).map_err(|e| ("c20/setup".to_string(), e))?;
        if c.kind == 1 || c.kind == 2 {
            // the witness needs the slow request in the LOWER slot: align the allocation cursor
            let md = b.md;
            for _ in 0..c.slots {
                if ethercrab::verif::counters(md.verif_pdu_loop()).0 as usize % c.slots == 0 {
                    break;
                }
                let gs = &b.gs;
                let _ = run(&mut b.net, async { exec_op(c, md, gs, 0, &OpSpec::RegRead { dev: 0, addr: 0x0130, n: 2 }, 0).await });
            }
        }
        let post_init = device_digest(c, &b);
        let conc = match run_concurrent(c, &mut b) {
            Ok(x) => x,
            Err(e) => return Err(("c20/stuck".to_string(), e)),
        };
        let mut fails: Vec<(String, String)> = Vec::new();
        // --- monitors on the concurrent run itself
        for (t, rs) in conc.results.iter().enumerate() {
            for (k, r) in rs.iter().enumerate() {
                if r.starts_with('!') {
                    // the property: no failure while fewer frames are IN FLIGHT (sent, response not yet
                    // delivered) than the storage holds
                    let (used, flying) = conc.fail_inflight.iter().find(|x| x.0 == t && x.1 == k).map(|x| (x.2, x.3)).unwrap_or((0, 0));
                    let key = if r == "!SwapState" {
                        if flying < c.slots { "c20/spurious-swapstate" } else { "c20/swapstate-storage-full" }
                    } else if r == "!Timeout" {
                        if flying < c.slots { "c20/spurious-timeout" } else { "c20/timeout-storage-full" }
                    } else {
                        "c20/op-error"
                    };
                    fails.push((
                        key.to_string(),
                        format!("task {t} op {k} {:?} -> {r} with {flying} frame(s) in flight, {used} of {} slots not free, {} tasks", c.progs[t][k], c.slots, c.ntasks),
                    ));
                }
                // tags: private reads only ever show the task's own tag
                let private = match &c.progs[t][k] {
                    OpSpec::RegRead { addr, .. } => (SCRATCH_PRIV..SCRATCH_PRIV + 0x40).contains(addr),
                    OpSpec::SdoRead { .. } => true,
                    OpSpec::Cycle { .. } => true,
                    _ => false,
                };
                if private && !r.starts_with('!') {
                    let h = r.split('w').next().unwrap_or("");
                    if h != "-" {
                        let bytes = ecverif::util::unhex(h);
                        if bytes.iter().any(|b| b & 0xf0 != tag(t)) {
                            fails.push(("c20/foreign-data".to_string(), format!("task {t} op {k} {:?} received {h}: not all bytes carry its tag {:#x}", c.progs[t][k], tag(t))));
                        }
                    }
                }
            }
        }
        if !conc.rx_errors.is_empty() {
            fails.push(("c20/response-not-accepted".to_string(), format!("receive_frame errors: {:?}", &conc.rx_errors[..conc.rx_errors.len().min(3)])));
        }
        // outputs on the devices carry the tag of the group's cycler only
        for (i, d) in b.net.seg.devices.iter().enumerate() {
            if let Some((a, n)) = out_area(&c.devs[i]) {
                let m = &d.mem[a as usize..a as usize + n];
                let want = tag(c.cycler[c.group_of[i]]);
                if m.iter().any(|x| *x != 0 && x & 0xf0 != want) {
                    fails.push(("c20/images-mixed".to_string(), format!("device {i} outputs {m:02x?}: foreign tag (group cycled by task {})", c.cycler[c.group_of[i]])));
                }
            }
        }
        // --- sequential oracle
        let conc_digest = device_digest(c, &b);
        let conc_img = images(c, b.md, &b.gs);
        let mut o = setup(c).map_err(|e| ("c20/setup".to_string(), e))?;
        if device_digest(c, &o) != post_init {
            return Err(("c20/harness-init-not-deterministic".to_string(), "two identical set-ups differ".to_string()));
        }
        let seq = run_sequential(c, &mut o, &conc.op_order).map_err(|e| ("c20/oracle".to_string(), e))?;
        for t in 0..c.ntasks {
            for k in 0..c.progs[t].len() {
                if conc.results[t][k] != seq[t][k] {
                    fails.push(("c20/result-differs-from-sequential".to_string(), format!("task {t} op {k} {:?}: concurrent {} sequential {}", c.progs[t][k], conc.results[t][k], seq[t][k])));
                }
            }
        }
        let seq_digest = device_digest(c, &o);
        for (a, bb) in conc_digest.iter().zip(seq_digest.iter()) {
            if a != bb {
                fails.push(("c20/final-device-state-differs".to_string(), format!("{}: concurrent {} sequential {}", a.0, hex(&a.1), hex(&bb.1))));
                break;
            }
        }
        let seq_img = images(c, o.md, &o.gs);
        if seq_img != conc_img {
            fails.push(("c20/final-image-differs".to_string(), format!("concurrent {:?} sequential {:?}", conc_img, seq_img)));
        }
        unsafe { o.net.recycle() };
        // --- each task alone (only when nothing is shared)
        if !c.shared_ops && (c.kind == 0 || c.kind == 3 || c.kind == 4) {
            rep.hit("oracle:alone");
            for t in 0..c.ntasks {
                let mut a = setup(c).map_err(|e| ("c20/setup".to_string(), e))?;
                let order: Vec<(usize, usize)> = (0..c.progs[t].len()).map(|k| (t, k)).collect();
                let alone = run_sequential(c, &mut a, &order).map_err(|e| ("c20/oracle".to_string(), e))?;
                for k in 0..c.progs[t].len() {
                    if conc.results[t][k] != alone[t][k] {
                        fails.push(("c20/result-differs-from-alone".to_string(), format!("task {t} op {k} {:?}: concurrent {} alone {}", c.progs[t][k], conc.results[t][k], alone[t][k])));
                    }
                }
                unsafe { a.net.recycle() };
            }
        }
        rep.hit(if conc.adm { "window:ok" } else { "window:violated" });
        rep.hit(if conc.reordered { "responses:reordered" } else { "responses:in-order" });
        rep.hit(&format!("max-in-flight={}", conc.max_in_flight));
        rep.hit(&format!("frames-per-cycle={}", conc.max_cycle_frames));
        if conc.max_cycle_frames >= 2 && c.slots <= c.ntasks.next_power_of_two() {
            rep.hit("multi-frame-cycle:just-enough-storage");
        }
        rep.hit(&format!("frames<={}", (conc.frames / 50 + 1) * 50));
        if conc.max_in_flight >= c.slots {
            rep.hit("storage:full-at-some-point");
        }
        if conc.reordered && conc.max_in_flight >= 2 {
            rep.nontrivial.insert(gtag.clone());
        }
        for (key, what) in fails {
            // outside the window assumption every failure is the known index-reuse finding
            let key = if conc.adm { key } else { "c20/index-reuse-in-flight".to_string() };
            rep.fail(&key, &what, &conc.line);
        }
        rep.case(conc.line.clone(), conc.impl_out.clone());
        unsafe { b.net.recycle() };
        Ok(())
    }));
    match r {
        Ok(Ok(())) => {}
        Ok(Err((key, what))) => {
            let line = format!("c20 {gtag} 0 0 0 - - - -");
            rep.fail(&key, &what, &line);
            rep.case(line, "harness-error".to_string());
        }
        Err(p) => {
            let msg = p.downcast_ref::<String>().cloned().or_else(|| p.downcast_ref::<&str>().map(|s| s.to_string())).unwrap_or_default();
            let line = format!("c20 {gtag} 0 0 0 - - - -");
            rep.fail("c20/panic", &msg, &line);
            rep.case(line, "panic".to_string());
        }
    }
}

fn main() {
    let args = ecverif::parse_args();
    let mut rep = Report::default();
    if let Some(lines) = ecverif::replay_cases(&args) {
        for l in lines {
            if let Some(g) = l.split(' ').nth(1).and_then(|g| g.strip_prefix('g')) {
                let mut it = g.split('.');
                let kind: u32 = it.next().and_then(|x| x.parse().ok()).unwrap_or(0);
                let seed: u64 = it.next().and_then(|x| x.parse().ok()).unwrap_or(0);
                one_case(&gen_case(kind, seed), &mut rep);
            }
        }
        rep.write(&args.out, "c20");
        return;
    }
    // corpus: the two index-reuse witnesses (register reads; process-data cycles of two groups)
    one_case(&gen_case(1, 1), &mut rep);
    one_case(&gen_case(2, 1), &mut rep);
    let n = if args.tier == "thorough" { 24000 } else { 2500 };
    let mut rng = Rng::new(args.seed.wrapping_mul(0x9E37_79B9).wrapping_add(20));
    for i in 0..n {
        let seed = rng.next() >> 16;
        // every 8th case runs long programs, every 4th has process-data cycles of several frames
        one_case(&gen_case(if i % 8 == 7 { 3 } else if i % 4 == 1 { 4 } else { 0 }, seed), &mut rep);
    }
    rep.write(&args.out, "c20");
}
