//! C13, "the initialisation steps built on them": the REAL `MainDevice::init` (SubDevice discovery, name / identity /
//! mailbox / port reads, group assignment, PRE-OP) and `into_op` (PDO configuration from the EEPROM) run against a
//! simulated SubDevice whose EEPROM is an ADVERSARIAL image: all ones, all zeros, noise, and well-formed images with
//! mutated bytes / lengths. Monitor only (no model prediction): every call ends with a value or an error within the
//! executor's step limit; a panic or a stuck executor is a violation. Each case line carries the image.
use ecverif::exec::{Net, Stuck, run};
use ecverif::rng::Rng;
use ecverif::sim::{DeviceDesc, Segment};
use ecverif::util::{Report, hex};
use ethercrab::{MainDeviceConfig, Timeouts};
use std::panic::{AssertUnwindSafe, catch_unwind};

fn one(img: &[u8], chunk8: bool, what: &str, rep: &mut Report) {
    let line = format!("c13 init {} {} {}", what, if chunk8 { 8 } else { 4 }, hex(img));
    ecverif::progress::about_to_run(&line);
    let mut seg = Segment::from_descs(&[DeviceDesc::default()]);
    seg.devices[0].eeprom = img.to_vec();
    seg.devices[0].sii.chunk = if chunk8 { 8 } else { 4 };
    seg.devices[0].sii.oob_fill = 0xff;
    let (mut net, md) = Net::new(seg, 16, 1128, Timeouts::default(), MainDeviceConfig::default());
    net.step_limit = 3_000_000;
    let r = catch_unwind(AssertUnwindSafe(|| {
        run(&mut net, async {
            let g = md.init_single_group::<4, 256>(|| ecverif::clock::now() * 1000).await?;
            // configuration from the EEPROM (PDOs, sync managers, FMMUs)
            let g = g.into_op(md).await?;
            Ok::<_, ethercrab::error::Error>(g.len())
        })
    }));
    match r {
        Err(_) => rep.fail("c13i/init-panic", "MainDevice::init / into_op panicked on this EEPROM image", &line),
        Ok(Err(Stuck::StepLimit)) | Ok(Err(Stuck::Deadlock)) => rep.fail("c13i/init-stuck", "MainDevice::init / into_op did not end (executor step limit / deadlock)", &line),
        Ok(Ok(Ok(_))) => rep.hit("init:ok"),
        Ok(Ok(Err(_))) => rep.hit("init:err"),
    }
    rep.hit(&format!("what:{what}"));
    rep.case(line, "n/a".into());
}

fn main() {
    let args = ecverif::parse_args();
    let mut rep = Report::default();
    if let Some(cases) = ecverif::replay_cases(&args) {
        for c in cases.iter().filter(|c| c.starts_with("c13 init ")) {
            let t: Vec<&str> = c.split(' ').collect();
            if t.len() == 5 {
                one(&ecverif::util::unhex(t[4]), t[3] == "8", t[2], &mut rep);
            }
        }
        rep.write(&args.out, "c13i");
        return;
    }
    let mut rng = Rng::new(args.seed ^ 0xc131);
    let n = if args.tier == "thorough" { 1500 } else { 120 };
    // corpus: blank and all-ones, short and long
    for len in [128usize, 256, 2048] {
        for chunk8 in [false, true] {
            one(&vec![0xff; len], chunk8, "ones", &mut rep);
            one(&vec![0x00; len], chunk8, "zeros", &mut rep);
        }
    }
    let base = Segment::from_descs(&[DeviceDesc { name: Some("EL9999".into()), ..DeviceDesc::default() }]).devices[0].eeprom.clone();
    for k in 0..n {
        let chunk8 = rng.chance(1, 2);
        match k % 4 {
            0 => {
                let len = *rng.pick(&[128usize, 130, 192, 512]);
                one(&rng.bytes(len), chunk8, "noise", &mut rep);
            }
            1 => {
                // well-formed header, categories replaced by noise
                let mut img = base.clone();
                for b in img.iter_mut().skip(128) {
                    if rng.chance(1, 3) {
                        *b = rng.byte();
                    }
                }
                one(&img, chunk8, "cat-noise", &mut rep);
            }
            2 => {
                // a few bytes of a well-formed image set to boundary values (lengths, counts, indices)
                let mut img = base.clone();
                for _ in 0..rng.range(1, 6) {
                    let i = rng.below(img.len() as u64) as usize;
                    img[i] = *rng.pick(&[0u8, 1, 0x7f, 0x80, 0xfe, 0xff]);
                }
                one(&img, chunk8, "mut", &mut rep);
            }
            _ => {
                // identity words all ones / large, no strings: the stand-in name path
                let mut img = base.clone();
                for b in img.iter_mut().take(32).skip(16) {
                    *b = if rng.chance(3, 4) { 0xff } else { rng.byte() };
                }
                img.truncate(128);
                img.extend([0xff, 0xff, 0xff, 0xff]);
                one(&img, chunk8, "noname", &mut rep);
            }
        }
    }
    rep.write(&args.out, "c13i");
}
