//! C02 under deadlines: the schedule-controlled runs with retries and final timeouts (no voluntary drops),
//! judged by the buffer-exclusion and lifecycle-order monitors only.
fn main() {
    ecverif::microrun::main_for(
        ecverif::microrun::Profile {
            key: "c02t",
            drops: false,
            timeouts: true,
            tx_fail: true,
            rx_noise: true,
            only: &["two-parties", "lifecycle-order", "store-over-live-state", "txrx-panic", "app-panic"],
        },
        300,
        2000,
    );
}
