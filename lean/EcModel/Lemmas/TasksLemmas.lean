/-
  Helper lemmas for EcModel.Tasks (C20): slot table access, `findSlot`, `alloc`.
-/
import EcModel.Tasks

namespace Ec.Tasks

variable {α β : Type}

theorem slotAt_lt {l : List (Option α)} {i : Nat} {e : α} (h : slotAt l i = some e) : i < l.length := by
  unfold slotAt at h
  by_cases hi : i < l.length
  · exact hi
  · simp [List.getD, List.getElem?_eq_none (Nat.le_of_not_lt hi)] at h

theorem slotAt_set (l : List (Option α)) (j i : Nat) (v : Option α) (hj : j < l.length) :
    slotAt (l.set j v) i = if i = j then v else slotAt l i := by
  unfold slotAt
  by_cases h : i = j
  · subst h; simp [List.getD, hj]
  · simp [List.getD, h, Ne.symm h]

theorem slotAt_replicate (n i : Nat) : slotAt (List.replicate n (none : Option α)) i = none := by
  unfold slotAt
  simp only [List.getD, List.getElem?_replicate]
  split <;> rfl

/-! ### findSlot -/

theorem findSlotFrom_some (f : α → Option β) (l : List (Option α)) (o j : Nat) (e : α) (b : β)
    (h : findSlotFrom f l o = some (j, e, b)) :
    o ≤ j ∧ slotAt l (j - o) = some e ∧ f e = some b := by
  induction l generalizing o with
  | nil => simp [findSlotFrom] at h
  | cons x r ih =>
    cases x with
    | none =>
      simp only [findSlotFrom] at h
      obtain ⟨h1, h2, h3⟩ := ih (o + 1) h
      refine ⟨by omega, ?_, h3⟩
      have : j - o = (j - (o + 1)) + 1 := by omega
      rw [this]; simpa [slotAt] using h2
    | some a =>
      simp only [findSlotFrom] at h
      split at h
      · next b' hb =>
        cases h
        exact ⟨Nat.le_refl _, by simp [slotAt], hb⟩
      · obtain ⟨h1, h2, h3⟩ := ih (o + 1) h
        refine ⟨by omega, ?_, h3⟩
        have : j - o = (j - (o + 1)) + 1 := by omega
        rw [this]; simpa [slotAt] using h2

theorem findSlotFrom_none (f : α → Option β) (l : List (Option α)) (o : Nat)
    (h : findSlotFrom f l o = none) : ∀ i e, slotAt l i = some e → f e = none := by
  induction l generalizing o with
  | nil => intro i e hi; simp [slotAt] at hi
  | cons x r ih =>
    intro i e hi
    cases x with
    | none =>
      simp only [findSlotFrom] at h
      cases i with
      | zero => simp [slotAt] at hi
      | succ i => exact ih (o + 1) h i e (by simpa [slotAt] using hi)
    | some a =>
      simp only [findSlotFrom] at h
      split at h
      · cases h
      · next hn =>
        cases i with
        | zero =>
          have : a = e := by simpa [slotAt] using hi
          subst this
          exact hn
        | succ i => exact ih (o + 1) h i e (by simpa [slotAt] using hi)

theorem findSlot_some {f : α → Option β} {l : List (Option α)} {j : Nat} {e : α} {b : β}
    (h : findSlot f l = some (j, e, b)) : slotAt l j = some e ∧ f e = some b := by
  have := findSlotFrom_some f l 0 j e b h
  simpa using this.2

theorem findSlot_none {f : α → Option β} {l : List (Option α)} (h : findSlot f l = none) :
    ∀ i e, slotAt l i = some e → f e = none :=
  findSlotFrom_none f l 0 h

/-- If some slot is selected, `findSlot` finds one. -/
theorem findSlot_isSome {f : α → Option β} {l : List (Option α)} {i : Nat} {e : α} {b : β}
    (hi : slotAt l i = some e) (hf : f e = some b) : ∃ r, findSlot f l = some r := by
  cases h : findSlot f l with
  | some r => exact ⟨r, rfl⟩
  | none => have := findSlot_none h i e hi; rw [hf] at this; cases this

/-! ### alloc -/

theorem allocLoop_some (l : List (Option α)) (c fuel k c' : Nat) (h : allocLoop l c fuel = (some k, c')) :
    k < l.length ∧ slotAt l k = none := by
  induction fuel generalizing c with
  | zero => simp [allocLoop] at h
  | succ n ih =>
    simp only [allocLoop] at h
    split at h
    · next hc =>
      cases h
      refine ⟨hc.2, ?_⟩
      have := hc.1
      cases hs : slotAt l (c % 256 % l.length) with
      | none => rfl
      | some v => simp [hs] at this
    · exact ih _ h

theorem allocLoop_none (l : List (Option α)) (c fuel c' : Nat) (h : allocLoop l c fuel = (none, c')) :
    ∀ j, j < fuel → ¬ ((slotAt l ((c + j) % 256 % l.length)).isNone ∧ (c + j) % 256 % l.length < l.length) := by
  induction fuel generalizing c with
  | zero => intro j hj; omega
  | succ n ih =>
    simp only [allocLoop] at h
    split at h
    · cases h
    · next hc =>
      intro j hj
      cases j with
      | zero => simpa using hc
      | succ j =>
        have := ih _ h j (by omega)
        have e : ((c + 1) % 256 + j) % 256 = (c + (j + 1)) % 256 := by omega
        rwa [e] at this

/-- Within `2n` consecutive values of the wrapping `u8` cursor every residue mod `n` occurs. -/
theorem cursor_covers (c n f : Nat) (hf : f < n) (hn : n ≤ 256) :
    ∃ j, j < 2 * n ∧ (c + j) % 256 % n = f := by
  have hn0 : 0 < n := by omega
  let c0 := c % 256
  by_cases hw : c0 + n ≤ 256
  · -- no wrap within the next n values
    have hdm := Nat.div_add_mod c0 n
    have hml := Nat.mod_lt c0 hn0
    by_cases hge : c0 % n ≤ f
    · refine ⟨f - c0 % n, by omega, ?_⟩
      have h1 : (c + (f - c0 % n)) % 256 = c0 + (f - c0 % n) := by
        show (c + (f - c % 256 % n)) % 256 = c % 256 + (f - c % 256 % n)
        have : c % 256 + (f - c % 256 % n) < 256 := by
          show c0 + (f - c0 % n) < 256
          omega
        omega
      rw [h1]
      have h2 : c0 + (f - c0 % n) = n * (c0 / n) + f := by omega
      rw [h2, Nat.mul_add_mod, Nat.mod_eq_of_lt hf]
    · refine ⟨n - c0 % n + f, by omega, ?_⟩
      have h1 : (c + (n - c0 % n + f)) % 256 = c0 + (n - c0 % n + f) := by
        show (c + (n - c % 256 % n + f)) % 256 = c % 256 + (n - c % 256 % n + f)
        have : c % 256 + (n - c % 256 % n + f) < 256 := by
          show c0 + (n - c0 % n + f) < 256
          omega
        omega
      rw [h1]
      have h2 : c0 + (n - c0 % n + f) = n * (c0 / n + 1) + f := by
        rw [Nat.mul_add, Nat.mul_one]; omega
      rw [h2, Nat.mul_add_mod, Nat.mod_eq_of_lt hf]
  · -- the cursor wraps to 0 after 256 - c0 < n steps, then counts 0, 1, .., f
    refine ⟨256 - c0 + f, by omega, ?_⟩
    have h1 : (c + (256 - c0 + f)) % 256 = f := by
      show (c + (256 - c % 256 + f)) % 256 = f
      omega
    rw [h1, Nat.mod_eq_of_lt hf]

theorem exists_free_of_inFlight_lt (l : List (Option α)) (h : inFlight l < l.length) :
    ∃ f, f < l.length ∧ slotAt l f = none := by
  unfold inFlight at h
  have : ¬ ∀ a ∈ l, Option.isSome a = true := by
    intro hall
    have := List.countP_eq_length.mpr hall
    omega
  have ⟨a, ha, hna⟩ : ∃ a, a ∈ l ∧ ¬ Option.isSome a = true := by
    apply Classical.byContradiction
    intro hne
    apply this
    intro a ha
    apply Classical.byContradiction
    intro hh
    exact hne ⟨a, ha, hh⟩
  obtain ⟨i, hi, hget⟩ := List.getElem_of_mem ha
  refine ⟨i, hi, ?_⟩
  cases a with
  | none => simp [slotAt, List.getD, hi, hget]
  | some v => simp at hna

theorem inFlight_eq_length_of_full (l : List (Option α)) (h : ∀ i, i < l.length → slotAt l i ≠ none) :
    inFlight l = l.length := by
  unfold inFlight
  apply List.countP_eq_length.mpr
  intro a ha
  obtain ⟨i, hi, hget⟩ := List.getElem_of_mem ha
  have := h i hi
  cases a with
  | none => exfalso; apply this; simp [slotAt, List.getD, hi, hget]
  | some v => rfl

end Ec.Tasks
