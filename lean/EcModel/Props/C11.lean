/-
  C11 — a device that did not answer is never mistaken for one that did.
  Property theorems only; helper lemmas live in EcModel/Lemmas/WkcLemmas.lean.

  Reading guide. `Exchange` is the result of one datagram round trip (`MainDevice::single_pdu`):
  a transport error or the payload + working counter that came back — ANY payload and counter
  (absent device, device that dropped out, hostile wire). The composite paths run against a list
  of such events, one per datagram in the order the code sends them.
-/
import EcModel.Lemmas.WkcLemmas
import EcModel.Lemmas.GroupLemmas

namespace Ec.C11
open Ec Ec.Wkc

/-! ### The builders -/

/-- `WrappedRead::new` / `WrappedWrite::new` expect one responder; `with_wkc(k)` expects `k`;
    `ignore_wkc()` expects nothing. (The literal `1` is re-read from the sources on every run.) -/
theorem default_expected_is_one :
    WrappedRead.new.wkc = some 1 ∧ WrappedWrite.new.wkc = some 1 ∧
    (∀ r k, (WrappedRead.withWkc r k).wkc = some k) ∧ (∀ w k, (WrappedWrite.withWkc w k).wkc = some k) ∧
    (∀ r, (WrappedRead.ignoreWkc r).wkc = none) ∧ (∀ w, (WrappedWrite.ignoreWkc w).wkc = none) := by
  refine ⟨by decide, by decide, ?_, ?_, ?_, ?_⟩ <;> intros <;> rfl

/-- A checked builder method returns `Ok` only if the datagram came back, its working counter
    equals the expected value, and the value is the decoding of exactly that datagram's payload. -/
theorem checked_returns_only_on_match {α : Type} (k : Nat) (ex : Exchange) (unpack : List Nat → Res α) (v : α) :
    (∀ r : WrappedRead, r.wkc = some k → r.receive ex unpack = .ok v →
        ∃ p, ex = .ok p ∧ p.wkc = k ∧ unpack p.data = .ok v) ∧
    (∀ w : WrappedWrite, w.wkc = some k → w.sendReceive ex unpack = .ok v →
        ∃ p, ex = .ok p ∧ p.wkc = k ∧ unpack p.data = .ok v) :=
  ⟨fun r hk h => receive_ok r ex unpack v k hk h, fun w hk h => sendReceive_ok w ex unpack v k hk h⟩

/-- Same for the slice-returning methods: the returned view is the received datagram itself. -/
theorem checked_slice_returns_only_on_match (k : Nat) (ex : Exchange) (q : Pdu) :
    (∀ r : WrappedRead, r.wkc = some k → r.receiveSlice ex = .ok q → ex = .ok q ∧ q.wkc = k) ∧
    (∀ w : WrappedWrite, w.wkc = some k → w.sendReceiveSlice ex = .ok q → ex = .ok q ∧ q.wkc = k) :=
  ⟨fun r hk h => receiveSlice_ok r ex q k hk h, fun w hk h => sendReceiveSlice_ok w ex q k hk h⟩

/-- When the counter differs the result is `Err(WorkingCounter { expected, received })` with
    exactly the two counts — for all four checked methods, whatever the payload decodes to. -/
theorem mismatch_error_carries_counts {α : Type} (k : Nat) (p : Pdu) (unpack : List Nat → Res α) (h : p.wkc ≠ k) :
    (∀ r : WrappedRead, r.wkc = some k →
        r.receive (.ok p) unpack = .error (.workingCounter k p.wkc) ∧
        r.receiveSlice (.ok p) = .error (.workingCounter k p.wkc)) ∧
    (∀ w : WrappedWrite, w.wkc = some k →
        w.sendReceive (.ok p) unpack = .error (.workingCounter k p.wkc) ∧
        w.sendReceiveSlice (.ok p) = .error (.workingCounter k p.wkc)) := by
  refine ⟨fun r hk => ?_, fun w hk => ?_⟩
  · simp [WrappedRead.receive, WrappedRead.receiveSlice, hk, maybeWkc_mismatch p k h]
  · simp [WrappedWrite.sendReceive, WrappedWrite.sendReceiveSlice, hk, maybeWkc_mismatch p k h]

/-- A matching counter never produces a working-counter error: the value is the decoded payload. -/
theorem match_is_accepted {α : Type} (k : Nat) (p : Pdu) (unpack : List Nat → Res α) (h : p.wkc = k) :
    (∀ r : WrappedRead, r.wkc = some k → r.receive (.ok p) unpack = unpack p.data ∧ r.receiveSlice (.ok p) = .ok p) ∧
    (∀ w : WrappedWrite, w.wkc = some k → w.sendReceive (.ok p) unpack = unpack p.data ∧ w.sendReceiveSlice (.ok p) = .ok p) := by
  refine ⟨fun r hk => ?_, fun w hk => ?_⟩
  · simp [WrappedRead.receive, WrappedRead.receiveSlice, hk, Pdu.maybeWkc, Pdu.checkWkc, h]
  · simp [WrappedWrite.sendReceive, WrappedWrite.sendReceiveSlice, hk, Pdu.maybeWkc, Pdu.checkWkc, h]

/-- A datagram that did not come back is an error for every method, the exempt ones included:
    no method invents a value. -/
theorem transport_error_passes_through {α : Type} (e : Err) (unpack : List Nat → Res α) (r : WrappedRead) (w : WrappedWrite) :
    r.receive (.error e) unpack = .error e ∧ r.receiveSlice (.error e) = .error e ∧
    r.receiveWkc (.error e) = .error e ∧ w.send (.error e) = .error e ∧
    w.sendReceive (.error e) unpack = .error e ∧ w.sendReceiveSlice (.error e) = .error e :=
  ⟨rfl, rfl, rfl, rfl, rfl, rfl⟩

/-- The two documented exemptions, stated as what they do: `send` accepts any counter (and hands
    nothing back), `receive_wkc` hands the counter itself to the caller; `ignore_wkc()` accepts
    any counter. -/
theorem exemptions_as_coded (p : Pdu) (w : WrappedWrite) (r : WrappedRead) :
    w.send (.ok p) = .ok () ∧ r.receiveWkc (.ok p) = .ok p.wkc ∧
    r.ignoreWkc.receiveSlice (.ok p) = .ok p ∧ w.ignoreWkc.sendReceiveSlice (.ok p) = .ok p :=
  ⟨rfl, rfl, rfl, rfl⟩

/-! ### Composite paths: the value handed back was produced by a checked exchange -/

/-- `register_read` / `register_write`: the value is the payload of the one datagram, which came
    back with working counter 1. -/
theorem register_access_checked (n : Nat) (tr rest : List Ev) (v : List Nat) :
    (registerRead n tr = (.ok v, rest) → ∃ p, tr = .resp p :: rest ∧ p.wkc = 1 ∧ unpackBytes n p.data = .ok v) ∧
    (registerWrite n tr = (.ok v, rest) → ∃ p, tr = .resp p :: rest ∧ p.wkc = 1 ∧ unpackBytes n p.data = .ok v) := by
  constructor <;> intro h <;> cases tr with
  | nil => simp [registerRead, registerWrite] at h
  | cons e t =>
    simp only [registerRead, registerWrite, Prod.mk.injEq] at h
    obtain ⟨h1, rfl⟩ := h
    first
      | (obtain ⟨p, he, hw, hu⟩ := read1_ok _ _ _ _ h1; exact ⟨p, by rw [he], hw, hu⟩)
      | (obtain ⟨p, he, hw, hu⟩ := write1_ok _ _ _ _ h1; exact ⟨p, by rw [he], hw, hu⟩)

/-- `SubDeviceRef::status`: both registers were read with working counter 1 and the pair is their
    decoding (state nibble without error bit, status code). -/
theorem status_checked (tr rest : List Ev) (s c : Nat) (h : status tr = (.ok (s, c), rest)) :
    ∃ p1 p2, tr = .resp p1 :: .resp p2 :: rest ∧ p1.wkc = 1 ∧ p2.wkc = 1 ∧
      unpackAlControl p1.data = .ok ⟨s, false⟩ ∧ unpackCode p2.data = .ok c := by
  match tr with
  | [] => simp [status] at h
  | [_] => simp [status] at h
  | e1 :: e2 :: t =>
    simp only [status] at h
    by_cases hl : e1 = .lost
    · rw [if_pos hl] at h
      split at h <;> simp at h
    · rw [if_neg hl] at h
      split at h
      · simp at h
      · rename_i ctl h1
        obtain ⟨p1, he1, hw1, hu1⟩ := read1_ok _ _ _ _ h1
        have third : ∀ (l : List Ev) v r, statusThird l ≠ (.ok v, r) := by
          intro l v r hh
          cases l with
          | nil => simp [statusThird] at hh
          | cons e3 t3 =>
            simp only [statusThird] at hh
            split at hh <;> simp at hh
        by_cases herr : ctl.error = true
        · rw [if_pos herr] at h
          by_cases hl2 : e2 = .lost
          · rw [if_pos hl2] at h; exact absurd h (third _ _ _)
          · rw [if_neg hl2] at h
            split at h
            · simp at h
            · exact absurd h (third _ _ _)
        · rw [if_neg herr] at h
          split at h
          · simp at h
          · rename_i code h2
            obtain ⟨p2, he2, hw2, hu2⟩ := read1_ok _ _ _ _ h2
            simp only [Prod.mk.injEq, Res.ok.injEq] at h
            obtain ⟨⟨rfl, rfl⟩, rfl⟩ := h
            refine ⟨p1, p2, by rw [he1, he2], hw1, hw2, ?_, hu2⟩
            rw [hu1]
            cases ctl with
            | mk st er => simp at herr; simp [herr]

/-- `request_subdevice_state_nowait`: success means the AL control write was acknowledged by
    exactly one device (working counter 1) and the read-back carried no error bit. -/
theorem state_request_checked (tr rest : List Ev) (h : requestNowait tr = (.ok (), rest)) :
    ∃ p c, tr = .resp p :: rest ∧ p.wkc = 1 ∧ unpackAlControl p.data = .ok c ∧ c.error = false := by
  cases tr with
  | nil => simp [requestNowait] at h
  | cons e t =>
    simp only [requestNowait] at h
    split at h
    · simp at h
    · rename_i c h1
      obtain ⟨p, he, hw, hu⟩ := write1_ok _ _ _ _ h1
      by_cases herr : c.error = true
      · rw [if_pos herr] at h
        split at h
        · simp at h
        · split at h <;> simp at h
      · rw [if_neg herr] at h
        simp only [Prod.mk.injEq, true_and] at h
        subst h
        exact ⟨p, c, by rw [he], hw, hu, by simpa using herr⟩

/-- EEPROM `read_chunk`: the bytes returned are the payload of a data-register read that came back
    with working counter 1, and it was preceded by SII status polls that ALL came back with working
    counter 1, the last of them showing "not busy". The only exchange whose counter was not looked
    at is the first one (`e0`, the fire-and-forget write of the read command — documented exempt). -/
theorem eeprom_read_checked (tr rest : List Ev) (d : List Nat) (h : readChunk tr = (.ok d, rest)) :
    ∃ (e0 : Ev) (polls : List Pdu) (ps pd : Pdu),
      tr = e0 :: (polls.map Ev.resp ++ .resp ps :: .resp pd :: rest) ∧
      (∀ q ∈ polls, q.wkc = 1) ∧ ps.wkc = 1 ∧ pd.wkc = 1 ∧ d = pd.data := by
  cases tr with
  | nil => simp [readChunk] at h
  | cons e0 t =>
    simp only [readChunk] at h
    split at h
    · simp at h
    · split at h
      · simp at h
      · rename_i st t1 hwait
        obtain ⟨polls, ps, hshape, hpolls, hps, _, _⟩ := waitWhileBusy_ok _ _ _ hwait
        cases t1 with
        | nil => simp at h
        | cons e2 t2 =>
          simp only at h
          split at h
          · simp at h
          · rename_i pd hslice
            obtain ⟨he2, hw2⟩ := slice1_ok _ _ _ hslice
            simp only [Prod.mk.injEq, Res.ok.injEq] at h
            obtain ⟨rfl, rfl⟩ := h
            exact ⟨e0, polls, ps, pd, by rw [hshape, he2], hpolls, hps, hw2, rfl⟩

/-- EEPROM `write_word`: `Ok` rests on a checked SII status poll — the acknowledgement that the
    interface is no longer busy came back with working counter 1 — after the (fire-and-forget,
    documented exempt) data and command writes. -/
theorem eeprom_write_checked (tr rest : List Ev) (h : writeWord tr = (.ok (), rest)) :
    ∃ (pre : List Ev) (p : Pdu), tr = pre ++ .resp p :: rest ∧ p.wkc = 1 := by
  unfold writeWord at h
  split at h
  · simp at h
  · rename_i st t hw
    obtain ⟨polls, p0, hshape, _, _, _, _⟩ := waitWhileBusy_ok _ _ _ hw
    obtain ⟨pre, p, hp, hpw⟩ := writeLoop_ok 0 t rest h
    exact ⟨polls.map Ev.resp ++ .resp p0 :: pre, p, by rw [hshape, hp]; simp, hpw⟩

/-- `clear_errors`: success rests on a status read (and, if errors were flagged, a write-read-back)
    with working counter 1. -/
theorem eeprom_clear_errors_checked (tr rest : List Ev) (h : clearErrors tr = (.ok (), rest)) :
    ∃ p t, tr = .resp p :: t ∧ p.wkc = 1 ∧
      (t = rest ∨ ∃ p2, t = .resp p2 :: rest ∧ p2.wkc = 1) := by
  cases tr with
  | nil => simp [clearErrors] at h
  | cons e t =>
    simp only [clearErrors] at h
    split at h
    · simp at h
    · rename_i st h1
      obtain ⟨p, he, hw, _⟩ := read1_ok _ _ _ _ h1
      by_cases herr : st.hasError = true
      · rw [if_pos herr] at h
        cases t with
        | nil => simp at h
        | cons e2 t2 =>
          simp only at h
          split at h
          · simp at h
          · rename_i st2 h2
            obtain ⟨p2, he2, hw2, _⟩ := write1_ok _ _ _ _ h2
            by_cases herr2 : st2.hasError = true
            · rw [if_pos herr2] at h; simp at h
            · rw [if_neg herr2] at h
              simp only [Prod.mk.injEq, true_and] at h
              subst h
              exact ⟨p, e2 :: t2, by rw [he], hw, Or.inr ⟨p2, by rw [he2], hw2⟩⟩
      · rw [if_neg herr] at h
        simp only [Prod.mk.injEq, true_and] at h
        subst h
        exact ⟨p, t, by rw [he], hw, Or.inl rfl⟩

/-- One CoE mailbox round trip (the exchange under every SDO read/write): the raw response handed
    to the CoE layer is the payload of a mailbox read that came back with working counter 1,
    directly preceded by a "mailbox full" status poll that came back with working counter 1. -/
theorem sdo_checked (tr rest : List Ev) (d : List Nat) (h : mailboxWriteRead tr = (.ok d, rest)) :
    ∃ (pre : List Ev) (pf pd : Pdu), tr = pre ++ .resp pf :: .resp pd :: rest ∧
      pf.wkc = 1 ∧ unpackSmFull pf.data = .ok true ∧ pd.wkc = 1 ∧ d = pd.data := by
  unfold mailboxWriteRead at h
  split at h
  · simp at h
  · rename_i t hclear
    obtain ⟨pre0, hpre0⟩ := clearLoop_suffix _ _ _ _ hclear
    split at h
    · simp at h
    · rename_i t1 hecho
      obtain ⟨polls1, p1, hs1, _, _, _⟩ := waitSm_ok _ _ _ _ hecho
      cases t1 with
      | nil => simp at h
      | cons e t2 =>
        simp only at h
        split at h
        · simp at h
        · split at h
          · simp at h
          · rename_i t3 hresp
            obtain ⟨polls3, pf, hs3, _, hwf, huf⟩ := waitSm_ok _ _ _ _ hresp
            cases t3 with
            | nil => simp at h
            | cons e4 t4 =>
              simp only at h
              split at h
              · simp at h
              · rename_i pd hslice
                obtain ⟨he4, hw4⟩ := slice1_ok _ _ _ hslice
                simp only [Prod.mk.injEq, Res.ok.injEq] at h
                obtain ⟨rfl, rfl⟩ := h
                refine ⟨pre0 ++ (polls1.map Ev.resp ++ [.resp p1]) ++ [e] ++ polls3.map Ev.resp, pf, pd, ?_, hwf, huf, hw4, rfl⟩
                rw [hpre0, hs1, hs3, he4]
                simp

/-- `MainDevice::wait_for_state`: success means the last broadcast read came back with working
    counter = number of SubDevices, reported the desired state and no error bit. -/
theorem md_wait_checked (num desired : Nat) (tr rest : List Ev) (h : mdWaitForState num desired tr = (.ok (), rest)) :
    ∃ (pre : List Ev) (p : Pdu), tr = pre ++ .resp p :: rest ∧ p.wkc = num ∧
      unpackAlControl p.data = .ok ⟨desired, false⟩ :=
  mdWaitForState_ok num desired tr rest h

/-! ### Absent device: no composite path ever succeeds -/

/-- No response in the trace carries working counter 1 (the addressed device is absent / dropped
    out / the wire changed every counter). -/
def NoneAnswered (tr : List Ev) : Prop := ∀ p, Ev.resp p ∈ tr → p.wkc ≠ 1

/-- Against a device that never answers, none of the data-returning paths reports success —
    whatever payload bytes come back. -/
theorem absent_device_never_ok (tr : List Ev) (hno : NoneAnswered tr) :
    (∀ n v rest, registerRead n tr ≠ (.ok v, rest)) ∧
    (∀ n v rest, registerWrite n tr ≠ (.ok v, rest)) ∧
    (∀ v rest, status tr ≠ (.ok v, rest)) ∧
    (∀ rest, requestNowait tr ≠ (.ok (), rest)) ∧
    (∀ d rest, readChunk tr ≠ (.ok d, rest)) ∧
    (∀ rest, writeWord tr ≠ (.ok (), rest)) ∧
    (∀ rest, clearErrors tr ≠ (.ok (), rest)) ∧
    (∀ d rest, mailboxWriteRead tr ≠ (.ok d, rest)) := by
  refine ⟨?_, ?_, ?_, ?_, ?_, ?_, ?_, ?_⟩
  · intro n v rest h
    obtain ⟨p, rfl, hw, _⟩ := (register_access_checked n tr rest v).1 h
    exact hno p (by simp) hw
  · intro n v rest h
    obtain ⟨p, rfl, hw, _⟩ := (register_access_checked n tr rest v).2 h
    exact hno p (by simp) hw
  · intro v rest h
    obtain ⟨p1, _, rfl, hw, _⟩ := status_checked tr rest v.1 v.2 h
    exact hno p1 (by simp) hw
  · intro rest h
    obtain ⟨p, _, rfl, hw, _⟩ := state_request_checked tr rest h
    exact hno p (by simp) hw
  · intro d rest h
    obtain ⟨_, _, _, pd, rfl, _, _, hw, _⟩ := eeprom_read_checked tr rest d h
    exact hno pd (by simp) hw
  · intro rest h
    obtain ⟨_, p, rfl, hw⟩ := eeprom_write_checked tr rest h
    exact hno p (by simp) hw
  · intro rest h
    obtain ⟨p, _, rfl, hw, _⟩ := eeprom_clear_errors_checked tr rest h
    exact hno p (by simp) hw
  · intro d rest h
    obtain ⟨_, _, pd, rfl, _, _, hw, _⟩ := sdo_checked tr rest d h
    exact hno pd (by simp) hw

/-! ### Group transitions -/

/-- The request phase of a group transition is checked: a group with at least one member never
    gets its new typestate from devices that do not answer (the first AL control write fails). -/
theorem group_transition_absent (m : Mode) (pduLen desired a : Nat) (members : List Nat) (tr : List Ev)
    (hno : NoneAnswered tr) (rest : List Ev) (sent : List (List Group.Dg)) :
    Group.transitionTo m pduLen desired (a :: members) tr ≠ (.ok (), rest, sent) := by
  intro h
  unfold Group.transitionTo Group.requestAll at h
  cases tr with
  | nil => simp [Group.requestNowaitL] at h
  | cons e t =>
    unfold Group.requestNowaitL at h
    simp only at h
    cases hsr : WrappedWrite.new.sendReceive (exch none e) unpackAlControl with
    | error er => simp [hsr] at h
    | ok c =>
      obtain ⟨p, he, hw, _⟩ := write1_ok _ _ _ _ hsr
      exact hno p (by rw [he]; simp) hw

/-- The status polls of a group transition are checked too: a transition that returns Ok ended on
    a round in which every member's status datagram came back with working counter 1 (`Reports`
    includes the counter). -/
theorem group_transition_checked (m : Mode) (pduLen desired : Nat) (members : List Nat) (tr rest : List Ev)
    (sent : List (List Group.Dg)) (hm : m = .checked ∨ Group.CHECK_SIZE ≤ pduLen)
    (h : Group.transitionTo m pduLen desired members tr = (.ok (), rest, sent)) :
    ∃ (pre : List Ev) (ps : List Pdu), tr = pre ++ ps.map Ev.resp ++ rest ∧ ps.length = members.length ∧
      ∀ p ∈ ps, p.wkc = 1 := by
  unfold Group.transitionTo at h
  split at h
  · simp at h
  · rename_i t s hreq
    simp only [Prod.mk.injEq] at h
    obtain ⟨pre, ps, h1, h2, h3⟩ := Group.waitLoop_ok m pduLen desired members _ t rest
      (Group.waitForState m pduLen desired members t).2.2 hm (by
        show Group.waitForState m pduLen desired members t = _
        rw [← h.1, ← h.2.1])
    obtain ⟨q, hq⟩ := Group.requestAll_suffix desired members tr _ t s hreq
    exact ⟨q ++ pre, ps, by rw [hq, h1]; simp, h2, fun p hp => (h3 p hp).1⟩

/-- A status poll that was not answered by exactly one device ends `is_state` with
    `WorkingCounter { expected: 1, received }`, whatever its bytes say. -/
theorem group_poll_mismatch_is_error (desired : Nat) (p : Pdu) (ps : List Pdu) (h : p.wkc ≠ 1) :
    Group.checkStates desired (p :: ps) = .error (.workingCounter 1 p.wkc) := by
  simp [Group.checkStates, Pdu.checkWkc, h]

/-- The former witnesses of the gap: a status poll with a foreign counter but bytes saying OP, and a
    member that dropped out after its AL control write (zero payload, counter 0), now both end in the
    working-counter error. -/
theorem group_status_poll_former_witnesses :
    Group.transitionTo .checked 100 8 [0x1000] [.resp ⟨[8, 0], 1⟩, .resp ⟨[8, 0], 2⟩]
      = (.error (.workingCounter 1 2), [], [[.fpwr 0x1000 0x120 8], [.fprd 0x1000 0x130]]) ∧
    Group.transitionTo .checked 100 8 [0x1000] [.resp ⟨[8, 0], 1⟩, .resp ⟨[0, 0], 0⟩]
      = (.error (.workingCounter 1 0), [], [[.fpwr 0x1000 0x120 8], [.fprd 0x1000 0x130]]) := by
  decide

/-! ### The exempt set, as data re-read from the sources (T1) -/

/-- Reviewed `.ignore_wkc()` call sites. Each one is an exemption the property allows ("callers
    that explicitly opt out"); none of them hands data of an unanswered datagram to the user:
    latch_dc_times / write_dc_parameters / configure_dc_sync (DC set-up, C17/C18), reset_subdevices
    (broadcast resets before the device count is known), wait_for_mailboxes (dummy read that only
    empties a stale mailbox; result discarded), MainDevice::wait_for_state (status-code sweep of
    the error branch, only logged), SubDeviceRef::wait_for_state (crate-private, unused by the
    group paths). -/
def reviewedIgnoreWkc : List (String × String) := [
  ("dc.rs", "latch_dc_times"),
  ("dc.rs", "write_dc_parameters"),
  ("dc.rs", "write_dc_parameters"),
  ("mailbox/coe/mod.rs", "wait_for_mailboxes"),
  ("maindevice.rs", "reset_subdevices"),
  ("maindevice.rs", "reset_subdevices"),
  ("maindevice.rs", "reset_subdevices"),
  ("maindevice.rs", "wait_for_state"),
  ("subdevice/mod.rs", "wait_for_state"),
  ("subdevice_group/mod.rs", "configure_dc_sync")]

/-- Reviewed `WrappedWrite::send` call sites (fire-and-forget write, outside the quantifier). The
    ones inside data-returning paths are followed by a checked exchange with the same device
    (`eeprom_read_checked`, `sdo_checked`): read_chunk, write_word ×2, mailbox_write_read,
    send_sdo_info_service; the rest are configuration writes. -/
def reviewedSend : List (String × String) := [
  ("dc.rs", "latch_dc_times"),
  ("dc.rs", "write_dc_parameters"),
  ("dc.rs", "write_dc_parameters"),
  ("eeprom/device_provider.rs", "read_chunk"),
  ("eeprom/device_provider.rs", "write_word"),
  ("eeprom/device_provider.rs", "write_word"),
  ("mailbox/coe/mod.rs", "mailbox_write_read"),
  ("mailbox/coe/mod.rs", "send_sdo_info_service"),
  ("maindevice.rs", "reset_subdevices"),
  ("maindevice.rs", "reset_subdevices"),
  ("maindevice.rs", "reset_subdevices"),
  ("maindevice.rs", "init"),
  ("subdevice/configuration.rs", "write_sm_config"),
  ("subdevice/configuration.rs", "write_fmmu_config"),
  ("subdevice/mod.rs", "set_eeprom_mode"),
  ("subdevice/mod.rs", "set_eeprom_mode"),
  ("subdevice_group/mod.rs", "configure_dc_sync"),
  ("subdevice_group/mod.rs", "configure_dc_sync"),
  ("subdevice_group/mod.rs", "configure_dc_sync"),
  ("subdevice_group/mod.rs", "configure_dc_sync"),
  ("subdevice_group/mod.rs", "configure_dc_sync")]

/-- `receive_wkc`: the counter IS the value (device count, DC static sync). -/
def reviewedReceiveWkc : List (String × String) := [
  ("dc.rs", "run_dc_static_sync"),
  ("maindevice.rs", "count_subdevices")]

/-- Code that consumes raw `ReceivedPdu`s without the builders: `single_pdu` (wrapped by the
    builders), the `tx_rx*` cycle functions (the summed counter is returned to the caller in
    `TxRxResponse`; C07) and `is_state`, which applies `ReceivedPdu::wkc(1)` to every status
    datagram itself (`reviewedRawPduChecked`). -/
def reviewedRawPdu : List (String × String) := [
  ("maindevice.rs", "single_pdu"),
  ("subdevice_group/mod.rs", "is_state"),
  ("subdevice_group/mod.rs", "tx_rx"),
  ("subdevice_group/mod.rs", "tx_rx_sync_system_time"),
  ("subdevice_group/mod.rs", "tx_rx_dc")]

/-- Raw consumers that check the counter of what they consume. -/
def reviewedRawPduChecked : List (String × String) := [("subdevice_group/mod.rs", "is_state")]

/-- Generated obligation: the opt-out sites found in /repo are exactly the reviewed ones. A new
    `.ignore_wkc()`, a new `.send(`, a new raw consumer or a new `receive_wkc` caller changes the
    regenerated list and this stops checking; so does removing the counter check from `is_state`. -/
theorem exempt_sites :
    Gen.Wkc.ignoreWkcSites = reviewedIgnoreWkc ∧ Gen.Wkc.sendSites = reviewedSend ∧
    Gen.Wkc.receiveWkcSites = reviewedReceiveWkc ∧ Gen.Wkc.rawPduSites = reviewedRawPdu ∧
    Gen.Wkc.rawPduSitesChecked = reviewedRawPduChecked := by
  decide

/-- Generated obligation: of the builder methods that go through `common(..)`, exactly `receive`,
    `receive_slice`, `send_receive`, `send_receive_slice` pass the response through
    `maybe_wkc(self.wkc)`; `ReceivedPdu::wkc` compares for equality and reports both counts. -/
theorem checked_methods :
    Gen.Wkc.readMethods = ["receive", "receive_slice", "receive_wkc"] ∧
    Gen.Wkc.readMethodsChecked = ["receive", "receive_slice"] ∧
    Gen.Wkc.writeMethods = ["send", "send_receive", "send_receive_slice"] ∧
    Gen.Wkc.writeMethodsChecked = ["send_receive", "send_receive_slice"] ∧
    Gen.Wkc.wkcCheckShape = true := by
  decide

/-! ### Non-vacuity -/

/-- A healthy EEPROM read: command write, one busy poll, one idle poll, 4 data bytes. -/
example : readChunk [.resp ⟨[0, 1, 0x40, 0, 0, 0], 1⟩, .resp ⟨[0, 0x80], 1⟩, .resp ⟨[0, 0], 1⟩,
    .resp ⟨[1, 2, 3, 4], 1⟩] = (.ok [1, 2, 3, 4], []) := by decide

/-- The same with the device gone before the data read: working-counter error with both counts. -/
example : readChunk [.resp ⟨[0, 1, 0x40, 0, 0, 0], 1⟩, .resp ⟨[0, 0], 1⟩, .resp ⟨[0, 0, 0, 0], 0⟩]
    = (.error (.workingCounter 1 0), []) := by decide

/-- Expected counts other than 1: a broadcast read over three devices. -/
example : (WrappedRead.new.withWkc 3).receive (.ok ⟨[8, 0], 3⟩) unpackAlControl = .ok ⟨8, false⟩ ∧
    (WrappedRead.new.withWkc 3).receive (.ok ⟨[8, 0], 2⟩) unpackAlControl = .error (.workingCounter 3 2) := by decide

/-- A healthy mailbox round trip (empty out-mailbox, free in-mailbox, request, one empty poll, one
    full poll, response). -/
example : mailboxWriteRead [.resp ⟨[0], 1⟩, .resp ⟨[0], 1⟩, .resp ⟨[9, 9], 1⟩, .resp ⟨[0], 1⟩, .resp ⟨[8], 1⟩,
    .resp ⟨[7, 7, 7], 1⟩] = (.ok [7, 7, 7], []) := by decide

/-- `status` on a healthy device in OP. -/
example : status [.resp ⟨[8, 0], 1⟩, .resp ⟨[0, 0], 1⟩] = (.ok (8, 0), []) := by decide

end Ec.C11
