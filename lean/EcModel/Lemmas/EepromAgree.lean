/-
  Build-mode agreement for the category walk (C13): if the overflow-checked run of `category` does not panic,
  the wrapping run computes exactly the same thing (same result, same number of provider calls).
-/
import EcModel.Lemmas.EepromSafe

namespace Ec.Eeprom
open Ec

/-- The computation does not end in a panic. -/
def NoPanic {α : Type} (x : M α) : Prop := ∀ w, x.1 ≠ .panic w

theorem add16_agree (s : String) (a b : Nat) (h : NoPanic (add16 .checked s a b)) :
    add16 .wrapping s a b = add16 .checked s a b := by
  unfold add16 at h ⊢
  by_cases hlt : a + b < 65536
  · simp [hlt]
  · simp only [hlt, if_false] at h
    exact absurd rfl (h s)

theorem mul16_agree (s : String) (a b : Nat) (h : NoPanic (mul16 .checked s a b)) :
    mul16 .wrapping s a b = mul16 .checked s a b := by
  unfold mul16 at h ⊢
  by_cases hlt : a * b < 65536
  · simp [hlt]
  · simp only [hlt, if_false] at h
    exact absurd rfl (h s)

theorem bind_agree {α β : Type} {xc xw : M α} {fc fw : α → M β}
    (hx : NoPanic xc → xw = xc) (hf : ∀ a, NoPanic (fc a) → fw a = fc a)
    (h : NoPanic (bind xc fc)) : bind xw fw = bind xc fc := by
  have hxc : NoPanic xc := by
    intro w hw
    exact h w (by rw [bind_eq_panic fc hw])
  rw [hx hxc]
  cases hx1 : xc.1 with
  | ok a =>
    have hfa : NoPanic (fc a) := by
      intro w hw
      exact h w (by rw [bind_fst_ok fc hx1]; exact hw)
    rw [bind_eq_ok fw hx1, bind_eq_ok fc hx1, hf a hfa]
  | err e => rw [bind_eq_err fw hx1, bind_eq_err fc hx1]
  | panic w => exact absurd hx1 (hxc w)

theorem new_agree (w n : Nat) (h : NoPanic (Range.new .checked w n)) :
    Range.new .wrapping w n = Range.new .checked w n := by
  unfold Range.new at h ⊢
  refine bind_agree (mul16_agree _ _ _) (fun bp => ?_) h
  refine bind_agree (mul16_agree _ _ _) (fun a => ?_)
  refine bind_agree (mul16_agree _ _ _) (fun b => ?_)
  refine bind_agree (add16_agree _ _ _) (fun e => ?_)
  intro _; rfl

theorem catStep_agree (cat : Nat) (chunk : List Nat) (wa ne : Nat)
    (h : NoPanic (catStep .checked cat chunk wa ne)) :
    catStep .wrapping cat chunk wa ne = catStep .checked cat chunk wa ne := by
  unfold catStep at h ⊢
  by_cases h1 : wa + 2 ≥ 65536
  · simp only [if_pos h1]
  · simp only [if_neg h1] at h ⊢
    by_cases h2 : chunk.length < 4
    · simp only [if_pos h2]
    · simp only [if_neg h2] at h ⊢
      by_cases h3 : (if rd16 (chunk.drop 2) = 0 then ne + 1 else ne) ≥ Gen.Eeprom.EMPTY_CATEGORY_LIMIT
      · simp only [if_pos h3]
      · simp only [if_neg h3] at h ⊢
        refine bind_agree (mul16_agree _ _ _) (fun _ => ?_) h
        by_cases h4 : catOf (rd16 chunk) = cat
        · simp only [if_pos h4]
          refine bind_agree (new_agree _ _) (fun r => ?_)
          intro _; rfl
        · simp only [if_neg h4]
          by_cases h5 : catOf (rd16 chunk) = Gen.Eeprom.CAT_END
          · simp only [if_pos h5]; intro _; trivial
          · simp only [if_neg h5]
            refine bind_agree (add16_agree _ _ _) (fun x => ?_)
            intro _; rfl

theorem catLoop_agree (p : Prov) (cat : Nat) :
    ∀ (fuel wa ne calls : Nat), NoPanic (catLoop .checked p cat fuel wa ne calls) →
      catLoop .wrapping p cat fuel wa ne calls = catLoop .checked p cat fuel wa ne calls := by
  intro fuel
  induction fuel with
  | zero => intro wa ne calls _; rfl
  | succ fuel ih =>
    intro wa ne calls h
    unfold catLoop at h ⊢
    have hst : NoPanic (catStep .checked cat (chunkAt p wa) wa ne) := by
      intro w hw
      generalize catStep .checked cat (chunkAt p wa) wa ne = st at hw h
      obtain ⟨o, c⟩ := st
      simp only at hw
      subst hw
      exact h w rfl
    rw [catStep_agree cat _ wa ne hst]
    generalize catStep .checked cat (chunkAt p wa) wa ne = st at h
    obtain ⟨o, c⟩ := st
    cases o with
    | ok s =>
      cases s with
      | done r => rfl
      | next wa' ne' => exact ih wa' ne' (calls + 1) h
    | err e => rfl
    | panic w => rfl

/-- **Mode agreement for the category search.** -/
theorem category_agree (p : Prov) (cat : Nat) (h : NoPanic (category .checked p cat)) :
    category .wrapping p cat = category .checked p cat :=
  catLoop_agree p cat _ _ _ _ h

/-- Under the no-overflow hypothesis the wrapping search inherits termination and the tight bound of the
    checked one. -/
theorem catOK_noWrap (p : Prov) (hcs : 4 ≤ p.cs) (h : ∀ cat, NoPanic (category .checked p cat)) :
    CatOK .wrapping p false (catBound .checked) := by
  intro cat
  have hc := category_tri .checked p hcs cat
  rw [category_agree p cat (h cat)]
  refine ⟨hc.cost, hc.nofuel, ?_, hc.post⟩
  intro w hw
  exact absurd hw (h cat w)

end Ec.Eeprom
