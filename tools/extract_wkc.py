"""C11 facts (T1): where the working-counter check is applied and where it is opted out of.

Regenerates `Generated/WkcSites.lean` from /repo/src:
  * the default expected counter of `WrappedRead::new` / `WrappedWrite::new`;
  * which builder methods of reads.rs / writes.rs pass their response through `maybe_wkc(self.wkc)`;
  * every `.ignore_wkc()` call site, every `.send(` call site (the documented fire-and-forget write),
    every `.receive_wkc` call site (counter handed to the caller) and every consumer of raw
    `ReceivedPdu`s (`into_pdu_iter(` / `first_pdu(`), each as (file, enclosing fn), in source order,
    test modules and src/verif excluded.
A new silent opt-out therefore changes the generated file and breaks `Ec.C11.exempt_sites`.
"""
import os, re


def _cut_tests(text):
    cut = text.find("#[cfg(test)]\nmod tests")
    return text[:cut] if cut >= 0 else text


def _fn_at(fn_iter, pos):
    name = "?"
    for p, n in fn_iter:
        if p <= pos:
            name = n
        else:
            break
    return name


def _sites(text, pattern):
    fn_iter = [(m.start(), m.group(1)) for m in re.finditer(r"\bfn\s+(\w+)", text)]
    return [(m.start(), _fn_at(fn_iter, m.start())) for m in re.finditer(pattern, text)]


def _fn_bodies(text):
    """(name, body) of every `fn name ... { body }` at impl level (brace matching)."""
    out = []
    for m in re.finditer(r"\bfn\s+(\w+)", text):
        i = text.find("{", m.end())
        semi = text.find(";", m.end())
        if i < 0 or (0 <= semi < i):
            continue
        depth, j = 0, i
        while j < len(text):
            if text[j] == "{":
                depth += 1
            elif text[j] == "}":
                depth -= 1
                if depth == 0:
                    break
            j += 1
        out.append((m.group(1), text[i:j + 1]))
    return out


def gen_wkc_sites(ctx):
    repo, strip_comments, missing = ctx["repo"], ctx["strip_comments"], ctx["missing"]
    root = os.path.join(repo, "src")
    files = []
    for d, _, fs in os.walk(root):
        rel = os.path.relpath(d, root)
        if rel == "verif" or rel.startswith("verif" + os.sep):
            continue
        for f in fs:
            if f.endswith(".rs"):
                files.append(os.path.normpath(os.path.join(rel, f)).replace(os.sep, "/"))
    files.sort()

    ignore, send, recv_wkc, raw = [], [], [], []
    for f in files:
        with open(os.path.join(root, f)) as fh:
            text = strip_comments(_cut_tests(fh.read()))
        for _, fn in _sites(text, r"\.ignore_wkc\s*\(\s*\)"):
            ignore.append((f, fn))
        for _, fn in _sites(text, r"\.send\s*\("):
            send.append((f, fn))
        for _, fn in _sites(text, r"\.receive_wkc\b"):
            recv_wkc.append((f, fn))
        for pos, fn in _sites(text, r"(?<!fn )\b(?:into_pdu_iter|first_pdu)\s*\("):
            # skip the definitions themselves
            if re.match(r"fn\s+$", text[max(0, pos - 3):pos]):
                continue
            raw.append((f, fn))

    # raw consumers whose body checks a working counter itself (`.wkc(` / `.maybe_wkc(`)
    raw_checked = []
    for f, fn in raw:
        text = strip_comments(_cut_tests(open(os.path.join(root, f)).read()))
        body = dict(_fn_bodies(text)).get(fn, "")
        if re.search(r"\.(?:maybe_)?wkc\s*\(", body):
            raw_checked.append((f, fn))

    def default_wkc(path, what):
        text = strip_comments(_cut_tests(open(os.path.join(root, path)).read()))
        body = dict(_fn_bodies(text)).get("new")
        m = re.search(r"wkc\s*:\s*Some\(\s*(\d+)\s*\)", body or "")
        if not m:
            missing.append(what)
            return None
        return int(m.group(1))

    def methods(path, what):
        text = strip_comments(_cut_tests(open(os.path.join(root, path)).read()))
        allm, checked = [], []
        for name, body in _fn_bodies(text):
            if "common(" in body and name != "common":
                allm.append(name)
                if re.search(r"\.maybe_wkc\(\s*self\.wkc\s*\)", body):
                    checked.append(name)
        if not allm:
            missing.append(what)
        return allm, checked

    rd = default_wkc("command/reads.rs", "WrappedRead::new default wkc")
    wr = default_wkc("command/writes.rs", "WrappedWrite::new default wkc")
    r_all, r_chk = methods("command/reads.rs", "WrappedRead builder methods")
    w_all, w_chk = methods("command/writes.rs", "WrappedWrite builder methods")

    # ReceivedPdu::wkc must compare for equality and carry both counts
    rf = strip_comments(open(os.path.join(root, "pdu_loop/frame_element/received_frame.rs")).read())
    wkc_body = dict(_fn_bodies(_cut_tests(rf))).get("wkc", "")
    eq_ok = bool(re.search(r"self\.working_counter\s*==\s*expected", wkc_body)) and bool(
        re.search(r"WorkingCounter\s*\{\s*expected\s*,\s*received\s*:\s*self\.working_counter", wkc_body))
    if not eq_ok:
        missing.append("ReceivedPdu::wkc shape (== expected, WorkingCounter{expected, received})")

    if not ignore or not send:
        missing.append("wkc opt-out sites (found %d ignore_wkc, %d send)" % (len(ignore), len(send)))

    def lst(pairs):
        if not pairs:
            return "[]"
        return "[\n" + ",\n".join('  ("%s", "%s")' % p for p in pairs) + "\n]"

    def strs(xs):
        return "[" + ", ".join('"%s"' % x for x in xs) + "]"

    L = ["-- REGENERATED by /verif/tools/extract.py (extract_wkc.py) from /repo on every run. Do not edit.",
         "namespace Ec.Gen.Wkc"]
    if rd is not None:
        L.append("def DEFAULT_READ_WKC : Nat := %d" % rd)
    if wr is not None:
        L.append("def DEFAULT_WRITE_WKC : Nat := %d" % wr)
    L.append("/-- `ReceivedPdu::wkc` compares with `==` and returns `WorkingCounter { expected, received }`. -/")
    L.append("def wkcCheckShape : Bool := %s" % ("true" if eq_ok else "false"))
    L.append("/-- Methods of `WrappedRead` that go through `common(..)`, and those of them that call `maybe_wkc(self.wkc)`. -/")
    L.append("def readMethods : List String := " + strs(r_all))
    L.append("def readMethodsChecked : List String := " + strs(r_chk))
    L.append("def writeMethods : List String := " + strs(w_all))
    L.append("def writeMethodsChecked : List String := " + strs(w_chk))
    L.append("/-- (file under src/, enclosing fn) of every `.ignore_wkc()` call, source order. -/")
    L.append("def ignoreWkcSites : List (String × String) := " + lst(ignore))
    L.append("/-- every `.send(` call (WrappedWrite::send: response ignored). -/")
    L.append("def sendSites : List (String × String) := " + lst(send))
    L.append("/-- every `.receive_wkc` call (the counter itself is the value returned). -/")
    L.append("def receiveWkcSites : List (String × String) := " + lst(recv_wkc))
    L.append("/-- every consumer of raw `ReceivedPdu`s that bypasses the builders (`into_pdu_iter(` / `first_pdu(`). -/")
    L.append("def rawPduSites : List (String × String) := " + lst(raw))
    L.append("/-- those of them that apply `ReceivedPdu::wkc` / `maybe_wkc` to what they consume. -/")
    L.append("def rawPduSitesChecked : List (String × String) := " + lst(raw_checked))
    # facts the group-state model (C10) uses: registers, AlControl length, per-frame cap of state checks
    reg = strip_comments(open(os.path.join(root, "register.rs")).read())
    for name, lean in [("AlControl", "REG_AL_CONTROL"), ("AlStatus", "REG_AL_STATUS"), ("AlStatusCode", "REG_AL_STATUS_CODE"),
                       ("SiiControl", "REG_SII_CONTROL"), ("SiiData", "REG_SII_DATA")]:
        m = re.search(r"\b%s\s*=\s*(0x[0-9a-fA-F_]+|\d+)\s*," % name, reg)
        if not m:
            missing.append("RegisterAddress::" + name)
        else:
            L.append("def %s : Nat := %d" % (lean, int(m.group(1).replace("_", ""), 0)))
    alc = strip_comments(open(os.path.join(root, "al_control.rs")).read())
    m = re.search(r"#\[wire\(bytes\s*=\s*(\d+)\)\]\s*pub struct AlControl", alc)
    if not m:
        missing.append("AlControl packed length")
    else:
        L.append("def AL_CONTROL_LEN : Nat := %s" % m.group(1))
    grp = strip_comments(_cut_tests(open(os.path.join(root, "subdevice_group/mod.rs")).read()))
    body = dict(_fn_bodies(grp)).get("push_state_checks", "")
    m = re.search(r"if\s+num_in_this_frame\s*>\s*(\d+)\s*\{\s*break", body)
    if not m or "can_push_pdu_payload(AlControl::PACKED_LEN)" not in body:
        missing.append("push_state_checks shape (can_push loop, break after N)")
    else:
        L.append("def STATE_CHECKS_BREAK_AFTER : Nat := %s" % m.group(1))
    L.append("end Ec.Gen.Wkc")
    return "\n".join(L) + "\n"


def gen_wkc_eeprom(ctx):
    """C11 facts about the EEPROM layers above the provider: every call of a provider method
    (`read_chunk`, `write_word`, `clear_errors`) in eeprom/mod.rs and subdevice/eeprom.rs, and every call
    of a range method (`read`, `read_exact`, `read_byte`, `write_all`) in subdevice/eeprom.rs and the
    `eeprom_*` functions of subdevice/mod.rs, with what happens to its result: "?" (`.await?`: the error
    ends the caller), "ret" (`.await` is the caller's tail expression: result handed on unchanged) or
    "other" (anything else: a match, `.ok()`, `unwrap_or`, ... — the model assumes there is none)."""
    repo, strip_comments, missing = ctx["repo"], ctx["strip_comments"], ctx["missing"]
    root = os.path.join(repo, "src")

    def calls(path, methods, only_fns=None):
        text = strip_comments(_cut_tests(open(os.path.join(root, path)).read()))
        # hooks compiled only under the verification cfg are not part of the crate
        cut = text.find("#[cfg(ethercrab_verif)]")
        if cut >= 0:
            text = text[:cut]
        fn_iter = [(m.start(), m.group(1)) for m in re.finditer(r"\bfn\s+(\w+)", text)]
        out = []
        for m in re.finditer(r"\.(%s)\s*\(" % "|".join(methods), text):
            fn = _fn_at(fn_iter, m.start())
            if only_fns is not None and not only_fns(fn):
                continue
            depth, j = 0, m.end() - 1
            while j < len(text):
                if text[j] == "(":
                    depth += 1
                elif text[j] == ")":
                    depth -= 1
                    if depth == 0:
                        break
                j += 1
            tail = text[j + 1:j + 40]
            if re.match(r"\s*\.await\s*\?", tail):
                how = "?"
            elif re.match(r"\s*\.await\s*\}", tail):
                how = "ret"
            else:
                how = "other"
            out.append((path, fn, m.group(1), how))
        return out

    prov = ["read_chunk", "write_word", "clear_errors"]
    rng = ["read", "read_exact", "read_byte", "write_all"]
    provider_calls = calls("eeprom/mod.rs", prov) + calls("subdevice/eeprom.rs", prov)
    range_calls = calls("subdevice/eeprom.rs", rng) + calls("subdevice/mod.rs", rng, lambda fn: fn.startswith("eeprom_"))
    if len(provider_calls) < 5:
        missing.append("EEPROM provider call sites (found %d)" % len(provider_calls))
    if len(range_calls) < 5:
        missing.append("EEPROM range call sites (found %d)" % len(range_calls))

    def lst(rows):
        return "[\n" + ",\n".join('  ("%s", "%s", "%s", "%s")' % r for r in rows) + "\n]"

    L = ["-- REGENERATED by /verif/tools/extract.py (extract_wkc.py) from /repo on every run. Do not edit.",
         "namespace Ec.Gen.WkcEeprom",
         "/-- (file, enclosing fn, provider method, fate of the result) of every provider call above the provider. -/",
         "def providerCalls : List (String × String × String × String) := " + lst(provider_calls),
         "/-- the same for the calls of `EepromRange` methods by the SubDevice layer. -/",
         "def rangeCalls : List (String × String × String × String) := " + lst(range_calls),
         "end Ec.Gen.WkcEeprom"]
    return "\n".join(L) + "\n"
