/-
  EcModel.WkcEeprom — the multi-datagram EEPROM paths ABOVE the device provider, driven by the
  recorded datagram trace exactly like the composite paths of EcModel.Wkc (property C11).
  Hand translation of:
    src/eeprom/mod.rs        EepromRange::{new, word_pos, skip_ahead_bytes},
                             <EepromRange as embedded_io_async::Read>::read   (the chunk loop),
                             <EepromRange as embedded_io_async::Write>::write (the word loop)
    embedded-io-async 0.6    Read::read_exact, Write::write_all (default methods)
    src/subdevice/eeprom.rs  SubDeviceEeprom::{start_at, category, fmmus, set_station_alias}
    src/subdevice/mod.rs     SubDevice::{eeprom_read_raw, eeprom_read::<T>, eeprom_write_dangerously::<T>,
                             set_alias_address}
  over the provider `DeviceEeprom` of EcModel.Wkc (`readChunk`, `writeWord`, `clearErrors`): every
  provider call consumes the events of the datagrams it sends, in the order it sends them.

  Which errors propagate: every provider call in these functions is `.await?` — the first failing
  datagram ends the whole path with that error. Nothing is swallowed. (`EErr.base e` = the provider's
  error handed on unchanged.)
-/
import EcModel.Wkc
import EcModel.Generated.Eeprom

namespace Ec.Wkc

/-- Errors of the layers above the provider. -/
inductive EErr where
  /-- whatever `DeviceEeprom` returned, handed on by `?` -/
  | base (e : Err)
  /-- `Error::Eeprom(EepromError::SectionOverrun)` -/
  | sectionOverrun
  /-- `Error::Internal` -/
  | internal
  /-- `FmmuUsage::try_from` failed (`Error::Wire(InvalidValue)`) -/
  | wireInvalid
  | panic (why : String)
  deriving Repr, DecidableEq

inductive ERes (α : Type) where
  | ok (a : α)
  | error (e : EErr)
  deriving Repr, DecidableEq

/-- `ADDRESS_SPACE_BYTES = 2 * (u16::MAX + 1)` (re-read from eeprom/mod.rs on every run). -/
def EE_SPACE : Nat := Gen.Eeprom.ADDRESS_SPACE_BYTES

/-- `EepromRange { byte_pos, end }` as `SubDeviceEeprom::start_at(word_addr, len_bytes)` builds it:
    `EepromRange::new(provider, word_addr, len_bytes.div_ceil(2))`,
    `byte_pos = word * 2`, `end = (byte_pos + len_words * 2).min(ADDRESS_SPACE_BYTES)`. -/
def startAt (wordAddr lenBytes : Nat) : Nat × Nat :=
  (wordAddr * 2, min (wordAddr * 2 + (lenBytes + 1) / 2 * 2) EE_SPACE)

/-! ### Provider facts needed for termination -/

theorem readChunk_rest_lt (tr t : List Ev) (d : List Nat) (h : readChunk tr = (.ok d, t)) :
    t.length < tr.length := by
  cases tr with
  | nil => simp [readChunk] at h
  | cons e0 t0 =>
    simp only [readChunk] at h
    split at h
    · simp at h
    · split at h
      · simp at h
      · rename_i st t1 hw
        have hle := waitWhileBusy_rest_le t0
        rw [hw] at hle
        cases t1 with
        | nil => simp at h
        | cons e2 t2 =>
          simp only at h
          split at h
          · simp at h
          · simp only [Prod.mk.injEq] at h
            obtain ⟨_, rfl⟩ := h
            simp at hle ⊢; omega

/-! ### `<EepromRange as Read>::read` -/

/-- The `while !buf.is_empty()` loop of `read`. `pos` = `self.byte_pos`, `want` = `buf.len()` (what
    is still to be filled), `acc` = bytes copied so far. Per iteration: `self.word_pos()?`
    (`u16::try_from(byte_pos / 2)` or `SectionOverrun`), `read_chunk(..).await?` (ANY provider error
    ends the read, however many chunks were copied before), `chunk.get(skip..).ok_or(Internal)?`
    with `skip = byte_pos % 2`, then either the rest of the buffer is filled from the front of the
    chunk (`break`) or the whole chunk is copied and the loop goes on. Returns the bytes copied
    (`bytes_read` = their number) and the new `byte_pos`. -/
def readLoop (pos want : Nat) (acc : List Nat) (tr : List Ev) : ERes (List Nat × Nat) × List Ev :=
  if want = 0 then (.ok (acc, pos), tr)
  else if ¬ pos / 2 < 65536 then (.error .sectionOverrun, tr)
  else
    match h : readChunk tr with
    | (.error e, t) => (.error (.base e), t)
    | (.ok chunk, t) =>
      if chunk.length < pos % 2 then (.error .internal, t)
      else
        if want < (chunk.drop (pos % 2)).length then
          (.ok (acc ++ (chunk.drop (pos % 2)).take want, pos + want), t)
        else
          have : t.length < tr.length := readChunk_rest_lt tr t chunk h
          readLoop (pos + (chunk.drop (pos % 2)).length) (want - (chunk.drop (pos % 2)).length)
            (acc ++ chunk.drop (pos % 2)) t
termination_by tr.length

/-- `<EepromRange as Read>::read(buf)` with `n = buf.len()` on a range `{byte_pos = pos, end = endp}`:
    `max_read = end.saturating_sub(byte_pos)`; `max_read == 0 ⇒ Ok(0)` without any datagram;
    the buffer is clamped to `min(n, max_read)`; `clear_errors().await?`; then the chunk loop. -/
def rangeRead (pos endp n : Nat) (tr : List Ev) : ERes (List Nat × Nat) × List Ev :=
  if endp - pos = 0 then (.ok ([], pos), tr)
  else
    match clearErrors tr with
    | (.error e, t) => (.error (.base e), t)
    | (.ok (), t) => readLoop pos (min n (endp - pos)) [] t

/-- `embedded_io_async::Read::read_exact` (default method): `read` until the buffer is full;
    `Ok(0)` ⇒ `break` ⇒ `UnexpectedEof`, which `impl From<ReadExactError<Error>> for Error` turns into
    `Eeprom(SectionOverrun)` at the caller's `?`; `Err(e)` ⇒ `e`. `rem` = bytes still missing. -/
def readExactLoop (pos endp rem : Nat) (acc : List Nat) (tr : List Ev) : ERes (List Nat) × List Ev :=
  if hr : rem = 0 then (.ok acc, tr)
  else
    match rangeRead pos endp rem tr with
    | (.error e, t) => (.error e, t)
    | (.ok (bytes, pos'), t) =>
      if hb : bytes.length = 0 then (.error .sectionOverrun, t)
      else
        have : rem - bytes.length < rem := by omega
        readExactLoop pos' endp (rem - bytes.length) (acc ++ bytes) t
termination_by rem

/-- `EepromRange::skip_ahead_bytes(skip)`: `new_pos >= end ⇒ SectionOverrun`. No datagram. -/
def skipAhead (pos endp skip : Nat) : Option Nat :=
  if pos + skip ≥ endp then none else some (pos + skip)

/-- A caller that only keeps the bytes of a `read` (the position stays inside the dropped reader). -/
def bytesOnly (x : ERes (List Nat × Nat) × List Ev) : ERes (List Nat) × List Ev :=
  match x with
  | (.error e, t) => (.error e, t)
  | (.ok (bytes, _), t) => (.ok bytes, t)

/-- `start_at(word, cover)`, optionally `skip_ahead_bytes(skip)` (only when `skip > 0`), then ONE
    `read` into a buffer of `n` bytes. With `cover = n`, `skip = 0` this is the public
    `SubDevice::eeprom_read_raw(word, buf)`; its result is the count, the bytes are the front of `buf`. -/
def eeRaw (word cover skip n : Nat) (tr : List Ev) : ERes (List Nat) × List Ev :=
  if skip = 0 then bytesOnly (rangeRead (startAt word cover).1 (startAt word cover).2 n tr)
  else
    match skipAhead (startAt word cover).1 (startAt word cover).2 skip with
    | none => (.error .sectionOverrun, tr)
    | some p => bytesOnly (rangeRead p (startAt word cover).2 n tr)

/-- `SubDevice::eeprom_read::<T>(word)` with `n = T::PACKED_LEN`: `start_at(word, n)`,
    `read_exact(buf).await?`, `T::unpack_from_slice(buf)?` (byte arrays always unpack). Also
    `station_alias`, `size`, `identity`, `mailbox_config`: the same shape at fixed addresses. -/
def eeTyped (word n : Nat) (tr : List Ev) : ERes (List Nat) × List Ev :=
  let r := startAt word n
  readExactLoop r.1 r.2 n [] tr

/-! ### `SubDeviceEeprom::category` and `fmmus` -/

/-- `CategoryType::from(u16)`: known discriminants and alternatives, anything else the default. -/
def catOf (v : Nat) : Nat :=
  match Gen.Eeprom.categoryTable.lookup v with
  | some c => c
  | none => Gen.Eeprom.categoryDefault.getD 0

/-- The `loop` of `SubDeviceEeprom::category(cat)`: `reader.read_chunk(word_addr).await?` (no
    `clear_errors` here), `word_addr.checked_add(2)` else `Ok(None)`, two `split_first_chunk::<2>()`
    under `unwrap_opt!` (panic on a chunk shorter than 4), 32 empty categories ⇒ `Ok(None)`, match ⇒
    `Ok(Some(EepromRange::new(provider, word_addr, len_words)))`, end marker ⇒ `Ok(None)`, else
    `word_addr.checked_add(len_words).ok_or(SectionOverrun)?`. The range is returned as
    `(byte_pos, end)`. -/
def categoryLoop (cat wa ne : Nat) (tr : List Ev) : ERes (Option (Nat × Nat)) × List Ev :=
  match h : readChunk tr with
  | (.error e, t) => (.error (.base e), t)
  | (.ok chunk, t) =>
    if wa + 2 ≥ 65536 then (.ok none, t)
    else if chunk.length < 4 then (.error (.panic "category:unwrap"), t)
    else
      if (if rd16 (chunk.drop 2) = 0 then ne + 1 else ne) ≥ Gen.Eeprom.EMPTY_CATEGORY_LIMIT then (.ok none, t)
      else if catOf (rd16 chunk) = cat then
        (.ok (some ((wa + 2) * 2, min ((wa + 2) * 2 + rd16 (chunk.drop 2) * 2) EE_SPACE)), t)
      else if catOf (rd16 chunk) = Gen.Eeprom.CAT_END then (.ok none, t)
      else if wa + 2 + rd16 (chunk.drop 2) < 65536 then
        have : t.length < tr.length := readChunk_rest_lt tr t chunk h
        categoryLoop cat (wa + 2 + rd16 (chunk.drop 2)) (if rd16 (chunk.drop 2) = 0 then ne + 1 else ne) t
      else (.error .sectionOverrun, t)
termination_by tr.length

/-- `FmmuUsage::try_from(u8)` for every byte, first failure wins. -/
def parseFmmus : List Nat → Option (List Nat)
  | [] => some []
  | b :: rest =>
    match (match Gen.Eeprom.fmmuUsageTable.lookup b with
           | some u => some u
           | none => Gen.Eeprom.fmmuUsageDefault) with
    | none => none
    | some u =>
      match parseFmmus rest with
      | none => none
      | some us => some (u :: us)

/-- `SubDeviceEeprom::fmmus`: category search, then ONE `reader.read(&mut [0u8; 16]).await?`
    ("read entire category using its discovered length"), whatever `read` returns is decoded as
    the complete list. No category ⇒ empty list. -/
def eeFmmus (tr : List Ev) : ERes (List Nat) × List Ev :=
  match categoryLoop Gen.Eeprom.CAT_FMMU Gen.Eeprom.SII_FIRST_CATEGORY_START 0 tr with
  | (.error e, t) => (.error e, t)
  | (.ok none, t) => (.ok [], t)
  | (.ok (some r), t) =>
    match rangeRead r.1 r.2 Gen.Eeprom.FMMU_READ_BUF t with
    | (.error e, t2) => (.error e, t2)
    | (.ok (bytes, _), t2) =>
      match parseFmmus bytes with
      | some us => (.ok us, t2)
      | none => (.error .wireInvalid, t2)

/-! ### `<EepromRange as Write>::write`, `write_all`, the public writers -/

/-- The `loop` of `write`: range exhausted ⇒ `break`; two bytes of `buf` (or one, zero padded) or
    `break` when `buf` is empty; `write_word(self.word_pos()?, word).await?`; `written` counts the
    bytes taken from `buf`; `byte_pos += 2`. Returns `(written, byte_pos)`. The byte VALUES play no
    part in the control flow; `buf` only matters through its length. -/
def writeLoopR (pos endp : Nat) (buf : List Nat) (written : Nat) (tr : List Ev) : ERes (Nat × Nat) × List Ev :=
  if endp - pos = 0 then (.ok (written, pos), tr)
  else
    match buf with
    | [] => (.ok (written, pos), tr)
    | [_] =>
      if ¬ pos / 2 < 65536 then (.error .sectionOverrun, tr)
      else
        match writeWord tr with
        | (.error e, t) => (.error (.base e), t)
        | (.ok (), t) => writeLoopR (pos + 2) endp [] (written + 1) t
    | _ :: _ :: rest =>
      if ¬ pos / 2 < 65536 then (.error .sectionOverrun, tr)
      else
        match writeWord tr with
        | (.error e, t) => (.error (.base e), t)
        | (.ok (), t) => writeLoopR (pos + 2) endp rest (written + 2) t

/-- `<EepromRange as Write>::write(buf)`: a non-empty buffer on an exhausted range is
    `Err(SectionOverrun)`. -/
def rangeWrite (pos endp : Nat) (buf : List Nat) (tr : List Ev) : ERes (Nat × Nat) × List Ev :=
  if buf ≠ [] ∧ endp - pos = 0 then (.error .sectionOverrun, tr)
  else writeLoopR pos endp buf 0 tr

/-- `embedded_io_async::Write::write_all` (default method): `Ok(0)` ⇒ `panic!`; `Err(e)` ⇒ `e`. -/
def writeAllLoop (pos endp : Nat) (buf : List Nat) (tr : List Ev) : ERes Unit × List Ev :=
  if hb : buf = [] then (.ok (), tr)
  else
    match rangeWrite pos endp buf tr with
    | (.error e, t) => (.error e, t)
    | (.ok (n, pos'), t) =>
      if hn : n = 0 then (.error (.panic "write_all:zero"), t)
      else
        have : (buf.drop n).length < buf.length := by
          have : 0 < buf.length := List.length_pos_iff.2 hb
          simp; omega
        writeAllLoop pos' endp (buf.drop n) t
termination_by buf.length

/-- `SubDevice::eeprom_write_dangerously::<T>(word, value)` with `n = T::PACKED_LEN`:
    `start_at(word, n).write_all(value.pack())`. -/
def eeWrite (word n : Nat) (tr : List Ev) : ERes Unit × List Ev :=
  let r := startAt word n
  writeAllLoop r.1 r.2 (List.replicate n 0) tr

/-- `SubDeviceEeprom::set_station_alias` (= `SubDevice::set_alias_address` up to the field update):
    `read_exact` of the first 14 bytes (`?`), `write_all` of the alias word (`?`), `write_all` of the
    checksum word (`?`). What is written depends on what was read; whether it succeeds does not. -/
def eeAlias (tr : List Ev) : ERes Unit × List Ev :=
  let r := startAt 0 14
  match readExactLoop r.1 r.2 14 [] tr with
  | (.error e, t) => (.error e, t)
  | (.ok _, t) =>
    let r1 := startAt (Gen.Eeprom.STATION_ALIAS_START / 2) 2
    match writeAllLoop r1.1 r1.2 [0, 0] t with
    | (.error e, t1) => (.error e, t1)
    | (.ok (), t1) =>
      let r2 := startAt (Gen.Eeprom.CHECKSUM_START / 2) 2
      writeAllLoop r2.1 r2.2 [0, 0] t1

end Ec.Wkc
