/-
  The hand-over of a re-queued / freshly built frame to the transmit task (C06 "transmitted exactly once plus the
  configured number of retries", C07/C20 "the cycle sends every byte"): the publishing side makes the frame
  `Sendable` and calls `PduLoop::wake_sender()`; the transmit task (`tx_rx_task`, any executor) sleeps until its
  waker is woken, then clears its "woken" bit (it is being polled), re-registers its waker, scans for `Sendable`
  frames and goes back to sleep when it finds none.

  Both sides are two-step programs; every interleaving of the steps is a run. The model is finite, so the
  statements below quantify over ALL runs by exhaustive evaluation in the kernel (`decide`), not over a sample.
-/
namespace Ec.TxWake

/-- Order of the two statements of the publishing side (`ReceiveFrameFut::poll` retry branch, `single_pdu`,
    `tx_rx*`: `mark_sendable` / `swap_state(Sent, Sendable)` and `wake_sender()`). -/
inductive Order | publishThenWake | wakeThenPublish
  deriving DecidableEq, Repr

inductive TxPc
  | asleep      -- waiting for its waker
  | polled      -- woken and being polled: woken bit consumed, waker registered, scan not done yet
  | claimed     -- found the frame (Sendable -> Sending): it will be transmitted
  deriving DecidableEq, Repr

structure St where
  sendable : Bool   -- the frame's status is Sendable (published and not yet claimed)
  woken : Bool      -- the transmit task's "woken" bit (set by wake_sender through the registered waker)
  appPc : Nat       -- statements of the publishing side executed so far (0, 1, 2)
  tx : TxPc
  deriving DecidableEq, Repr

def init : St := ⟨false, false, 0, .asleep⟩

/-- One statement of the publishing side. -/
def appStep (o : Order) (s : St) : Option St :=
  match o, s.appPc with
  | .publishThenWake, 0 => some { s with sendable := true, appPc := 1 }
  | .publishThenWake, 1 => some { s with woken := true, appPc := 2 }
  | .wakeThenPublish, 0 => some { s with woken := true, appPc := 1 }
  | .wakeThenPublish, 1 => some { s with sendable := true, appPc := 2 }
  | _, _ => none

/-- One step of the transmit task: wake up (consume the bit), or scan. -/
def txStep (s : St) : Option St :=
  match s.tx with
  | .asleep => if s.woken then some { s with woken := false, tx := .polled } else none
  | .polled => if s.sendable then some { s with sendable := false, tx := .claimed } else some { s with tx := .asleep }
  | .claimed => none

def succs (o : Order) (s : St) : List St := (appStep o s).toList ++ (txStep s).toList

/-- All states reachable within `n` steps. 6 steps suffice: the publishing side has 2 statements and the
    transmit task at most 4 steps (wake, scan, sleep, wake, scan would need a second wake-up, there is one). -/
def reach (o : Order) : Nat → List St → List St
  | 0, acc => acc
  | n + 1, acc => reach o n (acc ++ (acc.flatMap (succs o)).filter (fun s => !acc.contains s))

def allStates (o : Order) : List St := reach o 8 [init]

/-- A run has ended: nobody can take a step. -/
def terminal (o : Order) (s : St) : Bool := (succs o s).isEmpty

/-- The frame is stranded: published, the publishing side is done, the transmit task sleeps with a clear bit. -/
def stranded (s : St) : Bool := s.sendable && s.appPc == 2 && s.tx == .asleep && !s.woken

end Ec.TxWake
