/-
  Round-trip lemmas for the TxPDO/RxPDO categories and the General category (C12): the PDO loop over the
  encodings of well-formed PDO descriptions, below and above the heapless capacity; the 18 bytes of `SiiGeneral`.
-/
import EcModel.Lemmas.EepromParse

namespace Ec.Eeprom
open Ec Ec.EepromSpec

/-! ### what the parsers store -/

/-- What `SubDeviceEeprom::pdos` stores for a PDO description: index, number of entries, sync manager and the
    SUM of the entries' bit lengths (the real `Pdo` keeps nothing else). -/
def pdoOf (d : PdoDesc) : Pdo := ⟨d.index, d.entries.length, d.sm, d.bitLen⟩

/-- What `SubDeviceEeprom::general` stores for a General description. -/
def generalOf (g : GeneralDesc) : General :=
  { groupIdx := g.groupIdx, imageIdx := g.imageIdx, orderIdx := g.orderIdx, nameIdx := g.nameIdx,
    coeDetails := g.coeDetails, foe := decide (g.foe ≠ 0), eoe := decide (g.eoe ≠ 0), flags := g.flags,
    ebusCurrent := g.ebusCurrent,
    ports := [portKind g.port0, portKind g.port1, portKind g.port2, portKind g.port3],
    physAddr := g.physAddr }

/-! ### lengths -/

theorem flatMap_length_mul {β : Type} (enc : β → List Nat) (sz : Nat) :
    ∀ (l : List β), (∀ b ∈ l, (enc b).length = sz) → (l.flatMap enc).length = sz * l.length := by
  intro l
  induction l with
  | nil => intro _; simp
  | cons b l ih =>
    intro h
    simp only [List.flatMap_cons, List.length_append, List.length_cons]
    rw [h b (by simp), ih (fun b' hb' => h b' (by simp [hb']))]
    rw [Nat.mul_succ]; omega

theorem encPdoEntry_length (e : PdoEntryDesc) : (encPdoEntry e).length = 8 := by
  simp [encPdoEntry, le16]

theorem encPdoHdr_length (d : PdoDesc) : (encPdoHdr d).length = 8 := by
  simp [encPdoHdr, le16]

theorem encEntries_length (es : List PdoEntryDesc) : (es.flatMap encPdoEntry).length = 8 * es.length :=
  flatMap_length_mul encPdoEntry 8 es (fun e _ => encPdoEntry_length e)

theorem encPdo_length (d : PdoDesc) : (encPdo d).length = 8 + 8 * d.entries.length := by
  unfold encPdo
  rw [List.length_append, encPdoHdr_length, encEntries_length]

/-- Number of 8-byte records (headers and entries) of a PDO list. -/
def pdoRecords (ds : List PdoDesc) : Nat := (ds.map fun d => 1 + d.entries.length).sum

theorem encPdos_length (ds : List PdoDesc) : (ds.flatMap encPdo).length = 8 * pdoRecords ds := by
  induction ds with
  | nil => simp [pdoRecords]
  | cons d ds ih =>
    simp only [List.flatMap_cons, List.length_append, encPdo_length, ih, pdoRecords, List.map_cons,
      List.sum_cons]
    omega

theorem pdoRecords_ge (ds : List PdoDesc) : ds.length ≤ pdoRecords ds := by
  induction ds with
  | nil => simp [pdoRecords]
  | cons d ds ih =>
    simp only [pdoRecords, List.map_cons, List.sum_cons, List.length_cons] at ih ⊢
    omega

/-- Bit lengths are bytes, so the sum over at most 255 entries fits a `u16` with room to spare. -/
theorem bitLen_sum_le (es : List PdoEntryDesc) (h : ∀ e ∈ es, e.bitLen < 256) :
    (es.map fun e => e.bitLen).sum ≤ 255 * es.length := by
  induction es with
  | nil => simp
  | cons e es ih =>
    have h1 := h e (by simp)
    have h2 := ih (fun e' he' => h e' (by simp [he']))
    simp only [List.map_cons, List.sum_cons, List.length_cons]
    omega

theorem pdo_bitLen_lt {d : PdoDesc} (hd : d.WF) : d.bitLen < 65536 := by
  obtain ⟨_, hn, _, _, _, _, he⟩ := hd
  have := bitLen_sum_le d.entries (fun e h => (he e h).2.2.2.2.1)
  unfold PdoDesc.bitLen
  omega

/-! ### the derived wire parsers on the encodings -/

theorem parsePdo_enc (d : PdoDesc) (hi : d.index < 65536) :
    parsePdo (encPdoHdr d) = ret ⟨d.index, d.entries.length, d.sm, 0⟩ := by
  have r0 : rd16 (encPdoHdr d) = d.index := by simp [encPdoHdr, le16, rd16]; omega
  have g2 : (encPdoHdr d).getD 2 0 = d.entries.length := by simp [encPdoHdr, le16]
  have g3 : (encPdoHdr d).getD 3 0 = d.sm := by simp [encPdoHdr, le16]
  unfold parsePdo
  rw [r0, g2, g3]

theorem parsePdoEntry_enc (e : PdoEntryDesc) : parsePdoEntry (encPdoEntry e) = ret e.bitLen := by
  simp [parsePdoEntry, encPdoEntry, le16]

/-! ### the entry loop -/

/-- `for idx in 0..num_entries` over the encodings of `es`: every entry is read, the bit lengths are summed
    (no overflow: the running sum stays below 2^16), the cursor ends right behind the last entry. -/
theorem pdoEntries_enc (m : Mode) (p : Prov) (hcs : 2 ≤ p.cs) :
    ∀ (es : List PdoEntryDesc) (r : Range) (bits : Nat),
      Holds p.rd r.pos (es.flatMap encPdoEntry) → r.pos + 8 * es.length ≤ r.endp → r.endp ≤ 131072 →
      bits + (es.map fun e => e.bitLen).sum < 65536 →
      (pdoEntries m p es.length r bits).1
        = .ok (bits + (es.map fun e => e.bitLen).sum, { r with pos := r.pos + 8 * es.length }) := by
  intro es
  induction es with
  | nil => intro r bits _ _ _ _; simp [pdoEntries]
  | cons e es ih =>
    intro r bits hh hfit he hsum
    simp only [List.flatMap_cons] at hh
    simp only [List.map_cons, List.sum_cons] at hsum
    simp only [List.length_cons] at hfit
    have hslice : slice p.rd r.pos 8 = encPdoEntry e := by
      have := hh.append.1
      unfold Holds at this
      rw [encPdoEntry_length] at this; exact this
    simp only [List.length_cons]
    unfold pdoEntries
    rw [bind_fst_ok _ (nextItem_some m p hcs r 8 parsePdoEntry e.bitLen he (by omega)
      (by rw [hslice]; exact parsePdoEntry_enc e))]
    simp only
    rw [add16_ok m _ bits e.bitLen (by omega)]
    simp only [bind_ret]
    have := ih { r with pos := r.pos + 8 } (bits + e.bitLen)
      (by have := hh.append.2; rw [encPdoEntry_length] at this; exact this)
      (by simp only; omega) he (by omega)
    rw [this]
    simp only [List.map_cons, List.sum_cons]
    congr 2
    · omega
    · congr 1; omega

/-! ### one iteration of the PDO loop -/

/-- One `while let Some(mut pdo) = cat.next()` iteration over the encoding of a well-formed PDO that lies
    inside the window: header and all entries are read; then either the push fails (`Capacity(Pdo)`) or the
    loop goes on behind the PDO with the PDO appended. -/
theorem pdoLoop_step (m : Mode) (p : Prov) (hcs : 2 ≤ p.cs) (d : PdoDesc) (hd : d.WF) (rest : List Nat)
    (fuel : Nat) (r : Range) (acc : List Pdo)
    (hh : Holds p.rd r.pos (encPdo d ++ rest)) (hfit : r.pos + (8 + 8 * d.entries.length) ≤ r.endp)
    (he : r.endp ≤ 131072) :
    (pdoLoop m p (fuel + 1) r acc).1
      = if acc.length ≥ Gen.Eeprom.CAP_PDOS then .err (.capacity 2)
        else (pdoLoop m p fuel { r with pos := r.pos + (8 + 8 * d.entries.length) } (acc ++ [pdoOf d])).1 := by
  have hpdo := hh.append.1
  unfold encPdo at hpdo
  have hhdr : slice p.rd r.pos 8 = encPdoHdr d := by
    have := hpdo.append.1
    unfold Holds at this
    rw [encPdoHdr_length] at this; exact this
  have hent : Holds p.rd (r.pos + 8) (d.entries.flatMap encPdoEntry) := by
    have := hpdo.append.2
    rw [encPdoHdr_length] at this; exact this
  have hbl := pdo_bitLen_lt hd
  unfold PdoDesc.bitLen at hbl
  generalize hR : (pdoLoop m p fuel { r with pos := r.pos + (8 + 8 * d.entries.length) } (acc ++ [pdoOf d])).1 = R
  unfold pdoLoop
  rw [bind_fst_ok _ (nextItem_some m p hcs r 8 parsePdo ⟨d.index, d.entries.length, d.sm, 0⟩ he (by omega)
    (by rw [hhdr]; exact parsePdo_enc d hd.1))]
  simp only
  rw [bind_fst_ok _ (pdoEntries_enc m p hcs d.entries { r with pos := r.pos + 8 } 0 hent (by simp only; omega) he
    (by omega))]
  simp only [Nat.zero_add]
  by_cases hcap : acc.length ≥ Gen.Eeprom.CAP_PDOS
  · rw [if_pos hcap, if_pos hcap]; rfl
  · rw [if_neg hcap, if_neg hcap]
    have e1 : r.pos + 8 + 8 * d.entries.length = r.pos + (8 + 8 * d.entries.length) := by omega
    rw [e1]
    exact hR

/-! ### the PDO loop -/

/-- The loop over a window that holds the encodings of `ds` (and fewer than 8 further bytes): within the
    capacity, exactly the described PDOs come back, in order. -/
theorem pdoLoop_enc (m : Mode) (p : Prov) (hcs : 2 ≤ p.cs) (slack : Nat) (hslack : slack < 8) :
    ∀ (ds : List PdoDesc) (r : Range) (acc : List Pdo) (fuel : Nat),
      (∀ d ∈ ds, d.WF) → Holds p.rd r.pos (ds.flatMap encPdo) →
      r.endp = r.pos + (ds.flatMap encPdo).length + slack → r.endp ≤ 131072 →
      acc.length + ds.length ≤ Gen.Eeprom.CAP_PDOS → ds.length < fuel →
      (pdoLoop m p fuel r acc).1 = .ok (acc ++ ds.map pdoOf) := by
  intro ds
  induction ds with
  | nil =>
    intro r acc fuel _ _ hend he _ hfuel
    obtain ⟨f, rfl⟩ : ∃ f, fuel = f + 1 := ⟨fuel - 1, by omega⟩
    simp only [List.flatMap_nil, List.length_nil, Nat.add_zero] at hend
    unfold pdoLoop
    rw [bind_fst_ok _ (nextItem_none m p hcs r 8 parsePdo he (by omega) (by omega))]
    simp
  | cons d ds ih =>
    intro r acc fuel hwf hh hend he hcap hfuel
    obtain ⟨f, rfl⟩ : ∃ f, fuel = f + 1 := ⟨fuel - 1, by omega⟩
    simp only [List.flatMap_cons] at hh hend
    rw [List.length_append, encPdo_length] at hend
    simp only [List.length_cons] at hcap hfuel
    rw [pdoLoop_step m p hcs d (hwf d (by simp)) _ f r acc hh (by omega) he, if_neg (by omega)]
    have := ih { r with pos := r.pos + (8 + 8 * d.entries.length) } (acc ++ [pdoOf d]) f
      (fun d' hd' => hwf d' (by simp [hd']))
      (by have := hh.append.2; rw [encPdo_length] at this; exact this)
      (by simp only; omega) he (by simp; omega) (by omega)
    rw [this]
    simp

/-- More PDOs than the `heapless::Vec` holds: the push of PDO number `CAP_PDOS + 1` fails (after that PDO's
    entries were read). -/
theorem pdoLoop_over (m : Mode) (p : Prov) (hcs : 2 ≤ p.cs) :
    ∀ (ds : List PdoDesc) (rest : List Nat) (r : Range) (acc : List Pdo) (fuel : Nat),
      (∀ d ∈ ds, d.WF) → Holds p.rd r.pos (ds.flatMap encPdo ++ rest) →
      r.pos + (ds.flatMap encPdo).length ≤ r.endp → r.endp ≤ 131072 →
      acc.length ≤ Gen.Eeprom.CAP_PDOS → Gen.Eeprom.CAP_PDOS < acc.length + ds.length →
      Gen.Eeprom.CAP_PDOS - acc.length < fuel →
      (pdoLoop m p fuel r acc).1 = .err (.capacity 2) := by
  intro ds
  induction ds with
  | nil => intro rest r acc fuel _ _ _ _ h1 h2 _; simp only [List.length_nil] at h2; omega
  | cons d ds ih =>
    intro rest r acc fuel hwf hh hfit he hacc hover hfuel
    obtain ⟨f, rfl⟩ : ∃ f, fuel = f + 1 := ⟨fuel - 1, by omega⟩
    simp only [List.flatMap_cons, List.append_assoc] at hh
    simp only [List.flatMap_cons] at hfit
    rw [List.length_append, encPdo_length] at hfit
    simp only [List.length_cons] at hover
    rw [pdoLoop_step m p hcs d (hwf d (by simp)) _ f r acc hh (by omega) he]
    by_cases hc : acc.length ≥ Gen.Eeprom.CAP_PDOS
    · rw [if_pos hc]
    · rw [if_neg hc]
      exact ih rest { r with pos := r.pos + (8 + 8 * d.entries.length) } (acc ++ [pdoOf d]) f
        (fun d' hd' => hwf d' (by simp [hd']))
        (by have := hh.append.2; rw [encPdo_length] at this; exact this)
        (by simp only; omega) he (by simp; omega) (by simp; omega) (by simp; omega)

/-! ### `SubDeviceEeprom::pdos` on an image -/

/-- Facts about the category that holds a PDO list. -/
theorem pdoCat_facts (cat : Nat) (ds : List PdoDesc) :
    (⟨cat, ds.flatMap encPdo⟩ : Cat).body.length = 8 * pdoRecords ds ∧
    ((8 * pdoRecords ds) / 2 = 0 ↔ ds.length = 0) := by
  refine ⟨encPdos_length ds, ?_⟩
  have := pdoRecords_ge ds
  constructor
  · intro h; omega
  · intro h
    have : ds = [] := List.eq_nil_of_length_eq_zero h
    subst this
    simp [pdoRecords]

/-- `pdos` on a memory holding `… pre, ⟨cat, PDOs⟩, rest`: the described PDOs, in order. -/
theorem pdos_enc_at (m : Mode) (p : Prov) (hcs : 4 ≤ p.cs) (cat : Nat) (hc : catOf cat = cat) (hc16 : cat < 65536)
    (pre : List Cat) (ds : List PdoDesc) (rest : List Nat)
    (hh : Holds p.rd 128 (encCats pre ++ (encCat ⟨cat, ds.flatMap encPdo⟩ ++ rest)))
    (hpre : ∀ x ∈ pre, x.WF ∧ catOf x.type ≠ cat ∧ catOf x.type ≠ Gen.Eeprom.CAT_END)
    (hds : ∀ d ∈ ds, d.WF) (hn : ds.length ≤ Gen.Eeprom.CAP_PDOS)
    (hne : empties pre + (if ds.length = 0 then 1 else 0) < 32)
    (hsize : 128 + (encCats pre).length + 4 + (ds.flatMap encPdo).length < 131072) :
    (pdos m p cat).1 = .ok (ds.map pdoOf) := by
  obtain ⟨hlen, hz⟩ := pdoCat_facts cat ds
  simp only at hlen
  rw [hlen] at hsize
  obtain ⟨hcat, hbody⟩ := category_found_body m p hcs pre ⟨cat, ds.flatMap encPdo⟩ rest hh
    (by simp only [hc]; exact hpre) ⟨hc16, by simp only [hlen]; omega, by simp only [hlen]; omega⟩
    (by simp only [hlen, hz]; exact hne) (by simp only [hlen]; omega) (by omega)
  simp only [hc, hlen] at hcat hbody
  unfold pdos items
  rw [bind_fst_ok _ (bind_fst_ok _ hcat |>.trans rfl)]
  have := pdoLoop_enc m p (by omega) 0 (by omega) ds
    ⟨128 + (encCats pre).length + 4, 128 + (encCats pre).length + 4 + 8 * pdoRecords ds⟩ []
    (Gen.Eeprom.CAP_PDOS + 2) hds hbody (by simp only [hlen, Nat.add_zero]) (by simp only; omega)
    (by simpa using hn) (by omega)
  simpa using this

/-- ... and `Capacity(Pdo)` for a list longer than the capacity. -/
theorem pdos_over_at (m : Mode) (p : Prov) (hcs : 4 ≤ p.cs) (cat : Nat) (hc : catOf cat = cat) (hc16 : cat < 65536)
    (pre : List Cat) (ds : List PdoDesc) (rest : List Nat)
    (hh : Holds p.rd 128 (encCats pre ++ (encCat ⟨cat, ds.flatMap encPdo⟩ ++ rest)))
    (hpre : ∀ x ∈ pre, x.WF ∧ catOf x.type ≠ cat ∧ catOf x.type ≠ Gen.Eeprom.CAT_END)
    (hds : ∀ d ∈ ds, d.WF) (hn : Gen.Eeprom.CAP_PDOS < ds.length)
    (hne : empties pre < 32)
    (hsize : 128 + (encCats pre).length + 4 + (ds.flatMap encPdo).length < 131072) :
    (pdos m p cat).1 = .err (.capacity 2) := by
  obtain ⟨hlen, hz⟩ := pdoCat_facts cat ds
  simp only at hlen
  rw [hlen] at hsize
  have hnz : ¬ ds.length = 0 := by unfold Gen.Eeprom.CAP_PDOS at hn; omega
  obtain ⟨hcat, hbody⟩ := category_found_body m p hcs pre ⟨cat, ds.flatMap encPdo⟩ rest hh
    (by simp only [hc]; exact hpre) ⟨hc16, by simp only [hlen]; omega, by simp only [hlen]; omega⟩
    (by simp only [hlen, hz, hnz, if_false]; omega) (by simp only [hlen]; omega) (by omega)
  simp only [hc, hlen] at hcat hbody
  unfold pdos items
  rw [bind_fst_ok _ (bind_fst_ok _ hcat |>.trans rfl)]
  exact pdoLoop_over m p (by omega) ds []
    ⟨128 + (encCats pre).length + 4, 128 + (encCats pre).length + 4 + 8 * pdoRecords ds⟩ []
    (Gen.Eeprom.CAP_PDOS + 2) hds (by simpa using hbody) (by simp only [hlen]; omega) (by simp only; omega)
    (by simp) (by simpa using hn) (by simp)

/-! ### General -/

theorem portOf_eq_portKind : ∀ v, v < 16 → portOf v = portKind v := by decide

/-- `SiiGeneral::unpack_from_slice` on the first 18 bytes of an encoded General category. -/
theorem parseGeneral_enc (g : GeneralDesc) (hg : g.WF) :
    parseGeneral ((encGeneral g).take 18) = ret (generalOf g) := by
  obtain ⟨_, _, _, _, _, hcoe, _, _, _, _, _, hfl, heb, hp0, hp1, hp2, hp3, hpa, _⟩ := hg
  have hc : fromBits Gen.Eeprom.COE_DETAILS_MASK g.coeDetails = some g.coeDetails := by
    have : ∀ e, e ≤ 63 → fromBits Gen.Eeprom.COE_DETAILS_MASK e = some e := by decide
    exact this _ hcoe
  have hf : fromBits Gen.Eeprom.FLAGS_MASK g.flags = some g.flags := by
    have : ∀ e, e ≤ 31 → fromBits Gen.Eeprom.FLAGS_MASK e = some e := by decide
    exact this _ hfl
  have htake : (encGeneral g).take 18
      = [g.groupIdx, g.imageIdx, g.orderIdx, g.nameIdx, g.reserved4, g.coeDetails, g.foe, g.eoe,
         g.soeChannels, g.ds402Channels, g.sysmanClass, g.flags, g.ebusCurrent % 256, g.ebusCurrent / 256 % 256,
         g.port0 + 16 * g.port1, g.port2 + 16 * g.port3, g.physAddr % 256, g.physAddr / 256 % 256] := by
    simp [encGeneral, le16]
  rw [htake]
  unfold parseGeneral
  simp only [List.getD_cons_zero, List.getD_cons_succ, hc, hf, List.drop_succ_cons, List.drop_zero, rd16]
  have e0 : (g.port0 + 16 * g.port1) % 16 = g.port0 := by omega
  have e1 : (g.port0 + 16 * g.port1) / 16 % 16 = g.port1 := by omega
  have e2 : (g.port2 + 16 * g.port3) % 16 = g.port2 := by omega
  have e3 : (g.port2 + 16 * g.port3) / 16 % 16 = g.port3 := by omega
  rw [e0, e1, e2, e3, portOf_eq_portKind _ hp0, portOf_eq_portKind _ hp1, portOf_eq_portKind _ hp2,
    portOf_eq_portKind _ hp3]
  unfold generalOf
  congr 2
  · simp [Nat.pos_iff_ne_zero]
  · simp [Nat.pos_iff_ne_zero]
  · omega
  · omega

theorem encGeneral_length (g : GeneralDesc) : (encGeneral g).length = 18 + g.tail.length := by
  simp [encGeneral, le16]; omega

/-- `general` on a memory holding `… pre, ⟨30, General⟩, rest`. -/
theorem general_enc_at (m : Mode) (p : Prov) (hcs : 4 ≤ p.cs) (pre : List Cat) (g : GeneralDesc) (rest : List Nat)
    (hh : Holds p.rd 128 (encCats pre ++ (encCat ⟨30, encGeneral g⟩ ++ rest)))
    (hpre : ∀ x ∈ pre, x.WF ∧ catOf x.type ≠ 30 ∧ catOf x.type ≠ Gen.Eeprom.CAT_END)
    (hg : g.WF) (hne : empties pre < 32)
    (hsize : 128 + (encCats pre).length + 4 + (encGeneral g).length < 131072) :
    (general m p).1 = .ok (generalOf g) := by
  have hc30 : catOf 30 = 30 := by decide
  have hlen := encGeneral_length g
  have htail : g.tail.length % 2 = 0 := hg.2.2.2.2.2.2.2.2.2.2.2.2.2.2.2.2.2.2
  rw [hlen] at hsize
  obtain ⟨hcat, hbody⟩ := category_found_body m p hcs pre ⟨30, encGeneral g⟩ rest hh
    (by simp only [hc30]; exact hpre) ⟨by simp, by simp only [hlen]; omega, by simp only [hlen]; omega⟩
    (by have : ¬ (18 + g.tail.length) / 2 = 0 := by omega
        simp only [hlen, this, if_false]; omega)
    (by simp only [hlen]; omega) (by omega)
  simp only [hc30, hlen] at hcat hbody
  unfold general
  simp only [Gen.Eeprom.CAT_GENERAL]
  rw [bind_fst_ok _ hcat]
  simp only
  generalize hs : 128 + (encCats pre).length + 4 = s at hcat hbody hsize
  have hre := readExact_ok m p (by omega) ⟨s, s + (18 + g.tail.length)⟩ 18 (by simp only; omega)
    (by simp only; omega)
  rw [bind_fst_ok _ (eofToOverrun_ok hre.1).1]
  simp only
  have h18 : slice p.rd s 18 = (encGeneral g).take 18 := by
    unfold Holds at hbody
    have := congrArg (fun l => l.take 18) hbody
    simp only [slice_take, hlen] at this
    rw [show min 18 (18 + g.tail.length) = 18 by omega] at this
    exact this
  rw [h18, parseGeneral_enc g hg]
  rfl

/-! ### `ignore_no_category`, the string look-ups of name and description -/

theorem ignoreNoCategory_ok {α : Type} {x : M α} {a : α} (h : x.1 = .ok a) :
    (ignoreNoCategory x).1 = .ok (some a) := by
  unfold ignoreNoCategory; rw [h]

theorem ignoreNoCategory_nocat {α : Type} {x : M α} (h : x.1 = .err .noCategory) :
    (ignoreNoCategory x).1 = .ok none := by
  unfold ignoreNoCategory; rw [h]

/-- `device_name` once `general` has answered: the string at the ORDER index. -/
theorem deviceName_of_general (m : Mode) (p : Prov) (N : Nat) (g : General) (s : Option (List Nat))
    (hg : (general m p).1 = .ok g) (hs : (findString m p N g.orderIdx).1 = .ok s) :
    (deviceName m p N).1 = .ok s := by
  unfold deviceName
  rw [bind_fst_ok _ (ignoreNoCategory_ok hg)]
  simp only
  rw [bind_fst_ok _ (ignoreNoCategory_ok hs)]
  cases s <;> rfl

/-- `device_description` once `general` has answered: the string at the NAME index. -/
theorem deviceDescription_of_general (m : Mode) (p : Prov) (N : Nat) (g : General) (s : Option (List Nat))
    (hg : (general m p).1 = .ok g) (hs : (findString m p N g.nameIdx).1 = .ok s) :
    (deviceDescription m p N).1 = .ok s := by
  unfold deviceDescription
  rw [bind_fst_ok _ hg]
  exact hs

theorem findString_zero (m : Mode) (p : Prov) (N : Nat) : findString m p N 0 = ret none := by
  unfold findString; rw [if_pos rfl]

/-- No Strings category: every index is absent. -/
theorem findString_no_strings (m : Mode) (p : Prov) (N idx : Nat)
    (hcat : (category m p Gen.Eeprom.CAT_STRINGS).1 = .ok none) :
    (findString m p N idx).1 = .ok none := by
  unfold findString
  by_cases h0 : idx = 0
  · rw [if_pos h0]; rfl
  · rw [if_neg h0, bind_fst_ok _ hcat]
    rfl

end Ec.Eeprom
