#!/bin/sh
# Build the framework from files on disk only (offline).
set -e
cd "$(dirname "$0")"
export CARGO_NET_OFFLINE=true
python3 tools/extract.py || true
(cd lean && lake build EcModel ecdriver)
(cd harness && cargo build --offline)
