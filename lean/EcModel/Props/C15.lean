/-
  C15 — SDO transfers deliver exactly the object's bytes, whatever the transfer type.

  Subject: the client model `EcModel/Coe.lean` (hand translation of src/mailbox/coe, constants regenerated from /repo)
  run against the SPECIFICATION server `EcModel/CoeServer.lean` (ETG1000.6 §5.6.2, cross-checked with SOEM / IgH),
  which may choose freely between expedited / normal / segmented upload, how much of the data the initiate response
  carries, and every segment size.

  What holds of the current code, for ALL objects / indices / counters / mailbox sizes >= 16 / <= 10 stale messages:
    sdo_read_exact_partial   expedited and normal uploads deliver exactly the object's bytes to the destination's decoder
    sdo_write_delivers       values of 1..4 bytes: request carries index, sub-index, size field, data; the device stores them
    array_helpers_consistent sdo_write_array followed by sdo_read_array returns the values; count in sub-index 0
    abort_reported, emergency_reported (since fix-c16-emergency), wrong_object_reported, too_long_reported, counter_cycles
  What does NOT hold (each with a counterexample theorem; witnesses replayed on the real code by harness/src/bin/c15.rs):
    c15/segment-response-scs0            the standard's Upload Segment Response (command specifier 0) does not decode:
                                         `CoeCommand` has no variant 0 -> Error::Wire(InvalidValue). EVERY segmented upload fails.
    c15/segment-data-offset              even for a device answering with command 3, segment data is read from offset 12
                                         (`trim_front(HeadersRaw::PACKED_LEN)`) instead of 9: three bytes late.
    c15/segmented-initiate-data-ignored  the data carried by the initiate response of a segmented upload is dropped
                                         (`total_len` starts at 0).
    c15/word-array-buffer                `[u16; N]::buffer()` is N bytes for 2N bytes of data: a normal upload of the
                                         matching object is refused as TooLong (`bufLen < obj.length` in the theorems).
    c15/write-zero-length                a value of 0 bytes is sent as "4 bytes" (size field 0).
-/
import EcModel.Lemmas.CoeHonestThms
import EcModel.Lemmas.CoeEndless

namespace Ec.C15
open Ec Ec.Coe Ec.Gen.Coe Ec.CoeSrv

/-! ### sdo_read_exact -/

/-- **sdo_read_exact (partial: expedited and normal mode).** For every dictionary, every object (the bytes the server
    holds for index / sub-index, incl. complete access) of any size that the server answers expedited (1..4 bytes) or
    normal (object + 16 ≤ mailbox), every mailbox size 16..65535, every value of both mailbox counters, up to ten stale
    messages of arbitrary content left in the OUT mailbox, both build profiles: the bytes `sdo_read` hands to the
    destination type's decoder are exactly the object's bytes (normal mode: for destinations whose buffer holds them). -/
theorem sdo_read_exact_partial (srv : Server) (cfg : Cfg) (fuel bufLen index ctr : Nat) (access : SubIndex)
    (stale : List (List Nat)) (obj : List Nat) (hm : cfg.hasMailbox = true) (hst : stale.length ≤ 10)
    (hrm : cfg.rmbx = srv.rmbx) (h16 : 16 ≤ cfg.rmbx) (hr : cfg.rmbx < 65536) (hw : 12 ≤ cfg.wmbx) (hi : index < 65536)
    (hs : access.subIndex < 256) (he : srv.emergencies = [])
    (hobj : srv.objectBytes index access.subIndex access.completeAccess = .ok obj)
    (hmode : (srv.mode = .auto ∧ 1 ≤ obj.length ∧ obj.length ≤ 4) ∨
      ((srv.mode = .normal ∨ (srv.mode = .auto ∧ (obj.length = 0 ∨ 4 < obj.length))) ∧ obj.length + 16 ≤ cfg.rmbx ∧
        obj.length ≤ bufLen ∧ bufLen < 4294967296)) :
    (sdoRead serverWorld cfg fuel bufLen index access (St.init ctr srv stale)).1 = .ok obj :=
  sdoRead_server_exact srv cfg fuel bufLen index ctr access stale obj hm hst hrm h16 hr hw hi hs he hobj hmode

/-- A 10-byte object, 32-byte mailbox, segmented: `first` bytes in the initiate response, then segments of 4 and 6. -/
def srvSeg (scs first : Nat) : Server :=
  { dict := [((0x2000, 0), [1, 2, 3, 4, 5, 6, 7, 8, 9, 10])], aborts := [], mode := .segmented first [4, 6], seg := none,
    counter := 0, rmbx := 32, scs := scs, emergencies := [], strictLen := true }

/-- Segmented mode, standard server: the first Upload Segment Response (command specifier 0) is rejected with
    `Error::Wire(InvalidValue)` — `CoeCommand` has no variant for 0. No segmented upload can succeed. -/
theorem sdo_read_exact_counterexample_segment_scs0 :
    (sdoRead serverWorld cfg32 8 16 0x2000 (.index 0) (St.init 1 (srvSeg 0 0) [])).1 = .err .wireInvalid ∧
    (sdoRead serverWorld cfg32 8 16 0x2000 (.index 0) (St.init 1 (srvSeg 0 2) [])).1 = .err .wireInvalid := by
  decide

/-- A lenient server that answers segments with command 3: the client reads every segment three bytes late
    (offset 12 instead of 9) and returns `04 00 00 00 08 09 0a 00 00 00` for the object `01 .. 0a`. -/
theorem sdo_read_exact_counterexample_segment_offset :
    (sdoRead serverWorld cfg32 8 16 0x2000 (.index 0) (St.init 1 (srvSeg 3 0) [])).1 =
      .ok [4, 0, 0, 0, 8, 9, 10, 0, 0, 0] := by
  decide

/-- A device that compensates for both (command 3, three filler bytes before the segment data) shows the third defect
    in isolation: the byte carried by the initiate response is dropped, 7 of the object's 8 bytes arrive. -/
theorem sdo_read_exact_counterexample_initiate_data :
    (sdoRead scriptWorld cfg32 8 16 0x2000 (.index 0)
      (St.init 1 [[[0x0b, 0, 0, 0, 0, 0x13, 0, 0x30, 0x41, 0, 0x20, 0, 8, 0, 0, 0, 1]],
                  [[0x0a, 0, 0, 0, 0, 0x23, 0, 0x30, 0x61, 0xee, 0xee, 0xee, 2, 3, 4, 5, 6, 7, 8]]] [])).1 =
      .ok [2, 3, 4, 5, 6, 7, 8] := by
  decide

/-- `[u16; 2]`: `PACKED_LEN = 4` but `buffer()` has 2 bytes, so a normal upload of the matching 4-byte object is refused
    (`bufLen = 2 < 4`): the hypothesis `obj.length ≤ bufLen` of the partial theorem is not met by `[u16; N]`. -/
theorem sdo_read_exact_counterexample_word_array :
    (sdoRead serverWorld cfg32 8 2 0x2000 (.index 1)
      (St.init 1 { dict := [((0x2000, 1), [1, 2, 3, 4])], aborts := [], mode := .normal, seg := none, counter := 0,
                   rmbx := 32, scs := 0, emergencies := [], strictLen := true } [])).1 = .err (.tooLong 0x2000 1) := by
  decide

/-! ### sdo_write_delivers -/

/-- **sdo_write_delivers.** Writing a value of 1..4 bytes to an existing entry: the download request in the IN mailbox
    is byte for byte `0a 00 00 00 00 <3|ctr<<4> 00 20 <0x23|(4-n)<<2> <index lo> <index hi> <sub> <data, zero padded>`
    (index, sub-index, size field, data), the result is `Ok(())`, and the device's dictionary then holds exactly the
    value's bytes at (index, sub-index) and is otherwise unchanged. -/
theorem sdo_write_delivers (srv : Server) (cfg : Cfg) (index sub ctr : Nat) (value old : List Nat)
    (stale : List (List Nat)) (hm : cfg.hasMailbox = true) (hst : stale.length ≤ 10) (hr : 16 ≤ cfg.rmbx)
    (hw : 16 ≤ cfg.wmbx) (hi : index < 65536) (hs : sub < 256) (h1 : 1 ≤ value.length) (h4 : value.length ≤ 4)
    (he : srv.emergencies = []) (hab : (srv.aborts.find? fun e => e.1.1 == index && e.1.2 == sub) = none)
    (hold : srv.dict.get index sub = some old) (hlen : srv.strictLen = true → old.length = value.length) :
    (sdoWrite serverWorld cfg index (.index sub) value (St.init ctr srv stale)).1 = .ok () ∧
    (sdoWrite serverWorld cfg index (.index sub) value (St.init ctr srv stale)).2.reqs =
      [10 :: 0 :: 0 :: 0 :: 0 :: (3 + 16 * (ctr % 8)) :: 0 :: 32 :: (35 + 4 * ((4 - value.length) % 4)) ::
        (index % 256) :: (index / 256 % 256) :: sub :: (value ++ zeros (4 - value.length) ++ zeros (cfg.wmbx - 16))] ∧
    (sdoWrite serverWorld cfg index (.index sub) value (St.init ctr srv stale)).2.dev.dict = srv.dict.set index sub value ∧
    ((srv.dict.set index sub value).get index sub = some value) ∧
    (∀ i' s', ¬ (i' = index ∧ s' = sub) → (srv.dict.set index sub value).get i' s' = srv.dict.get i' s') := by
  have h := sdoWrite_server srv cfg index sub value old (St.init ctr srv stale) rfl hm hst hr hw hi hs h1 h4 he hab hold hlen
  rw [h]
  refine ⟨rfl, ?_, rfl, Dict.get_set_same _ _ _ _, fun i' s' hne => Dict.get_set_other _ _ _ _ _ _ hne⟩
  simp [St.init, dlByte]

/-- A value of zero bytes is announced as four (size field 0 = "4 bytes"): a strict device refuses it, a lenient one
    stores `00 00 00 00`. -/
theorem sdo_write_delivers_counterexample_zero_length :
    (sdoWrite serverWorld cfg32 0x2000 (.index 1) []
      (St.init 1 { dict := [((0x2000, 1), [])], aborts := [], mode := .auto, seg := none, counter := 0, rmbx := 32,
                   scs := 0, emergencies := [], strictLen := true } [])).1 = .err (.aborted 0x06070010 0x2000 1) ∧
    (sdoWrite serverWorld cfg32 0x2000 (.index 1) []
      (St.init 1 { dict := [((0x2000, 1), [])], aborts := [], mode := .auto, seg := none, counter := 0, rmbx := 32,
                   scs := 0, emergencies := [], strictLen := false } [])).2.dev.dict = [((0x2000, 1), [0, 0, 0, 0])] := by
  decide

/-! ### array_helpers_consistent -/

/-- **array_helpers_consistent.** On a device holding an array object (count in sub-index 0, elements in 1..),
    `sdo_write_array(index, values)` (elements of 1..4 bytes, at most 255 of them) leaves the count in sub-index 0 and
    the values' bytes in sub-indices 1..n, and a following `sdo_read_array` (any `MAX_ENTRIES ≥ n`) returns exactly these
    values, in order. -/
theorem array_helpers_consistent {α : Type} (cfg : Cfg) (fuel : Nat) (T : Dest α) (maxEntries index : Nat)
    (values : List (List Nat)) (x : Nat → α) (s : St Server) (hp : Plain s.dev) (hm : cfg.hasMailbox = true)
    (hq : s.outq = []) (hr : 16 ≤ cfg.rmbx) (hw : 16 ≤ cfg.wmbx) (hi : index < 65536) (hn : values.length ≤ 255)
    (hmax : values.length ≤ maxEntries)
    (h0 : ∃ old0, s.dev.dict.get index 0 = some old0 ∧ (s.dev.strictLen = true → old0.length = 1))
    (hall : ∀ k, k < values.length → ∃ old, s.dev.dict.get index (1 + k) = some old ∧
      (s.dev.strictLen = true → old.length = (values.getD k []).length) ∧ 1 ≤ (values.getD k []).length ∧
      (values.getD k []).length ≤ 4)
    (hdec : ∀ k, k < values.length → T.decode (values.getD k []) = some (x (1 + k))) :
    (sdoWriteArray serverWorld cfg index values s).1 = .ok () ∧
    (sdoWriteArray serverWorld cfg index values s).2.dev.dict.get index 0 = some [values.length] ∧
    (∀ k, k < values.length →
      (sdoWriteArray serverWorld cfg index values s).2.dev.dict.get index (1 + k) = some (values.getD k [])) ∧
    (sdoReadArray serverWorld cfg fuel T maxEntries index (sdoWriteArray serverWorld cfg index values s).2).1 =
      .ok ((List.range values.length).map fun k => x (1 + k)) := by
  obtain ⟨s', hw', hp', hq', h0', hall'⟩ := sdoWriteArray_plain cfg index values s hp hm hq hr hw hi hn h0 hall
  rw [hw']
  refine ⟨rfl, h0', hall', ?_⟩
  exact sdoReadArray_plain cfg fuel T maxEntries index values.length (fun j => values.getD (j - 1) []) x s' hp' hm hq' hr
    (by omega) hi hn hmax h0' (fun k hk => by
      obtain ⟨_, _, _, ha, hb⟩ := hall k hk
      have e : 1 + k - 1 = k := by omega
      simp only [e]
      exact ⟨hall' k hk, ha, hb, hdec k hk⟩)

/-! ### abort_reported -/

/-- **abort_reported (read).** Whenever the device refuses the upload — a scripted abort code of any value, an unknown
    object or sub-index — `sdo_read` returns `Aborted { code, address, sub_index }` with the device's code. -/
theorem abort_reported (srv : Server) (cfg : Cfg) (fuel bufLen index ctr code : Nat) (access : SubIndex)
    (stale : List (List Nat)) (hm : cfg.hasMailbox = true) (hst : stale.length ≤ 10) (h16 : 16 ≤ cfg.rmbx)
    (hw : 12 ≤ cfg.wmbx) (hi : index < 65536) (hs : access.subIndex < 256) (he : srv.emergencies = [])
    (hc : code < 4294967296) (hobj : srv.objectBytes index access.subIndex access.completeAccess = .error code) :
    (sdoRead serverWorld cfg fuel bufLen index access (St.init ctr srv stale)).1 =
      .err (.aborted code index access.subIndex) := by
  have hresp : serverWorld.respond (St.init ctr srv stale).dev (image cfg.wmbx (uploadRequest ctr index access)) =
      ({ srv with counter := nextCtr srv.counter, seg := none },
        [abortMessage (nextCtr srv.counter) index access.subIndex code]) := by
    show serve srv _ = _
    rw [serve_upload srv _ _ _ access hw hi hs he, upload_abort srv _ _ _ _ code hobj]
  exact sdoRead_abort_reply serverWorld cfg fuel bufLen index access _ _ _ index access.subIndex code hm hst h16 hi hc hresp

/-- **abort_reported (write).** -/
theorem abort_reported_write (srv : Server) (cfg : Cfg) (index sub ctr : Nat) (value : List Nat)
    (e : (Nat × Nat) × Nat) (stale : List (List Nat)) (hm : cfg.hasMailbox = true) (hst : stale.length ≤ 10)
    (h16 : 16 ≤ cfg.rmbx) (hw : 16 ≤ cfg.wmbx) (hi : index < 65536) (hs : sub < 256) (h1 : 1 ≤ value.length)
    (h4 : value.length ≤ 4) (he : srv.emergencies = []) (hc : e.2 < 4294967296)
    (hab : (srv.aborts.find? fun e => e.1.1 == index && e.1.2 == sub) = some e) :
    (sdoWrite serverWorld cfg index (.index sub) value (St.init ctr srv stale)).1 = .err (.aborted e.2 index sub) := by
  have hresp : serverWorld.respond (St.init ctr srv stale).dev (image cfg.wmbx
      (downloadRequest ctr index (.index sub) (value ++ zeros (4 - value.length)) value.length)) =
      ({ srv with counter := nextCtr srv.counter }, [abortMessage (nextCtr srv.counter) index sub e.2]) := by
    show serve srv _ = _
    rw [serve_download srv _ ctr index (.index sub) value hw hi hs h1 h4 he]
    show ((srv.download (nextCtr srv.counter) index sub false value).1, [(srv.download (nextCtr srv.counter) index sub false value).2]) = _
    unfold Server.download
    rw [hab]
  exact sdoWrite_abort_reply serverWorld cfg index (.index sub) value _ _ _ index sub e.2 hm hst h16 hi hc h4 hresp

/-! ### emergency_reported -/

/-- **emergency_reported.** (True since fix-c16-emergency.) Whenever the device has an emergency message pending — any
    error code, any error register, any manufacturer data, followed by whatever else it queues — the next `sdo_read` /
    `sdo_write` returns `MailboxError::Emergency { error_code, error_register }` with exactly the device's values. -/
theorem emergency_reported (srv : Server) (cfg : Cfg) (fuel bufLen index ctr code reg : Nat) (access : SubIndex)
    (value data : List Nat) (es : List (Nat × Nat × List Nat)) (stale : List (List Nat)) (hm : cfg.hasMailbox = true)
    (hst : stale.length ≤ 10) (h16 : 16 ≤ cfg.rmbx) (hw : 16 ≤ cfg.wmbx) (h4 : value.length ≤ 4) (hc : code < 65536)
    (hreg : reg < 256) (he : srv.emergencies = (code, reg, data) :: es) :
    (sdoRead serverWorld cfg fuel bufLen index access (St.init ctr srv stale)).1 = .err (.emergency code reg) ∧
    (sdoWrite serverWorld cfg index access value (St.init ctr srv stale)).1 = .err (.emergency code reg) :=
  ⟨sdoRead_server_emergency srv cfg fuel bufLen index ctr code reg access data es stale hm hst h16 (by omega) hc hreg he,
   sdoWrite_server_emergency srv cfg index ctr code reg access value data es stale hm hst h16 hw h4 hc hreg he⟩

/-! ### wrong_object_reported -/

/-- **wrong_object_reported.** A well-formed (expedited upload) response that names another index or sub-index than
    the request, from any device: `SdoResponseInvalid { address, sub_index }` with the values the response carries. -/
theorem wrong_object_reported {σ : Type} (w : World σ) (cfg : Cfg) (fuel bufLen index : Nat) (access : SubIndex)
    (s : St σ) (d' : σ) (c rIndex rSub : Nat) (complete : Bool) (obj : List Nat) (hm : cfg.hasMailbox = true)
    (hq : s.outq.length ≤ 10) (hr : 16 ≤ cfg.rmbx) (hi : rIndex < 65536) (h1 : 1 ≤ obj.length) (h4 : obj.length ≤ 4)
    (hne : ¬ (rIndex = index ∧ rSub = access.subIndex))
    (hresp : w.respond s.dev (image cfg.wmbx (uploadRequest s.ctr index access)) =
      (d', [expeditedResponse c rIndex rSub complete obj])) :
    (sdoRead w cfg fuel bufLen index access s).1 = .err (.responseInvalid rIndex rSub) :=
  sdoRead_foreign_reply w cfg fuel bufLen index access s d' c rIndex rSub complete obj hm hq hr hi h1 h4 hne hresp

/-! ### too_long_reported -/

/-- **too_long_reported.** An object larger than the destination's buffer, answered normal OR segmented (any amount
    of data in the initiate response, any segment sizes): `TooLong { address, sub_index }`, before any segment is
    requested. -/
theorem too_long_reported (srv : Server) (cfg : Cfg) (fuel bufLen index ctr : Nat) (access : SubIndex)
    (stale : List (List Nat)) (obj : List Nat) (hm : cfg.hasMailbox = true) (hst : stale.length ≤ 10)
    (hrm : cfg.rmbx = srv.rmbx) (h16 : 16 ≤ cfg.rmbx) (hr : cfg.rmbx < 65536) (hw : 12 ≤ cfg.wmbx) (hi : index < 65536)
    (hs : access.subIndex < 256) (he : srv.emergencies = [])
    (hobj : srv.objectBytes index access.subIndex access.completeAccess = .ok obj)
    (hne : ¬ (srv.mode = .auto ∧ 1 ≤ obj.length ∧ obj.length ≤ 4)) (hbig : bufLen < obj.length)
    (h32 : obj.length < 4294967296) :
    (sdoRead serverWorld cfg fuel bufLen index access (St.init ctr srv stale)).1 =
      .err (.tooLong index access.subIndex) :=
  sdoRead_server_too_long srv cfg fuel bufLen index ctr access stale obj hm hst hrm h16 hr hw hi hs he hobj hne hbig h32

/-! ### counter_cycles -/

/-- The counter update is the cycle 1,2,…,7,1,…. -/
theorem counter_cycles_step (c0 : Nat) (h1 : 1 ≤ c0) (h7 : c0 ≤ 7) (k : Nat) : ctrSeq c0 k = (c0 - 1 + k) % 7 + 1 :=
  ctrSeq_closed c0 h1 h7 k

/-- **counter_cycles.** For any device: starting from a counter c0 in 1..7 and no request written yet, after any of
    `sdo_read` (incl. every segment request), `sdo_read_array`, `sdo_write`, `sdo_write_array` (values of at most 4
    bytes) the k-th request written carries the counter (c0 - 1 + k) mod 7 + 1, and the stored counter is the next one. -/
theorem counter_cycles {σ : Type} (w : World σ) (cfg : Cfg) (c0 : Nat) (dev : σ) (stale : List (List Nat))
    (hm : cfg.hasMailbox = true) (hw : 6 ≤ cfg.wmbx) (h1 : 1 ≤ c0) (h7 : c0 ≤ 7) :
    let good (s : St σ) : Prop :=
      s.ctr = (c0 - 1 + s.reqs.length) % 7 + 1 ∧
        ∀ k, k < s.reqs.length → reqCounter (s.reqs.getD k []) = (c0 - 1 + k) % 7 + 1
    (∀ fuel bufLen index access, good (sdoRead w cfg fuel bufLen index access (St.init c0 dev stale)).2) ∧
    (∀ (α : Type) (T : Dest α) fuel maxEntries index,
      good (sdoReadArray w cfg fuel T maxEntries index (St.init c0 dev stale)).2) ∧
    (∀ index access value, value.length ≤ 4 → good (sdoWrite w cfg index access value (St.init c0 dev stale)).2) ∧
    (∀ index values, (∀ v ∈ values, v.length ≤ 4) → good (sdoWriteArray w cfg index values (St.init c0 dev stale)).2) := by
  have h0 : Sync c0 (St.init c0 dev stale) := ⟨rfl, fun k hk => absurd hk (Nat.not_lt_zero k)⟩
  have conv : ∀ s : St σ, Sync c0 s →
      (s.ctr = (c0 - 1 + s.reqs.length) % 7 + 1 ∧
        ∀ k, k < s.reqs.length → reqCounter (s.reqs.getD k []) = (c0 - 1 + k) % 7 + 1) := by
    intro s hs
    refine ⟨by rw [hs.1, ctrSeq_closed c0 h1 h7], fun k hk => ?_⟩
    rw [hs.2 k hk, ctrSeq_closed c0 h1 h7]
    omega
  refine ⟨fun fuel bufLen index access => conv _ (sdoRead_sync w cfg c0 hm hw fuel bufLen index access _ h0),
    fun α T fuel maxEntries index => conv _ (sdoReadArray_sync w cfg c0 hm hw fuel T maxEntries index _ h0),
    fun index access value hv => conv _ (sdoWrite_sync w cfg c0 hm hw index access value hv _ h0),
    fun index values hv => conv _ (sdoWriteArray_sync w cfg c0 hm hw index values hv _ h0)⟩

/-! ### Non-vacuity -/

set_option maxRecDepth 4000 in
/-- A server meeting the hypotheses of `sdo_read_exact_partial` in normal mode with three stale messages (one of them an
    emergency): 6-byte object, 32-byte mailbox, counter 7 (wraps to 1). -/
example : (sdoRead serverWorld cfg32 8 8 0x1008 (.index 0)
    (St.init 7 { dict := [((0x1008, 0), [69, 75, 49, 57, 49, 52])], aborts := [], mode := .auto, seg := none, counter := 5,
                 rmbx := 32, scs := 0, emergencies := [], strictLen := true }
      [[1, 2, 3], [0x0a, 0, 0, 0, 0, 0x23, 0, 0x10, 1, 2, 3, 4, 5, 6, 7, 8], []])).1 = .ok [69, 75, 49, 57, 49, 52] := by
  decide

set_option maxRecDepth 20000 in
/-- Expedited, complete access. -/
example : (sdoRead serverWorld cfg32 8 4 0x1c12 .complete
    (St.init 3 { dict := [((0x1c12, 0), [2]), ((0x1c12, 1), [0x00, 0x16]), ((0x1c12, 2), [0x01, 0x16])], aborts := [],
                 mode := .auto, seg := none, counter := 0, rmbx := 32, scs := 0, emergencies := [], strictLen := true } [])).1 =
    .ok [0x00, 0x16, 0x01, 0x16] := by
  decide

/-- Write two u16 values with `sdo_write_array`, read them back with `sdo_read_array`. -/
example :
    let srv : Server := { dict := [((0x1c13, 0), [0]), ((0x1c13, 1), [0, 0]), ((0x1c13, 2), [0, 0])], aborts := [],
                          mode := .auto, seg := none, counter := 0, rmbx := 32, scs := 0, emergencies := [], strictLen := true }
    (sdoReadArray serverWorld cfg32 8 { bufLen := 2, decode := fun b => if b.length < 2 then none else some (rd16 b) } 4 0x1c13
      (sdoWriteArray serverWorld cfg32 0x1c13 [[0x00, 0x1a], [0x02, 0x1a]] (St.init 1 srv [])).2).1 = .ok [0x1a00, 0x1a02] := by
  decide

/-- Every abort code of the table decodes to itself (the catch-all keeps unknown ones). -/
example : (sdoRead serverWorld cfg32 8 2 0x2000 (.index 0)
    (St.init 1 { dict := [((0x2000, 0), [1, 2])], aborts := [((0x2000, 0), 0x06090011)], mode := .auto, seg := none,
                 counter := 0, rmbx := 32, scs := 0, emergencies := [], strictLen := true } [])).1 =
    .err (.aborted 0x06090011 0x2000 0) := by
  decide

end Ec.C15
