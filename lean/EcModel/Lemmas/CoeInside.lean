/-
  C16 helper lemmas for `reads_inside_reply`: the two functions that hold a `ReceivedPdu` (the triage of
  mailbox_write_read and one iteration of the SDO-info loop) are functions of the reply BYTES; hence no entry
  point depends on what surrounds the reply in the frame buffer.
-/
import EcModel.Lemmas.CoeBasic

namespace Ec.Coe
open Ec Ec.Gen.Coe

/-- `triage` written on the reply bytes alone. -/
def triageB {ρ : Type} (unpackR : List Nat → Res ρ) (validate : Nat → Nat → Bool) (b : List Nat) :
    Res (ρ × List Nat) :=
  (unpackCoeHeaders b).bind fun ch =>
    if ch.2 == svcEmergency then
      (unpackEmergency (b.drop LEN_CoeHeadersRaw)).bind fun d => .err (.emergency d.1 d.2)
    else
      (unpackHeadersRaw b).bind fun h =>
        if h.command == cmdAbort then
          (unpackU32 (b.drop LEN_HeadersRaw)).bind fun code => .err (.aborted code h.address h.subIndex)
        else if h.header.mailboxType != mbxCoe || !validate h.address h.subIndex then
          .err (.responseInvalid h.address h.subIndex)
        else
          (unpackR b).bind fun r => .ok (r, b.drop LEN_HeadersRaw)

theorem triage_eq_bytes {ρ : Type} (cfg : Cfg) (u : List Nat → Res ρ) (v : Nat → Nat → Bool) (p : Pdu)
    (hp : p.start + p.len ≤ p.frame.length) : triage cfg u v p = triageB u v p.bytes := by
  simp only [triage, triageB, Pdu.trimFront_bytes _ _ hp]

/-- One SDO-info iteration written on the reply bytes alone. -/
def infoStepB (b : List Nat) (consumed : Bool) (buf : List Nat) : Res InfoStep :=
  (unpackListResponse b).bind fun h =>
    if h.opCode == opListResponse then
      let rest := if !consumed then (b.drop LEN_ListResponse).drop 2 else b.drop LEN_ListResponse
      if h.mailbox.length < COE_HEADER_AND_LIST_TYPE_SIZE then .err .internal
      else if h.mailbox.length - COE_HEADER_AND_LIST_TYPE_SIZE > rest.length then .err .internal
      else if buf.length + (rest.take (h.mailbox.length - COE_HEADER_AND_LIST_TYPE_SIZE)).length > INFO_BUF_CAP then
        .err .internal
      else if h.incomplete && h.mailbox.length - COE_HEADER_AND_LIST_TYPE_SIZE == 0 then .err .internal
      else .ok (.frag (buf ++ rest.take (h.mailbox.length - COE_HEADER_AND_LIST_TYPE_SIZE)) h.incomplete)
    else .err (.responseInvalid 0 0)

theorem Pdu.trimFront_ok (p : Pdu) (ct : Nat) (hp : p.start + p.len ≤ p.frame.length) :
    (p.trimFront ct).start + (p.trimFront ct).len ≤ (p.trimFront ct).frame.length := by
  show p.start + min ct p.len + (p.len - min ct p.len) ≤ p.frame.length
  omega

theorem infoTrim_bytes (p : Pdu) (consumed : Bool) (hp : p.start + p.len ≤ p.frame.length) :
    (infoTrim p consumed).bytes =
      if !consumed then (p.bytes.drop LEN_ListResponse).drop 2 else p.bytes.drop LEN_ListResponse := by
  unfold infoTrim
  split
  · rw [Pdu.trimFront_bytes _ _ (Pdu.trimFront_ok p _ hp), Pdu.trimFront_bytes _ _ hp]
  · rw [Pdu.trimFront_bytes _ _ hp]

theorem infoTrim_ok (p : Pdu) (consumed : Bool) (hp : p.start + p.len ≤ p.frame.length) :
    (infoTrim p consumed).start + (infoTrim p consumed).len ≤ (infoTrim p consumed).frame.length := by
  unfold infoTrim
  split
  · exact Pdu.trimFront_ok _ _ (Pdu.trimFront_ok p _ hp)
  · exact Pdu.trimFront_ok p _ hp

theorem infoStep_eq_bytes (cfg : Cfg) (p : Pdu) (consumed : Bool) (buf : List Nat)
    (hp : p.start + p.len ≤ p.frame.length) : infoStep cfg p consumed buf = infoStepB p.bytes consumed buf := by
  have hlen : (infoTrim p consumed).len = (infoTrim p consumed).bytes.length :=
    (Pdu.bytes_length _ (infoTrim_ok p consumed hp)).symm
  simp only [infoStep, infoStepB, hlen, infoTrim_bytes p consumed hp]

/-! ### Changing the surroundings of the reply -/

/-- The same configuration with other bytes before / after the mailbox data in the frame buffer. -/
def Cfg.around (cfg : Cfg) (pre post : List Nat) : Cfg := { cfg with pre := pre, post := post }

theorem triage_around {ρ : Type} (cfg : Cfg) (pre post : List Nat) (u : List Nat → Res ρ) (v : Nat → Nat → Bool)
    (img : List Nat) :
    triage (cfg.around pre post) u v (mkPdu (cfg.around pre post) img) = triage cfg u v (mkPdu cfg img) := by
  rw [triage_eq_bytes _ _ _ _ (mkPdu_ok _ _), triage_eq_bytes _ _ _ _ (mkPdu_ok _ _), mkPdu_bytes, mkPdu_bytes]

theorem infoStep_around (cfg : Cfg) (pre post : List Nat) (img : List Nat) (consumed : Bool) (buf : List Nat) :
    infoStep (cfg.around pre post) (mkPdu (cfg.around pre post) img) consumed buf =
      infoStep cfg (mkPdu cfg img) consumed buf := by
  rw [infoStep_eq_bytes _ _ _ _ (mkPdu_ok _ _), infoStep_eq_bytes _ _ _ _ (mkPdu_ok _ _), mkPdu_bytes, mkPdu_bytes]

theorem mwr_around {σ ρ : Type} (w : World σ) (cfg : Cfg) (pre post : List Nat) (req : List Nat)
    (u : List Nat → Res ρ) (v : Nat → Nat → Bool) (s : St σ) :
    mailboxWriteRead w (cfg.around pre post) req u v s = mailboxWriteRead w cfg req u v s := by
  unfold mailboxWriteRead
  show (if (!cfg.hasMailbox) = true then _ else _) = _
  split
  · rfl
  · dsimp only
    have hw : writeRequest w (cfg.around pre post) req (drainStale s) = writeRequest w cfg req (drainStale s) := rfl
    rw [hw]
    generalize writeRequest w cfg req (drainStale s) = s1
    unfold readMailbox
    cases s1.outq with
    | nil => rfl
    | cons m q =>
      dsimp only
      rw [show (cfg.around pre post).rmbx = cfg.rmbx from rfl, triage_around]

theorem segLoop_around {σ : Type} (w : World σ) (cfg : Cfg) (pre post : List Nat) :
    ∀ (fuel : Nat) (toggle : Bool) (buf : List Nat) (total : Nat) (s : St σ),
      segLoop w (cfg.around pre post) fuel toggle buf total s = segLoop w cfg fuel toggle buf total s := by
  intro fuel
  induction fuel with
  | zero => intro _ _ _ _; rfl
  | succ fuel ih =>
    intro toggle buf total s
    unfold segLoop
    simp only [mwr_around, ih, show (cfg.around pre post).mode = cfg.mode from rfl]

theorem sdoRead_around {σ : Type} (w : World σ) (cfg : Cfg) (pre post : List Nat) (fuel bufLen index : Nat)
    (access : SubIndex) (s : St σ) :
    sdoRead w (cfg.around pre post) fuel bufLen index access s = sdoRead w cfg fuel bufLen index access s := by
  unfold sdoRead
  simp only [mwr_around, segLoop_around]

theorem sdoReadT_around {σ α : Type} (w : World σ) (cfg : Cfg) (pre post : List Nat) (fuel : Nat) (T : Dest α)
    (index : Nat) (access : SubIndex) (s : St σ) :
    sdoReadT w (cfg.around pre post) fuel T index access s = sdoReadT w cfg fuel T index access s := by
  unfold sdoReadT
  rw [sdoRead_around]

theorem sdoReadExpedited_around {σ : Type} (w : World σ) (cfg : Cfg) (pre post : List Nat) (index : Nat)
    (access : SubIndex) (s : St σ) :
    sdoReadExpedited w (cfg.around pre post) index access s = sdoReadExpedited w cfg index access s := by
  unfold sdoReadExpedited
  simp only [mwr_around]

theorem readEach_around {σ α : Type} (w : World σ) (cfg : Cfg) (pre post : List Nat) (fuel : Nat) (T : Dest α)
    (index : Nat) : ∀ (n i : Nat) (s : St σ),
      readEach w (cfg.around pre post) fuel T index n i s = readEach w cfg fuel T index n i s := by
  intro n
  induction n with
  | zero => intro _ _; rfl
  | succ n ih =>
    intro i s
    unfold readEach
    simp only [sdoReadT_around, ih]

theorem sdoReadArray_around {σ α : Type} (w : World σ) (cfg : Cfg) (pre post : List Nat) (fuel : Nat) (T : Dest α)
    (maxEntries index : Nat) (s : St σ) :
    sdoReadArray w (cfg.around pre post) fuel T maxEntries index s = sdoReadArray w cfg fuel T maxEntries index s := by
  unfold sdoReadArray
  simp only [sdoReadT_around, readEach_around]

theorem sdoWrite_around {σ : Type} (w : World σ) (cfg : Cfg) (pre post : List Nat) (index : Nat) (access : SubIndex)
    (value : List Nat) (s : St σ) :
    sdoWrite w (cfg.around pre post) index access value s = sdoWrite w cfg index access value s := by
  unfold sdoWrite
  simp only [mwr_around]

theorem writeEach_around {σ : Type} (w : World σ) (cfg : Cfg) (pre post : List Nat) (index : Nat) :
    ∀ (vs : List (List Nat)) (i : Nat) (s : St σ),
      writeEach w (cfg.around pre post) index i vs s = writeEach w cfg index i vs s := by
  intro vs
  induction vs with
  | nil => intro _ _; rfl
  | cons v vs ih =>
    intro i s
    unfold writeEach
    simp only [sdoWrite_around, ih]

theorem sdoWriteArray_around {σ : Type} (w : World σ) (cfg : Cfg) (pre post : List Nat) (index : Nat)
    (values : List (List Nat)) (s : St σ) :
    sdoWriteArray w (cfg.around pre post) index values s = sdoWriteArray w cfg index values s := by
  unfold sdoWriteArray
  simp only [sdoWrite_around, writeEach_around]

theorem infoLoop_around (cfg : Cfg) (pre post : List Nat) :
    ∀ (q : List (List Nat)) (consumed : Bool) (buf : List Nat) (reads : Nat),
      infoLoop (cfg.around pre post) q consumed buf reads = infoLoop cfg q consumed buf reads := by
  intro q
  induction q with
  | nil => intro _ _ _; rfl
  | cons m q ih =>
    intro consumed buf reads
    unfold infoLoop
    rw [show (cfg.around pre post).rmbx = cfg.rmbx from rfl, infoStep_around]
    simp only [ih]

theorem sendSdoInfoService_around {σ : Type} (w : World σ) (cfg : Cfg) (pre post : List Nat) (req : List Nat)
    (s : St σ) : sendSdoInfoService w (cfg.around pre post) req s = sendSdoInfoService w cfg req s := by
  unfold sendSdoInfoService
  show (if (!cfg.hasMailbox) = true then _ else _) = _
  split
  · rfl
  · dsimp only
    have hw : writeRequest w (cfg.around pre post) req (drainStale s) = writeRequest w cfg req (drainStale s) := rfl
    rw [hw, infoLoop_around]

theorem sdoInfoList_around {σ : Type} (w : World σ) (cfg : Cfg) (pre post : List Nat) (listType : Nat) (s : St σ) :
    sdoInfoList w (cfg.around pre post) listType s = sdoInfoList w cfg listType s := by
  unfold sdoInfoList
  simp only [sendSdoInfoService_around]

theorem sdoInfoQuantities_around {σ : Type} (w : World σ) (cfg : Cfg) (pre post : List Nat) (s : St σ) :
    sdoInfoQuantities w (cfg.around pre post) s = sdoInfoQuantities w cfg s := by
  unfold sdoInfoQuantities
  simp only [sendSdoInfoService_around]

end Ec.Coe
