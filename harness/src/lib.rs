//! Shared parts of the correspondence harness: PRNG, virtual clock, helpers, report writer.
//! One binary per property lives in `src/bin/`.
pub mod baton;
pub mod clock;
pub mod dcnet;
pub mod microrun;
pub mod rng;
pub mod seq;
pub mod seqgen;
pub mod util;
pub mod sim;
pub mod exec;
pub mod wkcnet;

/// Standard entry point of a property binary: `<bin> <quick|thorough> <seed> <outdir> [--replay FILE]`.
pub struct Args {
    pub tier: String,
    pub seed: u64,
    pub out: String,
    pub replay: Option<String>,
}

pub fn parse_args() -> Args {
    let a: Vec<String> = std::env::args().collect();
    if a.len() < 4 {
        eprintln!("usage: {} <quick|thorough> <seed> <outdir> [--replay FILE]", a[0]);
        std::process::exit(2);
    }
    let replay = a.iter().position(|x| x == "--replay").and_then(|i| a.get(i + 1).cloned());
    // panics inside cases are caught per case; keep the default hook quiet
    std::panic::set_hook(Box::new(|_| {}));
    Args { tier: a[1].clone(), seed: a[2].parse().expect("seed"), out: a[3].clone(), replay }
}

/// If `--replay FILE` was given: the case line(s) stored in the replay file (field "case", or
/// "first"."case" for a correspondence replay).
pub fn replay_cases(args: &Args) -> Option<Vec<String>> {
    let p = args.replay.as_ref()?;
    let text = std::fs::read_to_string(p).ok()?;
    let mut out = Vec::new();
    // minimal JSON string extraction of every `"case": "..."` field
    let mut rest = text.as_str();
    while let Some(i) = rest.find("\"case\":") {
        rest = &rest[i + 7..];
        let Some(q) = rest.find('"') else { break };
        let mut s = String::new();
        let mut esc = false;
        let mut end = 0;
        for (k, c) in rest[q + 1..].char_indices() {
            if esc {
                s.push(match c {
                    'n' => '\n',
                    't' => '\t',
                    c => c,
                });
                esc = false;
            } else if c == '\\' {
                esc = true;
            } else if c == '"' {
                end = q + 1 + k;
                break;
            } else {
                s.push(c);
            }
        }
        out.push(s);
        rest = &rest[end..];
    }
    Some(out)
}
pub mod eeprom_devsim;
pub mod eeprom_gen;
pub mod coerig;
