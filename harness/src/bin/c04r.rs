//! C04 on REUSED slots: frames built after the slot has carried earlier requests and arbitrary
//! responses (shorter, equal, longer than the request; garbage), timeouts and drops. Every frame the
//! send closure sees must still be exactly the encoding of what was pushed: zero padding, zero working
//! counters, nothing left over from the slot's past. Same line protocol as the other sequential
//! histories (driver `drv_seq`).
use ecverif::rng::Rng;
use ecverif::seqgen::{Gen, Knobs, dgrams};
use ecverif::util::{Report, unhex};
use std::collections::BTreeMap;

#[derive(Clone, Debug)]
struct Pushed {
    code: u8,
    idx: u8,
    len: usize,
    data: Vec<u8>,
}

fn cmd_code(s: &str) -> u8 {
    match s.split('.').next().unwrap() {
        "nop" => 0,
        "aprd" | "aprdpos" => 1,
        "apwr" | "apwrpos" => 2,
        "fprd" => 4,
        "fpwr" => 5,
        "brd" => 7,
        "bwr" => 8,
        "lrd" => 10,
        "lwr" => 11,
        "lrw" => 12,
        "frmw" => 14,
        _ => 255,
    }
}

/// Independent monitor over the op/result log of one history.
fn monitor(g: &Gen, rep: &mut Report, line: &str) {
    // a request = (slot, generation of that slot); registers point at their current request
    let mut pushes: BTreeMap<(usize, u64), Vec<Pushed>> = BTreeMap::new();
    let mut reg_req: BTreeMap<u32, (usize, u64)> = BTreeMap::new();
    let mut tx_slot: BTreeMap<u32, (usize, u64)> = BTreeMap::new();
    let mut generation: BTreeMap<usize, u64> = BTreeMap::new();
    let mut abandoned: std::collections::BTreeSet<(usize, u64)> = Default::default();
    let mut tainted: std::collections::BTreeSet<(usize, u64)> = Default::default();
    for (op, out) in g.ops.iter().zip(g.outs.iter()) {
        let f: Vec<&str> = op.split(',').collect();
        match f[0] {
            "al" => {
                if let Some(s) = out.strip_prefix("ok.") {
                    let r: u32 = f[1].parse().unwrap();
                    let slot: usize = s.parse().unwrap();
                    let gnr = generation.entry(slot).or_insert(0);
                    *gnr += 1;
                    reg_req.insert(r, (slot, *gnr));
                    pushes.insert((slot, *gnr), vec![]);
                }
            }
            "pu" => {
                let o: Vec<&str> = out.split('.').collect();
                if o[0] == "ok" {
                    let r: u32 = f[1].parse().unwrap();
                    let data = unhex(f[3]);
                    let len = if f[4] == "-" { data.len() } else { f[4].parse::<usize>().unwrap().max(data.len()) };
                    if let Some(q) = reg_req.get(&r) {
                        pushes.entry(*q).or_default().push(Pushed { code: cmd_code(f[2]), idx: o[2].parse().unwrap(), len, data });
                    }
                }
            }
            "re" => {
                let o: Vec<&str> = out.split('.').collect();
                if o[0] == "some" {
                    let r: u32 = f[1].parse().unwrap();
                    let k: usize = o[1].parse().unwrap();
                    let data = unhex(f[3]);
                    if let Some(q) = reg_req.get(&r) {
                        pushes.entry(*q).or_default().push(Pushed { code: cmd_code(f[2]), idx: o[3].parse().unwrap(), len: k, data: data[..k].to_vec() });
                    }
                }
            }
            "df" | "po" => {
                if (f[0] == "df" && out == "ok") || (f[0] == "po" && out.starts_with("ready.err")) {
                    if let Some(q) = reg_req.get(&f[1].parse().unwrap()) {
                        abandoned.insert(*q);
                    }
                }
            }
            "tn" => {
                if let Some(s) = out.strip_prefix("some.") {
                    let slot: usize = s.parse().unwrap();
                    tx_slot.insert(f[1].parse().unwrap(), (slot, *generation.get(&slot).unwrap_or(&0)));
                }
            }
            "ts" => {
                let Some((_tag, h)) = out.split_once('.') else { continue };
                if h.is_empty() {
                    continue;
                }
                let bytes = unhex(h);
                let r: u32 = f[1].parse().unwrap();
                let Some((slot, g0)) = tx_slot.get(&r).copied() else { continue };
                let cur = *generation.get(&slot).unwrap_or(&0);
                // a send completing after its request was abandoned (or the slot re-allocated) is C06's
                // window (known finding there), not a frame-building question; the stale completion may
                // also mark the slot's CURRENT request as sent before it was: consequences are skipped too
                if cur != g0 || abandoned.contains(&(slot, g0)) {
                    tainted.insert((slot, cur));
                    continue;
                }
                if tainted.contains(&(slot, cur)) {
                    continue;
                }
                let want = pushes.get(&(slot, g0)).cloned().unwrap_or_default();
                if want.is_empty() {
                    continue; // frame without datagrams (marked sendable empty): nothing to compare
                }
                let ds = dgrams(&bytes);
                if bytes.len() < 16 || bytes[0..6] != [0xff; 6] || bytes[6..12] != [0x10; 6] || bytes[12..14] != [0x88, 0xa4] {
                    rep.fail("c04r/ethernet-header", "Ethernet header of a transmitted frame is wrong", line);
                    continue;
                }
                let hdr = u16::from_le_bytes([bytes[14], bytes[15]]);
                if (hdr & 0x7ff) as usize != bytes.len() - 16 || hdr >> 12 != 1 {
                    rep.fail("c04r/length-field", "EtherCAT length field does not equal the datagram bytes that follow", line);
                }
                if ds.len() != want.len() {
                    rep.fail("c04r/datagram-count", &format!("{} datagrams on the wire, {} pushed", ds.len(), want.len()), line);
                    continue;
                }
                for (i, ((p, len), w)) in ds.iter().zip(want.iter()).enumerate() {
                    let d = &bytes[*p..*p + 12 + *len];
                    if d[0] != w.code || d[1] != w.idx || *len != w.len {
                        rep.fail("c04r/datagram-header", &format!("datagram {i}: code/index/length differ from what was pushed"), line);
                        continue;
                    }
                    if d[8..10] != [0, 0] {
                        rep.fail("c04r/irq", &format!("datagram {i}: interrupt field not zero"), line);
                    }
                    if d[10..10 + w.data.len()] != w.data[..] {
                        rep.fail("c04r/data", &format!("datagram {i}: data differs from what was pushed"), line);
                    }
                    if d[10 + w.data.len()..10 + len].iter().any(|b| *b != 0) {
                        rep.fail("c04r/padding", &format!("datagram {i}: padding after the data is not zero (stale bytes from the slot's past)"), line);
                    }
                    if d[10 + len..12 + len] != [0, 0] {
                        rep.fail("c04r/wkc", &format!("datagram {i}: working counter field not zero on transmission"), line);
                    }
                    let more = u16::from_le_bytes([d[6], d[7]]) & 0x8000 != 0;
                    if more != (i + 1 < want.len()) {
                        rep.fail("c04r/more-follows", &format!("datagram {i}: more-follows flag wrong"), line);
                    }
                }
            }
            _ => {}
        }
    }
}

fn one_case(rng: &mut Rng, n: usize, data: usize, rep: &mut Report) {
    let knobs = Knobs {
        alloc: 12, push: 14, mark: 12, drop_created: 1, txnext: 12, txsend_fail: 1, rx_genuine: 12, rx_garbage: 1,
        rx_longer: 5, poll: 10, drop_fut: 2, read: 8, advance: 2, reset: 0, snap_every_op: false, max_retries: 1, timeout_us: 1000,
    };
    let mut g = Gen::new("c04r", rng, n, data, knobs);
    let steps = rng.range(20, 120);
    for _ in 0..steps {
        g.random_step();
    }
    g.snap();
    let line = g.line();
    monitor(&g, rep, &line);
    // building, queueing, sending and receiving never panic, whatever the history of the slot
    if let Some(k) = g.outs.iter().position(|o| o == "panic") {
        rep.fail("c04r/panic", &format!("operation {} ({}) panicked", k, g.ops[k].split(',').next().unwrap_or("")), &line);
    }
    let sends = g.ops.iter().filter(|o| o.starts_with("ts,")).count();
    rep.hit(&format!("sends~{}", (sends / 4) * 4));
    if sends >= 3 {
        rep.nontrivial.insert(line.clone());
    }
    let out = g.out_line();
    rep.case(line, out);
}

fn main() {
    let args = ecverif::parse_args();
    let mut rep = Report::default();
    if let Some(cases) = ecverif::replay_cases(&args) {
        for c in cases.iter().filter(|c| c.starts_with("c04r ")) {
            let (out, _w) = ecverif::seq::run_line(c);
            rep.case(c.clone(), out);
        }
    } else {
        let mut rng = Rng::new(args.seed ^ 0xc04e);
        let cases = if args.tier == "thorough" { 20000 } else { 5000 };
        for i in 0..cases {
            let n = [1usize, 1, 2][(i % 3) as usize];
            let data = rng.range(28, 90) as usize;
            one_case(&mut rng, n, data, &mut rep);
        }
    }
    rep.write(&args.out, "c04r");
}
