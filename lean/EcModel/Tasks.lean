/-
  EcModel.Tasks — several cooperative tasks sharing one MainDevice, at AWAIT-POINT granularity
  (property C20).  The code between two awaits of a task runs without interleaving, as on a
  cooperative executor; OS-thread interleavings inside those sections are the business of the
  micro-step model (C01/C02).

  What is translated (names of the Rust items):
    src/pdu_loop/storage.rs            alloc_frame            -> `allocLoop` / `alloc`   (2n rounds of fetch_add on the u8 cursor)
                                       frame_index_by_first_pdu_index -> `route`        (first slot in `Sent` whose marker equals the index)
                                       PduStorage.pdu_idx     -> `St.total` (unwrapped ghost; the wire index is `total % 256`)
    src/pdu_loop/frame_element/frame_box.rs next_pdu_idx      -> one index per datagram: `extra rq + 1` per request
    src/pdu_loop/pdu_rx.rs             receive_frame          -> `deliver` (route by the FIRST index of the returned frame, store, wake)
    src/pdu_loop/frame_element/receiving_frame.rs ReceiveFrameFut::poll (RxDone -> Ready) + ReceivedFrame::drop -> `consume`
    src/subdevice_group/mod.rs         tx_rx: `self.pdi.write()` + process_received_pdi_chunk -> the `img` update in `consume`
    every `Command::…send/receive`, `tx_rx`, mailbox/SDO/EEPROM transaction -> a task program `tasks t : List Rs → Option Rq`:
        the next request is a function of the responses received so far (an operation is a sequence of
        requests; a task awaits every response before it issues its next request).

  The segment is ABSTRACT: any `seg : σ → Rq → σ × Rs`.  Frames reach it with arbitrary latencies
  (any in-flight request may be the next to arrive: `Act.arrive`), it processes them in arrival
  order, and the responses come back with arbitrary latencies (`Act.deliver`), hence in any order.

  Ghost state (not in the Rust code, used only to state the theorems): `Entry.abs` (the unwrapped
  index), `Entry.req`, the position of the frame of an in-flight request (`Stage.out`/`Stage.back`:
  both are slot state `Sent`), and `St.log` (what the segment processed, in its order).

  ONE SLOT PER IN-FLIGHT REQUEST.  A task holds a slot from `issue` to `consume` and never two at a
  time: `issue` is enabled only when the task holds no slot.  This is how the code at the pinned
  revision behaves for every operation the harness drives, also for operations of several frames:
    * `SubDeviceGroup::tx_rx` — the `ReceivedPduIter` (`pdus`, owner of the `ReceivedFrame`, slot in
      `RxProcessing`) is a local of the loop body and is dropped at the end of each iteration, i.e.
      BEFORE the next iteration's `alloc_frame()`; a cycle of k frames needs one slot, k times;
    * `Command::…::receive*/send*`, the mailbox and SII transactions — every `ReceivedPdu` is consumed
      (copied/unpacked) before the next request is built.
  The harness checks exactly this on the real code (c20.rs: groups whose cycle spans 2..5 frames on
  storages with one slot per task; monitor `c20/spurious-swapstate` = an operation failed with
  SwapState while fewer frames were IN FLIGHT than the storage holds).  A change that keeps a response
  alive across the next `alloc_frame` (two slots for one frame in flight) breaks the correspondence
  there: the model predicts `f=0` and a result for the operation, the code returns SwapState.
  Known exception by reading (not reachable with the simulated CoE server, whose segmented upload
  ethercrab cannot decode): `Coe::sdo_read` keeps the initiate response alive during a SEGMENTED upload.

  Not modelled here (assumptions of C20, see Props/C20.lean): PDU timeouts and retries (timeouts are
  large: a slot is released only by its requester picking up the response), a second task cycling
  the SAME group.

  Facts this model takes from other properties as explicitly named hypotheses / fields:
    C01 (deliver-exact routing)      the response frame carries the first index it was sent with (`Entry.idx` is used for
                                     routing the response of that very entry) and `deliver` copies exactly that response;
    C03 (allocation completeness)    re-proved here for the atomic `alloc` (`alloc_never_spurious`);
    C07/C08 (window disjointness)    `WindowsDisjoint` hypothesis of `lrw_commute` (logical windows of different groups).
-/
namespace Ec.Tasks

/-- Where the frame of a request is.  `out`/`back` are slot state `Sent`; `done` is `RxDone`.
    `uid` (ghost) names the frame on the wire: the number of frames sent before it. -/
inductive Stage (Rq Rs : Type) where
  /-- sent, on its way to the segment (carries the request as transmitted) -/
  | out (uid : Nat) (rq : Rq)
  /-- processed by the segment; the response is on its way back -/
  | back (uid : Nat) (rs : Rs)
  /-- `receive_frame` stored the response in the slot and woke the requester -/
  | done (rs : Rs)

def Stage.awaiting {Rq Rs : Type} : Stage Rq Rs → Bool
  | .out _ _ => true
  | .back _ _ => true
  | .done _ => false

/-- The request still travelling to the segment, if any. -/
def Stage.req? {Rq Rs : Type} : Stage Rq Rs → Option Rq
  | .out _ rq => some rq
  | _ => none

/-- The segment's response (travelling back or already stored), if any. -/
def Stage.resp? {Rq Rs : Type} : Stage Rq Rs → Option Rs
  | .out _ _ => none
  | .back _ rs => some rs
  | .done rs => some rs

/-- A claimed frame slot. -/
structure Entry (Rq Rs : Type) where
  /-- the task whose future holds the slot -/
  task : Nat
  /-- ghost: number of datagram indices handed out before this request; the marker is `abs % 256` -/
  abs : Nat
  /-- what the requester asked (it remembers this in its future) -/
  req : Rq
  stage : Stage Rq Rs

/-- `first_pdu` marker of the slot: wire index of the first datagram. -/
def Entry.idx {Rq Rs : Type} (e : Entry Rq Rs) : Nat := e.abs % 256

/-- The system around the MainDevice: the segment, the task programs, and what a request is. -/
structure Sys (Rq Rs σ : Type) where
  /-- the segment: processes one frame, in arrival order -/
  seg : σ → Rq → σ × Rs
  /-- program of task `t`: next request given the responses received so far (`none`: finished) -/
  tasks : Nat → List Rs → Option Rq
  /-- datagrams in the frame after the first one (each takes one index) -/
  extra : Rq → Nat
  /-- `some g`: the request is a process-data cycle of group `g` (its response is copied into `g`'s image) -/
  grp : Rq → Option Nat
  /-- `process_received_pdi_chunk`: new image of the group from the response and the old image -/
  inputs : Rq → Rs → List Nat → List Nat

/-- State of MainDevice + network + segment + tasks. -/
structure St (Rq Rs σ : Type) where
  /-- the `n` frame slots (`none` = `FrameState::None`) -/
  slots : List (Option (Entry Rq Rs))
  /-- `frame_idx` -/
  cursor : Nat
  /-- ghost: datagram indices handed out so far (`pdu_idx = total % 256`) -/
  total : Nat
  /-- ghost: frames sent so far (names the next frame) -/
  sent : Nat
  seg : σ
  /-- per task: the responses it has picked up, oldest first (its result sequence) -/
  got : Nat → List Rs
  /-- per task: number of `alloc_frame` calls that failed with `SwapState` -/
  fails : Nat → Nat
  /-- per group: process image held by the MainDevice -/
  img : Nat → List Nat
  /-- ghost: (task, request, response) in the order the segment processed the frames -/
  log : List (Nat × Rq × Rs)

def upd {α : Type} (f : Nat → α) (t : Nat) (v : α) : Nat → α := fun u => if u = t then v else f u

/-- Function update by an optional binding (kept first-order so that the compiled driver evaluates
    the new value once, when the update is made). -/
def updOpt {α : Type} (f : Nat → α) : Option (Nat × α) → Nat → α
  | none, u => f u
  | some (g, v), u => if u = g then v else f u

def slotAt {α : Type} (l : List (Option α)) (i : Nat) : Option α := l.getD i none

/-- First slot (in slot order) whose entry is selected by `f`. -/
def findSlotFrom {α β : Type} (f : α → Option β) : List (Option α) → Nat → Option (Nat × α × β)
  | [], _ => none
  | none :: r, i => findSlotFrom f r (i + 1)
  | some e :: r, i =>
    match f e with
    | some b => some (i, e, b)
    | none => findSlotFrom f r (i + 1)

def findSlot {α β : Type} (f : α → Option β) (l : List (Option α)) : Option (Nat × α × β) :=
  findSlotFrom f l 0

/-- Number of slots that are not free (frames "in flight" in the sense of the property: claimed
    and not yet released by their requester). -/
def inFlight {α : Type} (l : List (Option α)) : Nat := l.countP Option.isSome

/-- `alloc_frame`: `fuel` rounds of `frame_idx.fetch_add(1) % num_frames` + `claim_created`. -/
def allocLoop {α : Type} (l : List (Option α)) : Nat → Nat → Option Nat × Nat
  | c, 0 => (none, c)
  | c, fuel + 1 =>
    let k := c % 256 % l.length
    if (slotAt l k).isNone ∧ k < l.length then (some k, (c + 1) % 256) else allocLoop l ((c + 1) % 256) fuel

def alloc {α : Type} (l : List (Option α)) (c : Nat) : Option Nat × Nat := allocLoop l c (2 * l.length)

variable {Rq Rs σ : Type}

/-- `frame_index_by_first_pdu_index`: first slot awaiting a response whose marker equals `idx`. -/
def selRoute (idx : Nat) (e : Entry Rq Rs) : Option Unit :=
  if e.stage.awaiting = true ∧ e.idx = idx then some () else none

def route (l : List (Option (Entry Rq Rs))) (idx : Nat) : Option (Nat × Entry Rq Rs × Unit) :=
  findSlot (selRoute idx) l

def selTask (t : Nat) (e : Entry Rq Rs) : Option Unit := if e.task = t then some () else none

/-- The slot waiting for frame `u`, which is still on its way to the segment. -/
def selOut (u : Nat) (e : Entry Rq Rs) : Option Rq :=
  match e.stage with
  | .out u' rq => if u' = u then some rq else none
  | _ => none

/-- The slot waiting for frame `u`, whose response is on its way back. -/
def selBack (u : Nat) (e : Entry Rq Rs) : Option Rs :=
  match e.stage with
  | .back u' rs => if u' = u then some rs else none
  | _ => none

def selDone (t : Nat) (e : Entry Rq Rs) : Option Rs :=
  if e.task = t then (match e.stage with | .done rs => some rs | _ => none) else none

/-- One scheduling decision. -/
inductive Act where
  /-- task `t` is polled and issues its next request (alloc + push + mark_sendable + wake_sender; TX sends it) -/
  | issue (t : Nat)
  /-- frame `u` (the `u`-th frame sent) reaches the segment and is processed -/
  | arrive (u : Nat)
  /-- the response to frame `u` reaches `PduRx::receive_frame` -/
  | deliver (u : Nat)
  /-- task `t` is polled, finds its response, uses it and releases the slot -/
  | consume (t : Nat)

/-- Task `t` polled while it has no request outstanding: `alloc_frame`, pushes, `mark_sendable`,
    `wake_sender` happen in one poll, and the TX side sends the frame before anybody else runs.
    If `alloc_frame` fails the operation returns `Err(SwapState)` to the program; here the failure is
    counted in `fails` and the task stays where it was (the theorems show when this cannot happen). -/
def issue (S : Sys Rq Rs σ) (st : St Rq Rs σ) (t : Nat) : St Rq Rs σ :=
  match findSlot (selTask t) st.slots with
  | some _ => st
  | none =>
    match S.tasks t (st.got t) with
    | none => st
    | some rq =>
      match alloc st.slots st.cursor with
      | (none, c) => { st with cursor := c, fails := upd st.fails t (st.fails t + 1) }
      | (some k, c) =>
        { st with cursor := c, total := st.total + S.extra rq + 1, sent := st.sent + 1,
                  slots := st.slots.set k (some ⟨t, st.total, rq, .out st.sent rq⟩) }

/-- The segment processes frame `u`. -/
def arrive (S : Sys Rq Rs σ) (st : St Rq Rs σ) (u : Nat) : St Rq Rs σ :=
  match findSlot (selOut u) st.slots with
  | none => st
  | some (j, e, rq) =>
    { st with seg := (S.seg st.seg rq).1,
              slots := st.slots.set j (some { e with stage := .back u (S.seg st.seg rq).2 }),
              log := st.log ++ [(e.task, rq, (S.seg st.seg rq).2)] }

/-- `receive_frame` on the response to frame `u`, sent from slot `j`.  The frame only carries its
    first index: the slot it is stored in is whatever `route` finds.  If that is another slot `j'`
    (index collision), `j'` gets this response, and the frame that was travelling for `j'` — it has
    the same index, the MainDevice cannot tell them apart — is from now on the one slot `j` waits for. -/
def deliver (st : St Rq Rs σ) (u : Nat) : St Rq Rs σ :=
  match findSlot (selBack u) st.slots with
  | none => st
  | some (j, e, rs) =>
    match route st.slots e.idx with
    | none => st
    | some (j', e', _) =>
      { st with slots := (st.slots.set j (some { e with stage := e'.stage })).set j' (some { e' with stage := .done rs }) }

/-- `tx_rx` after the await: if the request was a cycle of group `g`, the new image of `g`. -/
def imgWrite (S : Sys Rq Rs σ) (img : Nat → List Nat) (rq : Rq) (rs : Rs) : Option (Nat × List Nat) :=
  match S.grp rq with
  | some g => some (g, S.inputs rq rs (img g))
  | none => none

/-- Task `t` picks up its response (future `Ready`), uses it, drops the `ReceivedFrame`.  Every poll
    of a task whose slot is in `RxDone` does this; a poll that finds nothing changes nothing (the
    recorded schedules of the harness contain one `consume t` per poll of `t`). -/
def consume (S : Sys Rq Rs σ) (st : St Rq Rs σ) (t : Nat) : St Rq Rs σ :=
  match findSlot (selDone t) st.slots with
  | none => st
  | some (j, e, rs) =>
    { st with slots := st.slots.set j none,
              got := upd st.got t (st.got t ++ [rs]),
              img := updOpt st.img (imgWrite S st.img e.req rs) }

def step (S : Sys Rq Rs σ) (st : St Rq Rs σ) : Act → St Rq Rs σ
  | .issue t => issue S st t
  | .arrive t => arrive S st t
  | .deliver t => deliver st t
  | .consume t => consume S st t

def run (S : Sys Rq Rs σ) (st : St Rq Rs σ) : List Act → St Rq Rs σ
  | [] => st
  | a :: rest => run S (step S st a) rest

/-- `n` free slots, counters at arbitrary values (the MainDevice has been used before, e.g. by `init`). -/
def St.init (n cursor total : Nat) (s0 : σ) (img0 : Nat → List Nat) : St Rq Rs σ :=
  { slots := List.replicate n none, cursor := cursor, total := total, sent := 0, seg := s0,
    got := fun _ => [], fails := fun _ => 0, img := img0, log := [] }

/-! ### The < 256 indices assumption -/

/-- Fewer than 256 datagram indices were handed out since any request still awaiting its response
    was allocated (so the wrapping `u8` counter cannot have come round to its first index). -/
def WindowOk (st : St Rq Rs σ) : Prop :=
  ∀ i e, slotAt st.slots i = some e → e.stage.awaiting = true → st.total - e.abs < 256

/-- The schedule respects the window assumption at every `issue`. -/
def Admissible (S : Sys Rq Rs σ) : St Rq Rs σ → List Act → Prop
  | _, [] => True
  | st, a :: rest => ((∃ t, a = .issue t) → WindowOk st) ∧ Admissible S (step S st a) rest

/-- States reachable from a fresh MainDevice by a schedule that respects the window assumption. -/
def Reach (S : Sys Rq Rs σ) (n cursor total : Nat) (s0 : σ) (img0 : Nat → List Nat) (st : St Rq Rs σ) : Prop :=
  ∃ sched, Admissible S (St.init n cursor total s0 img0) sched ∧ st = run S (St.init n cursor total s0 img0) sched

/-- Executable form of `WindowOk` (used by the driver and by the non-vacuity examples). -/
def windowOkB (st : St Rq Rs σ) : Bool :=
  st.slots.all fun o =>
    match o with
    | none => true
    | some e => !e.stage.awaiting || decide (st.total - e.abs < 256)

def admissibleB (S : Sys Rq Rs σ) : St Rq Rs σ → List Act → Bool
  | _, [] => true
  | st, a :: rest =>
    (match a with
     | .issue _ => windowOkB st
     | _ => true) && admissibleB S (step S st a) rest

/-- Only tasks `0 .. m-1` ever issue requests. -/
def TasksBelow (m : Nat) : List Act → Prop
  | [] => True
  | a :: rest => (∀ t, a = .issue t → t < m) ∧ TasksBelow m rest

/-! ### Sequential reference executions -/

/-- Sequential execution of a list of requests: the responses and the final segment state. -/
def seqRun (seg : σ → Rq → σ × Rs) : σ → List Rq → List Rs × σ
  | s, [] => ([], s)
  | s, rq :: rest => ((seg s rq).2 :: (seqRun seg (seg s rq).1 rest).1, (seqRun seg (seg s rq).1 rest).2)

/-- Task program run ALONE against the segment for at most `fuel` requests, from history `h`:
    the responses it gets. -/
def alone (seg : σ → Rq → σ × Rs) (next : List Rs → Option Rq) : Nat → σ → List Rs → List Rs
  | 0, _, h => h
  | fuel + 1, s, h =>
    match next h with
    | none => h
    | some rq => alone seg next fuel (seg s rq).1 (h ++ [(seg s rq).2])

def reqsOf (t : Nat) (log : List (Nat × Rq × Rs)) : List Rq := (log.filter (fun x => x.1 == t)).map (fun x => x.2.1)
def respsOf (t : Nat) (log : List (Nat × Rq × Rs)) : List Rs := (log.filter (fun x => x.1 == t)).map (fun x => x.2.2)

/-- The log is what sequential execution from `s` produces: every logged response is the segment's
    answer to its request in the state left by the requests logged before it. -/
def Valid (seg : σ → Rq → σ × Rs) : σ → List (Nat × Rq × Rs) → Prop
  | _, [] => True
  | s, x :: rest => (seg s x.2.1).2 = x.2.2 ∧ Valid seg (seg s x.2.1).1 rest

/-- Segment state after the logged requests. -/
def endState (seg : σ → Rq → σ × Rs) : σ → List (Nat × Rq × Rs) → σ
  | s, [] => s
  | s, x :: rest => endState seg (seg s x.2.1).1 rest

/-- Program order: the `k`-th request is what the program asks for after the first `k` responses. -/
def Follows (next : List Rs → Option Rq) (reqs : List Rq) (resps : List Rs) : Prop :=
  ∀ k rq, reqs[k]? = some rq → next (resps.take k) = some rq

/-- `a` can be moved behind `b` (or dropped in front of `b`) without `b` noticing: same response
    for `b`, same final state either way round.  This is what "the two requests touch disjoint
    device state" means for an abstract segment. -/
def Commute (seg : σ → Rq → σ × Rs) (a b : Rq) : Prop :=
  ∀ s, (seg (seg s a).1 b).2 = (seg s b).2 ∧ (seg (seg s a).1 b).1 = (seg (seg s b).1 a).1

/-! ### Operations: a program is a list of operations, an operation a sequence of requests -/

/-- One operation (process-data cycle, register access, SDO/EEPROM transaction): the next request
    given the responses received so far WITHIN the operation; `none` = the operation is complete. -/
structure Op (Rq Rs : Type) where
  next : List Rs → Option Rq

/-- A single-request operation: a `tx_rx` of a small group, a register read or write. -/
def Op.single (rq : Rq) : Op Rq Rs := ⟨fun seen => if seen.isEmpty then some rq else none⟩

/-- A fixed sequence of requests (mailbox write, status polls, mailbox read, …). -/
def Op.script (rqs : List Rq) : Op Rq Rs := ⟨fun seen => rqs[seen.length]?⟩

/-- Program of operations as a task: walk the operations, feeding each the responses it consumed. -/
def progNext : List (Op Rq Rs) → List Rs → List Rs → Option Rq
  | [], _, _ => none
  | op :: ops, seen, rem =>
    match op.next seen with
    | none => progNext ops [] rem
    | some rq =>
      match rem with
      | [] => some rq
      | r :: rem' => progNext (op :: ops) (seen ++ [r]) rem'
termination_by ops _ rem => (rem.length, ops.length)

def Op.prog (ops : List (Op Rq Rs)) : List Rs → Option Rq := fun h => progNext ops [] h

/-! ### Logical process-data memory: the segment side of a cycle (for `images_separate`) -/

/-- `LRW` over `[start, start + data.length)` of a logical memory in which address `a` is mapped to
    an input (device → MainDevice) iff `isIn a`: inputs are read, outputs are written. -/
def lrw (isIn : Nat → Bool) (m : Nat → Nat) (rq : Nat × List Nat) : (Nat → Nat) × List Nat :=
  (fun a => if rq.1 ≤ a ∧ a < rq.1 + rq.2.length ∧ isIn a = false then rq.2.getD (a - rq.1) 0 else m a,
   (List.range rq.2.length).map (fun k => if isIn (rq.1 + k) then m (rq.1 + k) else rq.2.getD k 0))

/-- The logical windows of two cycles do not overlap (C07/C08: groups get consecutive, disjoint PDI ranges). -/
def WindowsDisjoint (a b : Nat × List Nat) : Prop :=
  a.1 + a.2.length ≤ b.1 ∨ b.1 + b.2.length ≤ a.1

end Ec.Tasks
