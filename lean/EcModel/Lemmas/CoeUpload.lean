/-
  C15 helper lemmas: `sdo_read` on the expedited / normal upload responses of the specification server.
-/
import EcModel.Lemmas.CoeReply

namespace Ec.Coe
open Ec Ec.Gen.Coe

theorem validMbx3 : validDisc mailboxType 3 = true := by decide
theorem validSvc3 : validDisc coeService 3 = true := by decide
theorem validSvc2 : validDisc coeService 2 = true := by decide
theorem validCmd2 : validDisc coeCommand 2 = true := by decide
theorem validCmd4 : validDisc coeCommand 4 = true := by decide
theorem validCmd3 : validDisc coeCommand 3 = true := by decide

/-- The header an honest SDO response decodes to. -/
def respHeader (length c : Nat) : MbxHeader := { length := length, priority := 0, mailboxType := 3, counter := c % 8 }

/-- `mailbox_write_read`'s triage accepts the expedited upload response for the object that was asked for and hands
    the caller its decoded header and the data area. -/
theorem triage_expedited (cfg : Cfg) (c index sub : Nat) (complete : Bool) (obj : List Nat)
    (h1 : 1 ≤ obj.length) (h4 : obj.length ≤ 4) (hi : index < 65536) (hr : 16 ≤ cfg.rmbx) :
    triage cfg unpackSdoNormal (validateIdx index sub)
        (mkPdu cfg (image cfg.rmbx (CoeSrv.expeditedResponse c index sub complete obj))) =
      .ok ({ header := respHeader 10 c, service := 3, sizeIndicator := true, expedited := true,
             size := 4 - obj.length, completeAccess := complete, command := 2, index := index, subIndex := sub },
           obj ++ zeros (4 - obj.length) ++ zeros (cfg.rmbx - 16)) := by
  have hb := bits_expedited obj.length complete h1 h4
  have hlen : ([0x43 + 4 * (4 - obj.length) + CoeSrv.completeBit complete, index % 256, index / 256 % 256, sub] ++ obj ++
      zeros (4 - obj.length)).length = 8 := by
    simp [zeros]; omega
  have himg : image cfg.rmbx (CoeSrv.expeditedResponse c index sub complete obj) =
      10 :: 0 :: 0 :: 0 :: 0 :: (3 + 16 * (c % 8)) :: 0 :: 48 ::
        (0x43 + 4 * (4 - obj.length) + CoeSrv.completeBit complete) :: (index % 256) :: (index / 256 % 256) :: sub ::
        (obj ++ zeros (4 - obj.length) ++ zeros (cfg.rmbx - 16)) := by
    have hl : (CoeSrv.expeditedResponse c index sub complete obj).length = 16 := by
      unfold CoeSrv.expeditedResponse CoeSrv.frame
      simp only [List.length_append, hlen, List.length_cons, List.length_nil]
    rw [image_of_le _ _ (by rw [hl]; omega), hl]
    unfold CoeSrv.expeditedResponse CoeSrv.frame
    rw [hlen]
    simp
  rw [triage_eq_bytes _ _ _ _ (mkPdu_ok _ _), mkPdu_bytes, himg]
  unfold triageB
  rw [unpackCoeHeaders_cons _ _ _ _ _ _ _ _ _ (by rw [bits_type]; exact validMbx3)
    (by rw [show (48 : Nat) = 16 * 3 from rfl, bits_svc 3 (by decide)]; exact validSvc3)]
  rw [unpackHeadersRaw_cons _ _ _ _ _ _ _ _ _ _ _ _ _ (by rw [bits_type]; exact validMbx3)
    (by rw [show (48 : Nat) = 16 * 3 from rfl, bits_svc 3 (by decide)]; exact validSvc3)
    (by rw [hb.2.2.2.2]; exact validCmd2)]
  rw [unpackSdoNormal_cons _ _ _ _ _ _ _ _ _ _ _ _ _ (by rw [bits_type]; exact validMbx3)
    (by rw [show (48 : Nat) = 16 * 3 from rfl, bits_svc 3 (by decide)]; exact validSvc3)
    (by rw [hb.2.2.2.2]; exact validCmd2)]
  simp only [Res.bind_ok, show (48 : Nat) = 16 * 3 from rfl, bits_svc 3 (by decide), bits_type, bits_ctr, bits_prio0,
    hb.1, hb.2.1, hb.2.2.1, hb.2.2.2.1, hb.2.2.2.2, le16_index index hi, svcEmergency_eq, cmdAbort_eq, mbxCoe_eq,
    validateIdx, LEN_HeadersRaw]
  simp [respHeader]

/-- The same for the normal upload response carrying `part` and announcing `completeSize`. -/
theorem triage_normal (cfg : Cfg) (c index sub : Nat) (complete : Bool) (completeSize : Nat) (part : List Nat)
    (hi : index < 65536) (hfit : part.length + 16 ≤ cfg.rmbx) (hr : cfg.rmbx < 65536) :
    triage cfg unpackSdoNormal (validateIdx index sub)
        (mkPdu cfg (image cfg.rmbx (CoeSrv.normalResponse c index sub complete completeSize part))) =
      .ok ({ header := respHeader (10 + part.length) c, service := 3, sizeIndicator := true, expedited := false,
             size := 0, completeAccess := complete, command := 2, index := index, subIndex := sub },
           le32 completeSize ++ part ++ zeros (cfg.rmbx - (16 + part.length))) := by
  have hb := bits_normal complete
  have hlen : ([0x41 + CoeSrv.completeBit complete, index % 256, index / 256 % 256, sub] ++ le32 completeSize ++
      part).length = 8 + part.length := by
    simp [le32]; omega
  have himg : image cfg.rmbx (CoeSrv.normalResponse c index sub complete completeSize part) =
      ((10 + part.length) % 256) :: ((10 + part.length) / 256 % 256) :: 0 :: 0 :: 0 :: (3 + 16 * (c % 8)) :: 0 :: 48 ::
        (0x41 + CoeSrv.completeBit complete) :: (index % 256) :: (index / 256 % 256) :: sub ::
        (le32 completeSize ++ part ++ zeros (cfg.rmbx - (16 + part.length))) := by
    have hl : (CoeSrv.normalResponse c index sub complete completeSize part).length = 16 + part.length := by
      unfold CoeSrv.normalResponse CoeSrv.frame
      simp only [List.length_append, hlen, List.length_cons, List.length_nil]
      omega
    rw [image_of_le _ _ (by rw [hl]; omega), hl]
    unfold CoeSrv.normalResponse CoeSrv.frame
    rw [hlen]
    have e1 : 2 + (8 + part.length) = 10 + part.length := by omega
    rw [e1]
    simp
  rw [triage_eq_bytes _ _ _ _ (mkPdu_ok _ _), mkPdu_bytes, himg]
  unfold triageB
  rw [unpackCoeHeaders_cons _ _ _ _ _ _ _ _ _ (by rw [bits_type]; exact validMbx3)
    (by rw [show (48 : Nat) = 16 * 3 from rfl, bits_svc 3 (by decide)]; exact validSvc3)]
  rw [unpackHeadersRaw_cons _ _ _ _ _ _ _ _ _ _ _ _ _ (by rw [bits_type]; exact validMbx3)
    (by rw [show (48 : Nat) = 16 * 3 from rfl, bits_svc 3 (by decide)]; exact validSvc3)
    (by rw [hb.2.2.2.2]; exact validCmd2)]
  rw [unpackSdoNormal_cons _ _ _ _ _ _ _ _ _ _ _ _ _ (by rw [bits_type]; exact validMbx3)
    (by rw [show (48 : Nat) = 16 * 3 from rfl, bits_svc 3 (by decide)]; exact validSvc3)
    (by rw [hb.2.2.2.2]; exact validCmd2)]
  have hl16 : (10 + part.length) % 256 + 256 * ((10 + part.length) / 256 % 256) = 10 + part.length := by omega
  simp only [Res.bind_ok, show (48 : Nat) = 16 * 3 from rfl, bits_svc 3 (by decide), bits_type, bits_ctr, bits_prio0,
    hb.1, hb.2.1, hb.2.2.1, hb.2.2.2.1, hb.2.2.2.2, le16_index index hi, svcEmergency_eq, cmdAbort_eq, mbxCoe_eq,
    validateIdx, LEN_HeadersRaw, hl16]
  simp [respHeader]

theorem rd32_le32_append (n : Nat) (rest : List Nat) (h : n < 4294967296) : rd32 (le32 n ++ rest) = n := by
  simp [rd32, le32]; omega

/-- State of client + device after a request that was answered by exactly one message. -/
def afterOne {σ : Type} (cfg : Cfg) (s : St σ) (d' : σ) (req : List Nat) : St σ :=
  { ctr := nextCounter s.ctr, dev := d', outq := [], reqs := s.reqs ++ [image cfg.wmbx req],
    reads := s.reads + s.outq.length + 1 }

/-- `sdo_read` when the device answers the upload request with an expedited response for this object. -/
theorem sdoRead_expedited_reply {σ : Type} (w : World σ) (cfg : Cfg) (fuel bufLen index : Nat) (access : SubIndex)
    (s : St σ) (d' : σ) (c : Nat) (obj : List Nat) (hm : cfg.hasMailbox = true) (hq : s.outq.length ≤ DRAIN_ROUNDS)
    (hr : 16 ≤ cfg.rmbx) (hi : index < 65536) (h1 : 1 ≤ obj.length) (h4 : obj.length ≤ 4)
    (hresp : w.respond s.dev (image cfg.wmbx (uploadRequest s.ctr index access)) =
      (d', [CoeSrv.expeditedResponse c index access.subIndex access.completeAccess obj])) :
    sdoRead w cfg fuel bufLen index access s = (.ok obj, afterOne cfg s d' (uploadRequest s.ctr index access)) := by
  unfold sdoRead
  dsimp only [mailboxCounter]
  rw [mwr_single w cfg _ _ _ { ctr := nextCounter s.ctr, dev := s.dev, outq := s.outq, reqs := s.reqs, reads := s.reads }
    d' _ hm hq hresp, triage_expedited cfg c index _ _ obj h1 h4 hi hr]
  have hlen : 4 - (4 - obj.length) = obj.length := by omega
  simp only [EXPEDITED_MAX, hlen, List.length_append, zeros_length, if_true, afterOne]
  rw [if_pos (by omega), List.append_assoc, List.take_left']
  rfl

/-- `sdo_read` when the device answers with a normal response holding the whole object. -/
theorem sdoRead_normal_reply {σ : Type} (w : World σ) (cfg : Cfg) (fuel bufLen index : Nat) (access : SubIndex)
    (s : St σ) (d' : σ) (c : Nat) (obj : List Nat) (hm : cfg.hasMailbox = true) (hq : s.outq.length ≤ DRAIN_ROUNDS)
    (hfit : obj.length + 16 ≤ cfg.rmbx) (hr : cfg.rmbx < 65536) (hi : index < 65536)
    (hbuf : obj.length ≤ bufLen) (hb32 : bufLen < 4294967296)
    (hresp : w.respond s.dev (image cfg.wmbx (uploadRequest s.ctr index access)) =
      (d', [CoeSrv.normalResponse c index access.subIndex access.completeAccess obj.length obj])) :
    sdoRead w cfg fuel bufLen index access s = (.ok obj, afterOne cfg s d' (uploadRequest s.ctr index access)) := by
  unfold sdoRead
  dsimp only [mailboxCounter]
  rw [mwr_single w cfg _ _ _ { ctr := nextCounter s.ctr, dev := s.dev, outq := s.outq, reqs := s.reqs, reads := s.reads }
    d' _ hm hq hresp, triage_normal cfg c index _ _ obj.length obj hi hfit hr]
  have hu : unpackU32 (le32 obj.length ++ obj ++ zeros (cfg.rmbx - (16 + obj.length))) = .ok obj.length := by
    unfold unpackU32
    rw [if_neg (by simp [le32])]
    rw [List.append_assoc, rd32_le32_append _ _ (by omega)]
  have hdrop : (le32 obj.length ++ obj ++ zeros (cfg.rmbx - (16 + obj.length))).drop 4 =
      obj ++ zeros (cfg.rmbx - (16 + obj.length)) := by
    rw [List.append_assoc]
    exact List.drop_left' (le32_length _)
  simp only [respHeader, hu, hdrop, UPLOAD_HEADER_LEN, Bool.false_eq_true, if_false, afterOne]
  rw [if_neg (by rw [Nat.mod_eq_of_lt hb32]; omega), if_pos (by omega), if_pos (by simp)]
  have e : 10 + obj.length - 10 = obj.length := by omega
  rw [e, List.take_left']
  rfl

/-- A normal response announcing more than the destination can hold is reported as too long. -/
theorem sdoRead_too_long_reply {σ : Type} (w : World σ) (cfg : Cfg) (fuel bufLen index : Nat) (access : SubIndex)
    (s : St σ) (d' : σ) (c size : Nat) (part : List Nat) (hm : cfg.hasMailbox = true)
    (hq : s.outq.length ≤ DRAIN_ROUNDS) (hfit : part.length + 16 ≤ cfg.rmbx) (hr : cfg.rmbx < 65536) (hi : index < 65536)
    (hbig : bufLen < size) (hs32 : size < 4294967296)
    (hresp : w.respond s.dev (image cfg.wmbx (uploadRequest s.ctr index access)) =
      (d', [CoeSrv.normalResponse c index access.subIndex access.completeAccess size part])) :
    sdoRead w cfg fuel bufLen index access s =
      (.err (.tooLong index access.subIndex), afterOne cfg s d' (uploadRequest s.ctr index access)) := by
  unfold sdoRead
  dsimp only [mailboxCounter]
  rw [mwr_single w cfg _ _ _ { ctr := nextCounter s.ctr, dev := s.dev, outq := s.outq, reqs := s.reqs, reads := s.reads }
    d' _ hm hq hresp, triage_normal cfg c index _ _ size part hi hfit hr]
  have hu : unpackU32 (le32 size ++ part ++ zeros (cfg.rmbx - (16 + part.length))) = .ok size := by
    unfold unpackU32
    rw [if_neg (by simp [le32])]
    rw [List.append_assoc, rd32_le32_append _ _ hs32]
  simp only [respHeader, hu, Bool.false_eq_true, if_false, afterOne]
  rw [if_pos (by have := Nat.mod_le bufLen 4294967296; omega)]

end Ec.Coe
