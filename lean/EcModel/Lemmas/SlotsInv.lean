/-
  Preservation of the ownership invariant `J` by every API operation of the storage model.
-/
import EcModel.Lemmas.SlotsStep

namespace Ec

/-- The slot `alloc_frame` writes on success (`claim_created` + `FrameBox::init`). -/
def freshSlot (data : Nat) : Slot := ⟨.created, Gen.FIRST_PDU_EMPTY, 0, ethHeader ++ zeros (data - 14)⟩

theorem allocLoop_some {s s' : Sys} {fuel i : Nat} (hn : 0 < s.n) (h : allocLoop s fuel = (s', some i)) :
    i < s.n ∧ (s.slot i).st = .none ∧
    ∃ f, s' = ({ s with frameIdx := f } : Sys).setSlot i (freshSlot s.data) := by
  induction fuel generalizing s with
  | zero => simp [allocLoop] at h
  | succ fuel ih =>
    simp only [allocLoop] at h
    split at h
    · next hnone =>
      simp only [Prod.mk.injEq, Option.some.injEq] at h
      obtain ⟨h1, h2⟩ := h
      subst h2
      exact ⟨Nat.mod_lt _ hn, hnone, _, h1.symm⟩
    · obtain ⟨a, b, f, c⟩ := ih (s := { s with frameIdx := (s.frameIdx + 1) % 256 }) hn h
      exact ⟨a, b, f, c⟩

theorem allocLoop_none {s s' : Sys} {fuel : Nat} (h : allocLoop s fuel = (s', none)) :
    ∃ f, s' = { s with frameIdx := f } := by
  induction fuel generalizing s with
  | zero => simp only [allocLoop, Prod.mk.injEq] at h; exact ⟨s.frameIdx, h.1.symm⟩
  | succ fuel ih =>
    simp only [allocLoop] at h
    split at h
    · simp at h
    · obtain ⟨f, c⟩ := ih (s := { s with frameIdx := (s.frameIdx + 1) % 256 }) h
      exact ⟨f, c⟩

theorem J_opAlloc {w : World} (hJ : J w.1 w.2) (r : Nat) (hf : ∀ h ∈ w.2, h.reg ≠ r) :
    J (opAlloc w r).1.1 (opAlloc w r).1.2 := by
  unfold opAlloc
  split
  · next s' i e =>
    obtain ⟨hi, hnone, f, rfl⟩ := allocLoop_some hJ.pos e
    have hJ' : J { w.1 with frameIdx := f } w.2 := hJ.congr rfl
    refine hJ'.put_owner (.created 0 none) (by simp [HK.cls]) i r _ hi (by simp [St.cls, HK.cls, freshSlot]) ?_ ?_
    · intro h hm hr; exact absurd hr (hf h hm)
    · intro h hm _ ho es
      have := hJ.compat h hm ho
      rw [es, hnone] at this
      have := h.kind.cls_pos
      simp [St.cls] at *
      omega
  · next s' e =>
    obtain ⟨f, rfl⟩ := allocLoop_none e
    exact hJ.congr rfl

theorem frameSlot_st (x : Slot) (f : CFrame) (p : Option Nat) : (frameSlot x f p).st = x.st := rfl

theorem J_opPush {w : World} (hJ : J w.1 w.2) (r : Nat) (c : Cmd) (d : List Nat) (l : Option Nat) :
    J (opPush w r c d l).1.1 (opPush w r c d l).1.2 := by
  unfold opPush
  split
  · next reg k count last e =>
    have hm := (getH_some e).1
    have hc := hJ.compat _ hm (by simp [HK.cls])
    simp only
    split
    · have hJ' : J { w.1 with pduIdx := (w.1.pduIdx + 1) % 256 } w.2 := hJ.congr rfl
      exact hJ'.step_owner e (by simp [HK.cls]) (.created _ _) (by simp [HK.cls]) _ (by simpa [HK.cls, frameSlot_st] using hc)
    · exact hJ.congr rfl
  · exact hJ

theorem J_opRest {w : World} (hJ : J w.1 w.2) (r : Nat) (c : Cmd) (b : List Nat) :
    J (opRest w r c b).1.1 (opRest w r c b).1.2 := by
  unfold opRest
  split
  · next reg k count last e =>
    have hm := (getH_some e).1
    have hc := hJ.compat _ hm (by simp [HK.cls])
    simp only
    have hJ' : ∀ s1 : Sys, s1.slots = w.1.slots → J s1 w.2 := fun s1 e1 => hJ.congr e1
    split
    · refine (hJ' _ ?_).step_owner e (by simp [HK.cls]) (.created _ _) (by simp [HK.cls]) _ (by simpa [HK.cls, frameSlot_st] using hc)
      split <;> rfl
    · refine hJ' _ ?_; split <;> rfl
    · refine hJ' _ ?_; split <;> rfl
  · exact hJ

theorem J_opMark {w : World} (hJ : J w.1 w.2) (r retries timeout : Nat) :
    J (opMark w r retries timeout).1.1 (opMark w r retries timeout).1.2 := by
  unfold opMark
  split
  · next reg k count last e =>
    exact hJ.step_owner e (by simp [HK.cls]) (.fut _ _ _ _) (by simp [HK.cls]) _ (by simp [HK.cls, St.cls])
  · exact hJ

theorem J_opDropCreated {w : World} (hJ : J w.1 w.2) (r : Nat) :
    J (opDropCreated w r).1.1 (opDropCreated w r).1.2 := by
  unfold opDropCreated
  split
  · next reg k count last e =>
    have hm := (getH_some e).1
    have hc := hJ.compat _ hm (by simp [HK.cls])
    have hst : (w.1.slot k).st = .created := by
      revert hc; cases (w.1.slot k).st <;> simp [St.cls, HK.cls]
    simp only [hst, if_true]
    exact hJ.del_owner e (by simp [HK.cls]) _ rfl
  · exact hJ

theorem findIdx_some_slot {s : Sys} {p : Slot → Bool} {i : Nat} (h : findIdx p s.slots 0 = some i) :
    i < s.n ∧ p (s.slot i) = true ∧ ∀ j, j < i → p (s.slot j) = false := by
  have := findIdx_spec p s.slots 0 i h
  simpa [Sys.slot, Sys.n] using this.2

theorem J_opTxNext {w : World} (hJ : J w.1 w.2) (r : Nat) (hf : ∀ h ∈ w.2, h.reg ≠ r) :
    J (opTxNext w r).1.1 (opTxNext w r).1.2 := by
  unfold opTxNext
  split
  · exact hJ
  split
  · next i e =>
    obtain ⟨hi, hp, _⟩ := findIdx_some_slot e
    have hst : (w.1.slot i).st = .sendable := by simpa using hp
    refine (hJ.set i _ ?_ ?_).put_tx hf i
    · intro h hm ho es
      have := hJ.compat h hm ho
      rw [es, hst] at this
      simpa [St.cls] using this
    · intro _; rw [hst]; simp
  · exact hJ

theorem J_opTxSend {w : World} (hJ : J w.1 w.2) (r o : Nat) :
    J (opTxSend w r o).1.1 (opTxSend w r o).1.2 := by
  unfold opTxSend
  split
  · next reg k e =>
    simp only
    refine J.del_tx ?_ e (by simp [HK.cls])
    split
    · next hst =>
      refine hJ.set k _ ?_ ?_
      · intro h hm ho es
        have := hJ.compat h hm ho
        rw [es, hst] at this
        rw [← this]; split <;> simp [St.cls]
      · intro _; rw [hst]; simp
    · exact hJ
  · exact hJ

/-- What the delivery half of `receive_frame` can do (restated from C05 for use in lemmas). -/
theorem rxDeliver_effect (s : Sys) (p : List Nat) (i : Nat) :
    rxDeliver s p i = (s, .errDecode) ∨
    ∃ k, k < s.n ∧ (s.slot k).st = .sent ∧ (s.slot k).first = i ∧
      (rxDeliver s p i = (s.setSlot k { s.slot k with st := .rxDone, buf := setRange (s.slot k).buf 16 p }, .processed) ∨
       rxDeliver s p i = (s.setSlot k { s.slot k with st := .rxBusy }, .errInternal)) := by
  unfold rxDeliver
  split
  · left; rfl
  · next k hk =>
    obtain ⟨hlt, hp, _⟩ := findIdx_some_slot hk
    simp only [Bool.and_eq_true, beq_iff_eq] at hp
    have hkn : ¬ k ≥ s.n := by omega
    have hne : ¬ (s.slot k).st ≠ .sent := by simp [hp.2]
    rw [if_neg hkn, if_neg hne]
    right
    refine ⟨k, hlt, hp.2, hp.1, ?_⟩
    split
    · right; rfl
    · left; rfl

theorem receiveFrame_effect (s : Sys) (bytes : List Nat) :
    ((receiveFrame s bytes).1 = s ∧ (receiveFrame s bytes).2 ≠ .processed) ∨
    ∃ k, k < s.n ∧ (s.slot k).st = .sent ∧
      ((∃ p, receiveFrame s bytes = (s.setSlot k { s.slot k with st := .rxDone, buf := setRange (s.slot k).buf 16 p }, .processed)) ∨
       receiveFrame s bytes = (s.setSlot k { s.slot k with st := .rxBusy }, .errInternal)) := by
  unfold receiveFrame
  split
  · next e he =>
    left; refine ⟨rfl, ?_⟩
    intro h; simp only at h; subst h
    unfold rxParse at he
    repeat' split at he
    all_goals cases he
  · next p i he =>
    rcases rxDeliver_effect s p i with h | ⟨k, hk, hst, _, h | h⟩
    · left; rw [h]; exact ⟨rfl, by simp⟩
    · right; exact ⟨k, hk, hst, Or.inl ⟨p, h⟩⟩
    · right; exact ⟨k, hk, hst, Or.inr h⟩

theorem J_opRx {w : World} (hJ : J w.1 w.2) (b : List Nat) : J (opRx w b).1.1 (opRx w b).1.2 := by
  unfold opRx
  simp only
  rcases receiveFrame_effect w.1 b with ⟨h, _⟩ | ⟨k, hk, hst, h⟩
  · rw [h]; exact hJ
  · have key : ∀ y : Slot, (y.st = .rxDone ∨ y.st = .rxBusy) → J (w.1.setSlot k y) w.2 := by
      intro y hy
      refine hJ.set k y ?_ ?_
      · intro h hm ho es
        have := hJ.compat h hm ho
        rw [es, hst] at this
        rw [← this]; rcases hy with hy | hy <;> simp [hy, St.cls]
      · intro _; rw [hst]; simp
    rcases h with ⟨p, h⟩ | h <;> rw [h] <;> exact key _ (by simp)

/-- A fut handle's slot is in one of the five in-flight states. -/
theorem J.fut_state {s : Sys} {hs : List Hd} (hJ : J s hs) {h : Hd} (hm : h ∈ hs) (hk : h.kind.cls = 2) :
    (s.slot h.slot).st = .sendable ∨ (s.slot h.slot).st = .sending ∨ (s.slot h.slot).st = .sent ∨
    (s.slot h.slot).st = .rxBusy ∨ (s.slot h.slot).st = .rxDone := by
  have := hJ.compat h hm (by omega)
  rw [hk] at this
  revert this; cases (s.slot h.slot).st <;> simp [St.cls]

theorem setSlot_self (s : Sys) (k : Nat) : s.setSlot k (s.slot k) = s := by
  cases s with
  | mk data slots fi pi now ex =>
    simp only [Sys.setSlot, Sys.slot, Sys.mk.injEq, true_and, and_true]
    apply List.ext_getElem?
    intro i
    by_cases h : k = i
    · subst h
      by_cases hk : k < slots.length
      · simp [hk, List.getD_eq_getElem?_getD]
      · simp [hk]
    · simp [h]

/-- The owner handle in register `r` changes kind within its class; no slot changes. -/
theorem J.rekind {s : Sys} {hs : List Hd} (hJ : J s hs) {r : Nat} {h : Hd} (e : getH hs r = some h)
    (ho : h.kind.cls ≠ 4) (K : HK) (hK : K.cls = h.kind.cls) : J s (putH hs ⟨r, h.slot, K⟩) := by
  have hm := (getH_some e).1
  have := hJ.step_owner e ho K (by omega) (s.slot h.slot) (by rw [hK]; exact hJ.compat h hm ho)
  rwa [setSlot_self] at this

theorem J_opPoll {w : World} (hJ : J w.1 w.2) (r : Nat) : J (opPoll w r).1.1 (opPoll w r).1.2 := by
  unfold opPoll
  split
  · next reg k retries deadline timeout armed e =>
    have hm := (getH_some e).1
    have hst := hJ.fut_state hm (by simp [HK.cls])
    simp only at hst
    simp only
    by_cases hd : (w.1.slot k).st = .rxDone
    · rw [if_pos hd]
      exact hJ.step_owner e (by simp [HK.cls]) .received (by simp [HK.cls]) _ (by simp [HK.cls, St.cls])
    · rw [if_neg hd]
      have hok : (w.1.slot k).st = .sendable ∨ (w.1.slot k).st = .sending ∨ (w.1.slot k).st = .sent ∨
          (w.1.slot k).st = .rxBusy := by
        rcases hst with h | h | h | h | h
        · exact Or.inl h
        · exact Or.inr (Or.inl h)
        · exact Or.inr (Or.inr (Or.inl h))
        · exact Or.inr (Or.inr (Or.inr h))
        · exact absurd h hd
      rw [if_pos hok, if_pos hok]
      by_cases hx : armed = true ∧ w.1.now ≥ deadline
      · rw [if_pos hx]
        by_cases hr : retries = 0
        · rw [if_pos hr]
          exact hJ.del_owner e (by simp [HK.cls]) _ rfl
        · rw [if_neg hr]
          by_cases hs : (w.1.slot k).st = .sent
          · rw [if_pos hs]
            exact hJ.step_owner e (by simp [HK.cls]) (.fut _ _ _ _) (by simp [HK.cls]) _ (by simp [HK.cls, St.cls])
          · rw [if_neg hs]
            exact hJ.rekind e (by simp [HK.cls]) (.fut _ _ _ _) (by simp [HK.cls])
      · rw [if_neg hx]
        exact hJ.rekind e (by simp [HK.cls]) (.fut _ _ _ _) (by simp [HK.cls])
  · exact hJ

theorem J_opDropFut {w : World} (hJ : J w.1 w.2) (r : Nat) : J (opDropFut w r).1.1 (opDropFut w r).1.2 := by
  unfold opDropFut
  split
  · next reg k a b c d e => exact hJ.del_owner e (by simp [HK.cls]) _ rfl
  · exact hJ

/-- `Drop for ReceivedFrame` by the owner of the slot: the compare-exchange succeeds (no panic) and
    the slot is released. -/
theorem J_dropReceived {s : Sys} {hs : List Hd} (hJ : J s hs) {r : Nat} {h : Hd} (e : getH hs r = some h)
    (hk : h.kind.cls = 3) :
    (dropReceived s h.slot).2 = true ∧ J (dropReceived s h.slot).1 (delH hs r) := by
  have hm := (getH_some e).1
  have hst : (s.slot h.slot).st = .rxProcessing := by
    have := hJ.compat h hm (by omega)
    rw [hk] at this
    revert this; cases (s.slot h.slot).st <;> simp [St.cls]
  constructor
  · simp [dropReceived, hst]
  · simp only [dropReceived, hst, if_true]
    exact hJ.del_owner e (by omega) _ rfl

theorem J_opDropReceived {w : World} (hJ : J w.1 w.2) (r : Nat) :
    J (opDropReceived w r).1.1 (opDropReceived w r).1.2 := by
  unfold opDropReceived
  split
  · next reg k e => exact (J_dropReceived hJ e (by simp [HK.cls])).2
  · exact hJ

theorem J_opDropView {w : World} (hJ : J w.1 w.2) (r : Nat) :
    J (opDropView w r).1.1 (opDropView w r).1.2 := by
  unfold opDropView
  split
  · next reg k a b c e => exact (J_dropReceived hJ e (by simp [HK.cls])).2
  · exact hJ

theorem J_opIter {w : World} (hJ : J w.1 w.2) (r m : Nat) : J (opIter w r m).1.1 (opIter w r m).1.2 := by
  unfold opIter
  split
  · next reg k e => exact (J_dropReceived hJ e (by simp [HK.cls])).2
  · exact hJ

theorem J_opFirst {w : World} (hJ : J w.1 w.2) (r code idx : Nat) :
    J (opFirst w r code idx).1.1 (opFirst w r code idx).1.2 := by
  unfold opFirst
  split
  · next reg k e =>
    have hd := (J_dropReceived hJ e (by simp [HK.cls])).2
    simp only at hd ⊢
    split
    · exact hd
    · exact hd
    · exact hd
    · split
      · exact hd
      · split
        · exact hd
        · exact hJ.rekind e (by simp [HK.cls]) (.view _ _ _) (by simp [HK.cls])
  · exact hJ

theorem J_opViewRead {w : World} (hJ : J w.1 w.2) (r : Nat) :
    J (opViewRead w r).1.1 (opViewRead w r).1.2 := by
  unfold opViewRead
  split <;> exact hJ

theorem J_opViewTrim {w : World} (hJ : J w.1 w.2) (r ct : Nat) :
    J (opViewTrim w r ct).1.1 (opViewTrim w r ct).1.2 := by
  unfold opViewTrim
  split
  · next reg k a b c e => exact hJ.rekind e (by simp [HK.cls]) (.view _ _ _) (by simp [HK.cls])
  · exact hJ

theorem reset_slot_none (s : Sys) (i : Nat) :
    (({ s with frameIdx := 0, pduIdx := 0, slots := s.slots.map (fun x => { x with st := St.none }) } : Sys).slot i).st
      = .none := by
  simp only [Sys.slot, List.getD_eq_getElem?_getD, List.getElem?_map]
  cases s.slots[i]? <;> simp [dummySlot]

theorem J_opReset {w : World} (hJ : J w.1 w.2) (he : w.2 = []) : J (opReset w).1.1 (opReset w).1.2 := by
  unfold opReset
  simp only [he]
  refine ⟨by simpa [Sys.n] using hJ.pos, by simp [Regs], ?_, ?_, ?_⟩
  · intro a ha; cases ha
  · intro a ha; cases ha
  · intro i hi; exact absurd (reset_slot_none w.1 i) hi

/-- **J is preserved by every operation.** -/
theorem J_step {w : World} (hJ : J w.1 w.2) (op : Op) : J (step w op).1.1 (step w op).1.2 := by
  cases op with
  | alloc r =>
    simp only [step]; split
    · next h => exact J_opAlloc hJ r (getH_isNone h)
    · exact hJ
  | push r c d l => exact J_opPush hJ r c d l
  | rest r c b => exact J_opRest hJ r c b
  | mark r a b => exact J_opMark hJ r a b
  | dropCreated r => exact J_opDropCreated hJ r
  | txNext r =>
    simp only [step]; split
    · next h => exact J_opTxNext hJ r (getH_isNone h)
    · exact hJ
  | txSend r o => exact J_opTxSend hJ r o
  | rx b => exact J_opRx hJ b
  | poll r => exact J_opPoll hJ r
  | dropFut r => exact J_opDropFut hJ r
  | first r c i => exact J_opFirst hJ r c i
  | iter r m => exact J_opIter hJ r m
  | dropReceived r => exact J_opDropReceived hJ r
  | viewRead r => exact J_opViewRead hJ r
  | viewTrim r ct => exact J_opViewTrim hJ r ct
  | dropView r => exact J_opDropView hJ r
  | advance us => exact hJ.congr rfl
  | reset =>
    simp only [step]; split
    · next h => exact J_opReset hJ (by simpa using h)
    · exact hJ
  | snap => exact hJ

theorem J_run {w : World} (hJ : J w.1 w.2) (ops : List Op) : J (run w ops).1 (run w ops).2 := by
  induction ops generalizing w with
  | nil => exact hJ
  | cons op ops ih => exact ih (J_step hJ op)

theorem init_slot (n data fi pi i : Nat) : ((World.init n data fi pi).1.slot i).st = .none := by
  simp only [World.init, Sys.init, Sys.slot, List.getD_eq_getElem?_getD, List.getElem?_replicate]
  split <;> simp [dummySlot]

theorem J_init (n data fi pi : Nat) (hn : 0 < n) : J (World.init n data fi pi).1 (World.init n data fi pi).2 := by
  refine ⟨by simpa [World.init, Sys.init, Sys.n] using hn, by simp [World.init, Regs], ?_, ?_, ?_⟩
  · intro a ha; cases ha
  · intro a ha; cases ha
  · intro i hi; exact absurd (init_slot n data fi pi i) hi

/-- **J holds in every reachable world.** -/
theorem J_reach {n data : Nat} {w : World} (hn : 0 < n) (h : Reach n data w) : J w.1 w.2 := by
  obtain ⟨fi, pi, ops, rfl⟩ := h
  exact J_run (J_init n data fi pi hn) ops

end Ec
