//! C01 — schedule-quantified runs without deadlines or abandonment: every response must reach
//! exactly the request that caused it, views stay stable. See `ecverif::microrun`.
fn main() {
    ecverif::microrun::main_for(
        ecverif::microrun::Profile { key: "c01", drops: false, timeouts: false, tx_fail: false, rx_noise: true, only: &[] },
        300,
        2000,
    );
}
