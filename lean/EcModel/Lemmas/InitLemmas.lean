/- Helper lemmas for C09: the address assignment loop and what configured-address commands reach
   afterwards. -/
import EcModel.Init
import EcModel.Lemmas.NetLemmas

namespace Ec.Init

open Ec Ec.Net Ec.Gen.Init

theorem cfgAddr_lt (i : Nat) : cfgAddr i < 65536 := by
  unfold cfgAddr; omega

theorem cfgAddr_nowrap (i : Nat) (h : i < 61440) : cfgAddr i = 4096 + i := by
  unfold cfgAddr Ec.Gen.BASE_SUBDEVICE_ADDRESS; omega

theorem cfgAddr_inj (i j : Nat) (hi : i < 65536) (hj : j < 65536) (h : cfgAddr i = cfgAddr j) : i = j := by
  unfold cfgAddr Ec.Gen.BASE_SUBDEVICE_ADDRESS at h; omega

/-- The station address column after the first `k` iterations of the assignment loop. -/
def assigned (k : Nat) (st0 : List Nat) : List Nat :=
  st0.mapIdx fun p x => if p < k then cfgAddr p else x

theorem assigned_zero (st0 : List Nat) : assigned 0 st0 = st0 := by
  apply List.ext_getElem?
  intro p
  simp [assigned, List.getElem?_mapIdx]

theorem assigned_length (k : Nat) (st0 : List Nat) : (assigned k st0).length = st0.length := by
  simp [assigned]

theorem assigned_getElem? (k : Nat) (st0 : List Nat) (p : Nat) :
    (assigned k st0)[p]? = if p < k then st0[p]?.map (fun _ => cfgAddr p) else st0[p]? := by
  unfold assigned
  rw [List.getElem?_mapIdx]
  cases h : st0[p]? with
  | none => simp
  | some x => by_cases hc : p < k <;> simp [hc]

/-- After all iterations every position holds `0x1000 + position (mod 2^16)`, whatever it held. -/
theorem assigned_all (st0 : List Nat) : assigned st0.length st0 = (List.range st0.length).map cfgAddr := by
  apply List.ext_getElem?
  intro p
  rw [assigned_getElem?]
  by_cases hp : p < st0.length
  · simp [hp]
  · have : st0[p]? = none := by simp; omega
    simp [hp, this]

theorem assign_step (i : Nat) (st0 : List Nat) :
    writeAt [i] (cfgAddr i) (assigned i st0) = assigned (i + 1) st0 := by
  apply List.ext_getElem?
  intro p
  rw [writeAt_getElem?, assigned_getElem?, assigned_getElem?]
  by_cases hpi : p = i
  · subst hpi
    cases h : st0[p]? <;> simp [h]
  · have hm : ¬ p ∈ [i] := by simp [hpi]
    rw [if_neg hm]
    by_cases hlt : p < i
    · have : p < i + 1 := by omega
      simp [hlt, this]
    · have : ¬ p < i + 1 := by omega
      simp [hlt, this]

/-- The assignment loop on a ring no longer than the address space: every APWR is executed by exactly
    the device at its position, the loop completes, and the log records just that. -/
theorem assignLoop_ok (len : Nat) (st0 : List Nat) (hlen : st0.length = len) (hle : len ≤ 65536) :
    ∀ (t i : Nat) (log : List Entry1), i + t ≤ len →
      assignLoop len t i (assigned i st0) log =
        (.ok (), assigned (i + t) st0,
          log ++ (List.range' i t).map fun j => (Tok1.apwr j REG_ConfiguredStationAddress, [j])) := by
  intro t
  induction t with
  | zero => intro i log _; simp [assignLoop]
  | succ t ih =>
    intro i log h
    have hi : i < len := by omega
    have hex : apExecutors (apAddr i) len = [i] := apExecutors_single i len hi hle
    unfold assignLoop
    simp only [hex, wkc_single, ne_eq, not_true_eq_false, if_false]
    rw [assign_step, ih (i + 1) _ (by omega)]
    simp [List.range'_succ, Nat.add_assoc, Nat.add_comm 1 t]

/-- A configured-address command to `0x1000 + i` on a fully assigned ring of at most 2^16 devices is
    executed by device `i` and nobody else. -/
theorem fpExecutors_assigned (n i : Nat) (hn : n ≤ 65536) (hi : i < n) :
    fpExecutors ((List.range n).map cfgAddr) (cfgAddr i) = [i] := by
  unfold fpExecutors
  simp only [List.length_map, List.length_range]
  apply filter_range_singleton _ n i hi
  intro p hp
  simp only [List.getElem?_map, List.getElem?_range hp, Option.map_some, beq_iff_eq, Option.some.injEq]
  constructor
  · intro h; exact cfgAddr_inj p i (by omega) (by omega) h
  · intro h; rw [h]

theorem readLast_single {α : Type} (i : Nat) (col : List α) : readLast [i] col = col[i]? := by
  simp [readLast]

end Ec.Init
