import EcModel.Drv.C09
def main : IO Unit := Ec.Drv.runDriver Ec.Drv.C09.handle
