/-
  C16 — no mailbox reply can crash the MainDevice or make it read out of bounds.

  Subject: `EcModel/Coe.lean` (hand translation of src/mailbox/coe/mod.rs & co., constants from Generated/Coe.lean),
  for an ARBITRARY device (`World`): any function from requests to lists of raw mailbox messages, any mailbox sizes,
  any stale messages, both build profiles (`Mode`).

  `coe_total` (every entry point returns a value or an error, never panics) holds unconditionally since the repairs
  fix-c16-emergency, fix-c16-segment-length, fix-c16-sdo-info-length; the former witnesses of the four panic sites are
  kept as `coe_total_*_fixed` theorems (they are errors now) and in the harness corpus.
  Since fix-c16-endless-loops both client loops are bounded for any device: `info_terminates`, `segments_terminate`.
-/
import EcModel.Lemmas.CoeEndless
import EcModel.Lemmas.CoeInside

namespace Ec.C16
open Ec Ec.Coe Ec.Gen.Coe

/-! ### coe_total -/

/-- The trivial invariant: any device whatsoever. -/
def anyDevice (σ : Type) : DevInv σ := { msg := fun _ => True, dev := fun _ => True }

/-- **coe_total.** For EVERY device (any function from requests to lists of raw mailbox byte strings), every mailbox
    size, every stale queue, every counter value, both build profiles: each of the seven entry points ends with a value
    or an error — never a panic. (The model's `outOfFuel` is an error value; `segments_terminate` shows when it cannot
    occur.) Unconditional since fix-c16-emergency, fix-c16-segment-length and fix-c16-sdo-info-length. -/
theorem coe_total {σ : Type} (w : World σ) (cfg : Cfg) (s : St σ) :
    (∀ fuel bufLen index access, Res.isPanic (sdoRead w cfg fuel bufLen index access s).1 = false) ∧
    (∀ (α : Type) (T : Dest α) fuel maxEntries index,
      Res.isPanic (sdoReadArray w cfg fuel T maxEntries index s).1 = false) ∧
    (∀ index access, Res.isPanic (sdoReadExpedited w cfg index access s).1 = false) ∧
    (∀ index access value, Res.isPanic (sdoWrite w cfg index access value s).1 = false) ∧
    (∀ index values, Res.isPanic (sdoWriteArray w cfg index values s).1 = false) ∧
    (∀ listType, Res.isPanic (sdoInfoList w cfg listType s).1 = false) ∧
    Res.isPanic (sdoInfoQuantities w cfg s).1 = false := by
  have hw : WGood (anyDevice σ) w := fun _ _ _ => ⟨trivial, fun _ _ => trivial⟩
  have hs : QGood (anyDevice σ) s := ⟨trivial, fun _ _ => trivial⟩
  refine ⟨?_, ?_, ?_, ?_, ?_, ?_, ?_⟩
  · intro fuel bufLen index access
    exact (sdoRead_safe w cfg _ hw fuel bufLen index access s hs).1
  · intro α T fuel maxEntries index
    exact (sdoReadArray_safe w cfg _ hw fuel T maxEntries index s hs).1
  · intro index access
    exact (sdoReadExpedited_safe w cfg _ hw index access s hs).1
  · intro index access value
    exact (sdoWrite_safe w cfg _ hw index access value s hs).1
  · intro index values
    exact (sdoWriteArray_safe w cfg _ hw index values s hs).1
  · intro listType
    exact sdoInfoList_noPanic w cfg listType s
  · exact sdoInfoQuantities_noPanic w cfg s

/-- **coe_total, scripted device.** For EVERY script of reply byte strings and every list of stale messages:
    `sdo_read` of any destination size and `sdo_info_object_description_list` return a value or an error. -/
theorem coe_total_script (cfg : Cfg) (script : List (List (List Nat))) (stale : List (List Nat)) (ctr : Nat)
    (fuel bufLen index listType : Nat) (access : SubIndex) :
    ((∃ v, (sdoRead scriptWorld cfg fuel bufLen index access (St.init ctr script stale)).1 = .ok v) ∨
     (∃ e, (sdoRead scriptWorld cfg fuel bufLen index access (St.init ctr script stale)).1 = .err e)) ∧
    ((∃ v, (sdoInfoList scriptWorld cfg listType (St.init ctr script stale)).1 = .ok v) ∨
     (∃ e, (sdoInfoList scriptWorld cfg listType (St.init ctr script stale)).1 = .err e)) :=
  ⟨(Res.noPanic_iff _).mp ((coe_total scriptWorld cfg (St.init ctr script stale)).1 fuel bufLen index access),
   (Res.noPanic_iff _).mp ((coe_total scriptWorld cfg (St.init ctr script stale)).2.2.2.2.2.1 listType)⟩

/-! The former witnesses of the four panic sites (`cfg32`: 32-byte mailboxes, checked build): errors now. -/

/-- An emergency message (service 1) as the answer to an upload request. -/
def emergencyReply : List Nat := [0x0a, 0, 0, 0, 0, 0x63, 0, 0x10, 0x34, 0x12, 0x01, 1, 2, 3, 4, 5]

/-- P1 repaired (fix-c16-emergency): the former witness of `assert_ne!(headers.coe_header.service, Emergency)` is now
    reported as `MailboxError::Emergency` with the error code and register the device sent (0x1234, 1). -/
theorem coe_total_emergency_fixed :
    (sdoRead scriptWorld cfg32 4 4 0x2000 (.index 0) (St.init 1 [[emergencyReply]] [])).1 = .err (.emergency 0x1234 1) ∧
    (sdoWrite scriptWorld cfg32 0x2000 (.index 0) [1, 2] (St.init 1 [[emergencyReply]] [])).1 =
      .err (.emergency 0x1234 1) := by
  decide

/-- Normal upload response announcing 100 bytes while carrying 6: the client starts the segmented loop. -/
def initiate100 : List Nat :=
  [0x10, 0, 0, 0, 0, 0x23, 0, 0x30, 0x41, 0x00, 0x20, 0x00, 100, 0, 0, 0, 1, 2, 3, 4, 5, 6]

/-- Segment response whose mailbox header says length 2. -/
def shortSegment : List Nat := [2, 0, 0, 0, 0, 0x33, 0, 0x30, 0x61, 0, 0, 0, 0, 0, 0, 0]

/-- P2 repaired (fix-c16-segment-length): the former witness of the `headers.header.length - 3` underflow is now
    `Error::Internal` in both build profiles. -/
theorem coe_total_segment_length_fixed :
    (sdoRead scriptWorld cfg32 4 100 0x2000 (.index 0) (St.init 1 [[initiate100], [shortSegment]] [])).1 = .err .internal ∧
    (sdoRead scriptWorld { cfg32 with mode := .wrapping } 4 100 0x2000 (.index 0)
      (St.init 1 [[initiate100], [shortSegment]] [])).1 = .err .internal := by
  decide

/-- Get-OD-List response with mailbox length 4 (< 8) / 64 (more than the 32-byte mailbox holds). -/
def infoLen (l : Nat) : List Nat := [l, 0, 0, 0, 0, 0x73, 0, 0x80, 0x02, 0, 0, 0, 1, 0, 0x00, 0x10, 0x18, 0x10]

/-- P3/P4 repaired (fix-c16-sdo-info-length): a length field below 8 or beyond the data present is `Error::Internal`. -/
theorem coe_total_info_length_fixed :
    (sdoInfoList scriptWorld cfg32 1 (St.init 1 [[infoLen 4]] [])).1 = .err .internal ∧
    (sdoInfoList scriptWorld { cfg32 with mode := .wrapping } 1 (St.init 1 [[infoLen 4]] [])).1 = .err .internal ∧
    (sdoInfoList scriptWorld cfg32 1 (St.init 1 [[infoLen 64]] [])).1 = .err .internal ∧
    (sdoInfoQuantities scriptWorld { cfg32 with mode := .wrapping } (St.init 1 [[infoLen 64]] [])).1 = .err .internal := by
  decide

/-! ### reads_inside_reply -/

/-- **reads_inside_reply.** (1) Every view the client derives from the `ReceivedPdu` it was given (`trim_front`)
    stays inside the reply's data area `[lo, hi)` and ends at its end. (2) The two functions that hold the view are
    functions of the reply bytes alone. (3) Hence no entry point's result or final state depends on the bytes that
    surround the reply in the frame buffer (`pre`, `post`: Ethernet/EtherCAT headers, working counter, older frames). -/
theorem reads_inside_reply {σ : Type} (w : World σ) (cfg : Cfg) (pre post : List Nat) :
    (∀ (p : Pdu) lo hi ct, p.Inside lo hi → (p.trimFront ct).Inside lo hi) ∧
    (∀ (ρ : Type) (u : List Nat → Res ρ) v (p : Pdu), p.start + p.len ≤ p.frame.length →
      triage cfg u v p = triageB u v p.bytes) ∧
    (∀ (p : Pdu) consumed buf, p.start + p.len ≤ p.frame.length →
      infoStep cfg p consumed buf = infoStepB p.bytes consumed buf) ∧
    (∀ fuel bufLen index access s,
      sdoRead w (cfg.around pre post) fuel bufLen index access s = sdoRead w cfg fuel bufLen index access s) ∧
    (∀ index access s, sdoReadExpedited w (cfg.around pre post) index access s = sdoReadExpedited w cfg index access s) ∧
    (∀ (α : Type) (T : Dest α) fuel maxEntries index s,
      sdoReadArray w (cfg.around pre post) fuel T maxEntries index s = sdoReadArray w cfg fuel T maxEntries index s) ∧
    (∀ index access value s, sdoWrite w (cfg.around pre post) index access value s = sdoWrite w cfg index access value s) ∧
    (∀ index values s, sdoWriteArray w (cfg.around pre post) index values s = sdoWriteArray w cfg index values s) ∧
    (∀ listType s, sdoInfoList w (cfg.around pre post) listType s = sdoInfoList w cfg listType s) ∧
    (∀ s, sdoInfoQuantities w (cfg.around pre post) s = sdoInfoQuantities w cfg s) :=
  ⟨fun p lo hi ct h => Pdu.trimFront_inside p lo hi ct h,
   fun _ u v p hp => triage_eq_bytes cfg u v p hp,
   fun p consumed buf hp => infoStep_eq_bytes cfg p consumed buf hp,
   fun fuel bufLen index access s => sdoRead_around w cfg pre post fuel bufLen index access s,
   fun index access s => sdoReadExpedited_around w cfg pre post index access s,
   fun _ T fuel maxEntries index s => sdoReadArray_around w cfg pre post fuel T maxEntries index s,
   fun index access value s => sdoWrite_around w cfg pre post index access value s,
   fun index values s => sdoWriteArray_around w cfg pre post index values s,
   fun listType s => sdoInfoList_around w cfg pre post listType s,
   fun s => sdoInfoQuantities_around w cfg pre post s⟩

/-- The view handed to the client by `receive_slice` covers exactly the mailbox image. -/
theorem reads_inside_reply_initial (cfg : Cfg) (img : List Nat) :
    (mkPdu cfg img).Inside cfg.pre.length (cfg.pre.length + img.length) ∧ (mkPdu cfg img).bytes = img :=
  ⟨mkPdu_inside cfg img, mkPdu_bytes cfg img⟩

/-! ### info_buffer_bounded -/

/-- **info_buffer_bounded.** Whatever the device sends, the bytes `send_sdo_info_service` returns (and, by
    `infoStep_frag`, the buffer after every single iteration) never exceed the fixed capacity 0x1fffe. -/
theorem info_buffer_bounded {σ : Type} (w : World σ) (cfg : Cfg) (req : List Nat) (s : St σ) (out : List Nat)
    (h : (sendSdoInfoService w cfg req s).1 = .ok (some out)) : out.length ≤ 0x1fffe :=
  sendSdoInfoService_bounded w cfg req s out h

/-- Every iteration keeps the buffer within the capacity (and never shrinks it). -/
theorem info_buffer_bounded_step (cfg : Cfg) (p : Pdu) (consumed : Bool) (buf buf' : List Nat) (inc : Bool)
    (h : infoStep cfg p consumed buf = .ok (.frag buf' inc)) : buf.length ≤ buf'.length ∧ buf'.length ≤ 0x1fffe :=
  infoStep_frag cfg p consumed buf buf' inc h

/-! ### info_terminates -/

/-- **info_terminates (finite scripts).** Every iteration of the SDO-info loop takes one message out of the device:
    mailbox reads + messages left = what was queued + what the request produced. -/
theorem info_terminates_finite {σ : Type} (w : World σ) (cfg : Cfg) (req : List Nat) (s : St σ)
    (hm : cfg.hasMailbox = true) :
    (sendSdoInfoService w cfg req s).2.reads + (sendSdoInfoService w cfg req s).2.outq.length =
      s.reads + s.outq.length + (w.respond s.dev (image cfg.wmbx req)).2.length :=
  sendSdoInfoService_reads w cfg req s hm

/-- **info_terminates.** (True since fix-c16-endless-loops.) For ANY stream of replies, however long — endless
    "more fragments", fragments without data, foreign messages — the loop performs at most 0x1fffe + 1 mailbox reads:
    every fragment that announces another one adds at least one byte to the 0x1fffe-byte buffer and anything else ends
    the request with a value or an error. -/
theorem info_terminates (cfg : Cfg) (q : List (List Nat)) (consumed : Bool) (reads : Nat) :
    (infoLoop cfg q consumed [] reads).2.2 ≤ reads + 0x1fffe + 1 :=
  infoLoop_reads_bounded cfg q consumed [] reads (Nat.zero_le _)

/-- The former witness of c16/sdo-info-endless (n + 1 zero-length "more follows" fragments): `Error::Internal` after one
    mailbox read. -/
theorem info_terminates_endless_fixed (n : Nat) :
    infoLoop cfg16 (List.replicate (n + 1) zeroFrag) false [] 0 = (.err .internal, List.replicate n zeroFrag, 1) := by
  have := infoLoop_zeroFrags_fixed n false [] 0 (Nat.zero_le _)
  simpa using this

/-- **segments_terminate.** (True since fix-c16-endless-loops.) For ANY device and any fuel: a segmented `sdo_read`
    into a destination of `buf.length` bytes sends at most `buf.length - total + 1` segment requests, because a segment
    that is not the last one must carry at least one byte. (So `outOfFuel` cannot occur with fuel > buf.length + 1.) -/
theorem segments_terminate {σ : Type} (w : World σ) (cfg : Cfg) (fuel : Nat) (toggle : Bool) (buf : List Nat)
    (total : Nat) (s : St σ) (ht : total ≤ buf.length) :
    (segLoop w cfg fuel toggle buf total s).2.reqs.length ≤ s.reqs.length + (buf.length - total) + 1 :=
  segLoop_requests_bounded w cfg fuel toggle buf total s ht

/-- The former witness of c16/segment-endless (n + 1 zero-length segments): `Error::Internal` after one request. -/
theorem segments_terminate_endless_fixed (n : Nat) :
    (segLoop scriptWorld cfg32 (n + 1) false (zeros 4) 0 (St.init 1 (List.replicate (n + 1) [zeroSeg]) [])).1 =
      .err .internal ∧
    (segLoop scriptWorld cfg32 (n + 1) false (zeros 4) 0 (St.init 1 (List.replicate (n + 1) [zeroSeg]) [])).2.reads = 1 := by
  have := segLoop_zeroSegs_fixed n n false (zeros 4) 0 1 [] 0 (Nat.zero_le _)
  simpa [St.init] using this

/-! ### Non-vacuity -/

/-- A device that does answer: the client returns the four bytes of an expedited upload response. -/
example : (sdoRead scriptWorld cfg32 4 4 0x2000 (.index 0)
    (St.init 1 [[[0x0a, 0, 0, 0, 0, 0x13, 0, 0x30, 0x43, 0x00, 0x20, 0x00, 0xde, 0xad, 0xbe, 0xef]]] [])).1 =
      .ok [0xde, 0xad, 0xbe, 0xef] := by decide

/-- A well-formed OD list response is assembled. -/
example : (sdoInfoList scriptWorld cfg32 1 (St.init 1 [[infoLen 12]] [])).1 = .ok (some [0x1000, 0x1018]) := by decide

/-- A data-carrying fragment is appended. -/
example : (infoStep cfg32 (mkPdu cfg32 (image 32 (infoLen 12))) false []) = .ok (.frag [0x00, 0x10, 0x18, 0x10] false) := by
  decide

/-- The generated constants the theorems speak about. -/
example : INFO_BUF_CAP = 0x1fffe ∧ LEN_HeadersRaw = 12 ∧ SEGMENT_HEADER_LEN = 3 ∧ COE_HEADER_AND_LIST_TYPE_SIZE = 8 ∧
    DRAIN_ROUNDS = 10 := by decide

end Ec.C16
