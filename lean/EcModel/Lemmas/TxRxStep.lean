/-
  Helper lemmas for C07: the receive half (`consume`) and the case analysis of one pass (`step`).
-/
import EcModel.Lemmas.TxRxBuild
import EcModel.Props.C04

namespace Ec.TxRx
open Ec

/-- The answer has one datagram per request datagram, each with the requested data length (devices change data
    and working counters, not the structure of a frame). -/
def ShapedOne : List Dgram → List RPdu → Prop
  | [], [] => True
  | d :: ds, p :: ps => p.data.length = d.len ∧ ShapedOne ds ps
  | _, _ => False

theorem ShapedOne.length : ∀ {ds : List Dgram} {r : List RPdu}, ShapedOne ds r → r.length = ds.length
  | [], [], _ => rfl
  | _ :: ds, _ :: ps, h => by simp [ShapedOne.length (ds := ds) (r := ps) h.2]
  | [], _ :: _, h => by simp [ShapedOne] at h
  | _ :: _, [], h => by simp [ShapedOne] at h

theorem ShapedOne.append_inv : ∀ {ds1 ds2 : List Dgram} {r : List RPdu}, ShapedOne (ds1 ++ ds2) r →
    ∃ r1 r2, r = r1 ++ r2 ∧ ShapedOne ds1 r1 ∧ ShapedOne ds2 r2
  | [], ds2, r, h => ⟨[], r, rfl, trivial, h⟩
  | d :: ds1, ds2, [], h => by simp [ShapedOne] at h
  | d :: ds1, ds2, p :: ps, h => by
    obtain ⟨r1, r2, e, h1, h2⟩ := ShapedOne.append_inv (ds1 := ds1) (ds2 := ds2) (r := ps) h.2
    exact ⟨p :: r1, r2, by simp [e], ⟨h.1, h1⟩, h2⟩

theorem ShapedOne.nil_left {r : List RPdu} (h : ShapedOne [] r) : r = [] := by
  cases r with
  | nil => rfl
  | cons _ _ => simp [ShapedOne] at h

theorem ShapedOne.single {d : Dgram} {r : List RPdu} (h : ShapedOne [d] r) :
    ∃ p, r = [p] ∧ p.data.length = d.len := by
  cases r with
  | nil => simp [ShapedOne] at h
  | cons p ps => exact ⟨p, by rw [ShapedOne.nil_left h.2], h.1⟩

/-- The AL state a state-check answer carries. -/
def nib (p : RPdu) : Nat := p.data.getD 0 0 % 16

/-! ### `consumeStates` -/

theorem consumeStates_other (c : Cfg) : ∀ (pdus : List RPdu) (s : St),
    (consumeStates c s pdus).1 = { s with states := (consumeStates c s pdus).1.states } ∧
    (∀ w, (consumeStates c s pdus).2 ≠ .panic w)
  | [], s => by simp [consumeStates]
  | p :: rest, s => by
    unfold consumeStates
    by_cases hl : p.data.length < Gen.TxRx.AL_CONTROL_PACKED_LEN
    · simp [hl]
    · simp only [hl, if_false]
      have ih := consumeStates_other c rest
        { s with states := if s.states.length < c.maxSd
                           then s.states ++ [p.data.getD 0 0 % 2 ^ Gen.TxRx.AL_STATE_BITS] else s.states }
      exact ⟨by rw [ih.1], ih.2⟩

theorem consumeStates_ok (c : Cfg) : ∀ (pdus : List RPdu) (s : St),
    (∀ p ∈ pdus, p.data.length = 2) → s.states.length + pdus.length ≤ c.maxSd →
    consumeStates c s pdus = ({ s with states := s.states ++ pdus.map nib }, .ok ())
  | [], s, _, _ => by simp [consumeStates]
  | p :: rest, s, hp, hlen => by
    have h2 : p.data.length = 2 := hp p (by simp)
    have hlt : s.states.length < c.maxSd := by simp at hlen; omega
    unfold consumeStates
    simp only [h2, Gen.TxRx.AL_CONTROL_PACKED_LEN, Nat.lt_irrefl, if_false, hlt, if_true]
    rw [consumeStates_ok c rest _ (fun q hq => hp q (by simp [hq])) (by simp at hlen ⊢; omega)]
    simp [nib, Gen.TxRx.AL_STATE_BITS]

/-! ### `consumeLrw` -/

/-- Input range written by a chunk `[sent, sent + k)`: start and length. -/
def rxLo (c : Cfg) (s : St) : Nat := min s.sent c.readLen
def rxN (c : Cfg) (s : St) (k : Nat) : Nat := min (s.sent + k) c.readLen - min s.sent c.readLen

theorem setRange_length' (l : List Nat) (off : Nat) (bs : List Nat) (h : off + bs.length ≤ l.length) :
    (setRange l off bs).length = l.length := setRange_length l off bs h

theorem setRange_drop (l : List Nat) (off : Nat) (bs : List Nat) (m : Nat) (h : off + bs.length ≤ m)
    (hl : off + bs.length ≤ l.length) : (setRange l off bs).drop m = l.drop m := by
  unfold setRange
  have e : m = (l.take off ++ bs).length + (m - (off + bs.length)) := by
    simp [List.length_take, Nat.min_eq_left (by omega : off ≤ l.length)] <;> omega
  rw [e, List.drop_append, List.drop_drop]
  congr 1
  simp [List.length_take, Nat.min_eq_left (by omega : off ≤ l.length)] <;> omega

/-- Everything `consumeLrw` leaves alone. -/
theorem consumeLrw_other (c : Cfg) (pushed : Option Nat) (s : St) (pdus : List RPdu)
    (hk : ∀ k, pushed = some k → s.sent + k ≤ s.image.length) :
    let r := consumeLrw c pushed s pdus
    r.1.frames = s.frames ∧ r.1.subs = s.subs ∧ r.1.checks = s.checks ∧ r.1.idx = s.idx ∧
    r.1.resps = s.resps ∧ r.1.states = s.states ∧ r.1.time = s.time ∧ r.1.timeRead = s.timeRead ∧
    r.1.image.length = s.image.length ∧
    (∀ m, (∀ k, pushed = some k → min (s.sent + k) c.readLen ≤ m) → r.1.image.drop m = s.image.drop m) := by
  intro r
  cases pushed with
  | none => simp [r, consumeLrw]
  | some k =>
    cases pdus with
    | nil => simp [r, consumeLrw]
    | cons p rest =>
      have hk' := hk k rfl
      by_cases hl : p.data.length < min (s.sent + k) c.readLen - min s.sent c.readLen
      · simp [r, consumeLrw, hl]
      · have hlen : (p.data.take (min (s.sent + k) c.readLen - min s.sent c.readLen)).length
            = min (s.sent + k) c.readLen - min s.sent c.readLen := by
          simp [List.length_take]; omega
        have hfit : min s.sent c.readLen + (p.data.take (min (s.sent + k) c.readLen - min s.sent c.readLen)).length
            ≤ s.image.length := by rw [hlen]; omega
        have e1 := setRange_length' s.image _ _ hfit
        have e2 : ∀ m, min (s.sent + k) c.readLen ≤ m →
            (setRange s.image (min s.sent c.readLen)
              (p.data.take (min (s.sent + k) c.readLen - min s.sent c.readLen))).drop m = s.image.drop m := by
          intro m hm
          exact setRange_drop s.image _ _ m (by rw [hlen]; omega) hfit
        cases ha : addU 16 c.mode s.wkc p.wkc <;>
          simp [r, consumeLrw, hl, ha, e1] <;> exact e2

/-! ### `consumeDc` -/

theorem consumeDc_cases (dcP : Bool) (s : St) (r : List RPdu) :
    (∃ e, consumeDc dcP s r = .err e) ∨
    (∃ s3 pdus, consumeDc dcP s r = .ok (s3, pdus) ∧
      s3 = { s with time := s3.time, timeRead := s3.timeRead } ∧
      (dcP = false → s3 = s ∧ pdus = r) ∧
      (dcP = true → ∃ p, r = p :: pdus ∧ 8 ≤ p.data.length ∧ s3.time = rd64 p.data ∧ s3.timeRead = true)) := by
  cases dcP with
  | false => right; exact ⟨s, r, by simp [consumeDc], rfl, by simp, by simp⟩
  | true =>
    cases r with
    | nil => left; exact ⟨.internal, by simp [consumeDc]⟩
    | cons p rest =>
      by_cases hl : p.data.length < Gen.TxRx.U64_PACKED_LEN
      · left; exact ⟨.wireShort, by simp [consumeDc, hl]⟩
      · right
        refine ⟨{ s with time := rd64 p.data, timeRead := true }, rest, by simp [consumeDc, hl], rfl, by simp,
          fun _ => ⟨p, rfl, ?_, rfl, rfl⟩⟩
        simp [Gen.TxRx.U64_PACKED_LEN] at hl; omega

/-! ### `consume` -/

/-- `if c.dc.isSome && exit condition then done else continue`. -/
def finishStep (c : Cfg) (chunkLen : Nat) (s : St) : Step :=
  if c.dc.isSome && exitCond c chunkLen s.checks then .done s else .continue s

/-- Whatever the answer, `consume` leaves the history, the iterator, the image length and the image beyond the
    input bytes of this chunk alone. -/
theorem consume_other (c : Cfg) (dcP : Bool) (pushed : Option Nat) (chunkLen : Nat) (s : St) (r : List RPdu)
    (hk : ∀ k, pushed = some k → s.sent + k ≤ s.image.length) :
    (consume c dcP pushed chunkLen s r).st.frames = s.frames ∧
    (consume c dcP pushed chunkLen s r).st.subs = s.subs ∧
    (consume c dcP pushed chunkLen s r).st.checks = s.checks ∧
    (consume c dcP pushed chunkLen s r).st.idx = s.idx ∧
    (consume c dcP pushed chunkLen s r).st.resps = s.resps ∧
    (consume c dcP pushed chunkLen s r).st.image.length = s.image.length ∧
    (∀ m, (∀ k, pushed = some k → min (s.sent + k) c.readLen ≤ m) →
      (consume c dcP pushed chunkLen s r).st.image.drop m = s.image.drop m) := by
  rcases consumeDc_cases dcP s r with ⟨e, he⟩ | ⟨s3, pdus, he, hs3, _, _⟩
  · simp [consume, he, Step.st]
  · have hL := consumeLrw_other c pushed s3 pdus (by rw [hs3]; exact hk)
    have e3 : s3.frames = s.frames ∧ s3.subs = s.subs ∧ s3.checks = s.checks ∧ s3.idx = s.idx ∧
        s3.resps = s.resps ∧ s3.image = s.image ∧ s3.sent = s.sent := by rw [hs3]; simp
    simp only [consume, he]
    generalize consumeLrw c pushed s3 pdus = rl at hL ⊢
    obtain ⟨s4, o4⟩ := rl
    simp only at hL
    have e4 : s4.frames = s.frames ∧ s4.subs = s.subs ∧ s4.checks = s.checks ∧ s4.idx = s.idx ∧
        s4.resps = s.resps ∧ s4.image.length = s.image.length ∧
        (∀ m, (∀ k, pushed = some k → min (s.sent + k) c.readLen ≤ m) → s4.image.drop m = s.image.drop m) := by
      refine ⟨by rw [hL.1, e3.1], by rw [hL.2.1, e3.2.1], by rw [hL.2.2.1, e3.2.2.1], by rw [hL.2.2.2.1, e3.2.2.2.1],
        by rw [hL.2.2.2.2.1, e3.2.2.2.2.1], by rw [hL.2.2.2.2.2.2.2.2.1, e3.2.2.2.2.2.1], ?_⟩
      intro m hm
      rw [hL.2.2.2.2.2.2.2.2.2 m (by rw [e3.2.2.2.2.2.2]; exact hm), e3.2.2.2.2.2.1]
    cases o4 with
    | err e => exact e4
    | panic w => exact e4
    | ok pdus' =>
      dsimp only
      have hS := consumeStates_other c pdus' s4
      generalize consumeStates c s4 pdus' = rs at hS ⊢
      obtain ⟨s5, o5⟩ := rs
      simp only at hS
      have e5 : s5.frames = s.frames ∧ s5.subs = s.subs ∧ s5.checks = s.checks ∧ s5.idx = s.idx ∧
          s5.resps = s.resps ∧ s5.image.length = s.image.length ∧
          (∀ m, (∀ k, pushed = some k → min (s.sent + k) c.readLen ≤ m) → s5.image.drop m = s.image.drop m) := by
        rw [hS.1]; exact e4
      cases o5 with
      | err e => exact e5
      | panic w => exact e5
      | ok u =>
        cases u
        dsimp only
        split <;> exact e5

/-- If the pass goes on (or ends normally) the chunk was accounted for, and the clock value was read. -/
theorem consume_cont {c : Cfg} {dcP : Bool} {pushed : Option Nat} {chunkLen : Nat} {s s' : St} {r : List RPdu}
    (hres : consume c dcP pushed chunkLen s r = .continue s' ∨ consume c dcP pushed chunkLen s r = .done s') :
    s'.sent = s.sent + pushed.getD 0 ∧ s'.timeRead = (s.timeRead || dcP) ∧
    (dcP = true → ∃ p rest, r = p :: rest ∧ s'.time = rd64 p.data) ∧ (dcP = false → s'.time = s.time) ∧
    (consume c dcP pushed chunkLen s r = .done s' →
      chunkLen = 0 ∧ c.addrs.length ≤ s'.checks ∧ c.dc.isSome = true) ∧
    (consume c dcP pushed chunkLen s r = .continue s' →
      ¬ (c.dc.isSome = true ∧ chunkLen = 0 ∧ c.addrs.length ≤ s'.checks)) := by
  rcases consumeDc_cases dcP s r with ⟨e, he⟩ | ⟨s3, pdus, he, hs3, hf, ht⟩
  · simp [consume, he] at hres
  · simp only [consume, he] at hres ⊢
    have hL := consumeLrw_other c pushed s3 pdus
    -- the LRW part
    have hsent : ∀ s4 pdus', consumeLrw c pushed s3 pdus = (s4, .ok pdus') →
        s4.sent = s3.sent + pushed.getD 0 ∧ s4.time = s3.time ∧ s4.timeRead = s3.timeRead := by
      intro s4 pdus' h4
      cases pushed with
      | none => simp [consumeLrw] at h4; simp [← h4.1]
      | some k =>
        cases pdus with
        | nil => simp [consumeLrw] at h4
        | cons p rest =>
          simp only [consumeLrw] at h4
          split at h4
          · simp at h4
          · split at h4
            · simp at h4
            · simp at h4; simp [← h4.1]
    generalize consumeLrw c pushed s3 pdus = rl at hsent hres ⊢
    obtain ⟨s4, o4⟩ := rl
    cases o4 with
    | err e => simp at hres
    | panic w => simp at hres
    | ok pdus' =>
      dsimp only at hres ⊢
      obtain ⟨h4a, h4b, h4c⟩ := hsent s4 pdus' rfl
      have hS := consumeStates_other c pdus' s4
      generalize consumeStates c s4 pdus' = rs at hS hres ⊢
      obtain ⟨s5, o5⟩ := rs
      simp only at hS
      cases o5 with
      | err e => simp at hres
      | panic w => simp at hres
      | ok u =>
        cases u
        dsimp only at hres ⊢
        have e5 : s5.sent = s.sent + pushed.getD 0 ∧ s5.time = s3.time ∧ s5.timeRead = s3.timeRead ∧
            s5.checks = s4.checks := by
          rw [hS.1]; simp only; rw [h4a, h4b, h4c, hs3]; simp
        have hs'5 : s' = s5 := by
          split at hres <;> simp at hres <;> exact hres.symm
        subst hs'5
        refine ⟨e5.1, ?_, ?_, ?_, ?_, ?_⟩
        · rw [e5.2.2.1]
          cases dcP with
          | false => rw [(hf rfl).1]; simp
          | true => obtain ⟨p, _, _, _, h⟩ := ht rfl; rw [h]; simp
        · intro hd; obtain ⟨p, hr, _, h, _⟩ := ht hd; exact ⟨p, pdus, hr, by rw [e5.2.1, h]⟩
        · intro hd; rw [e5.2.1, (hf hd).1]
        · intro hdone
          split at hdone
          · rename_i hc
            simp [exitCond] at hc
            exact ⟨hc.2.1, hc.2.2, hc.1⟩
          · simp at hdone
        · intro hcont
          split at hcont
          · simp at hcont
          · rename_i hc
            simp [exitCond] at hc
            intro ⟨h1, h2, h3⟩
            exact absurd h3 (by have := hc h1 h2; omega)

theorem consumeDc_err {dcP : Bool} {s : St} {r : List RPdu} {e : TxErr} (h : consumeDc dcP s r = .err e) :
    e = .internal ∨ e = .wireShort := by
  unfold consumeDc at h
  cases dcP with
  | false => simp at h
  | true =>
    cases r with
    | nil => simp at h; exact Or.inl h.symm
    | cons p rest =>
      simp only [if_true] at h
      split at h
      · simp at h; exact Or.inr h.symm
      · simp at h

theorem consumeLrw_err {c : Cfg} {pushed : Option Nat} {s : St} {pdus : List RPdu} {e : TxErr}
    (h : (consumeLrw c pushed s pdus).2 = .err e) : e = .internal := by
  unfold consumeLrw at h
  cases pushed with
  | none => simp at h
  | some k =>
    cases pdus with
    | nil => simp at h; exact h.symm
    | cons p rest =>
      simp only at h
      split at h
      · simp at h; exact h.symm
      · split at h <;> simp at h

theorem consumeStates_err (c : Cfg) : ∀ (pdus : List RPdu) (s : St) (e : TxErr),
    (consumeStates c s pdus).2 = .err e → e = .wireShort
  | [], s, e, h => by simp [consumeStates] at h
  | p :: rest, s, e, h => by
    unfold consumeStates at h
    split at h
    · simp at h; exact h.symm
    · exact consumeStates_err c rest _ e h

theorem consume_fail_kinds {c : Cfg} {dcP : Bool} {pushed : Option Nat} {chunkLen : Nat} {s s' : St}
    {r : List RPdu} {e : TxErr} (h : consume c dcP pushed chunkLen s r = .fail s' e) :
    e = .internal ∨ e = .wireShort := by
  unfold consume at h
  cases hd : consumeDc dcP s r with
  | err e1 =>
    rw [hd] at h; simp at h; rw [← h.2]; exact consumeDc_err hd
  | panic w => rw [hd] at h; simp at h
  | ok x =>
    obtain ⟨s3, pdus⟩ := x
    rw [hd] at h; dsimp only at h
    have hL := @consumeLrw_err c pushed s3 pdus
    generalize consumeLrw c pushed s3 pdus = rl at hL h
    obtain ⟨s4, o4⟩ := rl
    cases o4 with
    | err e1 => simp at h; rw [← h.2]; exact Or.inl (hL rfl)
    | panic w => simp at h
    | ok pdus' =>
      dsimp only at h
      have hS := consumeStates_err c pdus' s4
      generalize consumeStates c s4 pdus' = rs at hS h
      obtain ⟨s5, o5⟩ := rs
      cases o5 with
      | err e1 => simp at h; rw [← h.2]; exact Or.inr (hS e1 rfl)
      | panic w => simp at h
      | ok u =>
        cases u
        dsimp only at h
        split at h <;> simp at h

/-- `consume` on an answer of the requested shape: clock value, LRW answer, state-check answers. -/
theorem consume_shaped (c : Cfg) (dcP : Bool) (pushed : Option Nat) (chunkLen : Nat) (s : St)
    (pd pl : RPdu) (rs : List RPdu)
    (hd : dcP = true → pd.data.length = 8)
    (hl : ∀ k, pushed = some k → pl.data.length = k)
    (hs : ∀ p ∈ rs, p.data.length = 2) (hst : s.states.length + rs.length ≤ c.maxSd) :
    consume c dcP pushed chunkLen s ((if dcP then [pd] else []) ++ (if pushed.isSome then [pl] else []) ++ rs)
      = (match pushed with
         | none =>
           finishStep c chunkLen
             { (if dcP then { s with time := rd64 pd.data, timeRead := true } else s) with
               states := s.states ++ rs.map nib }
         | some k =>
           match addU 16 c.mode s.wkc pl.wkc with
           | none =>
             .panic { (if dcP then { s with time := rd64 pd.data, timeRead := true } else s) with
                      image := setRange s.image (rxLo c s) (pl.data.take (rxN c s k)), sent := s.sent + k }
               "attempt to add with overflow"
           | some w =>
             finishStep c chunkLen
               { (if dcP then { s with time := rd64 pd.data, timeRead := true } else s) with
                 image := setRange s.image (rxLo c s) (pl.data.take (rxN c s k)), sent := s.sent + k,
                 wkc := w, states := s.states ++ rs.map nib }) := by
  have h8 : ¬ (8 < Gen.TxRx.U64_PACKED_LEN) := by simp [Gen.TxRx.U64_PACKED_LEN]
  cases dcP with
  | false =>
    cases pushed with
    | none =>
      simp only [consume, consumeDc, consumeLrw, Option.isSome, List.nil_append, if_false, Bool.false_eq_true]
      rw [consumeStates_ok c rs s hs hst]
      rfl
    | some k =>
      have hk := hl k rfl
      have hn : ¬ (pl.data.length < min (s.sent + k) c.readLen - min s.sent c.readLen) := by omega
      simp only [consume, consumeDc, consumeLrw, Option.isSome, List.nil_append, if_false, Bool.false_eq_true,
        if_true, List.cons_append, hn]
      cases ha : addU 16 c.mode s.wkc pl.wkc with
      | none => simp [rxLo, rxN]
      | some w =>
        simp only
        rw [consumeStates_ok c rs _ hs (by simpa using hst)]
        rfl
  | true =>
    have hd8 := hd rfl
    have hn8 : ¬ (pd.data.length < Gen.TxRx.U64_PACKED_LEN) := by rw [hd8]; exact h8
    cases pushed with
    | none =>
      simp only [consume, consumeDc, consumeLrw, Option.isSome, if_true, List.cons_append, List.nil_append,
        if_false, Bool.false_eq_true, hn8]
      rw [consumeStates_ok c rs _ hs (by simpa using hst)]
      rfl
    | some k =>
      have hk := hl k rfl
      have hn : ¬ (pl.data.length < min (s.sent + k) c.readLen - min s.sent c.readLen) := by omega
      simp only [consume, consumeDc, consumeLrw, Option.isSome, if_true, List.cons_append, List.nil_append,
        if_false, hn8, hn]
      cases ha : addU 16 c.mode s.wkc pl.wkc with
      | none => simp [rxLo, rxN]
      | some w =>
        simp only
        rw [consumeStates_ok c rs _ hs (by simpa using hst)]
        rfl

/-! ### One pass -/

/-- What `step` does to the state when it sends `fr`. -/
def sentState (s : St) (fr : Frame) (idx' t : Nat) : St :=
  { s with frames := s.frames ++ [fr], idx := idx', subs := s.subs.drop t, checks := s.checks + t }

/-- The frame sent in a pass from state `s`. -/
structure FrameGood (c : Cfg) (s : St) (fr : Frame) : Prop where
  descs : fr.dgrams.map desc = planDescs c s
  nonempty : fr.dgrams ≠ []
  bytes : fr.bytes = encodeFrame fr.dgrams
  size : dgramsSize fr.dgrams ≤ c.cap - 16
  len : fr.bytes.length ≤ c.cap

theorem asBytes_length {f : CFrame} {acc : List Dgram} (h : FInv f acc) :
    f.markSendable.asBytes.length = 16 + f.used := by
  have := h.fits; have hp := h.plen
  simp only [CFrame.asBytes, CFrame.markSendable, List.length_append, h.eth, List.length_take, hp]
  simp [ethHeader, Gen.MAINDEVICE_ADDR, ecatHeader, le16]; omega

theorem planDescs_nil {c : Cfg} {s : St} {n : Nat} (h : CfgOk c n) (hp : planDescs c s = []) :
    remOf s = 0 ∧ s.subs = [] ∧ (c.dc.isSome = true → s.timeRead = true) := by
  simp only [planDescs, List.append_eq_nil_iff, List.map_eq_nil_iff] at hp
  obtain ⟨⟨hdc, hl⟩, ht⟩ := hp
  have hrem : remOf s = 0 := by
    unfold lrwDescs at hl; split at hl
    · assumption
    · simp at hl
  have hdcT : c.dc.isSome = true → s.timeRead = true := by
    intro hsome
    unfold dcDescs at hdc
    cases hd : c.dc with
    | none => simp [hd] at hsome
    | some r =>
      rw [hd] at hdc
      cases ht' : s.timeRead with
      | true => rfl
      | false => simp [ht'] at hdc
  refine ⟨hrem, ?_, hdcT⟩
  have hu0 : u0 c s = 0 := by
    unfold u0 needDc
    cases hd : c.dc.isSome with
    | false => simp
    | true => simp [hdcT hd]
  have hu1 : u1 c s = 0 := by simp [u1, hrem, hu0]
  have := h.capLo
  have ht0 : tOf c s = 0 ∨ s.subs = [] := by
    rcases List.take_eq_nil_iff.1 ht with h0 | h0
    · exact Or.inl h0
    · exact Or.inr h0
  rcases ht0 with h0 | h0
  · simp only [tOf, checksFit, hu1] at h0
    have : s.subs.length = 0 := by omega
    exact List.eq_nil_of_length_eq_zero this
  · exact h0

theorem step_cases {c : Cfg} {s : St} (h : CfgOk c s.image.length) (hs : s.sent ≤ s.image.length) :
    (step c s = .done s ∧ remOf s = 0 ∧ (c.addrs.length ≤ s.checks ∨ s.subs = []) ∧
      (c.dc.isSome = true → s.timeRead = true)) ∨
    (∃ fr idx', FrameGood c s fr ∧
      ((s.resps = [] ∧ step c s = .fail (sentState s fr idx' (tOf c s)) .timeout) ∨
       (∃ r rs, s.resps = r :: rs ∧
          step c s = consume c (needDc c s) (if remOf s = 0 then none else some (kOf c s)) (remOf s)
                      { sentState s fr idx' (tOf c s) with resps := rs } r))) := by
  by_cases htop : (c.dc.isNone && exitCond c (s.image.length - s.sent) s.checks) = true
  · left
    refine ⟨by unfold step; rw [if_pos htop], ?_, ?_, ?_⟩
    · simp [exitCond] at htop; simp [remOf]; omega
    · simp [exitCond] at htop; exact Or.inl htop.2.2
    · intro hsome; simp at htop; rw [htop.1] at hsome; simp at hsome
  · obtain ⟨bt, e, hb, hacc, hdcp, hpushed, hsubs, hnum, _⟩ := buildFrame_spec h hs
    have hcount : bt.b.f.count = bt.b.acc.length := hb.inv.count
    by_cases hc0 : (bt.b.f.count == 0) = true
    · left
      have hnil : bt.b.acc = [] := by
        simp at hc0; rw [hcount] at hc0; exact List.eq_nil_of_length_eq_zero hc0
      have hp : planDescs c s = [] := by rw [← hacc, hnil]; rfl
      obtain ⟨h1, h2, h3⟩ := planDescs_nil h hp
      refine ⟨?_, h1, Or.inr h2, h3⟩
      unfold step; rw [if_neg htop, e]; simp only [hc0, if_true]
    · right
      have hne : bt.b.acc ≠ [] := by
        intro hnil; apply hc0; rw [hcount, hnil]; rfl
      refine ⟨⟨bt.b.f.markSendable.asBytes, bt.b.acc⟩, bt.b.idx, ⟨hacc, hne, C04.bytes_of_inv hb.inv, ?_, ?_⟩, ?_⟩
      · have := hb.used_le; rw [hb.inv.used] at this; exact this
      · have := hb.used_le; have := h.capLo
        show bt.b.f.markSendable.asBytes.length ≤ c.cap
        rw [asBytes_length hb.inv]; omega
      · cases hr : s.resps with
        | nil =>
          left
          refine ⟨rfl, ?_⟩
          unfold step; rw [if_neg htop, e]; simp only [hc0, hr]
          simp [sentState, hsubs, hnum, hr]
        | cons r rs =>
          right
          refine ⟨r, rs, rfl, ?_⟩
          unfold step; rw [if_neg htop, e]; simp only [hc0, hr]
          simp [sentState, hsubs, hnum, hdcp, hpushed, remOf, hr]

end Ec.TxRx
