import EcModel.Drv.C20
def main : IO Unit := Ec.Drv.runDriver Ec.Drv.C20.handle
