//! C03 (capacity under concurrency) — the schedule-quantified runs of C06 (deadlines, retries, futures
//! dropped at arbitrary points, failed sends, noise), judged ONLY by the capacity monitors: after every
//! handle was dropped each slot must be free again, and neither side may panic. The sequential C03
//! histories cannot place an abandonment between two steps of the receive path; these runs can.
fn main() {
    ecverif::microrun::main_for(
        ecverif::microrun::Profile {
            key: "c03m",
            drops: true,
            timeouts: true,
            tx_fail: true,
            rx_noise: true,
            only: &["slot-lost", "txrx-panic", "app-panic"],
        },
        300,
        2000,
    );
}
