/- Line protocol for C19 (model side). One case per line:

     c19 parse  <T>                 -> ok:<PACKED_LEN>:<w|nw>  | err:<ParseErrorToken> | genpanic     (T = s(..) or e(..))
     c19 pack   <T> <V>             -> ok:<hex>                | panic                                  (`pack()`)
     c19 packto <T> <V> <dsthex>    -> ok:<dst afterwards>:<len of returned slice> | err:WriteBufferTooShort | panic
     c19 packun <T> <V> <dsthex>    -> ok:<dst afterwards>:<len of returned slice> | panic               (`pack_to_slice_unchecked`)
     c19 unpack <T> <hex>           -> ok:<V> | err:<WireErrorToken> | panic
     c19 repack <T> <hex>           -> ok:<hex> | err:<WireErrorToken> | panic     (`unpack_from_slice(buf).map(|v| v.pack())`)
     c19 status <T> <hex>           -> ok | err:<WireErrorToken> | panic           (`unpack_from_slice(buf).map(|_| ())`)
     c19 rt     <T> <V>             -> ok:<hex>|<answer of `unpack <T> <hex>`> | panic     (`pack()`, then `unpack_from_slice`)
     c19 buflen <T>                 -> ok:<buffer().len()>:<PACKED_LEN> | unsized          (`EtherCrabWireSized` of impls.rs)

   Type grammar T (no spaces):
     u8 u16 u32 u64 i8 i16 i32 i64 f32 f64 u128 i128 bool unit x xN     primitives / () / a type the model does not know
                                                                        (xN: hand-written impl, only PACKED_LEN = N known)
     a(N,T)                                                             [T; N]
     hv(N,T)                                                            heapless::Vec<T, N>   (value: [V,…] its elements)
     hs(N)                                                              heapless::String<N>   (value: [b,…] its bytes)
     t(T,T,…)                                                           tuple
     e(R;V;V;…)    R = u8|…|i64|u128|i128|usize|isize|none              derived enum;  V = D{/A}{c|d}:
                   D = integer or `_` (implicit), /A = alternatives, c = #[wire(catch_all)], d = #[default]
     s(W;F;F;…)    W = `-` or `.`-joined: bN (bits=N), BN (bytes=N), n (tuple struct)     derived struct
                   F = attrs:T with attrs = `-` or `.`-joined: bN BN k(skip) pN(pre_skip) PN(pre_skip_bytes)
                       qN(post_skip) QN(post_skip_bytes)
     @Name                                                              item of Generated/Layouts.lean (T1)
   Value grammar V:  <int> | T | F | v<idx> (unit variant) | c<int> (catch-all payload) | d (default of a skipped
     field) | [V,V,…] (struct fields / array elements / tuple components)
-/
import EcModel.Wire
import EcModel.WireImpls
import EcModel.Generated.Layouts
import EcModel.Drv.Util

namespace Ec.Drv.C19
open Ec Ec.Wire Ec.Drv

/-- A parsed type expression. -/
structure PT where
  tok : TyTok
  codec : Codec
  sdecl : Option StructDecl := none
  edecl : Option EnumDecl := none
  /-- hand-written `EtherCrabWireSized` impl of impls.rs, if the type has one -/
  sized : Option SizedImpl := none

def isIdentChar (c : Char) : Bool := c.isAlphanum || c == '_' || c == '@'

def takeIdent : List Char → List Char → String × List Char
  | c :: cs, acc => if isIdentChar c then takeIdent cs (c :: acc) else (String.ofList acc.reverse, c :: cs)
  | [], acc => (String.ofList acc.reverse, [])

def takeNat : List Char → Nat → Bool → Option (Nat × List Char)
  | c :: cs, acc, seen => if c.isDigit then takeNat cs (acc * 10 + (c.toNat - 48)) true else
      if seen then some (acc, c :: cs) else none
  | [], acc, seen => if seen then some (acc, []) else none

def takeInt (cs : List Char) : Option (Int × List Char) :=
  match cs with
  | '-' :: rest => (takeNat rest 0 false).map fun (n, r) => (-(n : Int), r)
  | _ => (takeNat cs 0 false).map fun (n, r) => ((n : Int), r)

def primOf (name : String) : Option PT :=
  match name with
  | "u8" => some { tok := .u8, codec := Codec.uN 1, sized := some (.prim 1) }
  | "u16" => some { tok := .u16, codec := Codec.uN 2, sized := some (.prim 2) }
  | "u32" => some { tok := .u32, codec := Codec.uN 4, sized := some (.prim 4) }
  | "u64" => some { tok := .u64, codec := Codec.uN 8, sized := some (.prim 8) }
  | "i8" => some { tok := .i8, codec := Codec.iN 1, sized := some (.prim 1) }
  | "i16" => some { tok := .i16, codec := Codec.iN 2, sized := some (.prim 2) }
  | "i32" => some { tok := .i32, codec := Codec.iN 4, sized := some (.prim 4) }
  | "i64" => some { tok := .i64, codec := Codec.iN 8, sized := some (.prim 8) }
  | "f32" => some { tok := .f32, codec := Codec.uN 4, sized := some (.prim 4) }
  | "f64" => some { tok := .f64, codec := Codec.uN 8, sized := some (.prim 8) }
  | "u128" => some { tok := .u128, codec := Codec.unknown 16 }
  | "i128" => some { tok := .i128, codec := Codec.unknown 16 }
  | "bool" => some { tok := .bool, codec := Codec.bool, sized := some .bool }
  | "unit" => some { tok := .other, codec := Codec.unitTy, sized := some .unit }
  | "x" => some { tok := .other, codec := Codec.unknown 0 }
  | _ =>
    -- `x<N>`: a type with a hand-written impl of which only PACKED_LEN = N is known
    if name.startsWith "x" then
      match takeNat (name.drop 1).toString.toList 0 false with
      | some (n, []) => some { tok := .other, codec := Codec.unknown n }
      | _ => none
    else none

def reprOf (name : String) : Option ReprTy :=
  match name with
  | "u8" => some .u8 | "i8" => some .i8 | "u16" => some .u16 | "i16" => some .i16
  | "u32" => some .u32 | "i32" => some .i32 | "u64" => some .u64 | "i64" => some .i64
  | "u128" => some .u128 | "i128" => some .i128 | "usize" => some .usize | "isize" => some .isize
  | "none" => some .missing
  | _ => none

def lookupLayout (name : String) : Option PT :=
  match Gen.Layouts.structs.find? (fun e => e.1 == name) with
  | some (_, _, d) => some { tok := .other, codec := structCodec d, sdecl := some d }
  | none =>
    match Gen.Layouts.enums.find? (fun e => e.1 == name) with
    | some (_, _, d) => some { tok := .other, codec := enumCodec d, edecl := some d }
    | none => none

/-- variant := D{/A}{c|d} -/
def parseVariant (cs : List Char) : Option (VariantDecl × List Char) := do
  let (disc, r1) ← match cs with
    | '_' :: r => some (none, r)
    | _ => (takeInt cs).map fun (d, r) => (some d, r)
  let rec alts (fuel : Nat) (cs : List Char) (acc : List Int) : Option (List Int × List Char) :=
    match fuel, cs with
    | fuel + 1, '/' :: r => match takeInt r with
      | some (a, r') => alts fuel r' (a :: acc)
      | none => none
    | _, _ => some (acc.reverse, cs)
  let (al, r2) ← alts cs.length r1 []
  let rec flags (fuel : Nat) (cs : List Char) (c d : Bool) : Bool × Bool × List Char :=
    match fuel, cs with
    | fuel + 1, 'c' :: r => flags fuel r true d
    | fuel + 1, 'd' :: r => flags fuel r c true
    | _, _ => (c, d, cs)
  let (c, d, r3) := flags cs.length r2 false false
  some ({ disc := disc, alternatives := al, catchAll := c, default := d }, r3)

structure Attrs where
  bits : Option Nat := none
  bytes : Option Nat := none
  skip : Bool := false
  unnamed : Bool := false
  preSkip : Option Nat := none
  preSkipBytes : Option Nat := none
  postSkip : Option Nat := none
  postSkipBytes : Option Nat := none

/-- attrs := `-` | attr{.attr}; stops in front of `:` `;` or `)` -/
partial def parseAttrs (cs : List Char) (a : Attrs) : Option (Attrs × List Char) :=
  match cs with
  | '-' :: r => some (a, r)
  | 'k' :: r => cont { a with skip := true } r
  | 'n' :: r => cont { a with unnamed := true } r
  | c :: r =>
    match takeNat r 0 false with
    | none => none
    | some (n, r') =>
      match c with
      | 'b' => cont { a with bits := some n } r'
      | 'B' => cont { a with bytes := some n } r'
      | 'p' => cont { a with preSkip := some n } r'
      | 'P' => cont { a with preSkipBytes := some n } r'
      | 'q' => cont { a with postSkip := some n } r'
      | 'Q' => cont { a with postSkipBytes := some n } r'
      | _ => none
  | [] => none
where
  cont (a : Attrs) (r : List Char) : Option (Attrs × List Char) :=
    match r with
    | '.' :: r' => parseAttrs r' a
    | _ => some (a, r)

mutual
partial def parseT (cs : List Char) : Option (PT × List Char) :=
  let (name, rest) := takeIdent cs []
  match name, rest with
  | "a", '(' :: r =>
    match takeNat r 0 false with
    | some (n, ',' :: r') =>
      match parseT r' with
      | some (el, ')' :: r'') =>
        -- `EtherCrabWireSized for [$ty; N]` exists for the types of `impl_primitive_wire_field!` only
        let sz : Option SizedImpl := match el.sized with
          | some (.prim size) => some (.array size n)
          | _ => none
        some ({ tok := .other, codec := Codec.array el.codec n, sized := sz }, r'')
      | _ => none
    | _ => none
  | "hv", '(' :: r =>
    match takeNat r 0 false with
    | some (n, ',' :: r') =>
      match parseT r' with
      | some (el, ')' :: r'') =>
        -- `EtherCrabWireSized for heapless::Vec<T, N> where T: Into<u8>`: u8 and bool
        let sz : Option SizedImpl := if el.tok == .u8 || el.tok == .bool then some (.hvec n) else none
        some ({ tok := .other, codec := Codec.hvec el.codec n, sized := sz }, r'')
      | _ => none
    | _ => none
  | "hs", '(' :: r =>
    match takeNat r 0 false with
    | some (n, ')' :: r') => some ({ tok := .other, codec := Codec.hstr n, sized := some (.hstr n) }, r')
    | _ => none
  | "t", '(' :: r =>
    match parseTs r [] with
    | some (els, r') => some ({ tok := .other, codec := Codec.tuple (els.map (·.codec)) }, r')
    | none => none
  | "e", '(' :: r =>
    let (rn, r1) := takeIdent r []
    match reprOf rn with
    | none => none
    | some repr =>
      match parseVariants r1 [] with
      | some (vs, r2) =>
        let d : EnumDecl := { repr := repr, variants := vs }
        some ({ tok := .other, codec := enumCodec d, edecl := some d }, r2)
      | none => none
  | "s", '(' :: r =>
    match parseAttrs r {} with
    | none => none
    | some (w, r1) =>
      match parseFieldsT r1 [] with
      | some (fs, r2) =>
        let d : StructDecl := { named := !w.unnamed, bits := w.bits, bytes := w.bytes, fields := fs }
        some ({ tok := .other, codec := structCodec d, sdecl := some d }, r2)
      | none => none
  | _, _ =>
    if name.startsWith "@" then (lookupLayout (name.drop 1).toString).map fun p => (p, rest)
    else (primOf name).map fun p => (p, rest)

/-- `T,T,…)` -/
partial def parseTs (cs : List Char) (acc : List PT) : Option (List PT × List Char) :=
  match cs with
  | ')' :: r => some (acc.reverse, r)
  | _ =>
    match parseT cs with
    | some (t, ',' :: r) => parseTs r (t :: acc)
    | some (t, ')' :: r) => some ((t :: acc).reverse, r)
    | _ => none

/-- `;V;V…)` -/
partial def parseVariants (cs : List Char) (acc : List VariantDecl) : Option (List VariantDecl × List Char) :=
  match cs with
  | ')' :: r => some (acc.reverse, r)
  | ';' :: r =>
    match parseVariant r with
    | some (v, r') => parseVariants r' (v :: acc)
    | none => none
  | _ => none

/-- `;F;F…)` -/
partial def parseFieldsT (cs : List Char) (acc : List FieldDecl) : Option (List FieldDecl × List Char) :=
  match cs with
  | ')' :: r => some (acc.reverse, r)
  | ';' :: r =>
    match parseAttrs r {} with
    | some (a, ':' :: r1) =>
      match parseT r1 with
      | some (t, r2) =>
        let f : FieldDecl :=
          { ty := t.tok, codec := t.codec, bits := a.bits, bytes := a.bytes, skip := a.skip, preSkip := a.preSkip,
            preSkipBytes := a.preSkipBytes, postSkip := a.postSkip, postSkipBytes := a.postSkipBytes }
        parseFieldsT r2 (f :: acc)
      | none => none
    | _ => none
  | _ => none
end

def parseTy (s : String) : Option PT :=
  match parseT s.toList with
  | some (t, []) => some t
  | _ => none

/-! values -/

mutual
partial def parseV (cs : List Char) : Option (Val × List Char) :=
  match cs with
  | 'T' :: r => some (.bool true, r)
  | 'F' :: r => some (.bool false, r)
  | 'd' :: r => some (.dflt, r)
  | 'v' :: r => (takeNat r 0 false).map fun (n, r') => (.unit n, r')
  | 'c' :: r => (takeInt r).map fun (n, r') => (.catchAll n, r')
  | '[' :: ']' :: r => some (.seq [], r)
  | '[' :: r => (parseVs r []).map fun (vs, r') => (.seq vs, r')
  | _ => (takeInt cs).map fun (n, r') => (.int n, r')

partial def parseVs (cs : List Char) (acc : List Val) : Option (List Val × List Char) :=
  match parseV cs with
  | some (v, ',' :: r) => parseVs r (v :: acc)
  | some (v, ']' :: r) => some ((v :: acc).reverse, r)
  | _ => none
end

def parseVal (s : String) : Option Val :=
  match parseV s.toList with
  | some (v, []) => some v
  | _ => none

partial def showVal : Val → String
  | .int i => toString i
  | .bool b => if b then "T" else "F"
  | .unit i => "v" ++ toString i
  | .catchAll r => "c" ++ toString r
  | .dflt => "d"
  | .seq vs => "[" ++ joinWith "," (vs.map showVal) ++ "]"

def hexOut (l : List Nat) : String := if l.isEmpty then "-" else hexBytes l

def errTok : WireError → String
  | .readBufferTooShort => "ReadBufferTooShort"
  | .writeBufferTooShort => "WriteBufferTooShort"
  | .invalidValue => "InvalidValue"
  | .arrayLength => "ArrayLength"
  | .invalidUtf8 => "InvalidUtf8"

def parseErrTok : ParseError → String
  | .bitsAndBytes => "BitsAndBytes"
  | .widthRequired => "WidthRequired"
  | .namedOnly => "NamedOnly"
  | .fieldWidthRequired => "FieldWidthRequired"
  | .multibyteAlign => "MultibyteAlign"
  | .smallCrosses => "SmallCrosses"
  | .totalWidth => "TotalWidth"

def enumErrTok : EnumParseError → String
  | .noRepr => "NoRepr"
  | .usizeRepr => "UsizeRepr"
  | .catchAllAlternatives => "CatchAllAlternatives"
  | .twoCatchAll => "TwoCatchAll"
  | .twoDefault => "TwoDefault"
  | .altNotNumber => "AltNotNumber"

def showOut {α : Type} (f : α → String) : Out α → String
  | .ok a => f a
  | .err e => "err:" ++ errTok e
  | .panic _ => "panic"

def handle (args : List String) : String :=
  match args with
  | ["parse", t] =>
    match parseTy t with
    | some { sdecl := some d, .. } =>
      match parseStruct d with
      | .ok m => s!"ok:{m.sizeBytes}:" ++ (if deriveWriteOk m then "w" else "nw")
      | .error e => "err:" ++ parseErrTok e
    | some { edecl := some d, .. } =>
      match parseEnum d with
      | .ok m => match m.repr.size with
        | some n => s!"ok:{n}:w"
        | none => "genpanic"
      | .error e => "err:" ++ enumErrTok e
    | _ => "bad-case"
  | ["pack", t, v] =>
    match parseTy t, parseVal v with
    | some p, some v => showOut (fun bs => "ok:" ++ hexOut bs) (p.codec.pack v)
    | _, _ => "bad-case"
  | ["packto", t, v, dst] =>
    match parseTy t, parseVal v, parseHex dst with
    | some p, some v, some dst =>
      showOut (fun bs => "ok:" ++ hexOut bs ++ s!":{p.codec.len}") (p.codec.packToSlice v dst)
    | _, _, _ => "bad-case"
  | ["packun", t, v, dst] =>
    match parseTy t, parseVal v, parseHex dst with
    | some p, some v, some dst =>
      showOut (fun bs => "ok:" ++ hexOut bs ++ s!":{p.codec.len}") (p.codec.packU v dst)
    | _, _, _ => "bad-case"
  | ["unpack", t, buf] =>
    match parseTy t, parseHex buf with
    | some p, some buf => showOut (fun v => "ok:" ++ showVal v) (p.codec.dec buf)
    | _, _ => "bad-case"
  | ["repack", t, buf] =>
    match parseTy t, parseHex buf with
    | some p, some buf => showOut (fun bs => "ok:" ++ hexOut bs) (bindO (p.codec.dec buf) p.codec.pack)
    | _, _ => "bad-case"
  | ["rt", t, v] =>
    match parseTy t, parseVal v with
    | some p, some v =>
      showOut (fun bs => "ok:" ++ hexOut bs ++ "|" ++ showOut (fun v => "ok:" ++ showVal v) (p.codec.dec bs)) (p.codec.pack v)
    | _, _ => "bad-case"
  | ["buflen", t] =>
    match parseTy t with
    | some { sized := some sz, .. } => s!"ok:{sz.bufferLen}:{sz.packedLen}"
    | some _ => "unsized"
    | none => "bad-case"
  | ["status", t, buf] =>
    match parseTy t, parseHex buf with
    | some p, some buf => showOut (fun _ => "ok") (p.codec.dec buf)
    | _, _ => "bad-case"
  | _ => "bad-case"

end Ec.Drv.C19
