/-
  Ownership / mutual-exclusion invariant stated DIRECTLY on the micro-step model (`Micro.lean`):
  definitions (who is inside a slot's buffer as a function of program counter and registers, token
  counts, the invariant `MInv`, the excluded window `AbandonInsideStep`) and the generic preservation
  lemmas. The per-program-counter case analysis is in `MicroInvSteps*.lean`, the assembly (all
  schedules, corollaries) in `MicroInvMain.lean`; the headline statements are in `Props/C02Micro.lean`.

  Modelling facts used (all stated explicitly where they matter):
    * `n ≥ 1` slots (`MInv.pos`);
    * wrong-kind operations are `bad-op` no-ops (this is what `Micro.begin` does; proved here as
      `PcOk`: while an operation is in progress its register holds a handle of the kind it needs);
    * `al r` / `tn r` may name an OCCUPIED register: `putH` then replaces the old handle, i.e. the old
      handle's claim disappears without its destructor running. This is HANDLED, not excluded: the
      invariant bounds the number of claims from above (`≤`), and losing a claim only lowers counts.
      (Only the converse direction "every non-free slot has an owner", which exclusion does not need,
      requires fresh registers: `MicroOwned.lean`, hypothesis `¬ ClobberStep`.)
-/
import EcModel.Micro
import EcModel.Lemmas.SlotsStep

namespace Ec.Micro
open Ec

/-! ## roles -/

/-- The five kinds of party of the slot protocol (`Lifecycle.Tok`). -/
inductive Role where
  | creator   -- `CreatedFrame`: may write the buffer
  | fut       -- `ReceiveFrameFut`: the waiting owner, NOT inside
  | tx        -- `SendableFrame`: may read the buffer
  | rx        -- `ReceivingFrame`: may write the buffer
  | reader    -- `ReceivedFrame` / `ReceivedPdu`: may read the buffer
  deriving DecidableEq, Repr

/-- Role a handle kind stands for. -/
def roleOf : HK → Role
  | .created _ _ => .creator
  | .fut _ _ _ _ => .fut
  | .sendable => .tx
  | .received => .reader
  | .view _ _ _ => .reader

@[simp] theorem roleOf_created (a : Nat) (b : Option Nat) : roleOf (.created a b) = .creator := rfl
@[simp] theorem roleOf_fut (a b c : Nat) (d : Bool) : roleOf (.fut a b c d) = .fut := rfl
@[simp] theorem roleOf_sendable : roleOf .sendable = .tx := rfl
@[simp] theorem roleOf_received : roleOf .received = .reader := rfl
@[simp] theorem roleOf_view (a b c : Nat) : roleOf (.view a b c) = .reader := rfl

/-- Claim carried by the program counter alone (no handle exists yet / at all):
    `alloc_frame` between the successful `None → Created` compare-exchange and the construction of the
    `CreatedFrame`; `receive_frame` between `claim_receiving` and `mark_received` (or the hand-back
    `RxBusy → Sent` after the marker re-check failed, or an error return). -/
def Pc.claim : Pc → Option (Nat × Role)
  | .alWaker _ k => some (k, .creator)
  | .alFirst _ k => some (k, .creator)
  | .alBuf _ k => some (k, .creator)
  | .rxVerify k _ _ => some (k, .rx)
  | .rxUnclaim k => some (k, .rx)
  | .rxCopy k _ => some (k, .rx)
  | .rxMark k => some (k, .rx)
  | _ => none

/-- Register (and role of the handle in it) the operation in progress works on. -/
def Pc.needs : Pc → Option (Nat × Role)
  | .puFetch r _ _ _ _ => some (r, .creator)
  | .puWrite r _ _ _ _ _ => some (r, .creator)
  | .puFirst r _ _ _ => some (r, .creator)
  | .puPatch r _ _ => some (r, .creator)
  | .mkHdr r _ _ => some (r, .creator)
  | .mkStore r _ _ => some (r, .creator)
  | .dcCas r => some (r, .creator)
  | .mkDrop r => some (r, .fut)
  | .poWaker r => some (r, .fut)
  | .poCas r => some (r, .fut)
  | .poRelease r => some (r, .fut)
  | .poRetry r _ _ => some (r, .fut)
  | .dfStore r => some (r, .fut)
  | .tsRead r _ => some (r, .tx)
  | .tsMark r _ _ => some (r, .tx)
  | .fpRead r _ _ => some (r, .reader)
  | .rfClear r _ => some (r, .reader)
  | .rfCas r _ => some (r, .reader)
  | .itNext r _ _ _ => some (r, .reader)
  | .itRead r _ _ _ _ _ _ => some (r, .reader)
  | .vrRead r => some (r, .reader)
  | _ => none

/-- Thread `t` holds a claim of role `ρ` on slot `k`: by its program counter or by a handle in one of
    its registers. -/
def Holds (t : Thread) (k : Nat) (ρ : Role) : Prop :=
  t.pc.claim = some (k, ρ) ∨ ∃ h ∈ t.regs, h.slot = k ∧ roleOf h.kind = ρ

/-- Thread `t` is INSIDE slot `k`'s buffer (has the right to read or write it). -/
def Inside (t : Thread) (k : Nat) : Prop :=
  Holds t k .creator ∨ Holds t k .tx ∨ Holds t k .rx ∨ Holds t k .reader

/-- Thread `t` OWNS slot `k` (is responsible for returning it). -/
def Owner (t : Thread) (k : Nat) : Prop :=
  Holds t k .creator ∨ Holds t k .fut ∨ Holds t k .reader

/-! ## token counts -/

def one (k' : Nat) (ρ' : Role) (k : Nat) (ρ : Role) : Nat := if k' = k ∧ ρ' = ρ then 1 else 0

def hcount (hs : List Hd) (k : Nat) (ρ : Role) : Nat := (hs.map (fun h => one h.slot (roleOf h.kind) k ρ)).sum

def pcount (pc : Pc) (k : Nat) (ρ : Role) : Nat :=
  match pc.claim with
  | some (k', ρ') => one k' ρ' k ρ
  | none => 0

/-- Number of claims of role `ρ` on slot `k` held by thread `t`. -/
def tcount (t : Thread) (k : Nat) (ρ : Role) : Nat := pcount t.pc k ρ + hcount t.regs k ρ

/-- Number of claims of role `ρ` on slot `k` held by all threads together. -/
def wcount (ts : List Thread) (k : Nat) (ρ : Role) : Nat := (ts.map (fun t => tcount t k ρ)).sum

/-- How many claims of each role a slot in state `st` admits. -/
def cap (st : St) (ρ : Role) : Nat :=
  match st with
  | .none => 0
  | .created => if ρ = .creator then 1 else 0
  | .sendable => if ρ = .fut then 1 else 0
  | .sending => if ρ = .fut ∨ ρ = .tx then 1 else 0
  | .sent => if ρ = .fut then 1 else 0
  | .rxBusy => if ρ = .fut ∨ ρ = .rx then 1 else 0
  | .rxDone => if ρ = .fut then 1 else 0
  | .rxProcessing => if ρ = .reader then 1 else 0

/-- While an operation is in progress, the register it works on holds a handle of the role it needs
    (registers are thread-local; `begin` checked the kind), and `alloc_frame`'s candidate index is in
    range. -/
def PcOk (n : Nat) (t : Thread) : Prop :=
  (match t.pc.needs with
   | some (r, ρ) => ∃ h, getH t.regs r = some h ∧ roleOf h.kind = ρ
   | none => True) ∧
  (match t.pc with
   | .alCas _ _ idx => idx < n
   | _ => True)

/-- **The ownership invariant of the micro-step model.** For every slot and every role, the number
    of claims (program counters and registers of all threads) is bounded by what the slot's status
    admits: `None` ⇒ nobody; `Created` ⇒ at most one creator and nobody else; `Sendable|Sent|RxDone` ⇒
    at most the awaiting future; `Sending` ⇒ future + at most one TX; `RxBusy` ⇒ future + at most one
    RX; `RxProcessing` ⇒ at most one reader. -/
structure MInv (w : MWorld) : Prop where
  pos : 0 < w.sys.n
  regs : ∀ t ∈ w.threads, Regs t.regs
  pcok : ∀ t ∈ w.threads, PcOk w.sys.n t
  slots : ∀ k ρ, wcount w.threads k ρ ≤ cap (w.sys.slot k).st ρ

/-- The step `tid` is about to take abandons a request (drop of the future, or final timeout) while
    the TX side holds the frame (`Sending`) or an RX thread is inside it (`RxBusy` and a thread between
    `claim_receiving` and `mark_received`). This is the window C02 excludes and C06 covers. -/
def AbandonInsideStep (w : MWorld) (tid : Nat) : Prop :=
  ∃ t r, w.threads[tid]? = some t ∧ (t.pc = .dfStore r ∨ t.pc = .poRelease r) ∧
    ((w.sys.slot (slotOf t r)).st = .sending ∨
     ((w.sys.slot (slotOf t r)).st = .rxBusy ∧ ∃ t' ∈ w.threads, Holds t' (slotOf t r) .rx))

/-! ## basic facts about counts -/

@[simp] theorem one_self (k : Nat) (ρ : Role) : one k ρ k ρ = 1 := by simp [one]

theorem one_le (k' : Nat) (ρ' : Role) (k : Nat) (ρ : Role) : one k' ρ' k ρ ≤ 1 := by
  unfold one; split <;> omega

theorem one_ne_slot {k' k : Nat} (h : k ≠ k') (ρ' ρ : Role) : one k' ρ' k ρ = 0 := by
  simp [one]; intro e; exact absurd e.symm h

theorem one_ne_role (k' k : Nat) {ρ' ρ : Role} (h : ρ' ≠ ρ) : one k' ρ' k ρ = 0 := by
  simp [one]; intro _; exact h

@[simp] theorem hcount_nil (k : Nat) (ρ : Role) : hcount [] k ρ = 0 := rfl

theorem hcount_cons (h : Hd) (hs : List Hd) (k : Nat) (ρ : Role) :
    hcount (h :: hs) k ρ = one h.slot (roleOf h.kind) k ρ + hcount hs k ρ := by
  simp [hcount]

theorem hcount_delH_le (hs : List Hd) (r k : Nat) (ρ : Role) : hcount (delH hs r) k ρ ≤ hcount hs k ρ := by
  induction hs with
  | nil => simp [delH]
  | cons x xs ih =>
    simp only [delH, List.filter_cons] at ih ⊢
    split
    · simp only [hcount_cons]; omega
    · simp only [hcount_cons]; omega

theorem delH_of_none {hs : List Hd} {r : Nat} (e : getH hs r = none) : delH hs r = hs := by
  have := getH_none e
  simp only [delH, List.filter_eq_self]
  intro h hm; simpa using this h hm

/-- Removing the handle in register `r` removes exactly its claim. -/
theorem hcount_delH_some {hs : List Hd} (hr : Regs hs) {r : Nat} {h : Hd} (e : getH hs r = some h)
    (k : Nat) (ρ : Role) :
    hcount hs k ρ = one h.slot (roleOf h.kind) k ρ + hcount (delH hs r) k ρ := by
  induction hs with
  | nil => simp [getH] at e
  | cons x xs ih =>
    have hr' : Regs xs := by unfold Regs at *; exact (List.nodup_cons.mp hr).2
    by_cases hx : x.reg = r
    · have hxe : h = x := by
        simp only [getH, List.find?_cons] at e
        simp [hx] at e; exact e.symm
      subst hxe
      have hnone : getH xs r = none := by
        simp only [getH, List.find?_eq_none]
        intro y hy
        simp only [beq_iff_eq]
        intro hyr
        unfold Regs at hr
        simp only [List.map_cons, List.nodup_cons] at hr
        exact hr.1 (List.mem_map.mpr ⟨y, hy, by rw [hyr, hx]⟩)
      have : delH (h :: xs) r = xs := by
        simp only [delH, List.filter_cons]
        simp only [hx, bne_self_eq_false, Bool.false_eq_true, if_false]
        exact delH_of_none hnone
      rw [this, hcount_cons]
    · have e' : getH xs r = some h := by
        have hb : (x.reg == r) = false := by simpa using hx
        simpa [getH, List.find?_cons, hb] using e
      have : delH (x :: xs) r = x :: delH xs r := by
        simp only [delH, List.filter_cons]
        simp [hx]
      rw [this, hcount_cons, hcount_cons, ih hr' e']
      omega

theorem hcount_putH (hs : List Hd) (x : Hd) (k : Nat) (ρ : Role) :
    hcount (putH hs x) k ρ = one x.slot (roleOf x.kind) k ρ + hcount (delH hs x.reg) k ρ := by
  simp [putH, hcount_cons]

/-- `rx` is never the role of a handle. -/
theorem hcount_rx (hs : List Hd) (k : Nat) : hcount hs k .rx = 0 := by
  induction hs with
  | nil => rfl
  | cons x xs ih =>
    rw [hcount_cons, ih, one_ne_role]
    cases x.kind <;> simp [roleOf]

theorem hcount_pos_iff (hs : List Hd) (k : Nat) (ρ : Role) :
    0 < hcount hs k ρ ↔ ∃ h ∈ hs, h.slot = k ∧ roleOf h.kind = ρ := by
  induction hs with
  | nil => simp
  | cons x xs ih =>
    rw [hcount_cons]
    constructor
    · intro hp
      by_cases hx : x.slot = k ∧ roleOf x.kind = ρ
      · exact ⟨x, List.mem_cons_self, hx⟩
      · have : one x.slot (roleOf x.kind) k ρ = 0 := by simp [one, hx]
        obtain ⟨h, hm, hh⟩ := ih.mp (by omega)
        exact ⟨h, List.mem_cons_of_mem _ hm, hh⟩
    · rintro ⟨h, hm, hh⟩
      rcases List.mem_cons.mp hm with rfl | hm'
      · have : one h.slot (roleOf h.kind) k ρ = 1 := by simp [one, hh]
        omega
      · have := ih.mpr ⟨h, hm', hh⟩
        omega

theorem pcount_pos_iff (pc : Pc) (k : Nat) (ρ : Role) : 0 < pcount pc k ρ ↔ pc.claim = some (k, ρ) := by
  unfold pcount
  split
  · next k' ρ' e =>
    rw [e]
    simp only [one, Option.some.injEq, Prod.mk.injEq]
    split <;> simp_all
  · next e => rw [e]; simp

theorem tcount_pos_iff (t : Thread) (k : Nat) (ρ : Role) : 0 < tcount t k ρ ↔ Holds t k ρ := by
  unfold tcount Holds
  rw [← pcount_pos_iff, ← hcount_pos_iff]
  omega

/-! ## sums over the thread list -/

theorem mem_of_get {ts : List Thread} {tid : Nat} {t : Thread} (h : ts[tid]? = some t) : t ∈ ts :=
  List.mem_of_getElem? h

/-- Split the world's count into the stepping thread's part and the rest, which a step of that
    thread does not change. -/
theorem wcount_split {ts : List Thread} {tid : Nat} {t : Thread} (h : ts[tid]? = some t) :
    ∃ rest : Nat → Role → Nat, (∀ k ρ, wcount ts k ρ = rest k ρ + tcount t k ρ) ∧
      ∀ t' k ρ, wcount (ts.set tid t') k ρ = rest k ρ + tcount t' k ρ := by
  induction ts generalizing tid with
  | nil => simp at h
  | cons x xs ih =>
    cases tid with
    | zero =>
      simp only [List.getElem?_cons_zero, Option.some.injEq] at h
      subst h
      refine ⟨fun k ρ => wcount xs k ρ, ?_, ?_⟩
      · intro k ρ; simp [wcount]; omega
      · intro t' k ρ; simp [wcount]; omega
    | succ i =>
      simp only [List.getElem?_cons_succ] at h
      obtain ⟨rest, h1, h2⟩ := ih h
      refine ⟨fun k ρ => tcount x k ρ + rest k ρ, ?_, ?_⟩
      · intro k ρ
        have := h1 k ρ
        simp only [wcount, List.map_cons, List.sum_cons] at this ⊢
        omega
      · intro t' k ρ
        have := h2 t' k ρ
        simp only [wcount, List.set_cons_succ, List.map_cons, List.sum_cons] at this ⊢
        omega

theorem tcount_le_wcount {ts : List Thread} {t : Thread} (h : t ∈ ts) (k : Nat) (ρ : Role) :
    tcount t k ρ ≤ wcount ts k ρ := by
  induction ts with
  | nil => cases h
  | cons x xs ih =>
    simp only [wcount, List.map_cons, List.sum_cons]
    rcases List.mem_cons.mp h with rfl | h'
    · omega
    · have := ih h'; simp only [wcount] at this; omega

/-- Two different positions of the thread list contribute separately. -/
theorem wcount_two {ts : List Thread} {i j : Nat} {a b : Thread} (hij : i ≠ j)
    (ha : ts[i]? = some a) (hb : ts[j]? = some b) (f : Thread → Nat) :
    f a + f b ≤ (ts.map f).sum := by
  induction ts generalizing i j with
  | nil => simp at ha
  | cons x xs ih =>
    have single : ∀ {m : Nat} {c : Thread}, xs[m]? = some c → f c ≤ (xs.map f).sum := by
      intro m c hc
      have hm := List.mem_of_getElem? hc
      clear ih ha hb
      induction xs generalizing m with
      | nil => cases hm
      | cons y ys ih2 =>
        simp only [List.map_cons, List.sum_cons]
        rcases List.mem_cons.mp hm with rfl | h'
        · omega
        · obtain ⟨m', hm'⟩ := List.getElem?_of_mem h'
          have := ih2 hm' h'; omega
    simp only [List.map_cons, List.sum_cons]
    cases i with
    | zero =>
      cases j with
      | zero => exact absurd rfl hij
      | succ j' =>
        simp only [List.getElem?_cons_zero, Option.some.injEq] at ha
        simp only [List.getElem?_cons_succ] at hb
        subst ha
        have := single hb; omega
    | succ i' =>
      cases j with
      | zero =>
        simp only [List.getElem?_cons_zero, Option.some.injEq] at hb
        simp only [List.getElem?_cons_succ] at ha
        subst hb
        have := single ha; omega
      | succ j' =>
        simp only [List.getElem?_cons_succ] at ha hb
        have := ih (by omega) ha hb; omega

/-! ## slots -/

theorem st_ne_none_lt {s : Sys} {k : Nat} (h : (s.slot k).st ≠ .none) : k < s.n := by
  by_cases hk : k < s.n
  · exact hk
  · rw [slot_ge _ _ hk] at h; simp [dummySlot] at h

theorem st_setSlot_same (s : Sys) (k₀ : Nat) (y : Slot) (hy : y.st = (s.slot k₀).st) (k : Nat) :
    ((s.setSlot k₀ y).slot k).st = (s.slot k).st := by
  rw [slot_setSlot]
  split
  · next h => rw [h.1]; exact hy
  · rfl

theorem cap_none (ρ : Role) : cap .none ρ = 0 := rfl

theorem cap_le_one (st : St) (ρ : Role) : cap st ρ ≤ 1 := by cases st <;> cases ρ <;> simp [cap]

/-- A thread that holds any claim on `k` proves `k` is a real, non-free slot. -/
theorem MInv.holder {w : MWorld} (hI : MInv w) {t : Thread} (hm : t ∈ w.threads) {k : Nat} {ρ : Role}
    (hp : 0 < tcount t k ρ) : 0 < cap (w.sys.slot k).st ρ ∧ k < w.sys.n := by
  have h1 := tcount_le_wcount hm k ρ
  have h2 := hI.slots k ρ
  have h3 : 0 < cap (w.sys.slot k).st ρ := by omega
  refine ⟨h3, st_ne_none_lt ?_⟩
  intro e; rw [e, cap_none] at h3; omega

/-! ## generic preservation lemmas -/

/-- **Generic step.** Thread `tid` goes from `t` to `t'` and the storage from `w.sys` to `s'`; if,
    for every slot, the bound is re-established from the old bound by looking only at this thread's
    own claims (everybody else's are `rest`), the invariant is preserved. -/
theorem MInv.step_generic {w : MWorld} (hI : MInv w) {tid : Nat} {t : Thread}
    (ht : w.threads[tid]? = some t) {s' : Sys} {t' : Thread} (hn : s'.n = w.sys.n)
    (hr : Regs t'.regs) (hp : PcOk w.sys.n t')
    (hk : ∀ k (rest : Role → Nat), (∀ ρ, rest ρ + tcount t k ρ ≤ cap (w.sys.slot k).st ρ) →
        (∀ ρ, wcount w.threads k ρ = rest ρ + tcount t k ρ) →
        ∀ ρ, rest ρ + tcount t' k ρ ≤ cap (s'.slot k).st ρ) :
    MInv ⟨s', w.threads.set tid t'⟩ := by
  obtain ⟨rest, h1, h2⟩ := wcount_split ht
  refine ⟨by simpa [hn] using hI.pos, ?_, ?_, ?_⟩
  · intro x hx
    rcases List.mem_or_eq_of_mem_set hx with hx | rfl
    · exact hI.regs x hx
    · exact hr
  · intro x hx
    simp only [hn]
    rcases List.mem_or_eq_of_mem_set hx with hx | rfl
    · exact hI.pcok x hx
    · exact hp
  · intro k ρ
    simp only
    rw [h2 t' k ρ]
    refine hk k (rest k) ?_ (h1 k) ρ
    intro ρ'
    rw [← h1 k ρ']
    exact hI.slots k ρ'

/-- The storage changes so that no slot admits fewer claims than before (in particular: no status
    changes at all, or `Sent → Sendable`). -/
def CapLe (s s' : Sys) : Prop := s'.n = s.n ∧ ∀ k ρ, cap (s.slot k).st ρ ≤ cap (s'.slot k).st ρ

theorem CapLe.refl (s : Sys) : CapLe s s := ⟨rfl, fun _ _ => Nat.le_refl _⟩

theorem CapLe.congr {s s' : Sys} (e : s'.slots = s.slots) : CapLe s s' :=
  ⟨n_congr e, fun k ρ => by rw [slot_congr e]; exact Nat.le_refl _⟩

theorem CapLe.set (s : Sys) (k₀ : Nat) (y : Slot) (hy : ∀ ρ, cap (s.slot k₀).st ρ ≤ cap y.st ρ) :
    CapLe s (s.setSlot k₀ y) := by
  refine ⟨n_setSlot _ _ _, fun k ρ => ?_⟩
  rw [slot_setSlot]
  split
  · next h => rw [h.1]; exact hy ρ
  · exact Nat.le_refl _

theorem CapLe.set_same (s : Sys) (k₀ : Nat) (y : Slot) (hy : y.st = (s.slot k₀).st) :
    CapLe s (s.setSlot k₀ y) :=
  CapLe.set s k₀ y (fun ρ => by rw [hy]; exact Nat.le_refl _)

theorem CapLe.ite {s a b : Sys} {c : Prop} [Decidable c] (h1 : CapLe s a) (h2 : CapLe s b) :
    CapLe s (if c then a else b) := by split <;> assumption

/-- **No slot admits fewer claims, no new claims.** Covers every step that touches only counters,
    markers, buffers or nothing, every failed compare-exchange, the retry (`Sent → Sendable`), and
    every loss of a claim without a status change (RX giving up; a handle overwritten in its
    register). -/
theorem MInv.step_same {w : MWorld} (hI : MInv w) {tid : Nat} {t : Thread}
    (ht : w.threads[tid]? = some t) {s' : Sys} {t' : Thread} (hc : CapLe w.sys s')
    (hr : Regs t'.regs) (hp : PcOk w.sys.n t')
    (hle : ∀ k ρ, tcount t' k ρ ≤ tcount t k ρ) :
    MInv ⟨s', w.threads.set tid t'⟩ := by
  refine hI.step_generic ht hc.1 hr hp ?_
  intro k rest h0 _ ρ
  have := h0 ρ
  have := hle k ρ
  have := hc.2 k ρ
  omega

/-- **One slot changes status.** Claims on other slots do not grow; for the slot itself the bound is
    re-established locally. -/
theorem MInv.step_set {w : MWorld} (hI : MInv w) {tid : Nat} {t : Thread}
    (ht : w.threads[tid]? = some t) (k₀ : Nat) (y : Slot) {t' : Thread} (hlt : k₀ < w.sys.n)
    (hr : Regs t'.regs) (hp : PcOk w.sys.n t')
    (hoth : ∀ k ρ, k ≠ k₀ → tcount t' k ρ ≤ tcount t k ρ)
    (hk : ∀ rest : Role → Nat, (∀ ρ, rest ρ + tcount t k₀ ρ ≤ cap (w.sys.slot k₀).st ρ) →
        (∀ ρ, wcount w.threads k₀ ρ = rest ρ + tcount t k₀ ρ) →
        ∀ ρ, rest ρ + tcount t' k₀ ρ ≤ cap y.st ρ) :
    MInv ⟨w.sys.setSlot k₀ y, w.threads.set tid t'⟩ := by
  refine hI.step_generic ht (n_setSlot _ _ _) hr hp ?_
  intro k rest h0 hw ρ
  rw [slot_setSlot]
  split
  · next h =>
    obtain ⟨rfl, _⟩ := h
    exact hk rest h0 hw ρ
  · next h =>
    have hne : k ≠ k₀ := fun e => h ⟨e, hlt⟩
    have := h0 ρ
    have := hoth k ρ hne
    omega

/-! ## helpers for the per-program-counter lemmas -/

/-- World after thread `tid` took the step with result `p`. -/
@[reducible] def next (w : MWorld) (tid : Nat) (p : Sys × Thread) : MWorld := ⟨p.1, w.threads.set tid p.2⟩

theorem cap_creator_pos {a : St} (h : 0 < cap a .creator) : a = .created := by
  cases a <;> simp [cap] at h ⊢

theorem cap_fut_pos {a : St} (h : 0 < cap a .fut) :
    a = .sendable ∨ a = .sending ∨ a = .sent ∨ a = .rxBusy ∨ a = .rxDone := by
  cases a <;> simp [cap] at h ⊢

theorem cap_tx_pos {a : St} (h : 0 < cap a .tx) : a = .sending := by
  cases a <;> simp [cap] at h ⊢

theorem cap_rx_pos {a : St} (h : 0 < cap a .rx) : a = .rxBusy := by
  cases a <;> simp [cap] at h ⊢

theorem cap_reader_pos {a : St} (h : 0 < cap a .reader) : a = .rxProcessing := by
  cases a <;> simp [cap] at h ⊢

/-- The handle the operation in progress works on. -/
theorem MInv.need {w : MWorld} (hI : MInv w) {tid : Nat} {t : Thread} (ht : w.threads[tid]? = some t)
    {r : Nat} {ρ : Role} (hn : t.pc.needs = some (r, ρ)) :
    ∃ h, getH t.regs r = some h ∧ roleOf h.kind = ρ := by
  have := (hI.pcok t (mem_of_get ht)).1
  rw [hn] at this
  exact this

theorem tcount_of_get {t : Thread} (hr : Regs t.regs) {r : Nat} {h : Hd} (e : getH t.regs r = some h)
    (k : Nat) (ρ : Role) :
    tcount t k ρ = pcount t.pc k ρ + (one h.slot (roleOf h.kind) k ρ + hcount (delH t.regs r) k ρ) := by
  rw [tcount, hcount_delH_some hr e]

/-- A thread with a handle in a register holds that handle's claim; hence the slot is real and its
    status admits the claim. -/
theorem MInv.of_get {w : MWorld} (hI : MInv w) {tid : Nat} {t : Thread} (ht : w.threads[tid]? = some t)
    {r : Nat} {h : Hd} (e : getH t.regs r = some h) :
    0 < cap (w.sys.slot h.slot).st (roleOf h.kind) ∧ h.slot < w.sys.n := by
  refine hI.holder (mem_of_get ht) ?_
  rw [tcount_of_get (hI.regs t (mem_of_get ht)) e, one_self]
  omega

/-- Replacing the handle in a register by one for the same slot and role changes no count. -/
theorem hcount_retag {hs : List Hd} (hr : Regs hs) {r : Nat} {h : Hd} (e : getH hs r = some h)
    (K : HK) (hK : roleOf K = roleOf h.kind) (sl : Nat) (hsl : sl = h.slot) (k : Nat) (ρ : Role) :
    hcount (putH hs ⟨r, sl, K⟩) k ρ = hcount hs k ρ := by
  rw [hcount_putH, hcount_delH_some hr e k ρ, hK, hsl]

theorem wcount_zero {ts : List Thread} {k : Nat} {ρ : Role} (h : ∀ t ∈ ts, ¬ Holds t k ρ) :
    wcount ts k ρ = 0 := by
  induction ts with
  | nil => rfl
  | cons x xs ih =>
    simp only [wcount, List.map_cons, List.sum_cons]
    have hx : tcount x k ρ = 0 := by
      have := h x List.mem_cons_self
      rw [← tcount_pos_iff] at this
      omega
    have := ih (fun t ht => h t (List.mem_cons_of_mem _ ht))
    simp only [wcount] at this
    omega

end Ec.Micro
