/-
  EcModel.Lifecycle — the slot status protocol as a token automaton.

  Every access to a slot's status word is one event; the parties that may perform an event are the
  holders of the corresponding Rust handle (ownership makes handles linear), modelled as tokens:
    creator  = `CreatedFrame`      (may write the buffer)
    fut      = `ReceiveFrameFut`   (waits; no buffer access)
    tx       = `SendableFrame`     (may read the buffer)
    rx       = `ReceivingFrame`    (may write the buffer)
    reader   = `ReceivedFrame` / `ReceivedPdu` (may read the buffer)
  The events are exactly the transition sites regenerated from /repo (`Gen.transitionSites`): the
  obligation `events_match_sites` (Props/C02.lean) fails if a site is added, removed, or changes its
  primitive (compare-exchange vs plain store) or its states.
-/
import EcModel.Slots
import EcModel.Generated.Transitions

namespace Ec.Lifecycle
open Ec

structure Tok where
  creator : Nat
  fut : Nat
  tx : Nat
  rx : Nat
  reader : Nat
  deriving DecidableEq, Repr

structure LSlot where
  st : St
  tok : Tok
  deriving DecidableEq, Repr

/-- Status events; one per transition site of the code. -/
inductive Ev where
  | claimCreated     -- mod.rs claim_created           cas  None → Created
  | markSendable     -- created_frame.rs mark_sendable store    * → Sendable   (by the creator)
  | dropCreated      -- created_frame.rs drop          cas  Created → None     (by the creator)
  | txClaim          -- mod.rs claim_sending           cas  Sendable → Sending
  | txSent           -- sendable_frame.rs mark_sent    cas  Sending → Sent     (by tx)
  | txRelease        -- sendable_frame.rs release_sending_claim cas Sending → Sendable (by tx)
  | rxClaim          -- mod.rs claim_receiving         cas  Sent → RxBusy
  | rxDone           -- receiving_frame.rs mark_received cas RxBusy → RxDone   (by rx)
  | rxUnclaim        -- receiving_frame.rs release_receiving_claim cas RxBusy → Sent (by rx: wrong frame claimed)
  | rxGiveUp         -- receive_frame returns an error after the claim: the ReceivingFrame is dropped (no status access)
  | pollTake         -- receiving_frame.rs poll        cas  RxDone → RxProcessing (by fut)
  | retry            -- receiving_frame.rs poll        cas  Sent → Sendable    (by fut)
  | abandon          -- receiving_frame.rs release     store    * → None       (by fut: drop or final timeout)
  | readerDrop       -- received_frame.rs drop         cas  RxProcessing → None (by reader)
  deriving DecidableEq, Repr

def Ev.all : List Ev :=
  [.claimCreated, .markSendable, .dropCreated, .txClaim, .txSent, .txRelease, .rxClaim, .rxDone,
   .rxUnclaim, .rxGiveUp, .pollTake, .retry, .abandon, .readerDrop]

/-- (function id, 0 = cas / 1 = store, from (255 = any), to) of the site an event stands for, in the
    numbering of `Gen.transitionSitesN` (`rxGiveUp` touches no status). -/
def Ev.site : Ev → Option (Nat × Nat × Nat × Nat)
  | .claimCreated => some (1, 0, 0, 1)
  | .markSendable => some (2, 1, 255, 2)
  | .dropCreated => some (3, 0, 1, 0)
  | .txClaim => some (4, 0, 2, 3)
  | .txSent => some (5, 0, 3, 4)
  | .txRelease => some (6, 0, 3, 2)
  | .rxClaim => some (7, 0, 4, 5)
  | .rxDone => some (8, 0, 5, 6)
  | .rxUnclaim => some (13, 0, 5, 4)
  | .rxGiveUp => none
  | .pollTake => some (9, 0, 6, 7)
  | .retry => some (9, 0, 4, 2)
  | .abandon => some (10, 1, 255, 0)
  | .readerDrop => some (11, 0, 7, 0)

def cas (x : LSlot) (a b : St) : LSlot × Bool := if x.st = a then ({ x with st := b }, true) else (x, false)

/-- One event. `none` = the event is not enabled (nobody holds the handle needed to perform it). -/
def step (x : LSlot) : Ev → Option LSlot
  | .claimCreated =>
    let r := cas x .none .created
    some (if r.2 then { r.1 with tok := { r.1.tok with creator := r.1.tok.creator + 1 } } else r.1)
  | .markSendable =>
    if x.tok.creator = 0 then none else
    some { st := .sendable, tok := { x.tok with creator := x.tok.creator - 1, fut := x.tok.fut + 1 } }
  | .dropCreated =>
    if x.tok.creator = 0 then none else
    some { (cas x .created .none).1 with tok := { x.tok with creator := x.tok.creator - 1 } }
  | .txClaim =>
    let r := cas x .sendable .sending
    some (if r.2 then { r.1 with tok := { r.1.tok with tx := r.1.tok.tx + 1 } } else r.1)
  | .txSent =>
    if x.tok.tx = 0 then none else
    some { (cas x .sending .sent).1 with tok := { x.tok with tx := x.tok.tx - 1 } }
  | .txRelease =>
    if x.tok.tx = 0 then none else
    some { (cas x .sending .sendable).1 with tok := { x.tok with tx := x.tok.tx - 1 } }
  | .rxClaim =>
    let r := cas x .sent .rxBusy
    some (if r.2 then { r.1 with tok := { r.1.tok with rx := r.1.tok.rx + 1 } } else r.1)
  | .rxDone =>
    if x.tok.rx = 0 then none else
    some { (cas x .rxBusy .rxDone).1 with tok := { x.tok with rx := x.tok.rx - 1 } }
  | .rxUnclaim =>
    if x.tok.rx = 0 then none else
    some { (cas x .rxBusy .sent).1 with tok := { x.tok with rx := x.tok.rx - 1 } }
  | .rxGiveUp =>
    if x.tok.rx = 0 then none else some { x with tok := { x.tok with rx := x.tok.rx - 1 } }
  | .pollTake =>
    if x.tok.fut = 0 then none else
    let r := cas x .rxDone .rxProcessing
    some (if r.2 then { r.1 with tok := { r.1.tok with fut := r.1.tok.fut - 1, reader := r.1.tok.reader + 1 } } else r.1)
  | .retry =>
    if x.tok.fut = 0 then none else some (cas x .sent .sendable).1
  | .abandon =>
    if x.tok.fut = 0 then none else
    some { st := .none, tok := { x.tok with fut := x.tok.fut - 1 } }
  | .readerDrop =>
    if x.tok.reader = 0 then none else
    some { (cas x .rxProcessing .none).1 with tok := { x.tok with reader := x.tok.reader - 1 } }

/-- Number of parties that currently have the right to touch the buffer. -/
def inside (t : Tok) : Nat := t.creator + t.tx + t.rx + t.reader

/-- The ownership invariant: the status word determines who holds which handle. -/
def SlotInv (x : LSlot) : Prop :=
  match x.st with
  | .none => x.tok = ⟨0, 0, 0, 0, 0⟩
  | .created => x.tok = ⟨1, 0, 0, 0, 0⟩
  | .sendable => x.tok = ⟨0, 1, 0, 0, 0⟩
  | .sending => x.tok = ⟨0, 1, 1, 0, 0⟩
  | .sent => x.tok = ⟨0, 1, 0, 0, 0⟩
  | .rxBusy => x.tok = ⟨0, 1, 0, 1, 0⟩ ∨ x.tok = ⟨0, 1, 0, 0, 0⟩   -- second: RX gave up (payload too long)
  | .rxDone => x.tok = ⟨0, 1, 0, 0, 0⟩
  | .rxProcessing => x.tok = ⟨0, 0, 0, 0, 1⟩

instance (x : LSlot) : Decidable (SlotInv x) := by unfold SlotInv; cases x.st <;> infer_instance

/-- Abandoning (drop / final timeout) while the TX or RX side is inside the buffer: C06's window. -/
def AbandonInside (x : LSlot) (e : Ev) : Prop :=
  e = .abandon ∧ (x.st = .sending ∨ (x.st = .rxBusy ∧ x.tok.rx ≠ 0))

def init : LSlot := ⟨.none, ⟨0, 0, 0, 0, 0⟩⟩

/-- Run a list of events, skipping those that are not enabled. -/
def run (x : LSlot) (evs : List Ev) : LSlot := evs.foldl (fun x e => (step x e).getD x) x

/-- The documented lifecycle graph (including the failure edges). -/
def edge : St → St → Bool
  | .none, .created | .created, .sendable | .created, .none
  | .sendable, .sending | .sending, .sent | .sending, .sendable
  | .sent, .rxBusy | .rxBusy, .rxDone | .rxBusy, .sent | .rxDone, .rxProcessing | .rxProcessing, .none
  | .sent, .sendable => true
  -- release by the owner (deadline / drop) from the waiting states
  | .sendable, .none | .sent, .none | .rxDone, .none | .rxBusy, .none => true
  | _, _ => false

end Ec.Lifecycle
