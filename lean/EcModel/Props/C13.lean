/-
  C13 — no EEPROM content can hang or crash the MainDevice.
  Property theorems only; the calculus and the per-function lemmas live in EcModel/Lemmas/EepromSafe.lean.
-/
import EcModel.Lemmas.EepromSafe

namespace Ec.C13
open Ec Ec.Eeprom

/-- The EEPROM-derived queries of `SubDeviceEeprom` (what `SubDevice::new`, configuration and the public
    `name/description/identity/eeprom_size/...` entry points call). -/
inductive Query where
  | category (cat : Nat)
  | stationAlias | size | identity | mailboxConfig | general
  | syncManagers | fmmus | fmmuMappings
  | pdos (cat : Nat)
  | findString (N idx : Nat)
  | deviceName (N : Nat)
  | deviceDescription (N : Nat)

/-- Keep outcome class and cost, forget the value. -/
def forget {α : Type} (x : M α) : M Unit :=
  (match x.1 with | .ok _ => .ok () | .err e => .err e | .panic w => .panic w, x.2)

def Query.run (m : Mode) (p : Prov) : Query → M Unit
  | .category cat => forget (Eeprom.category m p cat)
  | .stationAlias => forget (Eeprom.stationAlias m p)
  | .size => forget (Eeprom.size m p)
  | .identity => forget (Eeprom.identity m p)
  | .mailboxConfig => forget (Eeprom.mailboxConfig m p)
  | .general => forget (Eeprom.general m p)
  | .syncManagers => forget (Eeprom.syncManagers m p)
  | .fmmus => forget (Eeprom.fmmus m p)
  | .fmmuMappings => forget (Eeprom.fmmuMappings m p)
  | .pdos cat => forget (Eeprom.pdos m p cat)
  | .findString N idx => forget (Eeprom.findString m p N idx)
  | .deviceName N => forget (Eeprom.deviceName m p N)
  | .deviceDescription N => forget (Eeprom.deviceDescription m p N)

/-- Provider-call bound of a query, given the bound `CB` of one category search. -/
def Query.bound (CB : Nat) : Query → Nat
  | .category _ => CB
  | .stationAlias => 3
  | .size => 3
  | .identity => 17
  | .mailboxConfig => 11
  | .general => CB + 19
  | .syncManagers => CB + 90
  | .fmmus => CB + 17
  | .fmmuMappings => CB + 72
  | .pdos _ => CB + 152064
  | .findString N idx => CB + 2 * idx + N + 5
  | .deviceName N => 2 * CB + N + 534
  | .deviceDescription N => 2 * CB + N + 534

theorem forget_tri {α : Type} {K : List String} {hang : Bool} {B : Nat} {Q : α → Prop} {x : M α}
    (h : Tri K hang B Q x) : Tri K hang B (fun _ => True) (forget x) := by
  unfold forget
  refine ⟨h.cost, ?_, ?_, fun _ _ => trivial⟩
  · intro hh h'
    cases hx : x.1 with
    | ok a => rw [hx] at h'; cases h'
    | err e => rw [hx] at h'; cases h'; exact h.nofuel hh hx
    | panic w => rw [hx] at h'; cases h'
  · intro w h'
    cases hx : x.1 with
    | ok a => rw [hx] at h'; cases h'
    | err e => rw [hx] at h'; cases h'
    | panic w' => rw [hx] at h'; cases h'; exact h.panics _ hx

/-- The calculus applied to every query, relative to what is known about the category search. -/
theorem query_tri (m : Mode) (p : Prov) (hcs : 4 ≤ p.cs) (hb : ∀ a, p.rd a < 256) {hang : Bool} {CB : Nat}
    (hc : CatOK m p hang CB) (q : Query) :
    Tri (sites m) hang (q.bound CB) (fun _ => True) (q.run m p) := by
  cases q with
  | category cat => exact forget_tri (hc cat)
  | stationAlias => exact forget_tri (stationAlias_tri m hang p (by omega))
  | size => exact forget_tri (size_tri m hang p (by omega))
  | identity => exact forget_tri (identity_tri m hang p (by omega))
  | mailboxConfig => exact forget_tri (mailboxConfig_tri m hang p (by omega))
  | general => exact forget_tri (general_tri m p hcs hc hb)
  | syncManagers => exact forget_tri (syncManagers_tri m p hcs hc)
  | fmmus => exact forget_tri (fmmus_tri m p hcs hc)
  | fmmuMappings => exact forget_tri (fmmuMappings_tri m p hcs hc)
  | pdos cat => exact forget_tri (pdos_tri m p hcs hc hb cat)
  | findString N idx => exact forget_tri (findString_tri m p hcs hc N idx)
  | deviceName N => exact forget_tri (deviceName_tri m p hcs hc hb N)
  | deviceDescription N => exact forget_tri (deviceDescription_tri m p hcs hc hb N)

/-- **`eeprom_queries_total`: every image, both build modes.** For every memory content (any bytes), chunk
    size ≥ 4, build mode and query: the query terminates (never runs out of fuel — the category walk's word
    address grows by at least 2 per step through a checked addition), makes at most `bound` provider calls, and
    returns a value, "absent" or an error; a panic would have to be at one of the sites listed in `sites m`,
    and that list is empty in both build modes (`eeprom_queries_never_panic`). -/
theorem eeprom_queries_total (m : Mode) (p : Prov) (hcs : 4 ≤ p.cs) (hb : ∀ a, p.rd a < 256) (q : Query) :
    (q.run m p).1 ≠ .err .fuel ∧
    (q.run m p).2 ≤ q.bound catBound ∧
    (∀ w, (q.run m p).1 = .panic w → w ∈ sites m) :=
  have h := query_tri m p hcs hb (catOK_all m p hcs) q
  ⟨h.nofuel rfl, h.cost, h.panics⟩

/-- **No query can panic, in either build mode**: the list of overflow sites is empty. -/
theorem eeprom_queries_never_panic (m : Mode) (p : Prov) (hcs : 4 ≤ p.cs) (hb : ∀ a, p.rd a < 256) (q : Query) :
    ∀ w, (q.run m p).1 ≠ .panic w := by
  intro w hw
  have := (eeprom_queries_total m p hcs hb q).2.2 w hw
  cases m <;> simp [sites, knownSites] at this

/-- **Access bound**, explicit: a category search makes at most 32 737 provider calls in every build (the
    word address grows by at least 2 per call from 0x40), hence every query with string capacity and index up
    to 255 stays below 185 000 calls. -/
theorem access_bound (q : Query)
    (hq : ∀ N idx, (q = .findString N idx → N ≤ 255 ∧ idx ≤ 255) ∧ (q = .deviceName N → N ≤ 255) ∧
      (q = .deviceDescription N → N ≤ 255)) :
    catBound = 32737 ∧ q.bound catBound ≤ 184801 := by
  refine ⟨by decide, ?_⟩
  have hcb : catBound = 32737 := by decide
  rw [hcb]
  cases q with
  | findString N idx => have := (hq N idx).1 rfl; simp only [Query.bound]; omega
  | deviceName N => have := (hq N 0).2.1 rfl; simp only [Query.bound]; omega
  | deviceDescription N => have := (hq N 0).2.2 rfl; simp only [Query.bound]; omega
  | _ => simp [Query.bound]

/-- **Collections are bounded**: whatever the image, in both build modes, a returned list never exceeds the
    `heapless` capacity (more items give `Err(Capacity)`), and a returned string never exceeds `N` bytes. -/
theorem collections_bounded (m : Mode) (p : Prov) (hcs : 4 ≤ p.cs) (hb : ∀ a, p.rd a < 256) :
    (∀ l, (syncManagers m p).1 = .ok l → l.length ≤ 8) ∧
    (∀ l, (fmmus m p).1 = .ok l → l.length ≤ 16) ∧
    (∀ l, (fmmuMappings m p).1 = .ok l → l.length ≤ 16) ∧
    (∀ cat l, (pdos m p cat).1 = .ok l → l.length ≤ 64) ∧
    (∀ N idx b, (findString m p N idx).1 = .ok (some b) → b.length ≤ N) ∧
    (∀ N b, (deviceName m p N).1 = .ok (some b) → b.length ≤ N) ∧
    (∀ N b, (deviceDescription m p N).1 = .ok (some b) → b.length ≤ N) := by
  have hc := catOK_all m p hcs
  refine ⟨fun l h => (syncManagers_tri m p hcs hc).post l h, fun l h => (fmmus_tri m p hcs hc).post l h,
    fun l h => (fmmuMappings_tri m p hcs hc).post l h, fun cat l h => (pdos_tri m p hcs hc hb cat).post l h,
    fun N idx b h => (findString_tri m p hcs hc N idx).post _ h b rfl,
    fun N b h => (deviceName_tri m p hcs hc hb N).post _ h b rfl,
    fun N b h => (deviceDescription_tri m p hcs hc hb N).post _ h b rfl⟩

/-- T1 obligation: the capacities named in `collections_bounded` are the ones regenerated from /repo. -/
theorem t1_capacities :
    Gen.Eeprom.CAP_SYNC_MANAGERS = 8 ∧ Gen.Eeprom.CAP_FMMUS = 16 ∧ Gen.Eeprom.CAP_FMMU_EX = 16 ∧
    Gen.Eeprom.CAP_PDOS = 64 ∧ Gen.Eeprom.FMMU_READ_BUF = 16 ∧ Gen.Eeprom.EMPTY_CATEGORY_LIMIT = 32 := by
  decide

/-! ## Concrete images, one per defect class found in the original code

  `…_fixed`: the class is repaired in /repo (the former witness now yields a value or an error);
  `…_counterexample`: still false of the code. Memories are given as functions; every byte not mentioned is 0.
  All witnesses are replayed on the real code by `harness/src/bin/c13.rs` (adversarial corpus). -/

/-- 128 header bytes, then a first category of type 1 with length word 0xFFFF. -/
def imgLenFFFF (a : Nat) : Nat := if a = 128 then 1 else if a = 130 then 255 else if a = 131 then 255 else 0

set_option maxRecDepth 100000 in
/-- FIXED (was `category_len_overflow_counterexample`: panic `category:add` in checked builds): a length word
    that points past the word address space is now `Err(SectionOverrun)` in both build modes. -/
theorem category_len_overflow_fixed :
    (general .checked ⟨imgLenFFFF, 4⟩).1 = .err .overrun ∧
    (syncManagers .wrapping ⟨imgLenFFFF, 8⟩).1 = .err .overrun ∧
    (deviceName .checked ⟨imgLenFFFF, 4⟩ 64).1 = .err .overrun := by decide

/-- EEPROM size word (word 0x3E) = `lo + 256 * hi`, everything else 0. -/
def imgSize (lo hi : Nat) (a : Nat) : Nat := if a = 124 then lo else if a = 125 then hi else 0

/-- FIXED (was `size_overflow_counterexample`: `(word + 1) * 128` computed in `u16` panicked in checked builds and
    gave 0 in wrapping builds for size word 511 and for a blank, all-ones EEPROM): the size is computed in
    `usize`; 512 Kbit is 65536 bytes, the blank image reports the register maximum. -/
theorem size_overflow_fixed :
    (size .checked ⟨imgSize 255 1, 4⟩).1 = .ok 65536 ∧
    (size .wrapping ⟨imgSize 255 1, 4⟩).1 = .ok 65536 ∧
    (size .checked ⟨fun _ => 255, 4⟩).1 = .ok 8388608 ∧
    (size .wrapping ⟨fun _ => 255, 4⟩).1 = .ok 8388608 := by decide

/-- First category (type 1) with length 0x7FBC: the next header sits at word 0x7FFE. -/
def imgFar (a : Nat) : Nat := if a = 128 then 1 else if a = 130 then 0xbc else if a = 131 then 0x7f else 0

set_option maxRecDepth 100000 in
/-- FIXED (was `category_beyond_32k_counterexample`: panic `category:mul`): headers at word 0x7FFE and beyond
    are walked like any other (here 32 empty categories follow, so the search ends "absent"). -/
theorem category_beyond_32k_fixed :
    (fmmus .checked ⟨imgFar, 4⟩).1 = .ok [] ∧ (general .wrapping ⟨imgFar, 4⟩).1 = .err .noCategory := by decide

/-- A `General` category (type 30) found at word 0x40 with a length word of 0x8000 / 0x7FC0. -/
def imgBigCat (lo hi : Nat) (a : Nat) : Nat :=
  if a = 128 then 30 else if a = 130 then lo else if a = 131 then hi else 0

set_option maxRecDepth 100000 in
/-- FIXED (was `found_category_overflow_counterexample`: `EepromRange::new` computed `len_words * 2` and
    `start * 2 + len * 2` in `u16`: panics `new:mul` / `new:add`): the cursor is a `u32`, the category is found
    with its full extent and the 18 General bytes are read, in both build modes. -/
theorem found_category_overflow_fixed :
    (Eeprom.category .checked ⟨imgBigCat 0 0x80, 4⟩ 30).1 = .ok (some ⟨132, 65668⟩) ∧
    (Eeprom.category .wrapping ⟨imgBigCat 0xc0 0x7f, 4⟩ 30).1 = .ok (some ⟨132, 65540⟩) ∧
    (general .checked ⟨imgBigCat 0 0x80, 4⟩).2 = 7 := by decide

/-- Strings category (6 words) at word 0x7FF0 (byte 0xFFE0), holding 5 strings, the first 255 bytes long. -/
def imgSkip (a : Nat) : Nat :=
  if a = 128 then 1 else if a = 130 then 0xac else if a = 131 then 0x7f
  else if a = 0xffdc then 10 else if a = 0xffde then 6
  else if a = 0xffe0 then 5 else if a = 0xffe1 then 255 else 0

set_option maxRecDepth 100000 in
/-- FIXED (was `skip_overflow_counterexample`: `self.byte_pos + skip` in `u16` panicked): skipping 255 bytes
    from byte 65506 leaves the 12-byte category, which is `Err(SectionOverrun)` in both build modes. -/
theorem skip_overflow_fixed :
    (findString .checked ⟨imgSkip, 4⟩ 16 2).1 = .err .overrun ∧
    (findString .wrapping ⟨imgSkip, 4⟩ 16 2).1 = .err .overrun := by decide

/-- Empty Strings category whose header is at word 0x7FFD: the range is `[65534, 65534)`. -/
def imgReadByte (a : Nat) : Nat :=
  if a = 128 then 1 else if a = 130 then 0xbb else if a = 131 then 0x7f
  else if a = 0xfffa then 10 else if a = 0xfffe then 5 else 0

set_option maxRecDepth 100000 in
/-- FIXED (was `read_byte_overflow_counterexample`: `read_byte` never compared with `end`, read past an empty
    category and overflowed `byte_pos += 1` at byte 65535): reading a byte at the end of the range is
    `Err(SectionOverrun)`, without any provider call. -/
theorem read_byte_overflow_fixed :
    (findString .checked ⟨imgReadByte, 4⟩ 16 2).1 = .err .overrun ∧
    (findString .wrapping ⟨imgReadByte, 4⟩ 16 2).1 = .err .overrun ∧
    (Range.readByte .checked ⟨imgReadByte, 4⟩ ⟨65534, 65534⟩) = (.err .overrun, 0) := by decide

/-- 128 header bytes, then a first category of type 2 (not searched for) with length word 0xFFFE. -/
def imgWrapToSelf (a : Nat) : Nat := if a = 128 then 2 else if a = 130 then 254 else if a = 131 then 255 else 0

set_option maxRecDepth 100000 in
/-- FIXED (was `category_wrap_hang_counterexample`: the wrapping walk returned to the header it had just read,
    for ever): `0x42 + 0xFFFE` no longer wraps, the search ends with `Err(SectionOverrun)` after one provider
    call in both build modes. -/
theorem category_wrap_hang_fixed :
    Eeprom.category .wrapping ⟨imgWrapToSelf, 4⟩ 30 = (.err .overrun, 1) ∧
    Eeprom.category .checked ⟨imgWrapToSelf, 4⟩ 30 = (.err .overrun, 1) := by decide

/-! ## non-vacuity: queries do return values -/

/-- A small well-formed image: General category (18 bytes, order string 1) and an End marker. -/
def imgOk (a : Nat) : Nat :=
  if a = 128 then 30 else if a = 130 then 9 else if a = 134 then 1 else if a = 150 then 255 else if a = 151 then 255 else 0

set_option maxRecDepth 100000 in
example : (Eeprom.category .checked ⟨imgOk, 4⟩ 30).1 = .ok (some ⟨132, 150⟩) := by decide

set_option maxRecDepth 100000 in
example : (Eeprom.category .checked ⟨imgOk, 4⟩ 41).1 = .ok none := by decide

set_option maxRecDepth 100000 in
example : (Query.run .wrapping ⟨imgOk, 8⟩ .syncManagers).1 = .ok () := by decide

end Ec.C13
