-- Root of the `EcModel` library: models, lemmas and property theorems.
import EcModel.Basic
import EcModel.Generated.Consts
import EcModel.Frame
