//! C11 — a device that did not answer is never mistaken for one that did.
//!
//! Every public data-returning entry point of the real stack (builder methods, register_read/write,
//! status, EEPROM provider, SDO read/write, group transitions, MainDevice::wait_for_state) runs
//! against the simulated segment while a script alters working counters on the wire, loses frames
//! or makes a device drop out mid-sequence. The datagrams as delivered are logged and become the
//! case line (`c11 <recipe> <path> <args> <trace>`); the Lean model of the same path must predict the
//! same result from that trace. Independently of the model, a monitor knows which datagrams the
//! property requires to be checked (by command/register/phase) and reports any `Ok` that rests on a
//! datagram whose delivered counter differs from the expected one.
use ecverif::exec::{Net, Stuck, run};
use ecverif::rng::Rng;
use ecverif::sim::{AlRule, DeviceDesc, Segment, SiiFault};
use ecverif::util::{Report, hex};
use ecverif::wkcnet::{self, Act, RecDg, RecEv, Recorder};
use ethercrab::error::Error;
use ethercrab::subdevice_group::{NoDc, PreOp, SubDeviceGroup};
use ethercrab::verif::eeprom::{DeviceEeprom, EepromDataProvider};
use ethercrab::{Command, MainDevice, MainDeviceConfig, SubDeviceState, Timeouts};
use std::cell::RefCell;
use std::panic::{AssertUnwindSafe, catch_unwind};
use std::rc::Rc;
use std::time::Duration;

const FPRD: u8 = 4;
const FPWR: u8 = 5;
const BRD: u8 = 7;

type Group = SubDeviceGroup<8, 64, ethercrab::DefaultLock, PreOp, NoDc>;

fn timeouts() -> Timeouts {
    Timeouts {
        state_transition: Duration::from_millis(20),
        pdu: Duration::from_millis(2),
        eeprom: Duration::from_millis(10),
        wait_loop_delay: Duration::from_micros(500),
        mailbox_echo: Duration::from_millis(10),
        mailbox_response: Duration::from_millis(20),
    }
}

fn mode() -> &'static str {
    if cfg!(debug_assertions) { "debug" } else { "release" }
}

/// What a finished call looks like to the comparison: canonical result token + did a wrapper deadline end it.
struct Outcome {
    token: String,
    deadline: bool,
    ok: bool,
    wkc_err: Option<(u16, u16)>,
}

fn outcome<T>(r: Result<Result<Result<T, Error>, Stuck>, ()>, show: impl FnOnce(T) -> String) -> Outcome {
    match r {
        Err(()) => Outcome { token: "panic".into(), deadline: false, ok: false, wkc_err: None },
        Ok(Err(st)) => Outcome { token: format!("stuck:{st:?}"), deadline: false, ok: false, wkc_err: None },
        Ok(Ok(Ok(v))) => Outcome { token: show(v), deadline: false, ok: true, wkc_err: None },
        Ok(Ok(Err(e))) => Outcome {
            token: wkcnet::err_token(&e),
            deadline: wkcnet::is_deadline(&e),
            ok: false,
            wkc_err: if let Error::WorkingCounter { expected, received } = e { Some((expected, received)) } else { None },
        },
    }
}

fn hex_ok(b: &[u8]) -> String {
    format!("ok:{}", hex(b))
}

/// Random wire faults for a call expected to send about `span` datagrams.
fn faults(r: &mut Rng, span: usize, ndev: usize) -> Vec<(usize, Act)> {
    let mut s = Vec::new();
    let k = match r.below(10) {
        0..=2 => 0,
        3..=7 => 1,
        _ => 2,
    };
    for _ in 0..k {
        let at = r.below(span.max(1) as u64 + 1) as usize;
        let act = match r.below(8) {
            0 | 1 => Act::SetWkc(0),
            2 => Act::SetWkc(2),
            3 => Act::SetWkc(r.below(4) as u16),
            4 => Act::AddWkc(1),
            5 => Act::Lose(r.chance(1, 2)),
            _ => Act::DropAfter(r.below(ndev.max(1) as u64) as usize),
        };
        s.push((at, act));
    }
    s
}

fn script_token(s: &[(usize, Act)]) -> String {
    if s.is_empty() {
        return "none".into();
    }
    let mut kinds: Vec<&str> = s
        .iter()
        .map(|(_, a)| match a {
            Act::SetWkc(_) => "setwkc",
            Act::AddWkc(_) => "addwkc",
            Act::Lose(_) => "lose",
            Act::DropAfter(_) => "dropout",
            Act::SetData(_) => "setdata",
        })
        .collect();
    kinds.sort();
    kinds.dedup();
    kinds.join("+")
}

// ------------------------------------------------------------------------------------------------
// independent monitor

/// Expected working counter the PROPERTY demands for a datagram of a composite path (None: exempt).
fn required(path: &str, d: &RecDg, before_mbx_write: bool, num: u16) -> Option<u16> {
    match path {
        "regr" | "regw" | "status" | "eeclr" => Some(1),
        "eerd" | "eewr" => if d.cmd == FPWR { None } else { Some(1) },
        "mbx" => {
            if d.cmd == FPWR {
                None // fire-and-forget mailbox write (documented exempt)
            } else if d.ado >= 0x1000 && before_mbx_write {
                None // ignore_wkc read that empties a stale mailbox (explicit opt-out)
            } else {
                Some(1)
            }
        }
        "grp" | "reqop" => Some(1),
        "mdw" => if d.cmd == BRD { Some(num) } else { None },
        _ => None,
    }
}

fn monitor_composite(path: &str, rec: &Recorder, out: &Outcome, num: u16, rep: &mut Report, line: &str) {
    let mut before_write = true;
    let mut checked: Vec<(u16, u16)> = Vec::new(); // (required, delivered) of every non-exempt datagram
    // group status frames: is_state stops reading a frame at the first poll that reports another
    // state, so the polls behind it in the same frame are never looked at (nothing of them is used)
    let mut unread: Vec<usize> = Vec::new();
    if path == "grp" {
        let mut cur_frame = usize::MAX;
        let mut stopped = false;
        for (i, e) in rec.evs.iter().enumerate() {
            if let RecEv::Dg(d) = e {
                if d.cmd == FPRD && d.ado == 0x0130 {
                    if d.frame != cur_frame {
                        cur_frame = d.frame;
                        stopped = false;
                    }
                    if stopped {
                        unread.push(i);
                    } else if d.wkc == 1 && d.data[0] & 0x0f != num as u8 {
                        stopped = true;
                    }
                }
            }
        }
    }
    for (i, e) in rec.evs.iter().enumerate() {
        if let RecEv::Dg(d) = e {
            if path == "mbx" && d.cmd == FPWR {
                before_write = false;
            }
            if unread.contains(&i) {
                continue;
            }
            if let Some(exp) = required(path, d, before_write, num) {
                if d.wkc != exp && out.ok {
                    rep.fail(
                        &format!("c11/ok-despite-mismatch/{path}/{}:{:04x}", ecverif::sim::cmd_name(d.cmd), if path == "regr" || path == "regw" { 0 } else { d.ado }),
                        &format!("{path} returned Ok although a {} of register {:#06x} came back with working counter {} (expected {})", ecverif::sim::cmd_name(d.cmd), d.ado, d.wkc, exp),
                        line,
                    );
                }
                checked.push((exp, d.wkc));
            }
        }
    }
    if let Some((e, r)) = out.wkc_err {
        // the error must carry the expected count of, and the count delivered for, a datagram of
        // this call whose counter differs (the last one, except for the concurrent reads of `status`)
        let good = if path == "status" || path == "grp" { checked.iter().any(|&(x, w)| x == e && w == r && x != w) } else { checked.last() == Some(&(e, r)) && e != r };
        if !good {
            rep.fail(&format!("c11/wkc-error-wrong-counts/{path}"), &format!("{path}: WorkingCounter{{expected:{e}, received:{r}}} does not match the datagrams delivered"), line);
        }
    }
}

// ------------------------------------------------------------------------------------------------
// family 1: the builder methods against bare devices

fn prim_case(r: &mut Rng, recipe: &str, rep: &mut Report) {
    let ndev = r.below(5) as usize;
    let mut devs = Vec::new();
    for i in 0..ndev {
        let mut e = DeviceDesc::coupler("X").build();
        e.set_station_address(0x1000 + i as u16);
        for b in &mut e.mem[0x0f80..0x1000] {
            *b = r.byte();
        }
        devs.push(e);
    }
    if ndev >= 2 && r.chance(1, 4) {
        // two devices with the same station address: a configured-address command gets counter 2
        devs[1].set_station_address(0x1000);
    }
    let seg = Segment::line(devs);
    let (mut net, md) = Net::new(seg, 4, 128, timeouts(), MainDeviceConfig::default());
    let exp = match r.below(8) {
        0..=2 => "d".to_string(),
        3 => "i".to_string(),
        _ => r.below(4).to_string(),
    };
    let expected: Option<u16> = match exp.as_str() {
        "d" => Some(1),
        "i" => None,
        k => Some(k.parse().unwrap()),
    };
    let method = *r.pick(&["rx", "rs", "ws", "wr", "wrs"]);
    let reg = 0x0f80 + r.below(0x60) as u16;
    let addr = if r.chance(1, 5) { 0x2000 } else { 0x1000 + r.below(ndev.max(1) as u64) as u16 };
    let n = *r.pick(&[1usize, 2, 4, 8]);
    let fault: Vec<(usize, Act)> = match r.below(6) {
        0 => vec![(0, Act::SetWkc(r.below(4) as u16))],
        1 => vec![(0, Act::AddWkc(1))],
        2 => vec![(0, Act::Lose(r.chance(1, 2)))],
        _ => vec![],
    };
    rep.hit(&format!("prim:fault:{}", script_token(&fault)));
    rep.hit(&format!("prim:exp:{}", if exp == "d" || exp == "i" { exp.as_str() } else { "k" }));
    let rec = wkcnet::install(&mut net, fault);
    let is_read = method == "rx" || method == "rs";
    let kind = if is_read { r.below(4) } else { r.below(5) };
    let data = r.bytes(n);
    rep.hit(&format!("prim:{method}:{}", if is_read { ["fprd", "aprd", "brd", "frmw"][kind as usize] } else { ["fpwr", "apwr", "bwr", "lwr", "lrw"][kind as usize] }));
    let res = catch_unwind(AssertUnwindSafe(|| {
        run(&mut net, async {
            if is_read {
                let c = match kind {
                    0 => Command::fprd(addr, reg),
                    1 => Command::aprd(r.below(5) as u16, reg),
                    2 => Command::brd(reg),
                    _ => Command::frmw(addr, reg),
                };
                let c = match exp.as_str() {
                    "d" => c,
                    "i" => c.ignore_wkc(),
                    k => c.with_wkc(k.parse().unwrap()),
                };
                if method == "rx" {
                    match n {
                        1 => c.receive::<[u8; 1]>(md).await.map(|v| v.to_vec()),
                        2 => c.receive::<[u8; 2]>(md).await.map(|v| v.to_vec()),
                        4 => c.receive::<[u8; 4]>(md).await.map(|v| v.to_vec()),
                        _ => c.receive::<[u8; 8]>(md).await.map(|v| v.to_vec()),
                    }
                    .map(Some)
                } else {
                    c.receive_slice(md, n as u16).await.map(|p| Some(p.to_vec()))
                }
            } else {
                let c = match kind {
                    0 => Command::fpwr(addr, reg),
                    1 => Command::apwr(r.below(5) as u16, reg),
                    2 => Command::bwr(reg),
                    3 => Command::lwr(0x10000 + reg as u32),
                    _ => Command::lrw(0x10000 + reg as u32),
                };
                let c = match exp.as_str() {
                    "d" => c,
                    "i" => c.ignore_wkc(),
                    k => c.with_wkc(k.parse().unwrap()),
                };
                match method {
                    "ws" => c.send(md, &data[..]).await.map(|_| None),
                    "wr" => match n {
                        1 => c.send_receive::<[u8; 1]>(md, &data[..]).await.map(|v| v.to_vec()),
                        2 => c.send_receive::<[u8; 2]>(md, &data[..]).await.map(|v| v.to_vec()),
                        4 => c.send_receive::<[u8; 4]>(md, &data[..]).await.map(|v| v.to_vec()),
                        _ => c.send_receive::<[u8; 8]>(md, &data[..]).await.map(|v| v.to_vec()),
                    }
                    .map(Some),
                    _ => c.send_receive_slice(md, &data[..]).await.map(|p| Some(p.to_vec())),
                }
            }
        })
    }))
    .map_err(|_| ());
    let returned: Option<Vec<u8>> = match &res {
        Ok(Ok(Ok(v))) => v.clone(),
        _ => None,
    };
    let out = outcome(res, |v| match v {
        Some(b) => hex_ok(&b),
        None => "ok".to_string(),
    });
    wkcnet::uninstall(&mut net);
    let rec = rec.borrow();
    let tr = wkcnet::trace(&rec, out.deadline);
    let line = match method {
        "rx" | "wr" => format!("c11 {recipe} {method} {exp} {n} {tr}"),
        _ => format!("c11 {recipe} {method} {exp} {tr}"),
    };
    // monitor
    match rec.evs.first() {
        Some(RecEv::Lost(_)) => {
            if out.token != "timeout:pdu" {
                rep.fail("c11/prim-loss-not-timeout", &format!("{method}: frame lost but the call returned {}", out.token), &line);
            }
            rep.hit("prim:res:lost");
        }
        Some(RecEv::Dg(d)) => {
            let checked = method != "ws";
            match expected {
                Some(k) if checked && d.wkc != k => {
                    if out.ok {
                        rep.fail(&format!("c11/ok-on-wkc-mismatch/{method}"), &format!("{method} returned Ok with working counter {} while {} was expected", d.wkc, k), &line);
                    } else if out.wkc_err != Some((k, d.wkc)) {
                        rep.fail(&format!("c11/wrong-error-on-mismatch/{method}"), &format!("{method}: counter {} vs expected {} gave {}", d.wkc, k, out.token), &line);
                    }
                    rep.hit("prim:res:mismatch");
                    rep.nontrivial.insert(line.clone());
                }
                _ => {
                    if !out.ok {
                        rep.fail(&format!("c11/spurious-error/{method}"), &format!("{method}: counter {} acceptable but the call returned {}", d.wkc, out.token), &line);
                    } else if let Some(b) = &returned {
                        if b != &d.data {
                            rep.fail(&format!("c11/data-mismatch/{method}"), &format!("{method} returned {} but {} was delivered", hex(b), hex(&d.data)), &line);
                        }
                    }
                    rep.hit("prim:res:accepted");
                    if d.wkc != 1 {
                        rep.nontrivial.insert(line.clone());
                    }
                }
            }
        }
        None => rep.fail("c11/prim-nothing-sent", "no datagram was sent", &line),
    }
    rep.case(line, out.token);
    unsafe { net.recycle() };
}

// ------------------------------------------------------------------------------------------------
// family 2: composite paths on an initialised network

struct World {
    net: Net,
    md: &'static MainDevice<'static>,
    group: Option<Group>,
    ndev: usize,
}

fn build_world(r: &mut Rng, simple_only: bool) -> Option<World> {
    let mut ds = if simple_only {
        let n = r.range(1, 4) as usize;
        (0..n)
            .map(|i| match r.below(3) {
                0 => DeviceDesc::coupler(&format!("EK{i}")),
                1 => DeviceDesc::digital_in(&format!("DI{i}"), 8),
                _ => DeviceDesc::digital_out(&format!("DO{i}"), 8),
            })
            .collect::<Vec<_>>()
    } else {
        vec![DeviceDesc::coupler("EK1100"), DeviceDesc::coe_io("COE", 4, 2, 64).with_chunk(*r.pick(&[4usize, 8])), DeviceDesc::digital_in("EL1008", 8)]
    };
    if !simple_only {
        ds[1].od.insert((0x2001, 0), vec![1, 2, 3, 4, 5, 6]);
        ds[1].od.insert((0x2002, 0), vec![0xaa, 0xbb, 0xcc, 0xdd]);
        ds[1].od.insert((0x2003, 0), vec![0x11, 0x22]);
    }
    let ndev = ds.len();
    let seg = Segment::from_descs(&ds);
    let (mut net, md) = Net::new(seg, 16, 1128, timeouts(), MainDeviceConfig { dc_static_sync_iterations: 0, ..Default::default() });
    let g = run(&mut net, async { md.init_single_group::<8, 64>(|| ecverif::clock::now() * 1000).await });
    match g {
        Ok(Ok(group)) => Some(World { net, md, group: Some(group), ndev }),
        _ => None,
    }
}

fn finish(path: &str, args: &str, recipe: &str, rec: &Rc<RefCell<Recorder>>, out: Outcome, num: u16, script: &[(usize, Act)], rep: &mut Report) {
    let rec = rec.borrow();
    let tr = wkcnet::trace(&rec, out.deadline);
    let line = if args.is_empty() { format!("c11 {recipe} {path} {tr}") } else { format!("c11 {recipe} {path} {args} {tr}") };
    monitor_composite(path, &rec, &out, num, rep, &line);
    rep.hit(&format!("{path}:fault:{}", script_token(script)));
    rep.hit(&format!("{path}:res:{}", out.token.split(':').next().unwrap_or("")));
    let faulty = rec.evs.iter().any(|e| match e {
        RecEv::Dg(d) => d.wkc != 1,
        RecEv::Lost(_) => true,
    });
    if faulty {
        rep.nontrivial.insert(line.clone());
    }
    rep.case(line, out.token);
}

fn composite_case(r: &mut Rng, recipe: &str, rep: &mut Report, force: Option<(&str, Vec<(usize, Act)>)>) {
    let drawn = *r.pick(&["regr", "regw", "status", "eerd", "eerd", "eewr", "eeclr", "mbx", "mbx", "grp", "grp", "reqop", "mdw"]);
    let path = force.as_ref().map(|f| f.0).unwrap_or(drawn);
    let forced = force.map(|f| f.1);
    let faults = |r: &mut Rng, span: usize, ndev: usize| -> Vec<(usize, Act)> {
        let drawn = faults(r, span, ndev);
        forced.clone().unwrap_or(drawn)
    };
    let simple = matches!(path, "grp" | "reqop" | "mdw");
    let Some(mut w) = build_world(r, simple) else {
        rep.notes.push("init failed for a composite case".into());
        return;
    };
    let md = w.md;
    let group = w.group.take().unwrap();
    let ndev = w.ndev;
    match path {
        "regr" | "regw" => {
            let dev = r.below(ndev as u64) as usize;
            let n = *r.pick(&[1usize, 2, 4, 8]);
            let reg = 0x0f80 + r.below(0x60) as u16;
            for b in &mut w.net.seg.devices[dev].mem[0x0f80..0x1000] {
                *b = r.byte();
            }
            let script = faults(r, 0, ndev);
            if r.chance(1, 6) {
                w.net.seg.devices[dev].set_station_address(0); // absent from the start
            }
            let val = r.next();
            let rec = wkcnet::install(&mut w.net, script.clone());
            let res = catch_unwind(AssertUnwindSafe(|| {
                run(&mut w.net, async {
                    let sd = group.subdevice(md, dev)?;
                    if path == "regr" {
                        match n {
                            1 => sd.register_read::<[u8; 1]>(reg).await.map(|v| v.to_vec()),
                            2 => sd.register_read::<[u8; 2]>(reg).await.map(|v| v.to_vec()),
                            4 => sd.register_read::<[u8; 4]>(reg).await.map(|v| v.to_vec()),
                            _ => sd.register_read::<[u8; 8]>(reg).await.map(|v| v.to_vec()),
                        }
                    } else {
                        match n {
                            1 => sd.register_write::<u8>(reg, val as u8).await.map(|v| v.to_le_bytes().to_vec()),
                            2 => sd.register_write::<u16>(reg, val as u16).await.map(|v| v.to_le_bytes().to_vec()),
                            4 => sd.register_write::<u32>(reg, val as u32).await.map(|v| v.to_le_bytes().to_vec()),
                            _ => sd.register_write::<u64>(reg, val).await.map(|v| v.to_le_bytes().to_vec()),
                        }
                    }
                })
            }))
            .map_err(|_| ());
            let out = outcome(res, |v| hex_ok(&v));
            finish(path, &n.to_string(), recipe, &rec, out, 0, &script, rep);
        }
        "status" => {
            let dev = r.below(ndev as u64) as usize;
            if r.chance(1, 2) {
                let d = &mut w.net.seg.devices[dev];
                d.al.error = true;
                d.al.code = *r.pick(&[0x0011u16, 0x001b, 0x0000, 0x8001]);
            }
            let script = faults(r, 2, ndev);
            let rec = wkcnet::install(&mut w.net, script.clone());
            let res = catch_unwind(AssertUnwindSafe(|| {
                run(&mut w.net, async {
                    let sd = group.subdevice(md, dev)?;
                    sd.status().await
                })
            }))
            .map_err(|_| ());
            let out = outcome(res, |(s, c)| format!("ok:{}:{}", u8::from(s), wkcnet::code_num(c)));
            finish(path, "", recipe, &rec, out, 0, &script, rep);
        }
        "eerd" | "eewr" | "eeclr" => {
            let dev = r.below(ndev as u64) as usize;
            let addr = 0x1000 + dev as u16;
            let mut nak = false;
            {
                let d = &mut w.net.seg.devices[dev];
                d.sii.busy_polls = r.below(3) as u32;
                match r.below(8) {
                    0 => d.sii.faults.push_back(SiiFault::BusyForever),
                    1 => d.sii.faults.push_back(SiiFault::Busy(r.range(1, 6) as u32)),
                    2 => {
                        nak = true;
                        d.sii.faults.push_back(SiiFault::CommandError)
                    }
                    3 => {
                        nak = true;
                        d.sii.faults.push_back(SiiFault::CommandError);
                        d.sii.faults.push_back(SiiFault::CommandError);
                    }
                    _ => {}
                }
                if path == "eeclr" && r.chance(2, 3) {
                    d.sii.checksum_error = true;
                }
                if path == "eeclr" && r.chance(1, 4) {
                    d.sii.write_error = true;
                }
            }
            let script = faults(r, 4, ndev);
            let word = r.below(0x60) as u16;
            let rec = wkcnet::install(&mut w.net, script.clone());
            let res = catch_unwind(AssertUnwindSafe(|| {
                run(&mut w.net, async {
                    let mut p = DeviceEeprom::new(md, addr);
                    match path {
                        "eerd" => p.read_chunk(word).await.map(|d| Some(d.to_vec())),
                        "eewr" => p.write_word(0x70 + word, [0x5a, 0xa5]).await.map(|_| None),
                        _ => p.clear_errors().await.map(|_| None),
                    }
                })
            }))
            .map_err(|_| ());
            let returned = match &res {
                Ok(Ok(Ok(Some(v)))) => Some(v.clone()),
                _ => None,
            };
            let out = outcome(res, |v| match v {
                Some(b) => hex_ok(&b),
                None => "ok".to_string(),
            });
            if let Some(b) = returned {
                // independent data oracle: the bytes are the EEPROM image at that word
                let img = &w.net.seg.devices[dev].eeprom;
                let a = 2 * word as usize;
                let want: Vec<u8> = (0..b.len()).map(|k| img.get(a + k).copied().unwrap_or(w.net.seg.devices[dev].sii.oob_fill)).collect();
                let untouched = rec.borrow().evs.iter().all(|e| matches!(e, RecEv::Dg(d) if d.wkc == d.wkc_sim));
                // (a refused read command leaves stale data behind, which read_chunk returns: C12's subject)
                if untouched && !nak && b != want {
                    rep.fail("c11/eeprom-data-not-from-device", &format!("read_chunk({word}) returned {} but the image holds {}", hex(&b), hex(&want)), "eerd");
                }
            }
            finish(path, "", recipe, &rec, out, 0, &script, rep);
        }
        "mbx" => {
            let dev = 1usize;
            w.net.seg.devices[dev].mbx_response_delay = r.below(4) as u32;
            if r.chance(1, 5) {
                // a stale message sits in the out mailbox: the clearing path (ignore_wkc) runs
                w.net.seg.devices[dev].push_mailbox_message(vec![0x0a, 0x00, 0x00, 0x00, 0x00, 0x33, 0x00, 0x20, 0x4f, 0x02, 0x20, 0x00, 1, 2, 0, 0]);
            }
            let script = faults(r, 7, ndev);
            let write = r.chance(1, 3);
            let (idx, want): (u16, Vec<u8>) = if r.chance(1, 2) { (0x2002, vec![0xaa, 0xbb, 0xcc, 0xdd]) } else { (0x2001, vec![1, 2, 3, 4, 5, 6]) };
            let rec = wkcnet::install(&mut w.net, script.clone());
            let res = catch_unwind(AssertUnwindSafe(|| {
                run(&mut w.net, async {
                    let sd = group.subdevice(md, dev)?;
                    if write {
                        sd.sdo_write(0x2003, 0, 0x1234u16).await.map(|_| None)
                    } else if idx == 0x2002 {
                        sd.sdo_read::<[u8; 4]>(idx, 0).await.map(|v| Some(v.to_vec()))
                    } else {
                        sd.sdo_read::<[u8; 6]>(idx, 0).await.map(|v| Some(v.to_vec()))
                    }
                })
            }))
            .map_err(|_| ());
            // exchange-level canonicalisation: a CoE-level refusal/parse error means the mailbox
            // exchange itself completed (what the model predicts); the CoE layer is C15/C16
            let res = match res {
                Ok(Ok(Err(Error::Mailbox(m)))) => {
                    rep.hit(&format!("mbx:coe-error:{}", format!("{m:?}").split(['{', '(', ' ']).next().unwrap_or("")));
                    Ok(Ok(Ok(None)))
                }
                // the 1-byte SM status polls always decode: a Wire error can only come from the CoE
                // layer parsing the response it was handed (e.g. a refused, all-zero mailbox read
                // that the faulty wire re-labelled with counter 1)
                Ok(Ok(Err(Error::Wire(_)))) => {
                    rep.hit("mbx:coe-error:Wire");
                    Ok(Ok(Ok(None)))
                }
                other => other,
            };
            if let Ok(Ok(Ok(Some(v)))) = &res {
                let untouched = rec.borrow().evs.iter().all(|e| matches!(e, RecEv::Dg(d) if d.wkc == d.wkc_sim));
                if untouched && v != &want {
                    rep.fail("c11/sdo-data-not-from-device", &format!("sdo_read({idx:#x}) returned {} but the object holds {}", hex(v), hex(&want)), "mbx");
                }
            }
            let out = outcome(res, |_| "ok".to_string());
            finish(path, "1", recipe, &rec, out, 0, &script, rep);
        }
        "grp" | "reqop" | "mdw" => {
            let members: Vec<String> = (0..ndev).map(|i| (0x1000 + i).to_string()).collect();
            let members = members.join(",");
            // healthy set-up up to SAFE-OP, unrecorded
            let g = run(&mut w.net, async { group.into_safe_op(md).await });
            let Ok(Ok(g)) = g else {
                rep.notes.push("set-up to SAFE-OP failed".into());
                return;
            };
            // device behaviour for the OP request
            for d in w.net.seg.devices.iter_mut() {
                match r.below(10) {
                    0 => d.al.script.push_back((Some(8), AlRule::Stall)),
                    1 => d.al.script.push_back((Some(8), AlRule::Refuse(0x001b))),
                    2 | 3 => d.al.script.push_back((Some(8), AlRule::AcceptAfterPolls(r.range(1, 4) as u32))),
                    _ => {}
                }
            }
            let pdu_len = 1128 - 16;
            match path {
                "grp" => {
                    let script = faults(r, 2 * ndev + 2, ndev);
                    let rec = wkcnet::install(&mut w.net, script.clone());
                    let res = catch_unwind(AssertUnwindSafe(|| run(&mut w.net, async { g.into_op(md).await.map(|_| ()) }))).map_err(|_| ());
                    let out = outcome(res, |_| "ok".to_string());
                    finish(path, &format!("{} {pdu_len} 8 {members}", mode()), recipe, &rec, out, 8, &script, rep);
                }
                "reqop" => {
                    let script = faults(r, ndev, ndev);
                    let rec = wkcnet::install(&mut w.net, script.clone());
                    let res = catch_unwind(AssertUnwindSafe(|| run(&mut w.net, async { g.request_into_op(md).await.map(|_| ()) }))).map_err(|_| ());
                    let out = outcome(res, |_| "ok".to_string());
                    finish(path, &members, recipe, &rec, out, 0, &script, rep);
                }
                _ => {
                    let desired = if r.chance(3, 4) { SubDeviceState::SafeOp } else { SubDeviceState::Op };
                    if r.chance(1, 4) {
                        let k = r.below(ndev as u64) as usize;
                        w.net.seg.devices[k].al.error = true;
                        w.net.seg.devices[k].al.code = 0x001b;
                    }
                    let script = faults(r, 2, ndev);
                    let rec = wkcnet::install(&mut w.net, script.clone());
                    let res = catch_unwind(AssertUnwindSafe(|| run(&mut w.net, async { md.wait_for_state(desired).await }))).map_err(|_| ());
                    let out = outcome(res, |_| "ok".to_string());
                    finish(path, &format!("{ndev} {}", u8::from(desired)), recipe, &rec, out, ndev as u16, &script, rep);
                    let _ = g;
                }
            }
        }
        _ => unreachable!(),
    }
    wkcnet::uninstall(&mut w.net);
    unsafe { w.net.recycle() };
}

fn one(case_seed: u64, rep: &mut Report) {
    let mut r = Rng::new(case_seed);
    let recipe = format!("s{case_seed}");
    if r.chance(1, 2) { prim_case(&mut r, &recipe, rep) } else { composite_case(&mut r, &recipe, rep, None) }
}

/// Corpus recipe `k<path>.<seed>.<script>`; script = `n` or `_`-joined `<ordinal><s|a|l|d><value>`.
fn corpus_case(recipe: &str, rep: &mut Report) {
    let parts: Vec<&str> = recipe[1..].split('.').collect();
    if parts.len() != 3 {
        return;
    }
    let Some(path) = ["regr", "regw", "status", "eerd", "eewr", "eeclr", "mbx", "grp", "reqop", "mdw"].into_iter().find(|p| *p == parts[0]) else { return };
    let seed: u64 = parts[1].parse().unwrap_or(0);
    let mut script = Vec::new();
    if parts[2] != "n" {
        for item in parts[2].split('_') {
            let Some(pos) = item.find(|c: char| !c.is_ascii_digit()) else { continue };
            let ord: usize = item[..pos].parse().unwrap_or(0);
            let v: u16 = item[pos + 1..].parse().unwrap_or(0);
            script.push((
                ord,
                match &item[pos..pos + 1] {
                    "s" => Act::SetWkc(v),
                    "a" => Act::AddWkc(v),
                    "l" => Act::Lose(v != 0),
                    _ => Act::DropAfter(v as usize),
                },
            ));
        }
    }
    let mut r = Rng::new(seed);
    composite_case(&mut r, recipe, rep, Some((path, script)));
}

fn run_recipe(recipe: &str, rep: &mut Report) {
    if let Some(seed) = recipe.strip_prefix('s').and_then(|s| s.parse::<u64>().ok()) {
        one(seed, rep);
    } else if recipe.starts_with('k') {
        corpus_case(recipe, rep);
    }
}

/// Boundary cases that run first: every path healthy, with its first checked datagram unanswered,
/// with an exempt datagram unanswered, and the witnesses of the known gap (status polls of a group
/// transition coming back with a foreign working counter).
fn corpus() -> Vec<String> {
    let mut v = Vec::new();
    for seed in 1..=3u64 {
        for p in ["regr", "regw", "status", "eerd", "eewr", "eeclr", "mbx", "grp", "reqop", "mdw"] {
            v.push(format!("k{p}.{seed}.n"));
            v.push(format!("k{p}.{seed}.0s0"));
            v.push(format!("k{p}.{seed}.1s0"));
            v.push(format!("k{p}.{seed}.1s2"));
            v.push(format!("k{p}.{seed}.0d0"));
            v.push(format!("k{p}.{seed}.1l1"));
        }
        for ord in 1..=8 {
            v.push(format!("kgrp.{seed}.{ord}s2"));
            v.push(format!("kgrp.{seed}.{ord}s0"));
            v.push(format!("kmbx.{seed}.{ord}s0"));
            v.push(format!("keerd.{seed}.{ord}s0"));
        }
    }
    v
}

fn main() {
    let args = ecverif::parse_args();
    let mut rep = Report::default();
    if let Some(cases) = ecverif::replay_cases(&args) {
        // the former witness of the repaired status-poll gap runs in every mode: it must pass
        run_recipe("kgrp.1.2s2", &mut rep);
        for c in cases.iter().filter(|c| c.starts_with("c11 ")) {
            if let Some(recipe) = c.split(' ').nth(1) {
                run_recipe(recipe, &mut rep);
            }
        }
    } else {
        for k in corpus() {
            run_recipe(&k, &mut rep);
        }
        let mut rng = Rng::new(args.seed ^ 0xc11);
        let cases = if args.tier == "thorough" { 400000 } else { 12000 };
        for _ in 0..cases {
            let s = rng.next() >> 1;
            one(s, &mut rep);
        }
    }
    rep.write(&args.out, "c11");
}
