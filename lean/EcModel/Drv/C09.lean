/- Line protocol for C09:
   `c09 <maxSub> <caps a,b,..> <iters> <assign g,g,u,..|-> <dev;dev;..|->`
   dev = `station:al:alias:vendor:product:revision:serial:namehex|-:dc:hasMbx:sm+sm|-:<replay params, ignored>`
   -> `<result>|<stations>|<al states>|<collapsed projected command trace>` -/
import EcModel.Init
import EcModel.Drv.Util

namespace Ec.Drv.C09
open Ec Ec.Drv Ec.Init Ec.Net

def hex4 (n : Nat) : String := hexByte (n / 256 % 256) ++ hexByte (n % 256)
def hex8 (n : Nat) : String := hex4 (n / 65536 % 65536) ++ hex4 (n % 65536)

def parseDev (s : String) : Dev :=
  match splitOn s ":" with
  | station :: al :: alias :: vendor :: product :: revision :: serial :: name :: dc :: hasMbx :: sms :: _ =>
    { station := nat! station, al := nat! al,
      info := { alias := nat! alias, vendor := nat! vendor, product := nat! product, revision := nat! revision,
                serial := nat! serial, name := if name = "-" then none else some (hex! name), dc := nat! dc,
                hasMbx := hasMbx = "1",
                mbxSms := if sms = "-" then [] else (splitOn sms "+").map nat! } }
  | _ => default

/-- `write!(s, "manu. {:#010x}, device {:#010x}, serial {:#010x}", ..)` of `SubDevice::new`. -/
def fallbackName (i : DevInfo) : List Nat :=
  (s!"manu. 0x{hex8 i.vendor}, device 0x{hex8 i.product}, serial 0x{hex8 i.serial}").toList.map Char.toNat

def showRecord (r : Record) : String :=
  let name := match r.info.name with
    | some n => n
    | none => fallbackName r.info
  s!"{r.index}/{hex4 r.cfg}/{r.info.alias}/{r.info.vendor}/{r.info.product}/{r.info.revision}/{r.info.serial}/{hexBytes name}/{r.info.dc}"

def showErr : Err → String
  | .wkc => "wkc" | .capSub => "capSub" | .capGroup => "capGroup" | .unknown => "unknown" | .timeout => "timeout"

def showTok1 : Tok1 → String
  | .brd r => s!"BRD:*:{hex4 r}"
  | .bwr r => s!"BWR:*:{hex4 r}"
  | .apwr p r => s!"APWR:{p}:{hex4 r}"

def showTok2 : Tok2 → String
  | .fprd a r => s!"FPRD:{hex4 a}:{hex4 r}"
  | .fpwr a r => s!"FPWR:{hex4 a}:{hex4 r}"
  | .sii a => s!"SII:{hex4 a}"
  | .frmw a r => s!"FRMW:{hex4 a}:{hex4 r}"
  | .brd r => s!"BRD:*:{hex4 r}"
  | .bwr r => s!"BWR:*:{hex4 r}"

/-- Drop consecutive duplicates (the projection both sides apply). -/
def collapse : List String → List String
  | a :: b :: rest => if a = b then collapse (b :: rest) else a :: collapse (b :: rest)
  | l => l

def showNats (l : List Nat) : String := joinWith "," (l.map toString)

/-- Simulator-vs-spec case: one datagram on the station address register (0x0010) of a ring whose station
    address column is given. `net <stations> <kind> <adp> <value>` -> `<executors>|<wkc>|<stations after>|<data returned>`. -/
def handleNet (stations : List Nat) (kind : String) (adp v : Nat) : String :=
  let n := stations.length
  let (ex, st', data) : List Nat × List Nat × Nat :=
    match kind with
    | "apwr" => let ex := apExecutors adp n; (ex, writeAt ex v stations, v)
    | "aprd" => let ex := apExecutors adp n; (ex, stations, (readLast ex stations).getD v)
    | "fpwr" => let ex := fpExecutors stations adp; (ex, writeAt ex v stations, v)
    | "fprd" => let ex := fpExecutors stations adp; (ex, stations, (readLast ex stations).getD v)
    | "bwr" => let ex := bExecutors n; (ex, writeAt ex v stations, v)
    | "brd" => let ex := bExecutors n; (ex, stations, Nat.lor v (brdOr stations))
    | _ => ([], stations, v)
  showNats ex ++ "|" ++ toString (wkc ex) ++ "|" ++ showNats st' ++ "|" ++ toString data

def handle (args : List String) : String :=
  match args with
  | ["net", stations, kind, adp, v] =>
    handleNet (if stations = "-" then [] else (splitOn stations ",").map nat!) kind (nat! adp) (nat! v)
  | ["bigring", _] => "n/a"   -- monitor-only case of the harness (address clause on a ring of > 4096 devices)
  | [maxSub, caps, iters, assign, devs, _prior] =>
    -- an earlier init of the same MainDevice (any network, any outcome) does not enter the model: `init` is a
    -- function of the network under test only; the harness runs the earlier init for real
    handle [maxSub, caps, iters, assign, devs]
  | [maxSub, caps, iters, assign, devs] =>
    let ring := if devs = "-" then [] else (splitOn devs ";").map parseDev
    let capsL := (splitOn caps ",").map nat!
    let assignL : List (Option Nat) := if assign = "-" then [] else (splitOn assign ",").map fun s => if s = "u" then none else some (nat! s)
    let run := init (nat! maxSub) capsL (fun r => (assignL.getD r.index none)) (nat! iters) ring
    let res := match run.result with
      | .ok gs => "ok:" ++ joinWith ";" (gs.map fun g => joinWith "," (g.map showRecord))
      | .err e => "err:" ++ showErr e
      | .panic _ => "panic"
    let trace := collapse (run.log1.map (showTok1 ·.1) ++ run.log2.map (showTok2 ·.1))
    res ++ "|" ++ showNats run.stations ++ "|" ++ showNats run.als ++ "|" ++ joinWith "," trace
  | _ => "bad-case"

end Ec.Drv.C09
