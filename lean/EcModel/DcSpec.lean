/-
  EcModel.DcSpec — the physical specification C17 is stated against (NOT a translation of code).

  A network is a tree of devices wired through upstream port 0; a device may have a child on each of
  its ports 3, 1, 2 and the frame visits them in that order (ETG.1000.4 / ESC data sheet: port 0 →
  processing unit → port 3 → port 1 → port 2 → back out of port 0). Every cable has a symmetric
  one-way delay `link`; every device has a processing-path delay `pd` (frame in at port 0 → out of
  the first open downstream port, or looped straight back for a leaf) and a forwarding delay `fd`
  (frame in at a downstream port → out of the next open port). Every device has a free-running local
  clock `local = global + off`. A broadcast write to 0x0900 makes every device latch, per open
  port, the local time (32 bit) at which the frame's first bit arrived at that port, and in 0x0918
  the local time (64 bit, or 32 bit zero-extended) it reached the processing unit.

  `visit` computes those latched values for all devices, in frame (= discovery) order. The same
  specification is implemented independently in Rust (harness/src/bin/c17.rs, `Oracle`); the two
  are diffed on every generated tree.
-/
import EcModel.Dc

namespace Ec.DcSpec
open Ec Ec.Dc

structure Params where
  /-- `DcSupport`: 0 none, 1 reference only, 2 64-bit, 3 32-bit. -/
  dc : Nat
  /-- local clock offset -/
  off : Nat
  /-- processing-path delay (ns) -/
  pd : Nat
  /-- forwarding delay (ns) -/
  fd : Nat
  /-- one-way delay of the cable to the upstream neighbour (ns) -/
  link : Nat
  deriving Repr, DecidableEq

/-- `none` = nothing plugged in (port closed). Children in frame order: ports 3, 1, 2. -/
inductive Tree where
  | none
  | node (p : Params) (c3 c1 c2 : Tree)
  deriving Repr

def Tree.isNode : Tree → Bool
  | .none => false
  | .node .. => true

def Tree.link : Tree → Nat
  | .none => 0
  | .node p .. => p.link

def Tree.size : Tree → Nat
  | .none => 0
  | .node _ c3 c1 c2 => 1 + c3.size + c1.size + c2.size

/-- Latched 32-bit port time. -/
def local32 (p : Params) (t : Nat) : Nat := (t + p.off) % U32

/-- Latched receive time of the processing unit (0x0918). -/
def localRx (p : Params) (t : Nat) : Nat :=
  if p.dc = 2 then (t + p.off) % U64 else (t + p.off) % U32

/-- The report of one device: frame in at port 0 at global time `tin`; returns at ports 3/1/2 (if
    open) at `r3`/`r1`/`r2`. Devices without DC have no such registers: all zero (never read). -/
def mkReport (addr : Nat) (p : Params) (tin : Nat) (o3 o1 o2 : Bool) (r3 r1 r2 : Nat) : Report :=
  if p.dc = 0 then ⟨addr, true, o1, o2, o3, false, 0, 0, 0, 0, 0⟩
  else ⟨addr, true, o1, o2, o3, true, local32 p tin,
        if o1 then local32 p r1 else 0, if o2 then local32 p r2 else 0, if o3 then local32 p r3 else 0,
        localRx p tin⟩

/-- `visit t base tin` = (reports of the subtree in frame order, with station addresses
    `0x1000 + discovery position`; global time at which the frame leaves the subtree's root through
    port 0 again). `tin` = global time the frame arrives at the root's port 0. -/
def visit : Tree → Nat → Nat → List Report × Nat
  | .none, _, t => ([], t)
  | .node p c3 c1 c2, base, tin =>
    let t0 := tin + p.pd
    let v3 := visit c3 (base + 1) (t0 + c3.link)
    let r3 := v3.2 + c3.link
    let t1 := if c3.isNode then r3 + p.fd else t0
    let v1 := visit c1 (base + 1 + c3.size) (t1 + c1.link)
    let r1 := v1.2 + c1.link
    let t2 := if c1.isNode then r1 + p.fd else t1
    let v2 := visit c2 (base + 1 + c3.size + c1.size) (t2 + c2.link)
    let r2 := v2.2 + c2.link
    let t3 := if c2.isNode then r2 + p.fd else t2
    (mkReport (4096 + base) p tin c3.isNode c1.isNode c2.isNode r3 r1 r2 :: (v3.1 ++ v1.1 ++ v2.1), t3)

/-- Arrival times at port 0 of every device, frame order (the quantity propagation delays are
    differences of). -/
def arrivals : Tree → Nat → List Nat × Nat
  | .none, t => ([], t)
  | .node p c3 c1 c2, tin =>
    let t0 := tin + p.pd
    let v3 := arrivals c3 (t0 + c3.link)
    let t1 := if c3.isNode then v3.2 + c3.link + p.fd else t0
    let v1 := arrivals c1 (t1 + c1.link)
    let t2 := if c1.isNode then v1.2 + c1.link + p.fd else t1
    let v2 := arrivals c2 (t2 + c2.link)
    let t3 := if c2.isNode then v2.2 + c2.link + p.fd else t2
    (tin :: (v3.1 ++ v1.1 ++ v2.1), t3)

/-- True upstream neighbour (discovery position) of every device, frame order. -/
def trueParents : Tree → Nat → Option Nat → List (Option Nat)
  | .none, _, _ => []
  | .node _ c3 c1 c2, base, par =>
    par :: (trueParents c3 (base + 1) (some base) ++ trueParents c1 (base + 1 + c3.size) (some base)
            ++ trueParents c2 (base + 1 + c3.size + c1.size) (some base))

/-- Physical downstream neighbour on ports (0, 1, 2, 3) — by port NUMBER — of every device. -/
def trueDownstream : Tree → Nat → List (Option Nat × Option Nat × Option Nat × Option Nat)
  | .none, _ => []
  | .node _ c3 c1 c2, base =>
    (none,
     (if c1.isNode then some (base + 1 + c3.size) else none),
     (if c2.isNode then some (base + 1 + c3.size + c1.size) else none),
     (if c3.isNode then some (base + 1) else none))
    :: (trueDownstream c3 (base + 1) ++ trueDownstream c1 (base + 1 + c3.size)
        ++ trueDownstream c2 (base + 1 + c3.size + c1.size))

/-- DC capability of every device, frame order. -/
def dcFlags : Tree → List Bool
  | .none => []
  | .node p c3 c1 c2 => (p.dc != 0) :: (dcFlags c3 ++ dcFlags c1 ++ dcFlags c2)

/-- Number of plugged-in downstream ports of the root. -/
def Tree.kidCount : Tree → Nat
  | .none => 0
  | .node _ c3 c1 c2 => c3.isNode.toNat + c1.isNode.toNat + c2.isNode.toNat

/-- No device of the subtree is a junction (fork or cross): every device has at most one
    downstream neighbour. A non-empty such tree is a pure chain. -/
def NoJunction : Tree → Prop
  | .none => True
  | .node _ c3 c1 c2 =>
    c3.isNode.toNat + c1.isNode.toNat + c2.isNode.toNat ≤ 1 ∧ NoJunction c3 ∧ NoJunction c1 ∧ NoJunction c2

/-- "No nested junctions": no junction lies inside a branch of another junction other than that
    junction's LAST branch (in frame order). Chains, single forks/crosses, and coupler lines in which
    every fork's last port continues the line all satisfy this. (The hypothesis of the former
    `parent_is_true_parent_partial`; no theorem needs it since the parent search skips junctions
    without a free downstream port. Kept to state that the former witnesses lie outside it.) -/
def NoNestedJunction : Tree → Prop
  | .none => True
  | .node _ c3 c1 c2 =>
    NoNestedJunction c3 ∧ NoNestedJunction c1 ∧ NoNestedJunction c2 ∧
    (c3.isNode = true → (c1.isNode = true ∨ c2.isNode = true) → NoJunction c3) ∧
    (c1.isNode = true → c2.isNode = true → NoJunction c1)

/-- No DC device's 32-bit port latches wrap between its port 0 latch and a later port latch
    (`tin` = global arrival time at the root's port 0). Wraps BETWEEN devices are unrestricted. -/
def NoWrap : Tree → Nat → Prop
  | .none, _ => True
  | .node p c3 c1 c2, tin =>
    let t0 := tin + p.pd
    let r3 := (visit c3 0 (t0 + c3.link)).2 + c3.link
    let t1 := if c3.isNode then r3 + p.fd else t0
    let r1 := (visit c1 0 (t1 + c1.link)).2 + c1.link
    let t2 := if c1.isNode then r1 + p.fd else t1
    let r2 := (visit c2 0 (t2 + c2.link)).2 + c2.link
    (p.dc ≠ 0 →
      (c3.isNode = true → local32 p tin + (r3 - tin) < U32) ∧
      (c1.isNode = true → local32 p tin + (r1 - tin) < U32) ∧
      (c2.isNode = true → local32 p tin + (r2 - tin) < U32)) ∧
    NoWrap c3 (t0 + c3.link) ∧ NoWrap c1 (t1 + c1.link) ∧ NoWrap c2 (t2 + c2.link)

/-- Every device of the subtree supports DC. -/
def AllDc : Tree → Prop
  | .none => True
  | .node p c3 c1 c2 => p.dc ≠ 0 ∧ AllDc c3 ∧ AllDc c1 ∧ AllDc c2

/-- Delay a device adds to a frame on its way BACK to the MainDevice, as seen by its upstream
    neighbour: the loop-back of a line end takes its processing delay, any other device forwards. -/
def retDelay : Tree → Nat
  | .none => 0
  | .node p c3 c1 c2 => if c3.isNode || c1.isNode || c2.isNode then p.fd else p.pd

/-- Forward and return forwarding delays are equal on every hop: the delay a device adds on the way
    out equals the delay its downstream neighbour adds on the way back. -/
def Symmetric : Tree → Prop
  | .none => True
  | .node p c3 c1 c2 =>
    (c3.isNode = true → p.pd = retDelay c3) ∧ (c1.isNode = true → p.pd = retDelay c1) ∧
    (c2.isNode = true → p.pd = retDelay c2) ∧ Symmetric c3 ∧ Symmetric c1 ∧ Symmetric c2


/-- Expected programmed delays on a pure chain: a DC device gets its arrival time minus the arrival
    time of the first DC device (`ref`, `none` while none was seen); devices without DC are not
    programmed (their `propagation_delay` stays 0). -/
def chainTruth : Tree → Option Nat → Nat → List Nat
  | .none, _, _ => []
  | .node p c3 c1 c2, ref, tin =>
    let ref' := if p.dc = 0 then ref else some (ref.getD tin)
    let t0 := tin + p.pd
    let t1 := if c3.isNode then (visit c3 0 (t0 + c3.link)).2 + c3.link + p.fd else t0
    let t2 := if c1.isNode then (visit c1 0 (t1 + c1.link)).2 + c1.link + p.fd else t1
    (if p.dc = 0 then 0 else tin - ref.getD tin) ::
      (chainTruth c3 ref' (t0 + c3.link) ++ chainTruth c1 ref' (t1 + c1.link) ++ chainTruth c2 ref' (t2 + c2.link))

/-- The DC-capable devices are contiguous in frame order: phase 0 = none seen yet, 1 = inside the
    block, 2 = after it (only devices without DC may follow). -/
def DcContig : Tree → Nat → Prop
  | .none, _ => True
  | .node p c3 c1 c2, ph =>
    if p.dc = 0 then
      DcContig c3 (if ph = 0 then 0 else 2) ∧ DcContig c1 (if ph = 0 then 0 else 2) ∧ DcContig c2 (if ph = 0 then 0 else 2)
    else (ph = 0 ∨ ph = 1) ∧ DcContig c3 1 ∧ DcContig c1 1 ∧ DcContig c2 1


end Ec.DcSpec
