/- Line protocol for C07:
   `c07 <plain|sync|dc> <chk|wrap> <cap> <pdiStart> <readLen> <maxSd> <dcRef> <idx0> <image hex> <addrs a,b,..|-> <resps>`
   resps: `-` (none) or frames separated by `/`; a frame is `_` (no datagrams) or datagrams separated by `,`,
   each `<data hex>:<wkc>`.
   -> `<frame hex>;<frame hex>;..|<image hex>|ok:<wkc>:<states a,b,..|->:<time|->`  or `..|err:<token>` / `..|panic` -/
import EcModel.TxRx
import EcModel.Drv.Util

namespace Ec.Drv.C07
open Ec Ec.Drv Ec.TxRx

def parseNats (s : String) : List Nat :=
  if s = "-" then [] else (splitOn s ",").map nat!

def parsePdu (s : String) : RPdu :=
  match splitOn s ":" with
  | [d, w] => ⟨hex! d, nat! w⟩
  | _ => ⟨[], 0⟩

def parseFrame (s : String) : List RPdu :=
  if s = "_" then [] else (splitOn s ",").map parsePdu

def parseResps (s : String) : List (List RPdu) :=
  if s = "-" then [] else (splitOn s "/").map parseFrame

def showNats (l : List Nat) : String :=
  if l.isEmpty then "-" else joinWith "," (l.map toString)

def errTok : TxErr → String
  | .timeout => "timeout" | .internal => "internal" | .wireShort => "wire" | .pduTooLong => "toolong"
  | .fuel => "fuel"

def showOut (o : Out) : String :=
  let fr := if o.frames.isEmpty then "-" else joinWith ";" (o.frames.map (fun f => hexBytes f.bytes))
  let img := if o.image.isEmpty then "-" else hexBytes o.image
  let res := match o.res with
    | .ok r => s!"ok:{r.wkc}:{showNats r.states}:" ++ (match r.time with | some t => toString t | none => "-")
    | .err e => "err:" ++ errTok e
    | .panic _ => "panic"
  fr ++ "|" ++ img ++ "|" ++ res

def handle (args : List String) : String :=
  match args with
  | [variant, mode, cap, pdiStart, readLen, maxSd, dcRef, idx0, image, addrs, resps] =>
    let c : Cfg := { cap := nat! cap, pdiStart := nat! pdiStart, readLen := nat! readLen,
                     addrs := parseNats addrs, maxSd := nat! maxSd,
                     mode := if mode = "wrap" then .wrapping else .checked, dc := none }
    let img := hex! image
    let rs := parseResps resps
    let i0 := nat! idx0
    match variant with
    | "plain" => showOut (txRx c img rs i0)
    | "sync" => showOut (txRxSyncSystemTime c (nat! dcRef) img rs i0)
    | "dc" => showOut (txRxDc c (nat! dcRef) img rs i0)
    | _ => "bad-case"
  | _ => "bad-case"

end Ec.Drv.C07
