/-
  One slot per task is enough (EcModel.Tasks, C20): pigeonhole over the slot table.
-/
import EcModel.Lemmas.TasksLin

namespace Ec.Tasks

variable {Rq Rs σ : Type}

def tasksOf (l : List (Option (Entry Rq Rs))) : List Nat := l.filterMap (fun o => o.map Entry.task)

theorem tasksOf_length (l : List (Option (Entry Rq Rs))) : (tasksOf l).length = inFlight l := by
  unfold tasksOf inFlight
  rw [List.length_filterMap_eq_countP]
  congr 1
  funext o
  cases o <;> rfl

theorem slotAt_getElem (l : List (Option (Entry Rq Rs))) (i : Nat) (hi : i < l.length) : slotAt l i = l[i] := by
  simp [slotAt, List.getD, hi]

theorem tasksOf_nodup (l : List (Option (Entry Rq Rs)))
    (huniq : ∀ i j ei ej, slotAt l i = some ei → slotAt l j = some ej → ei.task = ej.task → i = j) :
    (tasksOf l).Nodup := by
  unfold tasksOf
  rw [List.nodup_iff_pairwise_ne, List.pairwise_filterMap, List.pairwise_iff_getElem]
  intro i j hi hj hij b hb b' hb' heq
  cases hei : l[i] with
  | none => rw [hei] at hb; cases hb
  | some ei =>
    cases hej : l[j] with
    | none => rw [hej] at hb'; cases hb'
    | some ej =>
      rw [hei] at hb; rw [hej] at hb'
      simp at hb hb'
      have := huniq i j ei ej (by rw [slotAt_getElem l i hi, hei]) (by rw [slotAt_getElem l j hj, hej])
        (by rw [hb, hb', heq])
      omega

theorem mem_tasksOf (l : List (Option (Entry Rq Rs))) (x : Nat) (hx : x ∈ tasksOf l) :
    ∃ i e, slotAt l i = some e ∧ e.task = x := by
  unfold tasksOf at hx
  rw [List.mem_filterMap] at hx
  obtain ⟨o, ho, hox⟩ := hx
  cases o with
  | none => cases hox
  | some e =>
    obtain ⟨i, hi, hget⟩ := List.getElem_of_mem ho
    refine ⟨i, e, by rw [slotAt_getElem l i hi, hget], by simpa using hox⟩

/-- Pigeonhole: if every claimed slot belongs to a different task below `m` and none to `t < m`,
    fewer than `m` slots are claimed. -/
theorem inFlight_lt_tasks (l : List (Option (Entry Rq Rs))) (m t : Nat) (ht : t < m)
    (huniq : ∀ i j ei ej, slotAt l i = some ei → slotAt l j = some ej → ei.task = ej.task → i = j)
    (hb : ∀ i e, slotAt l i = some e → e.task < m ∧ e.task ≠ t) : inFlight l < m := by
  rw [← tasksOf_length]
  have hsub : tasksOf l ⊆ (List.range m).erase t := by
    intro x hx
    obtain ⟨i, e, hi, he⟩ := mem_tasksOf l x hx
    have := hb i e hi
    rw [List.Nodup.mem_erase_iff List.nodup_range]
    exact ⟨by rw [← he]; exact this.2, by rw [List.mem_range, ← he]; exact this.1⟩
  have hle := List.Nodup.length_le_of_subset (tasksOf_nodup l huniq) hsub
  rw [List.length_erase_of_mem (by simp [ht])] at hle
  simp at hle
  omega

/-- All claimed slots belong to tasks below `m`. -/
def Bounded (m : Nat) (st : St Rq Rs σ) : Prop := ∀ i e, slotAt st.slots i = some e → e.task < m

theorem bounded_step (S : Sys Rq Rs σ) (s0 : σ) (m : Nat) (st : St Rq Rs σ) (a : Act) (h : Inv S s0 st)
    (hb : Bounded m st) (ha : ∀ t, a = .issue t → t < m) : Bounded m (step S st a) := by
  cases a with
  | issue t =>
    have htm := ha t rfl
    simp only [step]
    unfold issue
    split
    · exact hb
    · split
      · exact hb
      · split
        · exact hb
        · next k c hal =>
          obtain ⟨hk, _⟩ := allocLoop_some _ _ _ _ _ hal
          intro i e hi
          simp only [slotAt_set _ _ _ _ hk] at hi
          by_cases h1 : i = k
          · simp [h1] at hi; subst hi; exact htm
          · simp [h1] at hi; exact hb i e hi
  | arrive u =>
    simp only [step]
    unfold arrive
    split
    · exact hb
    · next j e rq hfind =>
      obtain ⟨hj, _⟩ := findSlot_some hfind
      intro i e' hi
      simp only [slotAt_set _ _ _ _ (slotAt_lt hj)] at hi
      by_cases h1 : i = j
      · simp [h1] at hi; subst hi; exact hb j e hj
      · simp [h1] at hi; exact hb i e' hi
  | deliver u =>
    simp only [step]
    cases hfind : findSlot (selBack u) st.slots with
    | none => unfold deliver; rw [hfind]; exact hb
    | some r =>
      obtain ⟨j, e, rs⟩ := r
      rw [deliver_eq S s0 st u h j e rs hfind]
      obtain ⟨hj, _⟩ := findSlot_some hfind
      intro i e' hi
      simp only [slotAt_set _ _ _ _ (slotAt_lt hj)] at hi
      by_cases h1 : i = j
      · simp [h1] at hi; subst hi; exact hb j e hj
      · simp [h1] at hi; exact hb i e' hi
  | consume t =>
    simp only [step]
    unfold consume
    split
    · exact hb
    · next j e rs hfind =>
      obtain ⟨hj, _⟩ := findSlot_some hfind
      intro i e' hi
      simp only [slotAt_set _ _ _ _ (slotAt_lt hj)] at hi
      by_cases h1 : i = j
      · simp [h1] at hi
      · simp [h1] at hi; exact hb i e' hi

theorem step_slots_length (S : Sys Rq Rs σ) (st : St Rq Rs σ) (a : Act) :
    (step S st a).slots.length = st.slots.length := by
  cases a with
  | issue t => simp only [step]; unfold issue; repeat' split
               all_goals simp
  | arrive u => simp only [step]; unfold arrive; split <;> simp
  | deliver u => simp only [step]; unfold deliver; repeat' split
                 all_goals simp
  | consume t => simp only [step]; unfold consume; split <;> simp

theorem step_fails (S : Sys Rq Rs σ) (s0 : σ) (m : Nat) (st : St Rq Rs σ) (a : Act) (h : Inv S s0 st)
    (hb : Bounded m st) (ha : ∀ t, a = .issue t → t < m) (hm : m ≤ st.slots.length) (hn : st.slots.length ≤ 256) :
    (step S st a).fails = st.fails := by
  cases a with
  | issue t =>
    have htm := ha t rfl
    simp only [step]
    cases hfree : findSlot (selTask t) st.slots with
    | some r => unfold issue; rw [hfree]
    | none =>
      have hnone := findSlot_none hfree
      have hlt : inFlight st.slots < st.slots.length := by
        have := inFlight_lt_tasks st.slots m t htm h.uniq
          (fun i e hi => ⟨hb i e hi, selTask_none (hnone i e hi)⟩)
        omega
      obtain ⟨k, c', hal, _⟩ := alloc_complete st.slots st.cursor hlt hn
      unfold issue
      split
      · rfl
      · split
        · rfl
        · rw [hal]
  | arrive u => simp only [step]; unfold arrive; split <;> rfl
  | deliver u => simp only [step]; unfold deliver; repeat' split
                 all_goals rfl
  | consume t => simp only [step]; unfold consume; split <;> rfl

theorem run_fails (S : Sys Rq Rs σ) (s0 : σ) (m : Nat) (st : St Rq Rs σ) (sched : List Act) (h : Inv S s0 st)
    (hb : Bounded m st) (hm : m ≤ st.slots.length) (hn : st.slots.length ≤ 256)
    (hadm : Admissible S st sched) (hbelow : TasksBelow m sched) :
    (run S st sched).fails = st.fails := by
  induction sched generalizing st with
  | nil => rfl
  | cons a rest ih =>
    have hl := step_slots_length S st a
    simp only [run]
    rw [ih (step S st a) (inv_step S s0 st a h hadm.1) (bounded_step S s0 m st a h hb hbelow.1)
      (by omega) (by omega) hadm.2 hbelow.2]
    exact step_fails S s0 m st a h hb hbelow.1 hm hn

end Ec.Tasks
