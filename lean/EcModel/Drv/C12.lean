/- Line protocol for C12: the shared EEPROM machine (see Drv/Eeprom.lean). -/
import EcModel.Drv.Eeprom

namespace Ec.Drv.C12
def handle : List String → String := Ec.Drv.Eeprom.handle
end Ec.Drv.C12
