/-
  Preservation of `MInv` by one micro-step, per program counter.
  Part 3: reading the response (`first_pdu`, the iterator, views, drop of a `ReceivedFrame`), and the
  local prelude of the next operation (`Micro.begin`).
-/
import EcModel.Lemmas.MicroInv

namespace Ec.Micro
open Ec

variable {w : MWorld} {tid : Nat} {prog outs : List String} {regs : List Hd}

/-! ### reading the response -/

theorem inv_fpRead (hI : MInv w) {r code idx : Nat}
    (ht : w.threads[tid]? = some ⟨prog, .fpRead r code idx, regs, outs⟩) :
    MInv (next w tid (stepThread w.sys ⟨prog, .fpRead r code idx, regs, outs⟩)) := by
  have hR : Regs regs := hI.regs _ (mem_of_get ht)
  obtain ⟨h, e, hρ⟩ := hI.need ht (r := r) (ρ := .reader) rfl
  have hclr : ∀ out, MInv (next w tid (w.sys, ⟨prog, .rfClear r out, regs, outs⟩)) := fun out =>
    hI.step_same ht (CapLe.refl _) hR ⟨⟨h, e, hρ⟩, trivial⟩ (fun _ _ => Nat.le_refl _)
  have hview : ∀ (out : String) (off len wkc : Nat),
      MInv (next w tid (w.sys, ⟨prog, .idle, putH regs ⟨r, h.slot, .view off len wkc⟩, out :: outs⟩)) := by
    intro out off len wkc
    refine hI.step_same ht (CapLe.refl _) (regs_putH hR _) ⟨trivial, trivial⟩ ?_
    intro k ρ
    simp only [tcount, pcount, Pc.claim, hcount_putH, hcount_delH_some hR e, roleOf_view, hρ]
    omega
  simp only [stepThread, slotOf, e]
  repeat' split
  all_goals first
    | exact hclr _
    | exact hview _ _ _ _

theorem inv_rfClear (hI : MInv w) {r : Nat} {out : String}
    (ht : w.threads[tid]? = some ⟨prog, .rfClear r out, regs, outs⟩) :
    MInv (next w tid (stepThread w.sys ⟨prog, .rfClear r out, regs, outs⟩)) := by
  have hR : Regs regs := hI.regs _ (mem_of_get ht)
  obtain ⟨h, e, hρ⟩ := hI.need ht (r := r) (ρ := .reader) rfl
  simp only [stepThread]
  exact hI.step_same ht (CapLe.set_same _ _ _ rfl) hR ⟨⟨h, e, hρ⟩, trivial⟩ (fun _ _ => Nat.le_refl _)

/-- Drop of the `ReceivedFrame` / `ReceivedPdu`: `RxProcessing → None` compare-exchange by the reader. -/
theorem inv_rfCas (hI : MInv w) {r : Nat} {out : String}
    (ht : w.threads[tid]? = some ⟨prog, .rfCas r out, regs, outs⟩) :
    MInv (next w tid (stepThread w.sys ⟨prog, .rfCas r out, regs, outs⟩)) := by
  have hR : Regs regs := hI.regs _ (mem_of_get ht)
  obtain ⟨h, e, hρ⟩ := hI.need ht (r := r) (ρ := .reader) rfl
  have hg := hI.of_get ht e
  by_cases hst : (w.sys.slot h.slot).st = .rxProcessing
  · simp only [stepThread, slotOf, e, if_pos hst]
    refine hI.step_set ht h.slot _ hg.2 (regs_delH hR _) ⟨trivial, trivial⟩ ?_ ?_
    · intro k ρ hne
      simp only [tcount, pcount, Pc.claim, Thread.done, hcount_delH_some hR e k ρ]
      omega
    · intro rest h0 _ ρ
      have h1 := h0 ρ
      rw [hst] at h1
      simp only [tcount, pcount, Pc.claim, Thread.done, hcount_delH_some hR e, hρ] at h1 ⊢
      cases ρ <;> simp [cap, one] at h1 ⊢ <;> omega
  · simp only [stepThread, slotOf, e, if_neg hst]
    refine hI.step_same ht (CapLe.refl _) (regs_delH hR _) ⟨trivial, trivial⟩ ?_
    intro k ρ
    have := hcount_delH_le regs r k ρ
    simp only [tcount, pcount, Pc.claim, Thread.done]
    omega

theorem inv_itNext (hI : MInv w) {r left : Nat} {pos : Option Nat} {acc : List String}
    (ht : w.threads[tid]? = some ⟨prog, .itNext r left pos acc, regs, outs⟩) :
    MInv (next w tid (stepThread w.sys ⟨prog, .itNext r left pos acc, regs, outs⟩)) := by
  have hR : Regs regs := hI.regs _ (mem_of_get ht)
  obtain ⟨h, e, hρ⟩ := hI.need ht (r := r) (ρ := .reader) rfl
  simp only [stepThread]
  repeat' split
  all_goals exact hI.step_same ht (CapLe.refl _) hR ⟨⟨h, e, hρ⟩, trivial⟩ (fun _ _ => Nat.le_refl _)

theorem inv_itRead (hI : MInv w) {r left : Nat} {pos : Option Nat} {acc : List String} {off len wkc : Nat}
    (ht : w.threads[tid]? = some ⟨prog, .itRead r left pos acc off len wkc, regs, outs⟩) :
    MInv (next w tid (stepThread w.sys ⟨prog, .itRead r left pos acc off len wkc, regs, outs⟩)) := by
  have hR : Regs regs := hI.regs _ (mem_of_get ht)
  obtain ⟨h, e, hρ⟩ := hI.need ht (r := r) (ρ := .reader) rfl
  simp only [stepThread]
  repeat' split
  all_goals exact hI.step_same ht (CapLe.refl _) hR ⟨⟨h, e, hρ⟩, trivial⟩ (fun _ _ => Nat.le_refl _)

theorem inv_vrRead (hI : MInv w) {r : Nat}
    (ht : w.threads[tid]? = some ⟨prog, .vrRead r, regs, outs⟩) :
    MInv (next w tid (stepThread w.sys ⟨prog, .vrRead r, regs, outs⟩)) := by
  have hR : Regs regs := hI.regs _ (mem_of_get ht)
  simp only [stepThread]
  split
  all_goals exact hI.step_same ht (CapLe.refl _) hR ⟨trivial, trivial⟩ (fun _ _ => Nat.le_refl _)

/-! ### the local prelude of the next operation -/

/-- `Micro.begin` touches no shared state, starts an operation only on a register that holds a handle
    of the kind the operation needs (otherwise the answer is `bad-op`), and creates no claim. -/
theorem begin_effect (n : Nat) (s : Sys) (t : Thread) (hr : Regs t.regs) (hp : PcOk n t) :
    (begin s t).1 = s ∧ Regs (begin s t).2.regs ∧ PcOk n (begin s t).2 ∧
      ∀ k ρ, tcount (begin s t).2 k ρ ≤ tcount t k ρ := by
  unfold begin
  split
  · exact ⟨rfl, hr, hp, fun _ _ => Nat.le_refl _⟩
  · repeat' (first | split | dsimp only)
    all_goals first
      | exact ⟨rfl, hr, ⟨trivial, trivial⟩, fun _ _ => Nat.add_le_add (Nat.zero_le _) (Nat.le_refl _)⟩
      | (refine ⟨rfl, hr, ⟨⟨?_, ?_, ?_⟩, trivial⟩,
            fun _ _ => Nat.add_le_add (Nat.zero_le _) (Nat.le_refl _)⟩
         rotate_left
         assumption
         rfl)
      | (rename_i heq
         exact ⟨rfl, regs_putH hr _, ⟨trivial, trivial⟩, fun k ρ =>
            Nat.add_le_add (Nat.zero_le _) (Nat.le_of_eq (hcount_retag hr heq _ rfl _ rfl k ρ))⟩)

theorem inv_idle (hI : MInv w)
    (ht : w.threads[tid]? = some ⟨prog, .idle, regs, outs⟩) :
    MInv (next w tid (stepThread w.sys ⟨prog, .idle, regs, outs⟩)) := by
  have hR : Regs regs := hI.regs _ (mem_of_get ht)
  obtain ⟨h1, h2, h3, h4⟩ := begin_effect w.sys.n w.sys ⟨prog, .idle, regs, outs⟩ hR
    (hI.pcok _ (mem_of_get ht))
  simp only [stepThread]
  have hc : CapLe w.sys (begin w.sys ⟨prog, .idle, regs, outs⟩).1 := by rw [h1]; exact CapLe.refl _
  exact hI.step_same ht hc h2 h3 h4

end Ec.Micro
