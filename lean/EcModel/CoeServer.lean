/-
  EcModel.CoeServer — SPECIFICATION of a CoE SDO server (the SubDevice side), written from ETG1000.6 §5.6.2
  (tables "SDO Download Expedited/Normal Request", "SDO Download Response", "SDO Upload Request", "SDO Upload
  Expedited/Normal Response", "Upload SDO Segment Request/Response", "Abort SDO Transfer Request") and
  §5.6.4 (Emergency), cross-checked against SOEM's client `ecx_SDOread` / `ecx_SDOwrite` and the IgH master's
  `ec_fsm_coe_up_*`, which interoperate with real devices. This is NOT a translation of anything in /repo.

  Message layout (offsets from the start of the mailbox):
    0..5   mailbox header: length (u16, bytes following the 6-byte header), address (u16), channel/priority (u8),
           type (low nibble, 3 = CoE) | counter (bits 4..6)
    6..7   CoE header: number (9 bits), reserved (3 bits), service (high nibble of byte 7):
           1 emergency, 2 SDO request, 3 SDO response, 8 SDO information
    8      SDO command byte (see the builders below), 9..10 index, 11 sub-index, 12.. data

  Upload (read) of an object of n bytes, the server's FREE choices (all of them allowed by the standard):
    expedited  (1 ≤ n ≤ 4)            command 0x43 | (4-n)<<2 | complete<<4, four data bytes, length 10
    normal     (n + 16 ≤ mailbox)     command 0x41 | complete<<4, complete size u32, n data bytes, length 10 + n
    segmented  (otherwise, or chosen) the initiate response is a normal response announcing complete size n and
               carrying the FIRST `first` bytes (0 ≤ first ≤ mailbox - 16, first < n; length 10 + first); the client then
               sends Upload Segment Requests (command 0x60 | toggle<<4), each answered by an Upload Segment Response:
               command byte = 0<<5 | toggle<<4 | (7-k)<<1 (only when k < 7) | last, data starting at offset 9;
               mailbox length = 3 + k for k ≥ 7 data bytes and 10 for k < 7 (the data area is never shorter than 7).
    The open question of DESIGN §6 C15 — may the initiate response of a segmented upload carry data? — is settled
    YES: the standard's normal response has `Data: BYTE[n-10]` "if the complete size exceeds the mailbox the first part",
    SOEM copies `Framedatasize = length - 10` bytes from the initiate response before requesting segments, so does IgH
    (`fsm->offset = data_size`), and Beckhoff's slave stack fills the initiate response up to the mailbox size. `first = 0`
    is one of the choices, so servers that send everything in segments are covered as well.
-/
import EcModel.Basic

namespace Ec.CoeSrv
open Ec

/-- Object dictionary: (index, sub-index) ↦ bytes, first match wins. -/
abbrev Dict := List ((Nat × Nat) × List Nat)

def Dict.get (d : Dict) (index sub : Nat) : Option (List Nat) :=
  match d with
  | [] => none
  | (k, v) :: rest => if k.1 == index && k.2 == sub then some v else Dict.get rest index sub

def Dict.hasIndex (d : Dict) (index : Nat) : Bool := d.any fun e => e.1.1 == index

def Dict.set (d : Dict) (index sub : Nat) (v : List Nat) : Dict :=
  match d with
  | [] => [((index, sub), v)]
  | (k, old) :: rest =>
    if k.1 == index && k.2 == sub then (k, v) :: rest else (k, old) :: Dict.set rest index sub v

/-- Bytes of a complete-access upload starting at `sub` (0 or 1): the sub-indices in ascending order, sub-index 0
    padded to 16 bits. `n` = highest sub-index considered. -/
def Dict.completeFrom (d : Dict) (index : Nat) : Nat → Nat → List Nat
  | 0, _ => []
  | n + 1, sub =>
    (match d.get index sub with
     | some v => if sub == 0 && v.length == 1 then v ++ [0] else v
     | none => []) ++ Dict.completeFrom d index n (sub + 1)

/-- How the server answers the next upload. -/
inductive UploadMode where
  /-- expedited if 1..4 bytes, else normal if it fits, else segmented with as much as fits everywhere -/
  | auto
  /-- never expedited -/
  | normal
  /-- segmented: `first` data bytes in the initiate response, then segments of the given sizes (then as much as fits) -/
  | segmented (first : Nat) (sizes : List Nat)
  deriving Repr, DecidableEq

/-- A segmented upload in progress. -/
structure SegState where
  data : List Nat
  toggle : Bool
  sizes : List Nat
  deriving Repr, DecidableEq

structure Server where
  dict : Dict
  /-- entries whose access is refused with this abort code -/
  aborts : List ((Nat × Nat) × Nat)
  mode : UploadMode
  seg : Option SegState
  /-- counter of the last message sent (0 = none yet); every message carries the next one of 1..7 -/
  counter : Nat
  /-- size of the OUT mailbox -/
  rmbx : Nat
  /-- command specifier of upload segment responses: 0 in the standard -/
  scs : Nat
  /-- emergency messages (code, register, 5 data bytes) sent before the next response -/
  emergencies : List (Nat × Nat × List Nat)
  /-- refuse downloads whose length differs from the stored value's (abort 0x06070010) -/
  strictLen : Bool
  deriving Repr

def abortToggle : Nat := 0x05030000
def abortUnknownCommand : Nat := 0x05040001
def abortNoObject : Nat := 0x06020000
def abortNoSubIndex : Nat := 0x06090011
def abortLengthMismatch : Nat := 0x06070010

def nextCtr (c : Nat) : Nat := if c ≥ 7 then 1 else c + 1

/-- Mailbox + CoE header in front of `body` (which starts with the SDO command byte). -/
def frame (ctr service : Nat) (body : List Nat) : List Nat :=
  [(2 + body.length) % 256, (2 + body.length) / 256 % 256, 0, 0, 0, 3 + 16 * (ctr % 8), 0, 16 * service] ++ body

def completeBit (c : Bool) : Nat := if c then 16 else 0

/-- SDO Upload Expedited Response. -/
def expeditedResponse (ctr index sub : Nat) (complete : Bool) (data : List Nat) : List Nat :=
  frame ctr 3 ([0x43 + 4 * (4 - data.length) + completeBit complete, index % 256, index / 256 % 256, sub] ++
    data ++ zeros (4 - data.length))

/-- SDO Upload Normal Response carrying `part` (all of the data, or its first part). -/
def normalResponse (ctr index sub : Nat) (complete : Bool) (completeSize : Nat) (part : List Nat) : List Nat :=
  frame ctr 3 ([0x41 + completeBit complete, index % 256, index / 256 % 256, sub] ++ le32 completeSize ++ part)

/-- Upload SDO Segment Response with `k = chunk.length` data bytes. -/
def segmentResponse (ctr scs : Nat) (toggle last : Bool) (chunk : List Nat) : List Nat :=
  frame ctr 3 ([32 * scs + (if toggle then 16 else 0) + 2 * (7 - chunk.length) + (if last then 1 else 0)] ++
    chunk ++ zeros (7 - chunk.length))

/-- SDO Download Response. -/
def downloadResponse (ctr index sub : Nat) (complete : Bool) : List Nat :=
  frame ctr 3 [0x60 + completeBit complete, index % 256, index / 256 % 256, sub, 0, 0, 0, 0]

/-- Abort SDO Transfer Request (service 2: it is a request in both directions). -/
def abortMessage (ctr index sub code : Nat) : List Nat :=
  frame ctr 2 ([0x80, index % 256, index / 256 % 256, sub] ++ le32 code)

/-- Emergency message: error code, error register, 5 bytes of manufacturer data. -/
def emergencyMessage (ctr code reg : Nat) (data : List Nat) : List Nat :=
  frame ctr 1 (le16 code ++ [reg % 256] ++ (data ++ zeros 5).take 5)

/-- The emergency messages queued in the server, with consecutive counters; returns the counter of the last one. -/
def emitEmergencies : Nat → List (Nat × Nat × List Nat) → Nat × List (List Nat)
  | c, [] => (c, [])
  | c, (code, reg, data) :: rest =>
    let r := emitEmergencies (nextCtr c) rest
    (r.1, emergencyMessage (nextCtr c) code reg data :: r.2)

/-- Bytes an upload of (index, sub) returns, or the abort code. -/
def Server.objectBytes (s : Server) (index sub : Nat) (complete : Bool) : Except Nat (List Nat) :=
  match s.aborts.find? fun e => e.1.1 == index && e.1.2 == sub with
  | some e => .error e.2
  | none =>
    if !s.dict.hasIndex index then .error abortNoObject
    else if complete then
      let b := s.dict.completeFrom index (256 - sub) sub
      if b.isEmpty then .error abortNoSubIndex else .ok b
    else
      match s.dict.get index sub with
      | some v => .ok v
      | none => .error abortNoSubIndex

/-- Largest number of data bytes of a normal response / of a segment response in this mailbox. -/
def Server.normalRoom (s : Server) : Nat := s.rmbx - 16
def Server.segmentRoom (s : Server) : Nat := max (s.rmbx - 9) 7

/-- SDO Upload Request. -/
def Server.upload (s : Server) (ctr index sub : Nat) (complete : Bool) : Server × List Nat :=
  match s.objectBytes index sub complete with
  | .error code => ({ s with counter := ctr, seg := none }, abortMessage ctr index sub code)
  | .ok data =>
    let n := data.length
    if s.mode == .auto && 1 ≤ n && n ≤ 4 then
      ({ s with counter := ctr, seg := none }, expeditedResponse ctr index sub complete data)
    else
      let first := match s.mode with
        | .segmented f _ => if n > 4 then min (min f s.normalRoom) n else min n s.normalRoom
        | _ => min n s.normalRoom
      -- (the chosen segment sizes, like the chosen first part, apply to objects of more than 4 bytes only: for a
      -- smaller object a never-expedited server sends what fits, as the simulated and the reference server do;
      -- model corrected after a disagreement met with seed 3: 4-byte object, 16-byte mailbox, 1-byte segments)
      let sizes := match s.mode with
        | .segmented _ sz => if n > 4 then sz else []
        | _ => []
      let seg := if first < n then some { data := data.drop first, toggle := false, sizes := sizes } else none
      ({ s with counter := ctr, seg := seg }, normalResponse ctr index sub complete n (data.take first))

/-- Upload SDO Segment Request. -/
def Server.uploadSegment (s : Server) (ctr : Nat) (toggle : Bool) : Server × List Nat :=
  match s.seg with
  | none => ({ s with counter := ctr }, abortMessage ctr 0 0 abortUnknownCommand)
  | some st =>
    if toggle != st.toggle then ({ s with counter := ctr, seg := none }, abortMessage ctr 0 0 abortToggle)
    else
      let want := match st.sizes with
        | [] => s.segmentRoom
        | k :: _ => max k 1
      let k := min (min want s.segmentRoom) st.data.length
      let rest := st.data.drop k
      let last := rest.isEmpty
      let seg := if last then none else some { data := rest, toggle := !st.toggle, sizes := st.sizes.drop 1 }
      ({ s with counter := ctr, seg := seg }, segmentResponse ctr s.scs toggle last (st.data.take k))

/-- Store a download: plain, or complete access (distributed over the existing sub-indices from `sub` upwards). -/
def Dict.storeComplete (d : Dict) (index : Nat) : Nat → Nat → List Nat → Dict
  | 0, _, _ => d
  | n + 1, sub, data =>
    match d.get index sub with
    | none => Dict.storeComplete d index n (sub + 1) data
    | some old =>
      if old.length > data.length then d
      else
        let take := if sub == 0 && old.length == 1 then 2 else old.length
        Dict.storeComplete (d.set index sub (data.take old.length)) index n (sub + 1) (data.drop take)

/-- SDO Download Expedited / Normal Request (`data` = the value's bytes). -/
def Server.download (s : Server) (ctr index sub : Nat) (complete : Bool) (data : List Nat) : Server × List Nat :=
  match s.aborts.find? fun e => e.1.1 == index && e.1.2 == sub with
  | some e => ({ s with counter := ctr }, abortMessage ctr index sub e.2)
  | none =>
    if complete then
      if !(s.dict.any fun e => e.1.1 == index && e.1.2 ≥ sub) then
        ({ s with counter := ctr }, abortMessage ctr index sub abortNoObject)
      else ({ s with counter := ctr, dict := s.dict.storeComplete index (256 - sub) sub data },
            downloadResponse ctr index sub complete)
    else
      match s.dict.get index sub with
      | none =>
        ({ s with counter := ctr },
          abortMessage ctr index sub (if s.dict.hasIndex index then abortNoSubIndex else abortNoObject))
      | some old =>
        if s.strictLen && old.length != data.length then
          ({ s with counter := ctr }, abortMessage ctr index sub abortLengthMismatch)
        else ({ s with counter := ctr, dict := s.dict.set index sub data }, downloadResponse ctr index sub complete)

/-- The server: one request (image of its IN mailbox) ↦ new state and the messages it queues. Requests that are not
    CoE SDO requests are ignored (SDO information, other protocols: outside C15). -/
def serve (s : Server) (req : List Nat) : Server × List (List Nat) :=
  if req.length < 12 then (s, [])
  else if req.getD 5 0 % 16 != 3 || req.getD 7 0 / 16 != 2 then (s, [])
  else
    let em := emitEmergencies s.counter s.emergencies
    let s := { s with counter := em.1, emergencies := [] }
    let ctr := nextCtr s.counter
    let cmd := req.getD 8 0
    let ccs := cmd / 32 % 8
    let complete := cmd / 16 % 2 == 1
    let index := req.getD 9 0 + 256 * req.getD 10 0
    let sub := req.getD 11 0
    let r : Server × List (List Nat) :=
      if ccs == 2 then
        let a := s.upload ctr index sub complete
        (a.1, [a.2])
      else if ccs == 3 then
        let a := s.uploadSegment ctr complete
        (a.1, [a.2])
      else if ccs == 1 then
        let expedited := cmd / 2 % 2 == 1
        let sizeInd := cmd % 2 == 1
        let a :=
          if expedited then
            let n := if sizeInd then 4 - cmd / 4 % 4 else 4
            s.download ctr index sub complete ((req.drop 12).take n)
          else
            let n := rd32 (req.drop 12)
            s.download ctr index sub complete ((req.drop 16).take n)
        (a.1, [a.2])
      -- Abort SDO Transfer from the client: the transfer is dropped, nothing is answered
      else if ccs == 4 then ({ s with seg := none }, [])
      else ({ s with counter := ctr }, [abortMessage ctr index sub abortUnknownCommand])
    (r.1, em.2 ++ r.2)

end Ec.CoeSrv
