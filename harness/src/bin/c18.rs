//! C18 — the real `SubDeviceGroup::configure_dc_sync` and `tx_rx_dc` driven through the public API
//! against a register-level responder: observed are the FPWR datagrams that reach the wire (DC
//! registers 0x0981/0x0990/0x09A0/0x09A4) and the `CycleInfo` returned for chosen system times.
use core::pin::pin;
use core::time::Duration;
use ecverif::dcnet::{self, Net, Responder};
use ecverif::rng::Rng;
use ecverif::util::{Report, hex};
use ethercrab::error::{DistributedClockError, Error};
use ethercrab::subdevice_group::DcConfiguration;
use ethercrab::{DcSupport, DcSync, verif};
use std::panic::{AssertUnwindSafe, catch_unwind};

const U32_MAX: u128 = u32::MAX as u128;
const U64: u128 = 1u128 << 64;
/// "just above" the 32-bit range for shifts (the property's quantifier)
const SHIFT_BOUND: u128 = 1u128 << 33;

#[derive(Clone, Debug)]
pub struct Dev {
    addr: u16,
    /// 0 none, 1 ref-only, 2 64 bit, 3 32 bit
    dc: u8,
    /// None = disabled, Some(None) = Sync0, Some(Some(n)) = Sync01 { n ns }
    sync: Option<Option<u128>>,
}

#[derive(Clone, Debug)]
pub struct Case {
    reference: u16,
    sys: u64,
    delay: u128,
    period: u128,
    shift: u128,
    devs: Vec<Dev>,
    times: Vec<u64>,
}

fn mode() -> &'static str {
    if cfg!(debug_assertions) { "chk" } else { "wrap" }
}

impl Case {
    fn to_line(&self) -> String {
        let devs = if self.devs.is_empty() {
            "-".to_string()
        } else {
            self.devs
                .iter()
                .map(|d| match d.sync {
                    None => format!("{},{},d", d.addr, d.dc),
                    Some(None) => format!("{},{},s0", d.addr, d.dc),
                    Some(Some(n)) => format!("{},{},s1,{}", d.addr, d.dc, n),
                })
                .collect::<Vec<_>>()
                .join(";")
        };
        let times = if self.times.is_empty() { "-".to_string() } else { self.times.iter().map(|t| t.to_string()).collect::<Vec<_>>().join(",") };
        format!("c18 {} {} {} {} {} {} {} {}", mode(), self.reference, self.sys, self.delay, self.period, self.shift, devs, times)
    }
}

fn dur(n: u128) -> Duration {
    Duration::new((n / 1_000_000_000) as u64, (n % 1_000_000_000) as u32)
}

/// The segment: answers the system-time read and the FRMW, records every write.
struct SyncNet {
    sys: u64,
    time: u64,
    writes: Vec<(u16, u16, Vec<u8>)>,
    frmw_addr: Option<u16>,
    other: Vec<String>,
}

impl Responder for SyncNet {
    fn on_pdu(&mut self, cmd: u8, adp: u16, ado: u16, data: &mut [u8]) -> u16 {
        match cmd {
            dcnet::FPRD if ado == 0x0910 && data.len() == 8 => {
                data.copy_from_slice(&self.sys.to_le_bytes());
                1
            }
            // AL status of the state checks in tx_rx_dc: OP
            dcnet::FPRD if ado == 0x0130 => {
                if !data.is_empty() {
                    data[0] = 0x08;
                }
                1
            }
            dcnet::FPWR => {
                self.writes.push((adp, ado, data.to_vec()));
                1
            }
            dcnet::FRMW if ado == 0x0910 && data.len() == 8 => {
                data.copy_from_slice(&self.time.to_le_bytes());
                self.frmw_addr = Some(adp);
                1
            }
            dcnet::LRW => 0,
            c => {
                self.other.push(format!("{c}:{adp}:{ado}:{}", data.len()));
                0
            }
        }
    }
}

fn err_token(e: &Error) -> String {
    match e {
        Error::DistributedClock(DistributedClockError::NoReference) => "err:NoReference".into(),
        Error::IntegerTypeConversion => "err:IntegerTypeConversion".into(),
        e => format!("err:Other({e:?})").replace(' ', "_"),
    }
}

fn dc_support(n: u8) -> DcSupport {
    match n {
        0 => DcSupport::None,
        1 => DcSupport::RefOnly,
        2 => DcSupport::Bits64,
        _ => DcSupport::Bits32,
    }
}

pub fn run_case(case: &Case, net: &mut Option<Net>, rep: &mut Report) {
    let line = case.to_line();
    let n = net.get_or_insert_with(dcnet::new_net);
    let md = n.maindevice;
    md.verif_set_dc_reference(case.reference);
    let devs: Vec<(u16, DcSupport, DcSync)> = case
        .devs
        .iter()
        .map(|d| {
            (
                d.addr,
                dc_support(d.dc),
                match d.sync {
                    None => DcSync::Disabled,
                    Some(None) => DcSync::Sync0,
                    Some(Some(p)) => DcSync::Sync01 { sync1_period: dur(p) },
                },
            )
        })
        .collect();
    let mut sn = SyncNet { sys: case.sys, time: 0, writes: vec![], frmw_addr: None, other: vec![] };
    let conf = DcConfiguration { start_delay: dur(case.delay), sync0_period: dur(case.period), sync0_shift: dur(case.shift) };

    // ---- configure_dc_sync on the real group
    let group = verif::dc::dc_group::<8, 16>(&devs).expect("group");
    let res = catch_unwind(AssertUnwindSafe(|| {
        let fut = pin!(group.configure_dc_sync(md, conf));
        dcnet::drive(fut, n, &mut sn)
    }));
    let mut broken_net = false;
    let (tok, group) = match res {
        Ok(Some(Ok(g))) => ("ok".to_string(), Some(g)),
        Ok(Some(Err(e))) => (err_token(&e), None),
        Ok(None) => {
            broken_net = true;
            ("stuck".to_string(), None)
        }
        Err(_) => {
            broken_net = true;
            let _ = dcnet::take_panic();
            ("panic".to_string(), None)
        }
    };
    let writes = sn.writes.clone();
    let ws = if writes.is_empty() { "-".to_string() } else { writes.iter().map(|(a, r, d)| format!("{a}:{r}:{}", hex(d))).collect::<Vec<_>>().join(",") };

    // ---- cycles
    let mut cycles: Vec<String> = Vec::new();
    let mut cyc_obs: Vec<Option<(u64, u128, u128, u16)>> = Vec::new();
    if let Some(g) = group.as_ref() {
        for &t in &case.times {
            sn.time = t;
            sn.frmw_addr = None;
            if broken_net {
                *net = None;
                broken_net = false;
            }
            let n = net.get_or_insert_with(|| {
                let n = dcnet::new_net();
                n.maindevice.verif_set_dc_reference(case.reference);
                n
            });
            let md = n.maindevice;
            let r = catch_unwind(AssertUnwindSafe(|| {
                let fut = pin!(g.tx_rx_dc(md));
                dcnet::drive(fut, n, &mut sn)
            }));
            match r {
                Ok(Some(Ok(resp))) => {
                    let ci = resp.extra;
                    let a = sn.frmw_addr.unwrap_or(0);
                    cycles.push(format!("{}:{}:{}:{}", ci.dc_system_time, ci.cycle_start_offset.as_nanos(), ci.next_cycle_wait.as_nanos(), a));
                    cyc_obs.push(Some((ci.dc_system_time, ci.cycle_start_offset.as_nanos(), ci.next_cycle_wait.as_nanos(), a)));
                }
                Ok(Some(Err(e))) => {
                    cycles.push(err_token(&e));
                    cyc_obs.push(None);
                }
                Ok(None) => {
                    broken_net = true;
                    cycles.push("stuck".into());
                    cyc_obs.push(None);
                }
                Err(_) => {
                    broken_net = true;
                    let _ = dcnet::take_panic();
                    cycles.push("panic".into());
                    cyc_obs.push(None);
                }
            }
        }
    }
    if broken_net {
        *net = None;
    }
    let cs = if cycles.is_empty() { "-".to_string() } else { cycles.join(",") };
    if !sn.other.is_empty() {
        rep.fail("c18/unexpected-datagram", &format!("datagrams the DC code should not send: {:?}", sn.other), &line);
    }

    // ------------------------------------------------------------ independent monitors
    let wanted: Vec<&Dev> = case.devs.iter().filter(|d| d.dc != 0 && d.sync.is_some()).collect();
    // only DC devices that asked for it are touched -- whatever the outcome
    for (a, r, _) in &writes {
        if !wanted.iter().any(|d| d.addr == *a) {
            rep.fail("c18/touched-other-device", &format!("write to {a:#06x} reg {r:#06x}: not a DC device with DcSync enabled"), &line);
        }
    }
    let in_range = case.reference != 0 && (1..=U32_MAX).contains(&case.period) && case.delay <= U32_MAX;
    let sync1_ok = wanted.iter().all(|d| !matches!(d.sync, Some(Some(n)) if n >= U64));
    let sum = case.sys as u128 + case.delay;
    if case.reference == 0 {
        rep.hit("no-reference");
        if tok != "err:NoReference" || !writes.is_empty() {
            rep.fail("c18/no-reference-not-rejected", &format!("no reference clock but result {tok} / {} writes", writes.len()), &line);
        }
    } else if case.period > U32_MAX || case.delay > U32_MAX {
        rep.hit("out-of-u32-range");
        if tok != "err:IntegerTypeConversion" || !writes.is_empty() {
            rep.fail("c18/range-not-rejected", &format!("period {} / delay {} beyond u32 but result {tok} / {} writes", case.period, case.delay, writes.len()), &line);
        }
    } else if in_range && sync1_ok {
        rep.hit("in-range");
        if sum >= U64 {
            // the first pulse time is not a 64-bit time: rejected before any write (fix of c18/start-time-add-overflow)
            rep.hit("ref+delay>=2^64");
            if tok != "err:IntegerTypeConversion" || !writes.is_empty() {
                rep.fail("c18/start-time-add-overflow", &format!("reference time {} + delay {} does not fit in 64 bits but result {tok} / {} writes", case.sys, case.delay, writes.len()), &line);
            }
        } else if tok == "panic" || tok == "stuck" {
            let key = if sum >= U64 { "c18/start-time-add-overflow" } else { "c18/configure-panic" };
            rep.fail(key, &format!("configure_dc_sync {tok}s for an in-range configuration (reference time {} + delay {})", case.sys, case.delay), &line);
        } else if tok != "ok" {
            rep.fail("c18/in-range-rejected", &format!("in-range configuration rejected: {tok}"), &line);
        } else {
            // expected register image per wanted device, in group order
            let mut k = 0usize;
            let mut bad: Option<String> = None;
            let mut win_bad: Option<String> = None;
            for d in &wanted {
                let nw = if matches!(d.sync, Some(Some(_))) { 5 } else { 4 };
                if k + nw > writes.len() {
                    bad = Some(format!("device {:#06x}: writes missing", d.addr));
                    break;
                }
                let w = &writes[k..k + nw];
                k += nw;
                if w.iter().any(|x| x.0 != d.addr) {
                    bad = Some(format!("device {:#06x}: interleaved writes", d.addr));
                    break;
                }
                if !(w[0].1 == 0x0981 && w[0].2 == [0u8]) {
                    bad = Some(format!("device {:#06x}: sync unit not deactivated first", d.addr));
                }
                if !(w[1].1 == 0x0990 && w[1].2.len() == 8) {
                    bad = Some(format!("device {:#06x}: no 64-bit start time write", d.addr));
                    break;
                }
                let start = u64::from_le_bytes(w[1].2[..8].try_into().unwrap()) as u128;
                if !(start % case.period == 0 && start + case.period > sum && start <= sum) {
                    win_bad = Some(format!("device {:#06x}: start {start} not a multiple of {} in ({sum} - period, {sum}]", d.addr, case.period));
                }
                if !(w[2].1 == 0x09a0 && w[2].2.len() >= 4 && w[2].2[..4] == (case.period as u32).to_le_bytes() && w[2].2[4..].iter().all(|b| *b == 0)) {
                    bad = Some(format!("device {:#06x}: SYNC0 cycle time", d.addr));
                }
                match d.sync {
                    Some(Some(p1)) => {
                        if !(w[3].1 == 0x09a4 && w[3].2 == (p1 as u64).to_le_bytes()) {
                            bad = Some(format!("device {:#06x}: SYNC1 cycle time", d.addr));
                        }
                        if !(w[4].1 == 0x0981 && w[4].2 == [0x07u8]) {
                            bad = Some(format!("device {:#06x}: activation flags for Sync01", d.addr));
                        }
                    }
                    _ => {
                        if !(w[3].1 == 0x0981 && w[3].2 == [0x03u8]) {
                            bad = Some(format!("device {:#06x}: activation flags for Sync0", d.addr));
                        }
                    }
                }
            }
            if bad.is_none() && k != writes.len() {
                bad = Some("extra writes".into());
            }
            if let Some(b) = bad {
                rep.fail("c18/flags-or-cycle-time", &b, &line);
            }
            if let Some(b) = win_bad {
                let key = if sum >= U64 { "c18/start-time-add-overflow" } else { "c18/start-time-window" };
                rep.fail(key, &b, &line);
            }
            // per-cycle arithmetic, for every u64 time, shift within the quantifier's bound
            if case.shift <= SHIFT_BOUND {
                for (t, o) in case.times.iter().zip(cyc_obs.iter()) {
                    let off = *t as u128 % case.period;
                    let wait = (case.period - off) + case.shift;
                    match o {
                        Some((time, o_off, o_wait, a)) => {
                            if *time != *t || *o_off != off || *o_wait != wait || *a != case.reference {
                                rep.fail("c18/cycle-arithmetic", &format!("time {t}: got offset {o_off} wait {o_wait} ref {a:#06x}, expected {off} {wait} {:#06x}", case.reference), &line);
                            }
                        }
                        None => rep.fail("c18/cycle-arithmetic", &format!("time {t}: tx_rx_dc failed or panicked"), &line),
                    }
                }
                if !case.times.is_empty() {
                    rep.hit("cycles-in-range");
                }
            } else {
                rep.hit("shift-outside-quantifier");
            }
        }
    } else {
        rep.hit("outside-quantifier");
    }
    rep.hit(&format!("result={}", tok.split('(').next().unwrap()));
    rep.hit(&format!("wanted={}", wanted.len()));
    if tok == "ok" && !wanted.is_empty() && !case.times.is_empty() {
        rep.nontrivial.insert(line.clone());
    }
    rep.case(line, format!("{tok}|{ws}|{cs}"));
}

fn edgy_u32ish(rng: &mut Rng) -> u128 {
    match rng.below(16) {
        0 => 1,
        1 => 2,
        2 => u32::MAX as u128,
        3 => u32::MAX as u128 - 1,
        4 => u32::MAX as u128 + 1,
        5 => u32::MAX as u128 + 1 + rng.below(1000) as u128,
        6 => 1_000_000,
        7 => 62_500 * rng.range(1, 64) as u128,
        8 => rng.range(1, 1000) as u128,
        9 => 1u128 << rng.range(0, 31),
        _ => rng.range(1, u32::MAX as u64) as u128,
    }
}

fn gen_case(rng: &mut Rng) -> Case {
    let nd = rng.range(1, 8) as usize;
    let devs: Vec<Dev> = (0..nd)
        .map(|i| Dev {
            addr: 0x1000 + i as u16,
            dc: rng.below(4) as u8,
            sync: match rng.below(4) {
                0 => None,
                1 | 2 => Some(None),
                _ => Some(Some(match rng.below(8) {
                    0 => 0,
                    1 => u64::MAX as u128,
                    2 if rng.chance(1, 3) => U64 + rng.below(5) as u128,
                    3 => u32::MAX as u128 + rng.below(3) as u128,
                    _ => rng.range(1, 10_000_000) as u128,
                })),
            },
        })
        .collect();
    let reference = match rng.below(12) {
        0 => 0,
        1 => rng.range(1, 0xffff) as u16,
        _ => devs.iter().find(|d| d.dc != 0).map_or(0x1000, |d| d.addr),
    };
    let period = match rng.below(40) {
        0 => 0,
        1 => U64 + rng.below(10) as u128,
        _ => edgy_u32ish(rng),
    };
    let delay = match rng.below(20) {
        0 => 0,
        1 => U64 - 1,
        _ => edgy_u32ish(rng),
    };
    let shift = match rng.below(24) {
        0 | 1 => 0,
        2 => u64::MAX as u128 - rng.below(3) as u128,
        3 => U64 + rng.below(1000) as u128,
        4 => SHIFT_BOUND - rng.below(2) as u128,
        5 => (u32::MAX as u128) + rng.below(1000) as u128,
        6..=12 if period > 0 => rng.below(period.min(u64::MAX as u128) as u64) as u128,
        _ => edgy_u32ish(rng),
    };
    let d64 = delay.min(u64::MAX as u128) as u64;
    let sys = match rng.below(16) {
        0 => 0,
        1 => u64::MAX,
        2 => u64::MAX - d64,                  // sum = 2^64 - 1: the last value that fits
        3 => (u64::MAX - d64).wrapping_add(1), // sum = 2^64: the first that does not
        4 => u64::MAX - rng.below(1000),
        5 => 1u64 << 63,
        6 => (1u64 << 32) - 1 + rng.below(3),
        7 => rng.below(1000),
        8 if period > 0 && period <= U32_MAX => (rng.next() / period as u64) * period as u64, // exact multiple
        _ => rng.next(),
    };
    let nt = rng.range(0, 4) as usize;
    let times = (0..nt)
        .map(|_| match rng.below(10) {
            0 => 0,
            1 => u64::MAX,
            2 => u64::MAX - rng.below(5),
            3 if period > 0 && period <= U32_MAX => (rng.next() / period as u64) * period as u64,
            4 if period > 0 && period <= U32_MAX => ((rng.next() / period as u64) * period as u64).wrapping_sub(1),
            5 => 1u64 << 63,
            6 => rng.below(1 << 33),
            _ => rng.next(),
        })
        .collect();
    Case { reference, sys, delay, period, shift, devs, times }
}

fn parse_case(line: &str) -> Option<Case> {
    let t: Vec<&str> = line.split(' ').collect();
    if t.len() != 9 {
        return None;
    }
    let devs = if t[7] == "-" {
        vec![]
    } else {
        t[7].split(';')
            .map(|d| {
                let f: Vec<&str> = d.split(',').collect();
                Dev {
                    addr: f[0].parse().unwrap(),
                    dc: f[1].parse().unwrap(),
                    sync: match f[2] {
                        "d" => None,
                        "s0" => Some(None),
                        _ => Some(Some(f[3].parse().unwrap())),
                    },
                }
            })
            .collect()
    };
    let times = if t[8] == "-" { vec![] } else { t[8].split(',').map(|x| x.parse().unwrap()).collect() };
    Some(Case { reference: t[2].parse().ok()?, sys: t[3].parse().ok()?, delay: t[4].parse().ok()?, period: t[5].parse().ok()?, shift: t[6].parse().ok()?, devs, times })
}

fn dev(addr: u16, dc: u8, sync: Option<Option<u128>>) -> Dev {
    Dev { addr, dc, sync }
}

pub fn run(tier: &str, seed: u64, rep: &mut Report) {
    let mut rng = Rng::new(seed ^ 0xc18);
    let mut net: Option<Net> = None;
    let m = u64::MAX;
    let all = vec![dev(0x1000, 2, Some(None)), dev(0x1001, 0, Some(None)), dev(0x1002, 3, Some(Some(250_000))), dev(0x1003, 1, None), dev(0x1004, 1, Some(None))];
    let one = vec![dev(0x1000, 2, Some(None))];
    let corpus = vec![
        // typical: 1 ms cycle
        Case { reference: 0x1000, sys: 123_456_789_012, delay: 100_000_000, period: 1_000_000, shift: 500_000, devs: all.clone(), times: vec![0, 999_999, 1_000_000, 123_456_789_012, m] },
        // smallest and largest period, delay, shift
        Case { reference: 0x1000, sys: 0, delay: 0, period: 1, shift: 0, devs: one.clone(), times: vec![0, 1, m] },
        Case { reference: 0x1000, sys: m - 0xffff_ffff, delay: 0xffff_ffff, period: 0xffff_ffff, shift: 0xffff_ffff, devs: one.clone(), times: vec![0, 0xffff_fffe, 0xffff_ffff, m] },
        // reference time + delay = 2^64: the first sum that does not fit (former witnesses of c18/start-time-add-overflow: now rejected)
        Case { reference: 0x1000, sys: m, delay: 1, period: 1000, shift: 0, devs: one.clone(), times: vec![5] },
        Case { reference: 0x1000, sys: m, delay: 3, period: 1000, shift: 0, devs: all.clone(), times: vec![] },
        // range errors, no reference
        Case { reference: 0x1000, sys: 5, delay: 1, period: 0x1_0000_0000, shift: 0, devs: one.clone(), times: vec![] },
        Case { reference: 0x1000, sys: 5, delay: 0x1_0000_0000, period: 1000, shift: 0, devs: one.clone(), times: vec![] },
        Case { reference: 0, sys: 5, delay: 1, period: 1000, shift: 0, devs: all.clone(), times: vec![] },
        // nobody wants DC: nothing is written
        Case { reference: 0x1000, sys: 5, delay: 1, period: 1000, shift: 0, devs: vec![dev(0x1000, 0, Some(None)), dev(0x1001, 2, None)], times: vec![17] },
        Case { reference: 0x1000, sys: 5, delay: 1, period: 1000, shift: 0, devs: vec![], times: vec![17] },
        // outside the quantifier (correspondence only): period 0 with and without takers, unchecked shift, SYNC1 period beyond u64
        Case { reference: 0x1000, sys: 5, delay: 1, period: 0, shift: 0, devs: one.clone(), times: vec![] },
        Case { reference: 0x1000, sys: 5, delay: 1, period: 0, shift: 0, devs: vec![dev(0x1000, 0, None)], times: vec![17] },
        Case { reference: 0x1000, sys: 5, delay: 1, period: 1000, shift: m as u128, devs: one.clone(), times: vec![0, 999, 1000] },
        Case { reference: 0x1000, sys: 5, delay: 1, period: 1000, shift: U64 + 7, devs: one.clone(), times: vec![1] },
        Case { reference: 0x1000, sys: 5, delay: 1, period: 1000, shift: 0, devs: vec![dev(0x1000, 2, Some(None)), dev(0x1001, 2, Some(Some(U64))), dev(0x1002, 2, Some(None))], times: vec![1] },
    ];
    for c in &corpus {
        run_case(c, &mut net, rep);
    }
    let n = if tier == "thorough" { 300_000 } else { 100_000 };
    for _ in 0..n {
        let c = gen_case(&mut rng);
        run_case(&c, &mut net, rep);
    }
}

fn main() {
    let args = ecverif::parse_args();
    dcnet::install_panic_capture();
    let mut rep = Report::default();
    if let Some(cases) = ecverif::replay_cases(&args) {
        let mut net = None;
        for c in cases.iter().filter(|c| c.starts_with("c18 ")) {
            if let Some(c) = parse_case(c) {
                run_case(&c, &mut net, &mut rep);
            }
        }
    } else {
        run(&args.tier, args.seed, &mut rep);
    }
    rep.write(&args.out, "c18");
}
