/-
  C05 — the receive path survives any bytes and rejects strangers without side effects.
  Theorems about `receiveFrame` (the model of `PduRx::receive_frame`), for every byte list and
  every storage state (any number of slots, any slot contents).
-/
import EcModel.Lemmas.SlotsLemmas

namespace Ec.C05
open Ec

/-- The EtherCAT payload a frame declares (datagram bytes after the 2-byte EtherCAT header). -/
def ecatPayload (bytes : List Nat) : List Nat :=
  ((bytes.drop 14).drop 2).take (rd16 (bytes.drop 14) % (Gen.LEN_MASK + 1))

/-- Wire index of the frame's first datagram. -/
def firstIdx (bytes : List Nat) : Option Nat := (ecatPayload bytes)[1]?

/-- Slot `x` is awaiting a response with first index `i`. -/
def Awaits (x : Slot) (i : Nat) : Prop := x.first = i ∧ x.st = .sent

theorem rxParse_ok (exit : Bool) (bytes p : List Nat) (i : Nat) (h : rxParse exit bytes = .ok (p, i)) :
    p = ecatPayload bytes ∧ firstIdx bytes = some i := by
  unfold rxParse at h
  repeat' split at h
  all_goals (first | cases h | skip)
  next hi =>
    exact ⟨rfl, by simpa [firstIdx, ecatPayload] using hi⟩

theorem rxParse_no_panic (exit : Bool) (bytes : List Nat) (why : String) :
    rxParse exit bytes ≠ .error (.panic why) := by
  unfold rxParse
  repeat' split
  all_goals (first | (intro h; cases h; done) | (exfalso; omega) | skip)

/-- What the delivery step can do, for any storage state. -/
theorem rxDeliver_cases (s : Sys) (p : List Nat) (i : Nat) :
    ((rxDeliver s p i).1 = s ∧ (rxDeliver s p i).2 = .errDecode) ∨
    (∃ k, k < s.n ∧ Awaits (s.slot k) i ∧ (∀ j, j < k → ¬ Awaits (s.slot j) i) ∧
        (((rxDeliver s p i).2 = .processed ∧ p.length ≤ s.data - 16 ∧
            (rxDeliver s p i).1 = s.setSlot k { s.slot k with st := .rxDone, buf := setRange (s.slot k).buf 16 p }) ∨
         ((rxDeliver s p i).2 = .errInternal ∧ s.data - 16 < p.length ∧
            (rxDeliver s p i).1 = s.setSlot k { s.slot k with st := .rxBusy }))) := by
  unfold rxDeliver
  split
  · left; exact ⟨rfl, rfl⟩
  · next k hk =>
    have hf := findIdx_spec _ _ _ _ hk
    simp only [Nat.sub_zero, Bool.and_eq_true, beq_iff_eq] at hf
    obtain ⟨_, hlt, ⟨hfirst, hst⟩, hprev⟩ := hf
    have hst' : (s.slot k).st = .sent := by simpa [Sys.slot] using hst
    have hfirst' : (s.slot k).first = i := by simpa [Sys.slot] using hfirst
    have hprev' : ∀ j, j < k → ¬ Awaits (s.slot j) i := by
      intro j hj ⟨h1, h2⟩
      have := hprev j hj
      simp only [Sys.slot] at h1 h2
      rw [h1, h2] at this
      simp at this
    have hkn : ¬ k ≥ s.n := by simp [Sys.n]; exact hlt
    rw [if_neg hkn]
    have hne : ¬ (s.slot k).st ≠ .sent := by simp [hst']
    rw [if_neg hne]
    right
    refine ⟨k, by simpa [Sys.n] using hlt, ⟨hfirst', hst'⟩, hprev', ?_⟩
    split
    · next hbig => right; exact ⟨rfl, hbig, rfl⟩
    · next hfit => left; exact ⟨rfl, by omega, rfl⟩

/-- Complete characterisation of what `receive_frame` can do. Either nothing changes, or exactly one
    slot — the first one awaiting the frame's first index — is claimed; the payload is then copied
    into its PDU area (`processed`) or, if it does not fit, the slot is left in `RxBusy`
    (`errInternal`; the owner's deadline recovers it, C06). -/
theorem rx_cases (s : Sys) (bytes : List Nat) :
    let r := receiveFrame s bytes
    (r.1 = s ∧ r.2 ≠ .processed) ∨
    (∃ k i, firstIdx bytes = some i ∧ k < s.n ∧ Awaits (s.slot k) i ∧
        (∀ j, j < k → ¬ Awaits (s.slot j) i) ∧
        ((r.2 = .processed ∧ (ecatPayload bytes).length ≤ s.data - 16 ∧
            r.1 = s.setSlot k { s.slot k with st := .rxDone, buf := setRange (s.slot k).buf 16 (ecatPayload bytes) }) ∨
         (r.2 = .errInternal ∧ s.data - 16 < (ecatPayload bytes).length ∧
            r.1 = s.setSlot k { s.slot k with st := .rxBusy }))) := by
  intro r
  simp only [r, receiveFrame]
  split
  · next e he =>
    left; refine ⟨rfl, ?_⟩
    intro h
    simp only at h
    subst h
    unfold rxParse at he
    repeat' split at he
    all_goals cases he
  · next p i he =>
    obtain ⟨hp, hi⟩ := rxParse_ok _ _ _ _ he
    subst hp
    rcases rxDeliver_cases s (ecatPayload bytes) i with ⟨h1, h2⟩ | ⟨k, hk, ha, hprev, h⟩
    · left; exact ⟨h1, by rw [h2]; simp⟩
    · right; exact ⟨k, i, hi, hk, ha, hprev, h⟩

/-- **Never panics**: the unchecked slice operations of the Rust code are never reached with an
    out-of-range index, for any input and any storage state. -/
theorem rx_total (s : Sys) (bytes : List Nat) : ∀ why, (receiveFrame s bytes).2 ≠ .panic why := by
  intro why
  simp only [receiveFrame]
  split
  · next e he => intro h; simp only at h; subst h; exact rxParse_no_panic _ _ _ he
  · next p i he =>
    rcases rxDeliver_cases s p i with ⟨_, h2⟩ | ⟨k, _, _, _, h⟩
    · rw [h2]; simp
    · rcases h with ⟨h, _⟩ | ⟨h, _⟩ <;> rw [h] <;> simp

/-- Frames shorter than an Ethernet header are an error; frames that are not EtherCAT or that carry
    the MainDevice's own source address are ignored; in all these cases nothing changes. -/
theorem rx_ignores (s : Sys) (bytes : List Nat) (hx : s.exit = false) :
    (bytes.length < 14 → receiveFrame s bytes = (s, .errEthernet)) ∧
    (14 ≤ bytes.length → 256 * bytes.getD 12 0 + bytes.getD 13 0 ≠ Gen.ETHERCAT_ETHERTYPE →
        receiveFrame s bytes = (s, .ignored)) ∧
    (14 ≤ bytes.length → (bytes.drop 6).take 6 = Gen.MAINDEVICE_ADDR →
        receiveFrame s bytes = (s, .ignored)) := by
  refine ⟨?_, ?_, ?_⟩
  · intro h
    have : rxParse s.exit bytes = .error .errEthernet := by
      unfold rxParse; rw [hx]; simp only [Bool.false_eq_true, ↓reduceIte]; rw [if_pos h]
    simp only [receiveFrame, this]
  · intro h he
    have h1 : ¬ bytes.length < 14 := by omega
    have h2 : ¬ bytes.length < 12 := by omega
    have : rxParse s.exit bytes = .error .ignored := by
      unfold rxParse; rw [hx]; simp only [Bool.false_eq_true, ↓reduceIte]
      rw [if_neg h1, if_neg h2, if_pos (Or.inl he)]
    simp only [receiveFrame, this]
  · intro h he
    have h1 : ¬ bytes.length < 14 := by omega
    have h2 : ¬ bytes.length < 12 := by omega
    have : rxParse s.exit bytes = .error .ignored := by
      unfold rxParse; rw [hx]; simp only [Bool.false_eq_true, ↓reduceIte]
      rw [if_neg h1, if_neg h2, if_pos (Or.inr he)]
    simp only [receiveFrame, this]

/-- **Frame condition**: every slot other than the one the frame is accepted into is bit-identical
    before and after, whatever the bytes were. -/
theorem rx_frame_condition (s : Sys) (bytes : List Nat) :
    ∃ k, ∀ j, j ≠ k → (receiveFrame s bytes).1.slot j = s.slot j := by
  rcases rx_cases s bytes with ⟨h, _⟩ | ⟨k, i, _, _, _, _, h⟩
  · exact ⟨0, fun j _ => by rw [h]⟩
  · refine ⟨k, fun j hj => ?_⟩
    rcases h with ⟨_, _, h⟩ | ⟨_, _, h⟩ <;> rw [h] <;> exact slot_setSlot_ne _ _ _ _ hj

/-- A frame whose first datagram index matches no request currently awaiting a response is never
    accepted and leaves every slot's state and contents unchanged. -/
theorem rx_rejects_strangers (s : Sys) (bytes : List Nat)
    (h : ∀ i, firstIdx bytes = some i → ∀ k, k < s.n → ¬ Awaits (s.slot k) i) :
    (receiveFrame s bytes).1 = s ∧ (receiveFrame s bytes).2 ≠ .processed := by
  rcases rx_cases s bytes with h' | ⟨k, i, hi, hk, ha, _, _⟩
  · exact h'
  · exact absurd ha (h i hi k hk)

/-- A frame is accepted only into a slot that was in `Sent` with its marker equal to the frame's
    first index, and that slot ends in `RxDone` holding exactly the frame's payload in its PDU area;
    the buffer keeps its length and nothing outside `[16, 16 + payload)` changes. -/
theorem rx_accepts_only_awaiting (s : Sys) (bytes : List Nat)
    (hp : (receiveFrame s bytes).2 = .processed) :
    ∃ k i, firstIdx bytes = some i ∧ k < s.n ∧ Awaits (s.slot k) i ∧
      ((receiveFrame s bytes).1.slot k).st = .rxDone ∧
      ((receiveFrame s bytes).1.slot k).buf = setRange (s.slot k).buf 16 (ecatPayload bytes) ∧
      (ecatPayload bytes).length ≤ s.data - 16 ∧
      ((receiveFrame s bytes).1.slot k).first = (s.slot k).first ∧
      ((receiveFrame s bytes).1.slot k).used = (s.slot k).used := by
  rcases rx_cases s bytes with ⟨_, h⟩ | ⟨k, i, hi, hk, ha, _, h⟩
  · exact absurd hp h
  · rcases h with ⟨_, hfit, h⟩ | ⟨h, _, _⟩
    · refine ⟨k, i, hi, hk, ha, ?_⟩
      rw [h, slot_setSlot_eq _ _ _ hk]
      exact ⟨rfl, rfl, hfit, rfl, rfl⟩
    · rw [hp] at h; cases h

/-- The copy stays inside the slot: the buffer length is preserved and bytes before offset 16 and
    after the payload are untouched. -/
theorem rx_copy_bounded (buf p : List Nat) (data : Nat) (hb : buf.length = data) (h16 : 16 ≤ data)
    (hp : p.length ≤ data - 16) :
    (setRange buf 16 p).length = data ∧
    (setRange buf 16 p).take 16 = buf.take 16 ∧
    (setRange buf 16 p).drop (16 + p.length) = buf.drop (16 + p.length) ∧
    ((setRange buf 16 p).drop 16).take p.length = p := by
  have hl : (setRange buf 16 p).length = buf.length := setRange_length buf 16 p (by omega)
  refine ⟨by omega, ?_, ?_, ?_⟩
  · simp [setRange, List.take_append, List.take_take]; omega
  · simp only [setRange]
    have : (List.take 16 buf ++ p).length = 16 + p.length := by simp; omega
    rw [← this, List.drop_left]
  · simp only [setRange]
    have h16' : (List.take 16 buf).length = 16 := by simp; omega
    rw [List.append_assoc]
    have : List.drop 16 (List.take 16 buf ++ (p ++ List.drop (16 + p.length) buf))
        = p ++ List.drop (16 + p.length) buf := by
      conv => lhs; arg 1; rw [← h16']
      exact List.drop_left
    rw [this, List.take_left]

/-! Non-vacuity: a concrete storage with a request in `Sent` accepts its response and rejects a
    frame with another index. -/
def demoSys : Sys :=
  { data := 32, slots := [⟨.sent, 5, 14, zeros 32⟩, ⟨.none, 0, 0, zeros 32⟩], frameIdx := 1, pduIdx := 6,
    now := 0, exit := false }
def demoFrame (idx : Nat) : List Nat :=
  [255, 255, 255, 255, 255, 255, 18, 16, 16, 16, 16, 16, 0x88, 0xa4, 14, 0x10,
   4, idx, 0, 16, 0x30, 1, 2, 0, 0, 0, 0xaa, 0xbb, 1, 0]

example : (receiveFrame demoSys (demoFrame 5)).2 = .processed := by decide
example : (receiveFrame demoSys (demoFrame 6)) = (demoSys, .errDecode) := by decide

end Ec.C05
