/-
  C18 — DC sync set-up and per-cycle timing arithmetic are exact and total.
  Property theorems only; helper lemmas live in EcModel/Lemmas/DcSyncLemmas.lean.

  Model: EcModel/DcSync.lean (`configureDcSync` = `SubDeviceGroup::configure_dc_sync`,
  `cycleInfo` = the tail of `tx_rx_dc`). Every theorem holds for BOTH build modes (`m : Mode`)
  unless it says otherwise.

  FIXED (was c18/start-time-add-overflow): the first pulse time `system_time + first_pulse_delay` is
  now a `checked_add` performed before any register is written; a sum that does not fit in 64 bits
  is rejected with `Error::IntegerTypeConversion` like the neighbouring range checks
  (`start_time_overflow_rejected`, part of `range_errors`). `start_time_window` is therefore the
  full statement: every accepted configuration satisfies the window.
-/
import EcModel.Lemmas.DcSyncLemmas

namespace Ec.C18
open Ec Ec.DcSync

/-- The configurations the property quantifies over and the set-up accepts: a reference clock
    exists, `1 ≤ period ≤ u32::MAX`, `delay ≤ u32::MAX`, SYNC1 periods fit in 64 bits. -/
structure InRange (refAddr delay period : Nat) (devs : List Dev) : Prop where
  hasRef : refAddr ≠ 0
  periodPos : 1 ≤ period
  periodU32 : period ≤ U32_MAX
  delayU32 : delay ≤ U32_MAX
  sync1 : ∀ d ∈ devs, Sync1Fits d

/-- `start = (sys + delay) / period * period`, the value the window clause talks about. -/
def startOf (sys delay period : Nat) : Nat := (sys + delay) / period * period

/-- Exact result for every in-range configuration whose `sys + delay` fits in 64 bits: the writes
    are the `okWrites` image of each device that supports DC and asked for it, in group order, and
    nothing else; the group remembers `period`, `shift` (truncated to 64 bits) and the reference. -/
theorem configure_ok (m : Mode) (refAddr sys delay period shift : Nat) (devs : List Dev)
    (hr : InRange refAddr delay period devs) (hsum : sys + delay < U64) :
    configureDcSync m refAddr sys delay period shift devs
      = ((devs.filter (fun d => wants d)).flatMap (okWrites (startOf sys delay period) period),
         .ok ⟨period, shift % U64, refAddr⟩) := by
  have hp : 0 < period := hr.periodPos
  have h1 : ¬ period > U32_MAX := Nat.not_lt.2 hr.periodU32
  have h2 : ¬ delay > U32_MAX := Nat.not_lt.2 hr.delayU32
  have h3 : ¬ ¬ (sys + delay < U64) := fun h => h hsum
  unfold configureDcSync
  rw [if_neg hr.hasRef, if_neg h1, if_neg h2, if_neg h3,
    devLoop_ok m (sys + delay) period _ (startTime_ok m (sys + delay) period hsum hp) devs hr.sync1]
  rfl

/-- Clause 1: whatever the inputs, mode and outcome (including errors and panics half way), every
    register write goes to a SubDevice of the group that supports DC and has `DcSync` enabled. -/
theorem only_dc_devices_touched (m : Mode) (refAddr sys delay period shift : Nat) (devs : List Dev) :
    ∀ w ∈ (configureDcSync m refAddr sys delay period shift devs).1,
      ∃ d ∈ devs, d.dcAny = true ∧ d.sync ≠ .disabled ∧ w.addr = d.addr := by
  intro w hw
  have key : ∀ w ∈ (devLoop m (sys + delay) period devs).1, ∃ d ∈ devs, wants d = true ∧ w.addr = d.addr :=
    devLoop_addr m (sys + delay) period devs
  have hwm : w ∈ (devLoop m (sys + delay) period devs).1 := by
    unfold configureDcSync at hw
    by_cases h0 : refAddr = 0
    · simp [h0] at hw
    · by_cases h1 : period > U32_MAX
      · simp [h0, h1] at hw
      · by_cases h2 : delay > U32_MAX
        · simp [h0, h1, h2] at hw
        · by_cases h3 : ¬ (sys + delay < U64)
          · simp [h0, h1, h2, h3] at hw
          · rw [if_neg h0, if_neg h1, if_neg h2, if_neg h3] at hw
            rcases hl : devLoop m (sys + delay) period devs with ⟨ws, r⟩
            rw [hl] at hw
            cases r with
            | ok u => cases u; exact hw
            | err e => exact hw
            | panic s => exact hw
  rcases key w hwm with ⟨d, hd, hwants, ha⟩
  refine ⟨d, hd, ?_, ?_, ha⟩
  · unfold wants at hwants
    cases hdc : d.dcAny <;> simp_all
  · intro hdis
    unfold wants at hwants
    rw [hdis] at hwants
    simp at hwants

/-- ... and every such device IS configured (in-range, no overflow): its complete register image
    appears as one contiguous block of the write sequence. -/
theorem every_dc_device_configured (m : Mode) (refAddr sys delay period shift : Nat) (devs : List Dev)
    (hr : InRange refAddr delay period devs) (hsum : sys + delay < U64)
    (d : Dev) (hd : d ∈ devs) (hdc : d.dcAny = true) (hs : d.sync ≠ .disabled) :
    okWrites (startOf sys delay period) period d
      <:+: (configureDcSync m refAddr sys delay period shift devs).1 := by
  rw [configure_ok m refAddr sys delay period shift devs hr hsum]
  have hw : wants d = true := by
    unfold wants
    cases hsync : d.sync with
    | disabled => exact absurd hsync hs
    | sync0 => simp [hdc]
    | sync01 s => simp [hdc]
  have hmem : d ∈ devs.filter (fun d => wants d) := List.mem_filter.2 ⟨hd, hw⟩
  rcases List.append_of_mem hmem with ⟨pre, post, hsplit⟩
  show _ <:+: List.flatMap _ (devs.filter (fun d => wants d))
  rw [hsplit, List.flatMap_append, List.flatMap_cons]
  exact ⟨List.flatMap (okWrites (startOf sys delay period) period) pre,
    List.flatMap (okWrites (startOf sys delay period) period) post, by simp [List.append_assoc]⟩

/-- Clause 2: for every in-range configuration, either the first pulse time `sys + delay` fits in
    64 bits and the start time written to register 0x0990 of every configured device is a whole
    multiple of the SYNC0 period in the half-open window `(sys + delay − period, sys + delay]` (and is
    what the 8 written bytes decode to), or it does not fit and the call is rejected with an error
    before anything is written. No panic, no out-of-window value, in any build mode. -/
theorem start_time_window (m : Mode) (refAddr sys delay period shift : Nat) (devs : List Dev)
    (hr : InRange refAddr delay period devs) :
    (sys + delay < U64 →
      let start := startOf sys delay period
      start % period = 0 ∧ sys + delay < start + period ∧ start ≤ sys + delay ∧
      rd64 (le64 start) = start ∧
      ∀ d ∈ devs, d.dcAny = true → d.sync ≠ .disabled →
        (⟨d.addr, 0x0990, le64 start⟩ : Write) ∈ (configureDcSync m refAddr sys delay period shift devs).1) ∧
    (U64 ≤ sys + delay →
      configureDcSync m refAddr sys delay period shift devs = ([], .err .intConv)) := by
  refine ⟨?_, ?_⟩
  · intro hsum
    have hp : 0 < period := hr.periodPos
    have hle : (sys + delay) / period * period ≤ sys + delay := Nat.div_mul_le_self _ _
    refine ⟨?_, ?_, hle, ?_, ?_⟩
    · exact Nat.mul_mod_left _ _
    · show sys + delay < (sys + delay) / period * period + period
      exact Nat.lt_div_mul_add hp
    · apply rd64_le64
      show (sys + delay) / period * period < U64
      omega
    · intro d hd hdc hs
      have hin := every_dc_device_configured m refAddr sys delay period shift devs hr hsum d hd hdc hs
      apply hin.subset
      simp [okWrites]
  · intro hsum
    have h1 : ¬ period > U32_MAX := Nat.not_lt.2 hr.periodU32
    have h2 : ¬ delay > U32_MAX := Nat.not_lt.2 hr.delayU32
    have h3 : ¬ (sys + delay < U64) := by omega
    unfold configureDcSync
    rw [if_neg hr.hasRef, if_neg h1, if_neg h2, if_pos h3]

/-- The former witnesses of c18/start-time-add-overflow (reference time `u64::MAX`, start delay
    1 / 3 ns, 1 µs period) are now rejected, in both build modes, with nothing written. -/
theorem start_time_overflow_rejected (m : Mode) :
    configureDcSync m 0x1000 18446744073709551615 3 1000 0 [⟨0x1000, true, .sync0⟩] = ([], .err .intConv) ∧
    configureDcSync m 0x1000 18446744073709551615 1 1000 0 [⟨0x1000, true, .sync0⟩] = ([], .err .intConv) ∧
    (configureDcSync m 0x1000 18446744073709551614 1 1000 0 [⟨0x1000, true, .sync0⟩]).2
      = .ok ⟨1000, 0, 0x1000⟩ := by
  cases m <;> refine ⟨by decide, by decide, by decide⟩

/-- In-range configurations never panic (any build mode). -/
theorem configure_total (m : Mode) (refAddr sys delay period shift : Nat) (devs : List Dev)
    (hr : InRange refAddr delay period devs) (w : String) :
    (configureDcSync m refAddr sys delay period shift devs).2 ≠ .panic w := by
  by_cases hsum : sys + delay < U64
  · rw [configure_ok m refAddr sys delay period shift devs hr hsum]; simp
  · rw [(start_time_window m refAddr sys delay period shift devs hr).2 (by omega)]; simp

/-- Clause 3: periods or delays beyond 32-bit nanoseconds, and a network without a reference
    clock, are rejected with an error before anything is written. -/
theorem range_errors (m : Mode) (refAddr sys delay period shift : Nat) (devs : List Dev) :
    (refAddr = 0 → configureDcSync m refAddr sys delay period shift devs = ([], .err .noReference)) ∧
    (refAddr ≠ 0 → U32_MAX < period →
      configureDcSync m refAddr sys delay period shift devs = ([], .err .intConv)) ∧
    (refAddr ≠ 0 → U32_MAX < delay →
      configureDcSync m refAddr sys delay period shift devs = ([], .err .intConv)) := by
  refine ⟨?_, ?_, ?_⟩
  · intro h; simp [configureDcSync, h]
  · intro h hp
    have : period > U32_MAX := hp
    simp [configureDcSync, h, this]
  · intro h hd
    have hd' : delay > U32_MAX := hd
    unfold configureDcSync
    rw [if_neg h]
    by_cases hp : period > U32_MAX
    · rw [if_pos hp]
    · rw [if_neg hp, if_pos hd']

/-- Clause 4a: activation flags match the requested mode, and the sync unit is deactivated first:
    the first write of a device's image is `0x0981 ← 0x00`, the last is `0x0981 ← 0x03` for `Sync0`
    and `0x0981 ← 0x07` for `Sync01`. (Combine with `every_dc_device_configured`.) -/
theorem flags_match_mode (start period : Nat) (d : Dev) :
    (okWrites start period d).head? = some ⟨d.addr, 0x0981, [0x00]⟩ ∧
    (okWrites start period d).getLast? =
      some ⟨d.addr, 0x0981, [match d.sync with | .sync01 _ => 0x07 | _ => 0x03]⟩ := by
  unfold okWrites
  cases d.sync <;> simp

/-- Clause 4b: SYNC0 cycle time = the period (as 8 little-endian bytes at 0x09A0 that decode to
    it); a SYNC1 cycle time (0x09A4) is written exactly for `Sync01` devices, with their period. -/
theorem cycle_times_written (start period : Nat) (d : Dev) (hp : period ≤ U32_MAX) :
    (⟨d.addr, 0x09A0, le64 period⟩ : Write) ∈ okWrites start period d ∧
    rd64 (le64 period) = period ∧
    (∀ data, (⟨d.addr, 0x09A4, data⟩ : Write) ∈ okWrites start period d ↔
      ∃ s1, d.sync = .sync01 s1 ∧ data = le64 s1) := by
  refine ⟨by simp [okWrites], ?_, ?_⟩
  · apply rd64_le64
    have : U32_MAX < U64 := by decide
    omega
  · intro data
    unfold okWrites
    cases hs : d.sync with
    | disabled => simp
    | sync0 => simp
    | sync01 s1 => simp

/-- The regenerated register addresses and flag values are the ones the statements above spell
    out (a change in /repo's `RegisterAddress` or flag constants breaks this). -/
theorem generated_constants :
    Gen.Dc.REG_DcSyncActive = 0x0981 ∧ Gen.Dc.REG_DcSyncStartTime = 0x0990 ∧
    Gen.Dc.REG_DcSync0CycleTime = 0x09A0 ∧ Gen.Dc.REG_DcSync1CycleTime = 0x09A4 ∧
    Gen.Dc.REG_DcSystemTime = 0x0910 ∧ flagsSync0 = 0x03 ∧ flagsSync01 = 0x07 := by
  decide

/-- Clause 5: on every DC cycle the reported offset is `time mod period`, the suggested wait is
    `(period − offset) + shift`; no overflow or panic for ANY time value (no bound on `time` is
    needed), any period ≥ 1, provided `period + shift` fits in 64 bits — in particular for every
    `period ≤ u32::MAX` and `shift ≤ 2^33` (the property's range "and just above"). -/
theorem cycle_arithmetic (m : Mode) (period shift refAddr time : Nat)
    (hp : 1 ≤ period) (hs : period + shift ≤ U64 - 1) :
    cycleInfo m ⟨period, shift, refAddr⟩ time
      = .ok (time % period, (period - time % period) + shift) := by
  have hp0 : period ≠ 0 := by omega
  have hlt : time % period < period := Nat.mod_lt _ (by omega)
  have hle : time % period ≤ period := Nat.le_of_lt hlt
  have hU : U64 = 18446744073709551616 := rfl
  have hsum : period - time % period + shift < U64 := by omega
  simp [cycleInfo, remU64, subU64, addU64, hp0, hle, hsum]

theorem cycle_arithmetic_quantifier (m : Mode) (period shift refAddr time : Nat)
    (hp : 1 ≤ period) (hpu : period ≤ U32_MAX) (hs : shift ≤ 8589934592) :
    cycleInfo m ⟨period, shift, refAddr⟩ time
      = .ok (time % period, (period - time % period) + shift) := by
  apply cycle_arithmetic m period shift refAddr time hp
  have h1 : U32_MAX = 4294967295 := rfl
  have h2 : U64 = 18446744073709551616 := rfl
  omega

/-- The wait always ends strictly after `shift` and at most one period later. -/
theorem cycle_wait_bounds (time period shift : Nat) (hp : 1 ≤ period) :
    shift < (period - time % period) + shift ∧ (period - time % period) + shift ≤ period + shift := by
  have hlt : time % period < period := Nat.mod_lt _ (by omega)
  omega

/-- End to end: the group configured by an in-range call computes its cycles with exactly the
    period and shift that were asked for and addresses the FRMW to the reference. -/
theorem configured_group_cycles (m : Mode) (refAddr sys delay period shift time : Nat) (devs : List Dev)
    (hr : InRange refAddr delay period devs) (hsum : sys + delay < U64) (hsh : shift ≤ 8589934592) :
    ∃ h, (configureDcSync m refAddr sys delay period shift devs).2 = .ok h ∧ h.reference = refAddr ∧
      cycleInfo m h time = .ok (time % period, (period - time % period) + shift) := by
  rw [configure_ok m refAddr sys delay period shift devs hr hsum]
  have h2 : U64 = 18446744073709551616 := rfl
  have hmod : shift % U64 = shift := Nat.mod_eq_of_lt (by omega)
  refine ⟨⟨period, shift % U64, refAddr⟩, rfl, rfl, ?_⟩
  rw [hmod]
  exact cycle_arithmetic_quantifier m period shift refAddr time hr.periodPos hr.periodU32 hsh

/-- Outside the property's quantifier, recorded because the doc comment of `configure_dc_sync`
    promises otherwise: `sync0_shift` is NOT range checked (only truncated to 64 bits), so a shift
    near `u64::MAX` is accepted and the first cycle panics in a checked build. -/
theorem shift_not_range_checked :
    (configureDcSync .checked 0x1000 5 1 1000 18446744073709551615 [⟨0x1000, true, .sync0⟩]).2
      = .ok ⟨1000, 18446744073709551615, 0x1000⟩ ∧
    cycleInfo .checked ⟨1000, 18446744073709551615, 0x1000⟩ 0 = .panic "attempt to add with overflow" := by
  refine ⟨by decide, by decide⟩

/-- Outside the quantifier as well: a zero period is accepted by the range check and divides by
    zero (every build mode) as soon as one device wants DC; with no taker the set-up succeeds and
    the first cycle takes a remainder by zero. -/
theorem zero_period_panics (m : Mode) :
    (configureDcSync m 0x1000 5 1 0 0 [⟨0x1000, true, .sync0⟩]).2 = .panic "attempt to divide by zero" ∧
    (configureDcSync m 0x1000 5 1 0 0 []).2 = .ok ⟨0, 0, 0x1000⟩ ∧
    cycleInfo m ⟨0, 0, 0x1000⟩ 17 = .panic "attempt to calculate the remainder with a divisor of zero" := by
  cases m <;> refine ⟨by decide, by decide, by decide⟩

/-! Non-vacuity: concrete in-range configurations satisfy the hypotheses and produce what the
    theorems say (these are evaluated, not assumed). -/

example : InRange 0x1000 100000000 1000000
    [⟨0x1000, true, .sync0⟩, ⟨0x1001, false, .sync0⟩, ⟨0x1002, true, .sync01 250000⟩, ⟨0x1003, true, .disabled⟩] :=
  ⟨by decide, by decide, by decide, by decide, by
    intro d hd s1 hs
    simp at hd
    rcases hd with rfl | rfl | rfl | rfl <;> simp_all <;> (subst hs; decide)⟩

example :
    (configureDcSync .checked 0x1000 123456789012 100000000 1000000 500000
      [⟨0x1000, true, .sync0⟩, ⟨0x1001, false, .sync0⟩, ⟨0x1002, true, .sync01 250000⟩, ⟨0x1003, true, .disabled⟩]).1.map
        (fun w => (w.addr, w.reg, rd64 w.data))
      = [(0x1000, 0x0981, 0), (0x1000, 0x0990, 123556000000), (0x1000, 0x09A0, 1000000), (0x1000, 0x0981, 3),
         (0x1002, 0x0981, 0), (0x1002, 0x0990, 123556000000), (0x1002, 0x09A0, 1000000), (0x1002, 0x09A4, 250000),
         (0x1002, 0x0981, 7)] := by decide

example : cycleInfo .checked ⟨1000000, 500000, 0x1000⟩ 18446744073709551615 = .ok (551615, 948385) := by decide
example : cycleInfo .wrapping ⟨4294967295, 8589934592, 0x1000⟩ 4294967294 = .ok (4294967294, 8589934593) := by decide

end Ec.C18
