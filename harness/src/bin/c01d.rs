//! C01 with abandonment of OTHER requests: futures are dropped at arbitrary points (no deadlines),
//! while the requests under observation must still get exactly their own responses.
fn main() {
    ecverif::microrun::main_for(
        ecverif::microrun::Profile { key: "c01d", drops: true, timeouts: false, tx_fail: false, rx_noise: true, only: &[] },
        300,
        2000,
    );
}
