//! Schedule-quantified runs of the real PDU loop under the baton scheduler (C01, C02, C06):
//! application threads, the TX thread and the RX thread execute op programs (same tokens as the
//! sequential protocol) one shared access at a time; the schedule and the resolved programs form the
//! case line that the Lean micro-step model (`drv_micro`) replays.
use crate::rng::Rng;
use crate::seq::{H, World};
use crate::seqgen::{dgrams, gen_cmd_str};
use crate::util::{Report, hex, unhex};
use std::collections::{BTreeMap, VecDeque};
use std::sync::atomic::{AtomicUsize, Ordering};
use std::sync::{Arc, Mutex};

#[derive(Clone, Debug)]
pub struct Profile {
    pub key: &'static str,
    pub drops: bool,     // futures dropped before completion
    pub timeouts: bool,  // clock advances past deadlines, retries
    pub tx_fail: bool,   // partial / failed sends
    pub rx_noise: bool,  // duplicates and garbage
    /// monitors reported under this profile (names without the key prefix); empty = all of them
    pub only: &'static [&'static str],
}

pub fn fnv32(s: &str) -> u32 {
    let mut h: u32 = 2166136261;
    for b in s.as_bytes() {
        h = (h ^ (*b as u32)).wrapping_mul(16777619);
    }
    h
}

#[derive(Default)]
struct Shared {
    /// transmitted frames not yet answered
    sent: VecDeque<Vec<u8>>,
    /// frames handed to the driver whose send_blocking has not returned yet (the wire may answer early)
    early: VecDeque<Vec<u8>>,
    /// last delivered response (for duplicates)
    last_resp: Option<Vec<u8>>,
    /// response bytes accepted ("processed"), keyed by first datagram index
    accepted: BTreeMap<u8, Vec<u8>>,
    /// all transmissions: first idx -> list of byte strings
    transmissions: BTreeMap<u8, Vec<Vec<u8>>>,
    nonce: u64,
    /// resolved `rx` ops that were the first delivery of a genuine response
    genuine: Vec<bool>,
    /// op each thread is about to start (set before it parks at site 100): lets the scheduler give
    /// idle spinning a low weight
    next_op: Vec<String>,
}

#[derive(Clone, Debug)]
struct OpLog {
    op: String,
    out: String,
    start: usize,
    end: usize,
}

fn det_response(frame: &[u8], nonce: u64) -> Vec<u8> {
    let mut r = frame.to_vec();
    r[6] = 0x12;
    let mut rng = Rng::new(nonce ^ ((frame.get(17).copied().unwrap_or(0) as u64) << 32));
    for (p, len) in dgrams(frame) {
        for b in &mut r[p + 10..p + 10 + len] {
            *b = rng.byte();
        }
        let wkc = rng.edgy(0xffff) as u16;
        r[p + 10 + len..p + 12 + len].copy_from_slice(&wkc.to_le_bytes());
    }
    r
}

struct Plan {
    n: usize,
    data: usize,
    fi: u8,
    pi: u8,
    /// op templates per thread; roles: app threads first, then TX, then RX
    progs: Vec<Vec<String>>,
    tx_tid: usize,
    rx_tid: usize,
}

fn gen_request(rng: &mut Rng, r: u32, room: usize, prof: &Profile, out: &mut Vec<String>) {
    out.push(format!("al,{r}"));
    if rng.chance(1, 12) {
        out.push(format!("dc,{r}"));
        return;
    }
    let pushes = rng.range(1, 3);
    for _ in 0..pushes {
        let c = gen_cmd_str(rng);
        if rng.chance(1, 5) {
            let n = rng.range(1, room as u64) as usize;
            out.push(format!("re,{r},{c},{}", hex(&rng.bytes(n))));
        } else {
            let n = rng.range(0, (room as u64 / 3).max(1)) as usize;
            let lo = if rng.chance(1, 4) { format!("{}", rng.range(0, n as u64 + 4)) } else { "-".into() };
            out.push(format!("pu,{r},{c},{},{lo}", hex(&rng.bytes(n))));
        }
    }
    let retries = if prof.timeouts { rng.range(0, 2) } else { 0 };
    out.push(format!("mk,{r},{retries},1000"));
    // `po*,r,k`: poll until the future completes, at most k times (resolved to `po` ops at run time)
    let polls = if prof.drops || prof.timeouts { rng.range(8, 60) } else { 3000 };
    if prof.drops && rng.chance(1, 3) {
        let before = rng.below(4);
        out.push(format!("po*,{r},{before}"));
        out.push(format!("df,{r}"));
    }
    out.push(format!("po*,{r},{polls}"));
    match rng.below(4) {
        0 => out.push(format!("it,{r},5")),
        1 => out.push(format!("dr,{r}")),
        _ => {
            out.push(format!("fp,{r},@"));
            out.push(format!("vr,{r}"));
            if rng.chance(1, 3) {
                // keep the view while this same task issues another request (which may only get the
                // view's slot once the view is dropped), then look at the view again
                let r2 = r + 10;
                out.push(format!("al,{r2}"));
                let n = rng.range(0, (room as u64 / 2).max(1)) as usize;
                out.push(format!("pu,{r2},{},{},-", gen_cmd_str(rng), hex(&rng.bytes(n))));
                out.push(format!("mk,{r2},0,1000"));
                out.push(format!("po*,{r2},{}", if prof.drops || prof.timeouts { 20 } else { 3000 }));
                out.push(format!("vr,{r}"));
                out.push(format!("dr,{r2}"));
                out.push(format!("df,{r2}"));
            }
            if rng.chance(1, 2) {
                out.push(format!("vt,{r},{}", rng.edgy(10)));
                out.push(format!("vr,{r}"));
            }
            if rng.chance(1, 2) {
                out.push(format!("vr,{r}"));
            }
            out.push(format!("dv,{r}"));
        }
    }
    // whatever is left in the register is cleaned up (each is a no-op `bad-op` if not applicable)
    out.push(format!("df,{r}"));
    out.push(format!("dr,{r}"));
}

fn gen_plan(rng: &mut Rng, prof: &Profile) -> Plan {
    let n = *rng.pick(&[1usize, 2, 2, 4]);
    let data = rng.range(28, 64) as usize;
    let apps = rng.range(1, 3) as usize;
    let mut progs = Vec::new();
    let mut total_reqs = 0;
    for _ in 0..apps {
        let mut p = Vec::new();
        let reqs = rng.range(1, 2);
        for q in 0..reqs {
            gen_request(rng, q as u32, data - 16, prof, &mut p);
            total_reqs += 1;
        }
        progs.push(p);
    }
    let rounds: u64 = 100_000; // both loops end when every application thread has finished
    let _ = total_reqs;
    // `tx*,k,failmask`: up to k iterations of: claim the next sendable frame and send it (or idle)
    let failmask = if prof.tx_fail { rng.next() & rng.next() & 0xffff } else { 0 };
    let tx = vec![format!("tx*,{rounds},{failmask}")];
    // `rx*,k`: up to k iterations of: deliver a response for the oldest unanswered transmission (or idle)
    let rx = vec![format!("rx*,{rounds}")];
    let tx_tid = progs.len();
    progs.push(tx);
    let rx_tid = progs.len();
    progs.push(rx);
    Plan { n, data, fi: rng.byte(), pi: rng.byte(), progs, tx_tid, rx_tid }
}

pub struct RunResult {
    pub line: String,
    pub out: String,
}

/// Execute one plan under a schedule chooser; returns the case line and the implementation's answer,
/// and feeds the monitors.
fn execute(plan: &Plan, prof: &Profile, sched_rng: &mut Rng, forced: Option<&[String]>, rep: &mut Report) -> RunResult {
    crate::clock::clear();
    let shared = Arc::new(Mutex::new(Shared::default()));
    let main = World::new(plan.n, plan.data, plan.fi, plan.pi);
    let mut worlds: Vec<World> = (0..plan.progs.len()).map(|_| main.sibling()).collect();
    let mut main = main;
    worlds[plan.tx_tid].tx = main.tx.take();
    {
        let sh = shared.clone();
        worlds[plan.tx_tid].on_send = Some(Box::new(move |b: &[u8]| {
            sh.lock().unwrap().early.push_back(b.to_vec());
        }));
    }
    worlds[plan.rx_tid].rx = main.rx.take();
    let step_ctr = Arc::new(AtomicUsize::new(0));
    let logs: Vec<Arc<Mutex<Vec<OpLog>>>> = (0..plan.progs.len()).map(|_| Arc::new(Mutex::new(Vec::new()))).collect();
    let worlds_back: Arc<Mutex<Vec<Option<World>>>> = Arc::new(Mutex::new((0..plan.progs.len()).map(|_| None).collect()));
    let rx_noise = prof.rx_noise;
    let all_done = Arc::new(AtomicUsize::new(0));
    let mut workers: Vec<Box<dyn FnOnce() + Send>> = Vec::new();
    let tx_flag = worlds[plan.tx_tid].tx_woken.clone();
    let tx_log_for_obs = logs[plan.tx_tid].clone();
    crate::seq::WAKE_LOG.lock().unwrap().clear();
    crate::seq::STEP_NOW.store(0, Ordering::SeqCst);
    for (tid, (prog, mut w)) in plan.progs.iter().cloned().zip(worlds.drain(..)).enumerate() {
        w.wid = tid;
        let shared = shared.clone();
        let ctr = step_ctr.clone();
        let log = logs[tid].clone();
        let back = worlds_back.clone();
        let is_tx = tid == plan.tx_tid;
        let is_rx = tid == plan.rx_tid;
        let all_done = all_done.clone();
        let apps_total = plan.progs.len() - 2;
        let mut noise_rng = Rng::new(0x5eed ^ tid as u64 ^ ((plan.fi as u64) << 8));
        workers.push(Box::new(move || {
            let mut pushed: BTreeMap<u32, Vec<(u8, u8)>> = BTreeMap::new();
            // expand a template into the op to execute next; None = template exhausted
            let mut queue: VecDeque<String> = prog.into_iter().collect();
            let mut tx_pending_send: Option<u64> = None;
            let mut iter_no: u64 = 0;
            let mut genuine_now = false;
            while let Some(tmpl) = queue.pop_front() {
                let f: Vec<String> = tmpl.split(',').map(|x| x.to_string()).collect();
                // templates that unfold into several ops push their continuation back on the queue
                let op: String = match f[0].as_str() {
                    "po*" => {
                        let left: u64 = f[2].parse().unwrap();
                        let r: u32 = f[1].parse().unwrap();
                        if left == 0 || !matches!(w.regs.get(&r), Some(H::Fut(_))) {
                            continue;
                        }
                        queue.push_front(format!("po*,{r},{}", left - 1));
                        format!("po,{r}")
                    }
                    "tx*" => {
                        let left: u64 = f[1].parse().unwrap();
                        let mask: u64 = f[2].parse().unwrap();
                        if left == 0 || all_done.load(Ordering::SeqCst) >= apps_total {
                            continue;
                        }
                        if let Some(o) = tx_pending_send.take() {
                            queue.push_front(format!("tx*,{left},{mask}"));
                            format!("ts,9,{o}")
                        } else {
                            queue.push_front(format!("tx*,{},{mask}", left - 1));
                            iter_no += 1;
                            tx_pending_send = Some(if (mask >> (iter_no % 16)) & 1 == 1 { 1 + (iter_no % 2) } else { 0 });
                            "tn,9".to_string()
                        }
                    }
                    "rx*" => {
                        genuine_now = false;
                        let left: u64 = f[1].parse().unwrap();
                        if left == 0 || all_done.load(Ordering::SeqCst) >= apps_total {
                            continue;
                        }
                        queue.push_front(format!("rx*,{}", left - 1));
                        let mut sh = shared.lock().unwrap();
                        let pick = if rx_noise { noise_rng.below(8) } else { 0 };
                        if pick == 6 && sh.last_resp.is_some() {
                            format!("rx,{}", hex(sh.last_resp.as_ref().unwrap()))
                        } else if pick == 7 {
                            let n = noise_rng.edgy(30) as usize;
                            format!("rx,{}", hex(&noise_rng.bytes(n)))
                        } else if pick == 5 && !sh.early.is_empty() {
                            // the wire answers before send_blocking has returned (loopback, fast NIC):
                            // outside C01's "after the transmit side finished sending it"
                            let fr = sh.early[0].clone();
                            sh.nonce += 1;
                            format!("rx,{}", hex(&det_response(&fr, sh.nonce)))
                        } else if let Some(fr) = sh.sent.pop_front() {
                            sh.nonce += 1;
                            let resp = det_response(&fr, sh.nonce);
                            sh.last_resp = Some(resp.clone());
                            genuine_now = true;
                            format!("rx,{}", hex(&resp))
                        } else {
                            "no".to_string()
                        }
                    }
                    "fp" if f.get(2).map(|x| x.as_str()) == Some("@") => {
                        let r: u32 = f[1].parse().unwrap();
                        let (code, idx) = pushed.get(&r).and_then(|v| v.first().copied()).unwrap_or((0, 0));
                        format!("fp,{r},{code},{idx}")
                    }
                    _ => tmpl.clone(),
                };
                {
                    let mut sh = shared.lock().unwrap();
                    if sh.next_op.len() <= tid {
                        sh.next_op.resize(tid + 1, String::new());
                    }
                    sh.next_op[tid] = op.clone();
                    if is_rx {
                        let g = genuine_now && op.starts_with("rx,");
                        sh.genuine.push(g);
                        genuine_now = false;
                    }
                }
                ethercrab::verif::yield_point(100);
                let start = ctr.load(Ordering::SeqCst);
                let out = w.step(&op);
                if op.starts_with("tn,") && !out.starts_with("some") {
                    tx_pending_send = None;
                }
                // bookkeeping (harness-level, no shared ethercrab state involved)
                if op.starts_with("al,") {
                    let r: u32 = op.split(',').nth(1).unwrap().parse().unwrap();
                    pushed.remove(&r);
                }
                if op.starts_with("pu,") || op.starts_with("re,") {
                    let r: u32 = op.split(',').nth(1).unwrap().parse().unwrap();
                    let f: Vec<&str> = out.split('.').collect();
                    if f[0] == "ok" {
                        pushed.entry(r).or_default().push((f[3].parse().unwrap(), f[2].parse().unwrap()));
                    } else if f[0] == "some" {
                        pushed.entry(r).or_default().push((f[4].parse().unwrap(), f[3].parse().unwrap()));
                    }
                }
                if is_tx && op.starts_with("ts,") {
                    if let Some((tag, h)) = out.split_once('.') {
                        let bytes = unhex(h);
                        if bytes.len() >= 18 {
                            let mut sh = shared.lock().unwrap();
                            sh.transmissions.entry(bytes[17]).or_default().push(bytes.clone());
                            if let Some(p) = sh.early.iter().position(|e| *e == bytes) {
                                sh.early.remove(p);
                            }
                            if tag == "ok" {
                                sh.sent.push_back(bytes);
                            }
                        }
                    }
                }
                if op.starts_with("rx,") && out == "processed" {
                    let bytes = unhex(&op[3..]);
                    shared.lock().unwrap().accepted.insert(bytes[17], bytes);
                }
                let end = ctr.load(Ordering::SeqCst);
                log.lock().unwrap().push(OpLog { op, out, start, end });
            }
            if !is_tx && !is_rx {
                all_done.fetch_add(1, Ordering::SeqCst);
            }
            back.lock().unwrap()[tid] = Some(w);
        }));
    }
    // schedule
    let mut digests: Vec<String> = Vec::new();
    let mut sched_tokens: Vec<String> = Vec::new();
    let mut last: Option<usize> = None;
    let mut burst_left: u64 = 0;
    let mut forced_pos = 0usize;
    let mut two_parties: Option<String> = None;
    let mut order_violation: Option<String> = None;
    let mut missed_wake: Option<String> = None;
    let mut rejected_altered: Option<String> = None;
    let mut causes: Vec<String> = Vec::new();
    let timeouts = prof.timeouts;
    let taken = {
        let main_ref = &main;
        let shared_for_sched = shared.clone();
        let ctr = step_ctr.clone();
        let digests_ref = &mut digests;
        let tokens_ref = &mut sched_tokens;
        let two_ref = &mut two_parties;
        let order_ref = &mut order_violation;
        let missed_ref = &mut missed_wake;
        let altered_ref = &mut rejected_altered;
        let mut claim_bytes: Vec<Option<String>> = vec![None; plan.n];
        let mut prev_bytes: Vec<String> = main.snapshot().split('/').skip(1).map(|p| p.rsplit(':').next().unwrap_or("").to_string()).collect();
        let mut parked: Vec<Option<u32>> = vec![None; plan.progs.len()];
        let mut handback: Vec<bool> = vec![false; plan.n];
        let mut published: Vec<(usize, usize)> = Vec::new();
        let tx_tid_obs = plan.tx_tid;
        let causes_ref = &mut causes;
        let mut inside: Vec<(usize, usize, &'static str)> = Vec::new();
        let mut prev_states: Vec<u8> = (0..main.n).map(|k| main.slot(k).0).collect();
        let mut advance_rng = Rng::new(sched_rng.next());
        let mut pick_rng = Rng::new(sched_rng.next());
        let tokens_cell = std::cell::RefCell::new(tokens_ref);
        crate::baton::run(
            workers,
            |waiting| {
                if let Some(f) = forced {
                    // replay: follow the recorded schedule (site-0 parks are released first)
                    if let Some(i) = waiting.iter().position(|(_, s)| *s == 0) {
                        return i;
                    }
                    while forced_pos < f.len() && f[forced_pos].starts_with('a') {
                        let us: u64 = f[forced_pos][1..].parse().unwrap();
                        crate::clock::advance(us);
                        tokens_cell.borrow_mut().push(f[forced_pos].clone());
                        forced_pos += 1;
                    }
                    if forced_pos < f.len() {
                        let want: usize = f[forced_pos].parse().unwrap();
                        forced_pos += 1;
                        if let Some(i) = waiting.iter().position(|(t, _)| *t == want) {
                            return i;
                        }
                    }
                    return 0;
                }
                if let Some(i) = waiting.iter().position(|(_, s)| *s == 0) {
                    return i;
                }
                if timeouts && advance_rng.chance(1, 25) {
                    let us = if advance_rng.chance(1, 2) { 1001 } else { advance_rng.range(1, 999) };
                    crate::clock::advance(us);
                    tokens_cell.borrow_mut().push(format!("a{us}"));
                }
                // bursts: keep running the same thread for a random number of steps, so that another
                // thread can be parked between two of its accesses for a long stretch
                if let Some(l) = last {
                    if burst_left > 0 {
                        if let Some(i) = waiting.iter().position(|(t, _)| *t == l) {
                            burst_left -= 1;
                            return i;
                        }
                    }
                }
                // while the RX side is in the middle of its lookup / claim (between two of its loads), now
                // and then let the OTHER threads run for a long stretch: windows of a few instructions
                // (stale marker + slot reuse between two loads) are otherwise practically never hit
                if let Some(rxpos) = waiting.iter().position(|(_, site)| matches!(*site, 27 | 28 | 29)) {
                    if waiting.len() > 1 && pick_rng.chance(1, 3) {
                        let others: Vec<usize> = (0..waiting.len()).filter(|i| *i != rxpos).collect();
                        let i = others[pick_rng.below(others.len() as u64) as usize];
                        last = Some(waiting[i].0);
                        burst_left = pick_rng.range(15, 90);
                        return i;
                    }
                }
                // a task parked right before its retry re-queue (site 16) or its release (site 15) has sampled the
                // status a few instructions ago: now and then let the others (RX / TX) run a stretch first
                if let Some(ppos) = waiting.iter().position(|(_, site)| matches!(*site, 15 | 16)) {
                    if waiting.len() > 1 && pick_rng.chance(1, 2) {
                        let others: Vec<usize> = (0..waiting.len()).filter(|i| *i != ppos).collect();
                        let i = others[pick_rng.below(others.len() as u64) as usize];
                        last = Some(waiting[i].0);
                        burst_left = pick_rng.range(5, 60);
                        return i;
                    }
                }
                // weights: a thread that would only spin (TX with nothing sendable, RX with nothing to
                // deliver, a poll) is chosen less often than one that makes progress
                let weights: Vec<u64> = {
                    let sh = shared_for_sched.lock().unwrap();
                    let any_sendable = (0..main_ref.n).any(|k| main_ref.slot(k).0 == 2);
                    waiting
                        .iter()
                        .map(|(t, site)| {
                            if *site != 100 {
                                return 12;
                            }
                            let op = sh.next_op.get(*t).map(|x| x.as_str()).unwrap_or("");
                            if op == "no" {
                                1
                            } else if op.starts_with("tn,") {
                                if any_sendable { 12 } else { 1 }
                            } else if op.starts_with("po,") {
                                3
                            } else {
                                12
                            }
                        })
                        .collect()
                };
                let total: u64 = weights.iter().sum();
                let mut x = pick_rng.below(total);
                let mut i = 0;
                for (k, wgt) in weights.iter().enumerate() {
                    if x < *wgt {
                        i = k;
                        break;
                    }
                    x -= wgt;
                }
                last = Some(waiting[i].0);
                burst_left = match pick_rng.below(4) {
                    0 => 0,
                    1 => pick_rng.range(1, 3),
                    2 => pick_rng.range(3, 12),
                    _ => pick_rng.range(8, 40),
                };
                i
            },
            |tid, site, now_at| {
                let now_step = ctr.fetch_add(1, Ordering::SeqCst) + 1;
                crate::seq::STEP_NOW.store(now_step, Ordering::SeqCst);
                tokens_cell.borrow_mut().push(format!("{tid}"));
                let snap = main_ref.snapshot();
                digests_ref.push(format!("{}", fnv32(&snap)));
                // ---- who is inside which buffer (claims and releases are the status accesses) ----
                let states: Vec<u8> = (0..main_ref.n).map(|k| main_ref.slot(k).0).collect();
                let changed: Vec<(usize, u8, u8)> =
                    (0..states.len()).filter(|k| prev_states[*k] != states[*k]).map(|k| (k, prev_states[k], states[k])).collect();
                let role = match site {
                    2 => Some(("creator", 0u8, 1u8)),
                    23 => Some(("tx", 2, 3)),
                    29 => Some(("rx", 4, 5)),
                    14 => Some(("reader", 6, 7)),
                    _ => None,
                };
                if let Some((name, from, to)) = role {
                    for (k, a, b) in &changed {
                        if *a == from && *b == to {
                            inside.push((tid, *k, name));
                        }
                    }
                }
                // a REJECTED frame leaves the slot it was (tentatively) claimed for as it was: contents when the receive
                // side hands its claim back (RxBusy -> Sent) must equal the contents at the claim (Sent -> RxBusy)
                {
                    let per_slot: Vec<&str> = snap.split('/').skip(1).map(|p| p.rsplit(':').next().unwrap_or("")).collect();
                    for (k, a, b) in &changed {
                        if *a == 4 && *b == 5 {
                            claim_bytes[*k] = prev_bytes.get(*k).cloned();
                        } else if *a == 5 && *b == 4 {
                            if let (Some(h0), Some(now)) = (claim_bytes[*k].take(), per_slot.get(*k)) {
                                if h0 != *now && altered_ref.is_none() {
                                    *altered_ref = Some(format!("slot {k}: the receive side handed its claim back (frame rejected) but the slot's contents changed while it held the claim"));
                                }
                            }
                        } else if *a == 5 {
                            claim_bytes[*k] = None;
                        }
                    }
                    prev_bytes = per_slot.iter().map(|x| x.to_string()).collect();
                }
                // a frame that became Sendable while the transmit side sleeps must have woken it: if the TX task's last
                // scan found nothing (it would go to sleep now), it has not started another one, its "woken" bit is
                // clear, and a slot is Sendable for a reason other than TX's own hand-back after a failed send, the
                // wake-up was issued too early (before the state was published) or not at all
                parked[tid] = now_at;
                for (k, a, b) in &changed {
                    if *b == 2 {
                        handback[*k] = *a == 3;
                    } else {
                        handback[*k] = false;
                    }
                }
                for (k, a, b) in &changed {
                    if *b == 2 && *a != 3 {
                        published.push((*k, tid));
                    }
                }
                // judged when the publishing thread has FINISHED the operation that published (its wake_sender() call,
                // which follows the status store, is then behind it)
                if now_at == Some(100) || now_at.is_none() {
                    let mine: Vec<usize> = published.iter().filter(|(_, t)| *t == tid).map(|(k, _)| *k).collect();
                    published.retain(|(_, t)| *t != tid);
                    if missed_ref.is_none() && tid != tx_tid_obs && parked[tx_tid_obs] == Some(100) && !tx_flag.0.load(Ordering::SeqCst) {
                        let last_none = tx_log_for_obs.lock().unwrap().last().map(|o| o.op.starts_with("tn,") && o.out == "none").unwrap_or(false);
                        if last_none {
                            if let Some(k) = mine.iter().find(|k| states[**k] == 2 && !handback[**k]) {
                                *missed_ref = Some(format!("slot {k} was made Sendable by thread {tid}, but the transmit side, whose last scan found nothing, was not woken after the state was published"));
                            }
                        }
                    }
                }
                // lifecycle order (independent of the model): every observed status change must be an edge of the
                // documented lifecycle (incl. the failure / retry / abandonment edges and RX handing back a claim, RxBusy -> Sent, fix 646e830f). A release store over
                // Sending / RxBusy is the known abandonment-inside-the-window class and is attributed below.
                for (k, a, b) in &changed {
                    let edge = matches!(
                        (*a, *b),
                        (0, 1) | (1, 2) | (1, 0) | (2, 3) | (3, 4) | (3, 2) | (4, 2) | (4, 5) | (5, 6) | (5, 4) | (6, 7) | (7, 0) | (2, 0) | (4, 0) | (6, 0)
                    );
                    let known_release = site == 15 && (*a == 3 || *a == 5) && *b == 0;
                    if !edge && !known_release && order_ref.is_none() {
                        *order_ref = Some(format!("slot {k}: status {a} -> {b} (site {site}, thread {tid}) is not an edge of the lifecycle"));
                    }
                }
                // plain stores that overwrite a state in which another party is inside
                if site == 15 || site == 16 || site == 11 {
                    for (_k, a, _b) in &changed {
                        if *a == 3 || *a == 5 {
                            let what = match site { 15 => "release", 16 => "retry", _ => "mark" };
                            causes_ref.push(format!("{what}-store-over-{}", if *a == 3 { "sending" } else { "rxbusy" }));
                        }
                    }
                }
                if site == 16 {
                    for (_k, a, _b) in &changed {
                        if *a == 6 {
                            causes_ref.push("retry-store-over-rxdone".to_string());
                        }
                    }
                }
                match site {
                    11 | 12 => inside.retain(|(t, _, r)| !(*t == tid && *r == "creator")),
                    25 | 26 => inside.retain(|(t, _, r)| !(*t == tid && *r == "tx")),
                    20 => inside.retain(|(t, _, r)| !(*t == tid && *r == "reader")),
                    31 => inside.retain(|(t, _, r)| !(*t == tid && *r == "rx")),
                    _ => {}
                }
                if now_at == Some(100) || now_at.is_none() {
                    inside.retain(|(t, _, r)| !(*t == tid && *r == "rx"));
                }
                for k in 0..states.len() {
                    let here: Vec<&(usize, usize, &str)> = inside.iter().filter(|(_, s, _)| *s == k).collect();
                    if here.len() > 1 && two_ref.is_none() {
                        *two_ref = Some(format!("slot {k}: {} (thread {}) and {} (thread {}) inside the buffer at once", here[0].2, here[0].0, here[1].2, here[1].0));
                    }
                }
                prev_states = states;
            },
        )
    };
    let _ = taken;
    // gather
    let logs: Vec<Vec<OpLog>> = logs.iter().map(|l| l.lock().unwrap().clone()).collect();
    let threads_line = logs.iter().map(|l| if l.is_empty() { "-".to_string() } else { l.iter().map(|o| o.op.clone()).collect::<Vec<_>>().join(";") }).collect::<Vec<_>>().join("|");
    // threads that did not run all their ops (cannot happen: every worker runs to completion)
    let sched_line = if sched_tokens.is_empty() { "-".to_string() } else { sched_tokens.join(",") };
    let line = format!("{} {} {} {} {} {} {}", prof.key, plan.n, plan.data, plan.fi, plan.pi, threads_line, sched_line);
    let final_snap = main.snapshot();
    let outs_line = logs.iter().map(|l| l.iter().map(|o| o.out.clone()).collect::<Vec<_>>().join(";")).collect::<Vec<_>>().join("|");
    let out = format!("{}|{}|{}", digests.join(","), outs_line, final_snap);

    // ------------------------------------------------------------------ monitors (real behaviour)
    // A symptom observed in a run in which a plain store overwrote a state while TX/RX was inside the
    // buffer (abandonment / retry inside the window, C06) is attributed to that cause, so that the
    // same symptom without such a cause is still reported under its own key.
    causes.sort();
    causes.dedup();
    // Only the RELEASE store (final timeout / drop of the future, site 15) over Sending / RxBusy is the known
    // class. The retry and the mark stores were turned into compare-exchanges by fix: commits; if one of them
    // overwrites a state again, the symptom is reported under its own (unlisted) suffix.
    let cause_suffix = if causes.is_empty() {
        String::new()
    } else if causes.iter().all(|c| c.starts_with("release-store-over-")) {
        "@store-over-inside".to_string()
    } else {
        "@retry-or-mark-store-over-inside".to_string()
    };
    let real_rep: &mut Report = rep;
    let mut staged: Vec<(String, String)> = Vec::new();
    struct Stage<'a>(&'a mut Vec<(String, String)>);
    impl Stage<'_> {
        fn fail(&mut self, key: &str, what: &str, _line: &str) {
            self.0.push((key.to_string(), what.to_string()));
        }
    }
    let mut rep = Stage(&mut staged);
    if let Some(t) = &two_parties {
        rep.fail(&format!("{}/two-parties", prof.key), t, &line);
    }
    if let Some(t) = &rejected_altered {
        rep.fail(&format!("{}/rejected-frame-altered-slot", prof.key), t, &line);
    }
    if let Some(t) = &missed_wake {
        rep.fail(&format!("{}/missed-tx-wake", prof.key), t, &line);
    }
    if let Some(t) = &order_violation {
        rep.fail(&format!("{}/lifecycle-order", prof.key), t, &line);
    }
    for c in causes.iter().filter(|c| !c.starts_with("release-store-over-")) {
        rep.fail(&format!("{}/store-over-live-state", prof.key), &format!("{c}: a plain store overwrote a status another party had set"), &line);
    }
    let sh = shared.lock().unwrap();
    for (tid, l) in logs.iter().enumerate() {
        if tid == plan.tx_tid || tid == plan.rx_tid {
            for o in l {
                if o.out == "panic" {
                    rep.fail(&format!("{}/txrx-panic", prof.key), "the transmit/receive side panicked", &line);
                }
            }
            continue;
        }
        // per register: reconstruct the request's first index and what it read
        let mut first_idx: BTreeMap<u32, Option<u8>> = BTreeMap::new();
        let mut trims: BTreeMap<u32, usize> = BTreeMap::new();
        for o in l {
            let f: Vec<&str> = o.op.split(',').collect();
            let r: u32 = f.get(1).and_then(|x| x.parse().ok()).unwrap_or(0);
            if o.out == "panic" {
                rep.fail(&format!("{}/app-panic", prof.key), &format!("operation {} panicked", o.op), &line);
            }
            match f[0] {
                "al" => {
                    first_idx.insert(r, None);
                    trims.insert(r, 0);
                }
                "pu" | "re" => {
                    let g: Vec<&str> = o.out.split('.').collect();
                    let idx = if g[0] == "ok" { g.get(2) } else if g[0] == "some" { g.get(3) } else { None };
                    if let Some(i) = idx {
                        let e = first_idx.entry(r).or_insert(None);
                        if e.is_none() {
                            *e = Some(i.parse().unwrap());
                        }
                    }
                }
                "po" => {
                    // a response that was accepted before this poll started must complete it
                    if let Some(Some(i)) = first_idx.get(&r) {
                        if o.out == "pending" {
                            let rx_log = &logs[plan.rx_tid];
                            let delivered_before = rx_log.iter().any(|x| x.out == "processed" && x.end <= o.start && unhex(&x.op[3..]).get(17) == Some(i));
                            if delivered_before && !prof.timeouts && !prof.drops {
                                rep.fail(&format!("{}/lost-response", prof.key), "response accepted before the poll, yet the poll stayed pending", &line);
                            }
                        }
                    }
                }
                "fp" => {
                    // the request's own, accepted response read with the request's own handle must yield a view
                    if let Some(Some(i)) = first_idx.get(&r) {
                        if o.out.starts_with("err") {
                            if let Some(resp) = sh.accepted.get(i) {
                                let code: Option<u8> = f.get(2).and_then(|x| x.parse().ok());
                                let idx: Option<u8> = f.get(3).and_then(|x| x.parse().ok());
                                if let Some((p, len)) = dgrams(resp).first() {
                                    let fits = p + 12 + len <= resp.len();
                                    if fits && Some(resp[*p]) == code && Some(resp[p + 1]) == idx && idx == Some(*i) {
                                        rep.fail(&format!("{}/delivery-refused", prof.key), &format!("first_pdu with the request's own handle answered {} although its response was accepted", o.out), &line);
                                    }
                                }
                            }
                        }
                    }
                }
                "vt" => {
                    if o.out == "ok" {
                        *trims.entry(r).or_insert(0) += f[2].parse::<usize>().unwrap();
                    }
                }
                "vr" => {
                    if let Some(Some(i)) = first_idx.get(&r) {
                        if o.out != "bad-op" {
                            if let Some(resp) = sh.accepted.get(i) {
                                let ds = dgrams(resp);
                                if let Some((p, len)) = ds.first() {
                                    let t = (*trims.get(&r).unwrap_or(&0)).min(*len);
                                    let exp = &resp[p + 10 + t..p + 10 + len];
                                    let wkc = u16::from_le_bytes([resp[p + 10 + len], resp[p + 11 + len]]);
                                    let want = format!("{}.{}.{}", if exp.is_empty() { String::new() } else { hex(exp) }, exp.len(), wkc);
                                    if o.out != want {
                                        rep.fail(&format!("{}/wrong-data", prof.key), &format!("view shows {} but the network returned {}", o.out, want), &line);
                                    }
                                }
                            } else {
                                rep.fail(&format!("{}/data-without-response", prof.key), "a view exists although no response was accepted for this request", &line);
                            }
                        }
                    }
                }
                "it" => {
                    if let Some(Some(i)) = first_idx.get(&r) {
                        if o.out != "bad-op" {
                            if let Some(resp) = sh.accepted.get(i) {
                                let want: Vec<String> = dgrams(resp)
                                    .iter()
                                    .take(5)
                                    .map(|(p, len)| {
                                        let d = &resp[p + 10..p + 10 + len];
                                        format!("{}.{}", if d.is_empty() { String::new() } else { hex(d) }, u16::from_le_bytes([resp[p + 10 + len], resp[p + 11 + len]]))
                                    })
                                    .collect();
                                if o.out != want.join(",") {
                                    rep.fail(&format!("{}/wrong-data", prof.key), &format!("iterator yields {} but the network returned {}", o.out, want.join(",")), &line);
                                }
                            }
                        }
                    }
                }
                _ => {}
            }
        }
    }
    // A genuine first response to a request that was NOT abandoned (its future neither dropped nor
    // timed out before the delivery finished) must be accepted — whatever happened to other requests.
    {
        // (first idx) -> step at which its request was abandoned, if ever
        let mut abandoned_at: BTreeMap<u8, usize> = BTreeMap::new();
        for (tid, l) in logs.iter().enumerate() {
            if tid == plan.tx_tid || tid == plan.rx_tid {
                continue;
            }
            let mut first_of_reg: BTreeMap<u32, Option<u8>> = BTreeMap::new();
            for o in l {
                let f: Vec<&str> = o.op.split(',').collect();
                let r: u32 = f.get(1).and_then(|x| x.parse().ok()).unwrap_or(0);
                match f[0] {
                    "al" => {
                        first_of_reg.insert(r, None);
                    }
                    "pu" | "re" => {
                        let g: Vec<&str> = o.out.split('.').collect();
                        let idx = if g[0] == "ok" { g.get(2) } else if g[0] == "some" { g.get(3) } else { None };
                        if let Some(i) = idx {
                            let e = first_of_reg.entry(r).or_insert(None);
                            if e.is_none() {
                                *e = Some(i.parse().unwrap());
                            }
                        }
                    }
                    "df" | "po" | "dc" => {
                        let gone = (f[0] == "df" && o.out == "ok") || (f[0] == "po" && o.out.starts_with("ready.err")) || (f[0] == "dc" && o.out == "ok");
                        if gone {
                            if let Some(Some(i)) = first_of_reg.get(&r) {
                                abandoned_at.entry(*i).or_insert(o.start);
                            }
                        }
                    }
                    _ => {}
                }
            }
        }
        for (k, o) in logs[plan.rx_tid].iter().enumerate() {
            if o.out != "processed" && sh.genuine.get(k).copied().unwrap_or(false) {
                let idx = unhex(&o.op[3..]).get(17).copied().unwrap_or(0);
                let abandoned = abandoned_at.get(&idx).map_or(false, |s| *s <= o.end);
                // an earlier copy of the response (early answer, duplicate) already completed the request
                let already = logs[plan.rx_tid][..k].iter().any(|x| x.out == "processed" && unhex(&x.op[3..]).get(17) == Some(&idx));
                if already {
                    continue;
                }
                // with deadlines in play a response may legitimately meet a slot that was re-queued for
                // retransmission or already completed by an earlier copy: only judged without them
                if !abandoned && !prof.timeouts && !prof.tx_fail {
                    rep.fail(&format!("{}/response-rejected", prof.key), &format!("the response to an outstanding request was not accepted ({})", o.out), &line);
                }
            }
        }
    }
    // accepting a response must wake the task that awaits it: if the request's last poll before the delivery ended
    // Pending (its waker is registered), a wake-up of that waker must be logged while receive_frame runs
    {
        let wakes = crate::seq::WAKE_LOG.lock().unwrap().clone();
        // (tid, reg) -> first idx, and the po ops of that register
        for (k, o) in logs[plan.rx_tid].iter().enumerate() {
            let _ = k;
            if o.out != "processed" {
                continue;
            }
            let idx = unhex(&o.op[3..]).get(17).copied().unwrap_or(0);
            for (tid, l) in logs.iter().enumerate() {
                if tid == plan.tx_tid || tid == plan.rx_tid {
                    continue;
                }
                let mut cur_first: BTreeMap<u32, Option<u8>> = BTreeMap::new();
                let mut last_po: BTreeMap<u32, (usize, usize, String)> = BTreeMap::new();
                let mut gone: BTreeMap<u32, bool> = BTreeMap::new();
                for x in l.iter().filter(|x| x.end <= o.start) {
                    let f: Vec<&str> = x.op.split(',').collect();
                    let r: u32 = f.get(1).and_then(|v| v.parse().ok()).unwrap_or(0);
                    match f[0] {
                        "al" => {
                            cur_first.insert(r, None);
                            last_po.remove(&r);
                            gone.insert(r, false);
                        }
                        "pu" | "re" => {
                            let g: Vec<&str> = x.out.split('.').collect();
                            let i = if g[0] == "ok" { g.get(2) } else if g[0] == "some" { g.get(3) } else { None };
                            if let Some(i) = i {
                                let e = cur_first.entry(r).or_insert(None);
                                if e.is_none() {
                                    *e = Some(i.parse().unwrap());
                                }
                            }
                        }
                        "po" => {
                            last_po.insert(r, (x.start, x.end, x.out.clone()));
                            if x.out.starts_with("ready") {
                                gone.insert(r, true);
                            }
                        }
                        "df" | "dc" => {
                            gone.insert(r, true);
                        }
                        _ => {}
                    }
                }
                // ops of this thread that overlap the delivery make the order ambiguous: skip
                if l.iter().any(|x| x.start < o.end && x.end > o.start) {
                    continue;
                }
                for (r, fi) in &cur_first {
                    if *fi == Some(idx) && !gone.get(r).copied().unwrap_or(false) {
                        if let Some((po_start, _, out)) = last_po.get(r) {
                            // a wake-up that arrived after that poll (e.g. the delayed wake of the slot's PREVIOUS
                            // response) took the registered waker; a real task would have polled again and
                            // registered anew, this runner does not: not judged
                            let consumed = wakes.iter().any(|(w, rr, st)| *w == tid && rr == r && *st >= *po_start && *st < o.start);
                            if out == "pending" && !consumed && !wakes.iter().any(|(w, rr, st)| *w == tid && rr == r && *st >= o.start && *st <= o.end + 1) {
                                if std::env::var_os("VERIF_DEBUG_WAKE").is_some() {
                                    eprintln!("no-wakeup: rx op {:?} idx {idx} tid {tid} reg {r} last_po {:?} wakes {:?}", (o.start, o.end, &o.out), last_po.get(r), wakes);
                                    for x in l.iter() { eprintln!("   T{tid} {}..{} {} -> {}", x.start, x.end, &x.op[..x.op.len().min(40)], &x.out[..x.out.len().min(40)]); }
                                    for x in logs[plan.rx_tid].iter() { eprintln!("   RX {}..{} {} -> {}", x.start, x.end, &x.op[..x.op.len().min(60)], &x.out[..x.out.len().min(40)]); }
                                }
                                rep.fail(&format!("{}/no-wakeup", prof.key), &format!("the response to the request in register {r} of thread {tid} was accepted (RxDone) but the task waiting for it was not woken"), &line);
                            }
                        }
                    }
                }
            }
        }
    }
    // retransmissions byte-identical
    for (idx, txs) in sh.transmissions.iter() {
        if txs.windows(2).any(|w| w[0] != w[1]) {
            rep.fail(&format!("{}/retransmission-differs", prof.key), &format!("transmissions of the request with first index {idx} are not byte-identical"), &line);
        }
    }
    drop(sh);
    // drain: drop every handle still held, then every slot must be free
    let mut backs = worlds_back.lock().unwrap();
    for w in backs.iter_mut().flatten() {
        let regs: Vec<u32> = w.regs.keys().copied().collect();
        for r in regs {
            match w.regs.get(&r) {
                Some(H::Created(_)) => {
                    w.step(&format!("dc,{r}"));
                }
                Some(H::Fut(_)) => {
                    w.step(&format!("df,{r}"));
                }
                Some(H::Sendable(_)) => {
                    w.step(&format!("ts,{r},0"));
                }
                Some(H::Received(_)) => {
                    w.step(&format!("dr,{r}"));
                }
                Some(H::View(_)) => {
                    w.step(&format!("dv,{r}"));
                }
                None => {}
            }
        }
    }
    for i in 0..plan.n {
        let (st, _, _) = main.slot(i);
        // a slot left in Sent/RxDone/... with no owner is lost; RxBusy after an oversize frame needs its owner's deadline
        if st != 0 {
            rep.fail(&format!("{}/slot-lost", prof.key), &format!("slot {i} is in state {st} after every handle was dropped"), &line);
        }
    }
    let rep = real_rep;
    for (k, w) in staged {
        let name = k.split_once('/').map(|x| x.1).unwrap_or(&k);
        if !prof.only.is_empty() && !prof.only.contains(&name) {
            continue;
        }
        rep.fail(&format!("{k}{cause_suffix}"), &w, &line);
    }
    for c in &causes {
        rep.hit(&format!("cause:{c}"));
    }
    rep.hit(&format!("threads={}", plan.progs.len()));
    rep.hit(&format!("slots={}", plan.n));
    rep.hit(&format!("steps~{}", (digests.len() / 20) * 20));
    for l in &logs {
        for o in l {
            let tok = o.out.split('.').next().unwrap_or("");
            let opk = o.op.split(',').next().unwrap_or("");
            if matches!(opk, "po" | "rx" | "tn" | "al" | "fp") {
                rep.hit(&format!("{opk}:{}", if tok.len() > 12 { &tok[..12] } else { tok }));
            }
        }
    }
    if logs[plan.rx_tid].iter().any(|o| o.out == "processed") {
        rep.nontrivial.insert(line.clone());
    }
    RunResult { line, out }
}

fn parse_plan(line: &str) -> (Plan, Vec<String>) {
    let t: Vec<&str> = line.split(' ').collect();
    let progs: Vec<Vec<String>> = t[5].split('|').map(|p| if p == "-" { vec![] } else { p.split(';').map(|s| s.to_string()).collect() }).collect();
    let tx_tid = progs.iter().position(|p| p.iter().any(|o| o.starts_with("tn,"))).unwrap_or(progs.len() - 2);
    let rx_tid = progs.iter().position(|p| p.iter().any(|o| o.starts_with("rx,"))).unwrap_or(progs.len() - 1);
    let sched = if t[6] == "-" { vec![] } else { t[6].split(',').map(|s| s.to_string()).collect() };
    (Plan { n: t[1].parse().unwrap(), data: t[2].parse().unwrap(), fi: t[3].parse().unwrap(), pi: t[4].parse().unwrap(), progs, tx_tid, rx_tid }, sched)
}

pub fn main_for(prof: Profile, quick_cases: usize, thorough_cases: usize) {
    let args = crate::parse_args();
    let mut rep = Report::default();
    if let Some(cases) = crate::replay_cases(&args) {
        for c in cases.iter().filter(|c| c.starts_with(prof.key)) {
            let (plan, sched) = parse_plan(c);
            let mut rng = Rng::new(0);
            let r = execute(&plan, &prof, &mut rng, Some(&sched), &mut rep);
            rep.case(r.line, r.out);
        }
    } else {
        let mut rng = Rng::new(args.seed ^ fnv32(prof.key) as u64);
        // corpus first: minimised past failures (schedules that exposed since-repaired defects)
        let dir = format!("{}/corpus/{}", env!("CARGO_MANIFEST_DIR"), prof.key);
        if let Ok(rd) = std::fs::read_dir(&dir) {
            let mut files: Vec<_> = rd.flatten().map(|e| e.path()).collect();
            files.sort();
            for f in files {
                for c in std::fs::read_to_string(&f).unwrap_or_default().lines().filter(|c| c.starts_with(prof.key)) {
                    let (plan, sched) = parse_plan(c);
                    let mut r0 = Rng::new(0);
                    let r = execute(&plan, &prof, &mut r0, Some(&sched), &mut rep);
                    rep.hit("corpus");
                    rep.case(r.line, r.out);
                }
            }
        }
        let cases = if args.tier == "thorough" { thorough_cases } else { quick_cases };
        for _ in 0..cases {
            let plan = gen_plan(&mut rng, &prof);
            // several schedules per plan
            let scheds = rng.range(1, 4);
            for _ in 0..scheds {
                let r = execute(&plan, &prof, &mut rng, None, &mut rep);
                rep.case(r.line, r.out);
            }
        }
    }
    rep.write(&args.out, prof.key);
}
