use core::future::Future;
use core::pin::Pin;
use core::task::{Context, Poll, Waker};
use ethercrab::verif::VerifDynStorage;
use std::fmt::Write as _;

pub fn hex(b: &[u8]) -> String {
    if b.is_empty() {
        return "-".to_string();
    }
    let mut s = String::with_capacity(b.len() * 2);
    for x in b {
        let _ = write!(s, "{:02x}", x);
    }
    s
}

pub fn unhex(s: &str) -> Vec<u8> {
    if s == "-" {
        return vec![];
    }
    (0..s.len() / 2).map(|i| u8::from_str_radix(&s[2 * i..2 * i + 2], 16).unwrap()).collect()
}

/// Poll once with a no-op waker.
pub fn poll_once<F: Future>(f: Pin<&mut F>) -> Poll<F::Output> {
    let mut cx = Context::from_waker(Waker::noop());
    f.poll(&mut cx)
}

/// Leaked, zeroed, suitably aligned backing memory plus a dynamic storage over it.
pub fn dyn_storage(n: usize, data: usize) -> &'static VerifDynStorage {
    let bytes = n * VerifDynStorage::stride(data) + 64;
    let mem: &'static mut [u64] = Box::leak(vec![0u64; bytes / 8 + 1].into_boxed_slice());
    assert!(VerifDynStorage::align() <= 8);
    let st = unsafe { VerifDynStorage::new(mem.as_mut_ptr().cast(), n, data) };
    Box::leak(Box::new(st))
}

/// Free a storage created by `dyn_storage` is not needed: cases reuse a small pool. (Leaks are
/// bounded by the number of distinct (n, data) pairs times cases; the process is short lived.)

pub fn json_str(s: &str) -> String {
    let mut o = String::from("\"");
    for c in s.chars() {
        match c {
            '"' => o.push_str("\\\""),
            '\\' => o.push_str("\\\\"),
            '\n' => o.push_str("\\n"),
            c if (c as u32) < 0x20 => {
                let _ = write!(o, "\\u{:04x}", c as u32);
            }
            c => o.push(c),
        }
    }
    o.push('"');
    o
}

/// What a run reports to the driver script.
#[derive(Default)]
pub struct Report {
    pub cases: Vec<String>,
    pub impl_out: Vec<String>,
    /// histogram of case features (input distribution)
    pub dist: std::collections::BTreeMap<String, u64>,
    /// failures of the implementation against the independent oracle/monitor: (key, what, case)
    pub monitor_failures: Vec<(String, String, String)>,
    pub nontrivial: std::collections::BTreeSet<String>,
    pub notes: Vec<String>,
}

impl Report {
    pub fn case(&mut self, line: String, out: String) {
        crate::progress::completed(&line);
        self.cases.push(line);
        self.impl_out.push(out);
    }
    pub fn hit(&mut self, k: &str) {
        crate::progress::tick();
        *self.dist.entry(k.to_string()).or_insert(0) += 1;
    }
    pub fn fail(&mut self, key: &str, what: &str, case: &str) {
        self.monitor_failures.push((key.to_string(), what.to_string(), case.to_string()));
    }
    pub fn write(&self, dir: &str, prop: &str) {
        std::fs::create_dir_all(dir).unwrap();
        std::fs::write(format!("{dir}/{prop}.cases"), self.cases.join("\n") + "\n").unwrap();
        std::fs::write(format!("{dir}/{prop}.impl"), self.impl_out.join("\n") + "\n").unwrap();
        let mut j = String::from("{");
        let _ = write!(j, "\"evaluations\":{},", self.cases.len());
        let _ = write!(j, "\"distinct_nontrivial\":{},", self.nontrivial.len());
        j.push_str("\"dist\":{");
        j.push_str(&self.dist.iter().map(|(k, v)| format!("{}:{}", json_str(k), v)).collect::<Vec<_>>().join(","));
        j.push_str("},\"monitor_failures\":[");
        j.push_str(
            &self
                .monitor_failures
                .iter()
                .map(|(k, w, c)| format!("{{\"key\":{},\"what\":{},\"case\":{}}}", json_str(k), json_str(w), json_str(c)))
                .collect::<Vec<_>>()
                .join(","),
        );
        j.push_str("],\"notes\":[");
        j.push_str(&self.notes.iter().map(|n| json_str(n)).collect::<Vec<_>>().join(","));
        j.push_str("]}");
        std::fs::write(format!("{dir}/{prop}.stats.json"), j).unwrap();
    }
}
