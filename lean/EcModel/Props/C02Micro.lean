/-
  C02 on the micro-step model — a frame buffer never has two parties inside it at once, proved
  DIRECTLY on `Micro.lean` (one step per yield site of the real code, any number of threads, every
  schedule), not on the abstract token automaton of `Props/C02.lean`.

  Definitions (Lemmas/MicroInv.lean):
    `Holds t k ρ`  thread `t` holds a claim of role `ρ` on slot `k`, by its program counter
                   (`alloc_frame` after the successful claim; `receive_frame` between `claim_receiving`
                   and `mark_received`) or by a handle in one of its registers;
    `Inside t k`   creator ∨ tx ∨ rx ∨ reader (the `ReceiveFrameFut` waits, it is not inside);
    `Owner t k`    creator ∨ fut ∨ reader;
    `MInv w`       for every slot and role, the number of claims of all threads is bounded by what the
                   slot's status admits (`cap`), registers are unique per thread, an operation in
                   progress finds the handle kind it needs in its register;
    `AbandonInsideStep w tid`  the step about to be taken is `dfStore` / `poRelease` on a slot that is
                   `Sending`, or `RxBusy` while an RX thread is inside — the window C06 owns.
  Proofs: Lemmas/MicroInv*.lean, MicroOwned.lean, MicroBufFrame.lean (one lemma per program counter).

  Hypotheses, and why:
    * `0 < n` (a storage without slots cannot run `alloc_frame`: `% 0`);
    * `¬ AbandonInsideStep` per step (`SafeSched` per schedule): without it the statement is FALSE of
      the code — `abandon_inside_tx_counterexample`, `abandon_inside_rx_counterexample`;
    * nothing about programs: wrong-kind operations are `bad-op` no-ops (proved: `PcOk`), and `al r` /
      `tn r` into an OCCUPIED register (where `putH` replaces, i.e. forgets, the old handle) is
      HANDLED — the invariant bounds claims from above, and forgetting a claim only lowers counts.
      No `FreshRegs` hypothesis is needed for exclusion. Only the converse direction ("every non-free
      slot has an owner", hence EXACTLY one: `micro_exactly_one_owner`) needs it, as the per-step
      hypothesis `¬ ClobberStep` (`FreshSafeSched`); `clobber_loses_owner_counterexample` shows why.
  Concrete witnesses cannot be run from a program's first operation by `decide` (`Micro.begin` parses
  strings, which the kernel cannot evaluate): they start from literal mid-execution worlds that are
  proved to satisfy `MInv` and are checked (`#guard`, Lemmas/MicroInvExamples.lean) to be what the
  executable model reaches from the fresh world with the stated programs and schedule.
-/
import EcModel.Lemmas.MicroInvMain
import EcModel.Lemmas.MicroInvExamples
import EcModel.Lemmas.MicroBufFrame
import EcModel.Lemmas.MicroOwned

namespace Ec.C02Micro
open Ec Ec.Micro

/-! ### what the definitions say, spelled out on program counters and handle kinds -/

/-- The creator claim carried by a program counter: `alloc_frame` after its successful
    `None → Created` compare-exchange (sites 3, 4, 5). -/
theorem creator_pc_iff (pc : Pc) (k : Nat) :
    pc.claim = some (k, .creator) ↔ ∃ r, pc = .alWaker r k ∨ pc = .alFirst r k ∨ pc = .alBuf r k := by
  cases pc <;> simp [Pc.claim]

/-- The RX claim: `receive_frame` from `claim_receiving` until `mark_received`, the hand-back
    (`RxBusy → Sent` after the marker re-check failed) or an error return. -/
theorem rx_pc_iff (pc : Pc) (k : Nat) :
    pc.claim = some (k, .rx) ↔
      (∃ p idx, pc = .rxVerify k p idx) ∨ pc = .rxUnclaim k ∨ (∃ p, pc = .rxCopy k p) ∨ pc = .rxMark k := by
  cases pc <;> simp [Pc.claim]

/-- Who is inside slot `k`, in terms of program counters and handle kinds. -/
theorem inside_iff (t : Thread) (k : Nat) :
    Inside t k ↔
      ((∃ r, t.pc = .alWaker r k ∨ t.pc = .alFirst r k ∨ t.pc = .alBuf r k) ∨
        ∃ h ∈ t.regs, h.slot = k ∧ ∃ c l, h.kind = .created c l) ∨
      (∃ h ∈ t.regs, h.slot = k ∧ h.kind = .sendable) ∨
      ((∃ p idx, t.pc = .rxVerify k p idx) ∨ t.pc = .rxUnclaim k ∨ (∃ p, t.pc = .rxCopy k p) ∨
        t.pc = .rxMark k) ∨
      (∃ h ∈ t.regs, h.slot = k ∧ (h.kind = .received ∨ ∃ o l w, h.kind = .view o l w)) := by
  have hc : ∀ K : HK, roleOf K = .creator ↔ ∃ c l, K = .created c l := by intro K; cases K <;> simp [roleOf]
  have ht : ∀ K : HK, roleOf K = .tx ↔ K = .sendable := by intro K; cases K <;> simp [roleOf]
  have hx : ∀ K : HK, ¬ roleOf K = .rx := by intro K; cases K <;> simp [roleOf]
  have hr : ∀ K : HK, roleOf K = .reader ↔ (K = .received ∨ ∃ o l w, K = .view o l w) := by
    intro K; cases K <;> simp [roleOf]
  have ht' : ∀ pc : Pc, ¬ pc.claim = some (k, .tx) := by intro pc; cases pc <;> simp [Pc.claim]
  have hr' : ∀ pc : Pc, ¬ pc.claim = some (k, .reader) := by intro pc; cases pc <;> simp [Pc.claim]
  simp only [Inside, Holds, creator_pc_iff, rx_pc_iff, hc, ht, hx, hr, ht', hr', false_or, and_false,
    exists_false, or_false]

/-! ### the invariant: initially, after every step, after every schedule -/

/-- **MInv holds initially**: fresh storage with `n > 0` slots, any counters, any number of threads
    with arbitrary programs, all idle with empty registers. -/
theorem micro_inv_init (n data fi pi : Nat) (progs : List (List String)) (hn : 0 < n) :
    MInv (initWorld n data fi pi progs) := MInv_init n data fi pi progs hn

/-- **MInv is preserved by every granted step** of every thread at every program counter (36 program
    counters, each with all its branches), unless the step abandons a request inside the window. -/
theorem micro_inv_step (w w' : MWorld) (tid : Nat) (hI : MInv w) (hna : ¬ AbandonInsideStep w tid)
    (hs : Micro.step w tid = some w') : MInv w' := hI.step hna hs

/-- Retry needs no exclusion: the `poRetry` step (compare-exchange from `Sent`) is never in the
    excluded window, whatever the slot's status. -/
theorem retry_never_excluded (w : MWorld) (tid : Nat) (t : Thread) (r : Nat) (was : St) (dl : Nat)
    (ht : w.threads[tid]? = some t) (hpc : t.pc = .poRetry r was dl) : ¬ AbandonInsideStep w tid := by
  rintro ⟨t', r', e, h, _⟩
  rw [ht] at e; cases e
  rw [hpc] at h
  rcases h with h | h <;> cases h

/-- **MInv holds after every schedule** (thread grants and clock advances in any order; grants that
    are refused leave the world unchanged) that stays outside the window. -/
theorem micro_inv_run (w : MWorld) (sched : List Tick) (hI : MInv w) (hs : SafeSched w sched) :
    MInv (runSched w sched) := hI.run sched hs

theorem micro_inv_reachable (n data : Nat) (w : MWorld) (hn : 0 < n) (h : Reachable n data w) : MInv w :=
  MInv_reachable hn h

/-! ### mutual exclusion and its relatives, in every reachable world -/

/-- **micro_mutual_exclusion.** In every reachable world, every slot has at most one thread inside. -/
theorem micro_mutual_exclusion (n data : Nat) (w : MWorld) (hn : 0 < n) (h : Reachable n data w)
    (k i j : Nat) (a b : Thread) (ha : w.threads[i]? = some a) (hb : w.threads[j]? = some b)
    (hia : Inside a k) (hib : Inside b k) : i = j :=
  (MInv_reachable hn h).mutual_exclusion ha hb hia hib

/-- Stronger, counting claims: all threads together hold at most ONE inside-claim on a slot (so a
    single thread does not hold two handles into the same buffer either). -/
theorem micro_at_most_one_inside_claim (n data : Nat) (w : MWorld) (hn : 0 < n) (h : Reachable n data w)
    (k : Nat) : (w.threads.map (fun t => insideCount t k)).sum ≤ 1 :=
  (MInv_reachable hn h).inside_total k

/-- **Unique owner**: at most one thread is creator, awaiting future or reader of a slot. -/
theorem micro_unique_owner (n data : Nat) (w : MWorld) (hn : 0 < n) (h : Reachable n data w)
    (k i j : Nat) (a b : Thread) (ha : w.threads[i]? = some a) (hb : w.threads[j]? = some b)
    (hoa : Owner a k) (hob : Owner b k) : i = j :=
  (MInv_reachable hn h).unique_owner ha hb hoa hob

/-- **Status ↔ holder**: whoever holds a claim finds the slot in the state its handle type promises
    (creator: `Created`; future: one of the five in-flight states; TX: `Sending`; RX: `RxBusy`; reader:
    `RxProcessing`), and the slot index is in range. -/
theorem micro_status_of_holder (n data : Nat) (w : MWorld) (hn : 0 < n) (h : Reachable n data w)
    (t : Thread) (hm : t ∈ w.threads) (k : Nat) (ρ : Role) (hh : Holds t k ρ) :
    k < w.sys.n ∧
    match ρ with
    | .creator => (w.sys.slot k).st = .created
    | .fut => (w.sys.slot k).st = .sendable ∨ (w.sys.slot k).st = .sending ∨ (w.sys.slot k).st = .sent ∨
        (w.sys.slot k).st = .rxBusy ∨ (w.sys.slot k).st = .rxDone
    | .tx => (w.sys.slot k).st = .sending
    | .rx => (w.sys.slot k).st = .rxBusy
    | .reader => (w.sys.slot k).st = .rxProcessing :=
  (MInv_reachable hn h).status_of_holder hm hh

/-- **No re-allocation while held**: `claim_created` succeeds only on a `None` slot, and on a `None`
    slot no thread holds a claim of any role. -/
theorem micro_no_realloc_while_held (n data : Nat) (w : MWorld) (hn : 0 < n) (h : Reachable n data w)
    (k : Nat) (hst : (w.sys.slot k).st = .none) (t : Thread) (hm : t ∈ w.threads) (ρ : Role) :
    ¬ Holds t k ρ :=
  (MInv_reachable hn h).free_slot_unclaimed hst hm ρ

/-- **micro_buffer_access_by_insider.** Every step that reads or writes a slot's buffer (`alBuf`,
    `puWrite`, `puPatch`, `mkHdr`, `tsRead`, `rxCopy`, `fpRead`, `itNext`, `itRead`, `vrRead`: `bufAccess`)
    is taken by a thread that is inside that slot. -/
theorem micro_buffer_access_by_insider (n data : Nat) (w : MWorld) (hn : 0 < n) (h : Reachable n data w)
    (tid : Nat) (t : Thread) (ht : w.threads[tid]? = some t) (k : Nat) (hb : bufAccess t = some k) :
    Inside t k :=
  (MInv_reachable hn h).buffer_access_by_insider ht hb

/-- **A slot's buffer changes only by a step of a thread that is inside the slot**: `bufAccess` is
    complete for writes (`buf_unchanged_unless_access`, one case per program counter), and whoever
    `bufAccess` names is inside. -/
theorem micro_buffer_changes_only_by_insider (n data : Nat) (w w' : MWorld) (hn : 0 < n)
    (h : Reachable n data w) (tid : Nat) (hs : Micro.step w tid = some w') (k : Nat)
    (hne : (w'.sys.slot k).buf ≠ (w.sys.slot k).buf) :
    ∃ t, w.threads[tid]? = some t ∧ Inside t k := by
  obtain ⟨t, ht, rfl⟩ := step_eq hs
  refine ⟨t, ht, ?_⟩
  by_cases hb : bufAccess t = some k
  · exact (MInv_reachable hn h).buffer_access_by_insider ht hb
  · exact absurd (buf_unchanged_unless_access w.sys t k hb) hne

/-- Together: while a thread is about to access a slot's buffer, no OTHER thread is inside it. -/
theorem micro_access_is_exclusive (n data : Nat) (w : MWorld) (hn : 0 < n) (h : Reachable n data w)
    (i j : Nat) (a b : Thread) (ha : w.threads[i]? = some a) (hb : w.threads[j]? = some b) (k : Nat)
    (hacc : bufAccess a = some k) (hin : Inside b k) : i = j :=
  (MInv_reachable hn h).mutual_exclusion ha hb ((MInv_reachable hn h).buffer_access_by_insider ha hacc) hin

/-! ### exactly one owner (needs fresh registers) -/

/-- Reachable by a schedule that, in addition to staying outside the window, stores every new handle
    (`al r`, `tn r`) into a FREE register — what the real harness' registers guarantee by dropping the
    old handle first; in the model `putH` would silently forget it. -/
def FreshReachable (n data : Nat) (w : MWorld) : Prop :=
  ∃ fi pi progs sched, FreshSafeSched (initWorld n data fi pi progs) sched ∧
    w = runSched (initWorld n data fi pi progs) sched

/-- **micro_exactly_one_owner.** In every such world, every non-free slot has exactly one owner
    thread (creator, awaiting future, or reader): some thread owns it, and any owner is that thread. -/
theorem micro_exactly_one_owner (n data : Nat) (w : MWorld) (hn : 0 < n) (h : FreshReachable n data w)
    (k : Nat) (hne : (w.sys.slot k).st ≠ .none) :
    ∃ (i : Nat) (t : Thread), w.threads[i]? = some t ∧ Owner t k ∧
      ∀ (j : Nat) (t' : Thread), w.threads[j]? = some t' → Owner t' k → j = i := by
  obtain ⟨fi, pi, progs, sched, hs, rfl⟩ := h
  obtain ⟨hI, hO⟩ := MOwned.run (MInv_init n data fi pi progs hn) (MOwned_init n data fi pi progs) sched hs
  exact exactly_one_owner hI hO hne

/-- Why the extra hypothesis: a second `al,0` overwrites the `CreatedFrame` in register 0; slot 0 stays
    `Created` with no owner left (a modelling artefact: the real harness drops the old handle, which
    releases the slot). Mutual exclusion is unaffected. -/
theorem clobber_loses_owner_counterexample :
    ClobberStep wClobber 0 ∧
    (wClobber.threads.map (fun t => ownerCount t 0)).sum = 1 ∧
    (runSched wClobber [.run 0]).sys.slots.map (·.st) = [.created, .created] ∧
    ((runSched wClobber [.run 0]).threads.map (fun t => ownerCount t 0)).sum = 0 ∧
    ((runSched wClobber [.run 0]).threads.map (fun t => insideCount t 0)).sum = 0 := by
  refine ⟨⟨_, 0, rfl, Or.inl ⟨1, rfl⟩, by decide⟩, by decide, by decide, by decide, by decide⟩

/-! ### non-vacuity -/

/-- A concrete 2-thread schedule (thread 0 in `alloc_frame`, thread 1 in `next_sendable_frame`,
    interleaved): it is outside the window, ends with exactly thread 0 inside slot 0, and the
    invariant holds there. (`wStart` is the fresh 1-slot world after both threads began their first
    operation — checked against the executable model in Lemmas/MicroInvExamples.lean.) -/
example :
    let sched : List Tick := [.run 0, .run 1, .run 0, .run 0, .run 1, .run 0, .run 0]
    SafeSched wStart sched ∧ MInv (runSched wStart sched) ∧
      (runSched wStart sched).threads.map (fun t => insideCount t 0) = [1, 0] := by
  intro sched
  have hs : SafeSched wStart sched := by decide
  exact ⟨hs, wStart_inv.run sched hs, by decide⟩

/-- An abandonment the theorem COVERS (the hypothesis does not exclude every abandon): the future is
    dropped while the frame is `Sendable` and nobody is inside; the slot becomes free, the invariant
    holds, and a second thread's allocation then makes that thread the only one inside. -/
example :
    ¬ AbandonInsideStep wSafe 0 ∧
    (runSched wSafe [.run 0]).sys.slots.map (·.st) = [.none] ∧
    MInv (runSched wSafe [.run 0, .run 2, .run 2, .run 1]) ∧
    (runSched wSafe [.run 0, .run 2, .run 2, .run 1]).threads.map (fun t => insideCount t 0) = [0, 0, 1] := by
  have hs : SafeSched wSafe [.run 0, .run 2, .run 2, .run 1] := by decide
  exact ⟨by decide, by decide, wSafe_inv.run _ hs, by decide⟩

/-! ### without the hypothesis the statement is false -/

/-- **abandon_inside_tx_counterexample** (known finding `c06m/two-parties@store-over-inside`).
    `wTx` satisfies the invariant; thread 0's next step drops the future while TX (thread 1) holds the
    frame — the excluded step. After it, thread 2's `alloc_frame` claims the slot: threads 1 (TX,
    reading) and 2 (creator, writing) are inside slot 0 together, and the invariant is gone.
    Program and schedule from the fresh world: `progsTx`, `preTx ++ [0, 2, 2]`. -/
theorem abandon_inside_tx_counterexample :
    MInv wTx ∧ AbandonInsideStep wTx 0 ∧
    (runSched wTx [.run 0, .run 2, .run 2]).threads.map (fun t => insideCount t 0) = [0, 1, 1] ∧
    ¬ MInv (runSched wTx [.run 0, .run 2, .run 2]) := by
  refine ⟨wTx_inv, by decide, by decide, ?_⟩
  intro hI
  exact absurd (hI.inside_total 0) (by decide)

/-- **abandon_inside_rx_counterexample.** The same with the RX side: thread 2 is between
    `claim_receiving` and the copy into the buffer (`RxBusy`) when thread 0 drops the future; thread 3's
    `alloc_frame` claims the slot, and RX (about to WRITE the response) and the new creator are inside
    together. Program and schedule from the fresh world: `progsRx`, `preRx ++ [0, 3, 3]`. -/
theorem abandon_inside_rx_counterexample :
    MInv wRx ∧ AbandonInsideStep wRx 0 ∧
    (runSched wRx [.run 0, .run 3, .run 3]).threads.map (fun t => insideCount t 0) = [0, 0, 1, 1] ∧
    ¬ MInv (runSched wRx [.run 0, .run 3, .run 3]) := by
  refine ⟨wRx_inv, by decide, by decide, ?_⟩
  intro hI
  exact absurd (hI.inside_total 0) (by decide)

/-- The two threads of the TX counterexample really are `Inside` (not just counted). -/
theorem abandon_inside_tx_two_inside :
    ∃ a b, (runSched wTx [.run 0, .run 2, .run 2]).threads[1]? = some a ∧
      (runSched wTx [.run 0, .run 2, .run 2]).threads[2]? = some b ∧ Inside a 0 ∧ Inside b 0 := by
  refine ⟨_, _, rfl, rfl, ?_, ?_⟩
  · exact (Micro.inside_iff _ _).mpr (by decide)
  · exact (Micro.inside_iff _ _).mpr (by decide)

end Ec.C02Micro
