/- Line protocol for C17:
   `c17 spec <tin> <now|-> <tree>`    tree = preorder tokens joined by `,`: `_` (closed port) or
                                      `N,dc,off,pd,fd,link,<child3>,<child1>,<child2>`
       -> `<reports>|<arrival times>|<true parents>|<true downstream>`   (the Lean physical spec; diffed against the Rust oracle)
   `c17 assign <chk|wrap> <reports>`  report = `b0b1b2b3,dc,t0,t1,t2,t3,rx` (by port NUMBER), joined by `;`
       -> `ok|<parent,delay,d0,d1,d2,d3;..>` | `err:Topology` | `panic:<class>`     (assign_parent_relationships)
   `c17 dc <chk|wrap> <now> <reports>`
       -> `ok:<reference address|->|<devs>|<addr:reg:hex,..>` | `err:Topology|-|-` | `panic:<class>|-|<writes so far>`  (configure_dc) -/
import EcModel.DcSpec
import EcModel.Drv.Util

namespace Ec.Drv.C17
open Ec Ec.Drv Ec.Dc Ec.DcSpec

def parseTree : Nat → List String → Option (Tree × List String)
  | 0, _ => none
  | _ + 1, "_" :: r => some (.none, r)
  | f + 1, "N" :: dc :: off :: pd :: fd :: link :: r =>
    match parseTree f r with
    | some (c3, r1) =>
      match parseTree f r1 with
      | some (c1, r2) =>
        match parseTree f r2 with
        | some (c2, r3) => some (.node ⟨nat! dc, nat! off, nat! pd, nat! fd, nat! link⟩ c3 c1 c2, r3)
        | none => none
      | none => none
    | none => none
  | _, _ => none

def bit (s : String) (i : Nat) : Bool := s.toList.getD i '0' == '1'

def parseReport (i : Nat) (s : String) : Report :=
  match splitOn s "," with
  | [b, dc, t0, t1, t2, t3, rx] =>
    ⟨4096 + i, bit b 0, bit b 1, bit b 2, bit b 3, nat! dc != 0, nat! t0, nat! t1, nat! t2, nat! t3, nat! rx⟩
  | _ => ⟨4096 + i, false, false, false, false, false, 0, 0, 0, 0, 0⟩

def parseReportsFrom : Nat → List String → List Report
  | _, [] => []
  | i, s :: ss => parseReport i s :: parseReportsFrom (i + 1) ss

def parseReports (s : String) : List Report :=
  if s = "-" then [] else parseReportsFrom 0 (splitOn s ";")

def b01 (b : Bool) : String := if b then "1" else "0"

def showReport (r : Report) : String :=
  s!"{b01 r.act0}{b01 r.act1}{b01 r.act2}{b01 r.act3},{b01 r.dc},{r.t0},{r.t1},{r.t2},{r.t3},{r.rx}"

def showOpt : Option Nat → String
  | none => "-"
  | some n => toString n

/-- downstream by port NUMBER 0,1,2,3 = array slots 0,2,3,1 -/
def showDev (d : Dev) : String :=
  s!"{showOpt d.parent},{d.delay},{showOpt d.ports.a0.downstream},{showOpt d.ports.a2.downstream},{showOpt d.ports.a3.downstream},{showOpt d.ports.a1.downstream}"

def showDevs (ds : List Dev) : String := if ds.isEmpty then "-" else joinWith ";" (ds.map showDev)

def panicClass (w : String) : String :=
  if w = "Invalid topology" then "topology"
  else if w = "no free ports on parent" then "nofree"
  else if w = "Parent assigned port" then "assigned"
  else if w = "unwrap of `self.active_ports().min_by_key(..)` failed" then "entry"
  else if w = "unwrap of `parents.iter_mut().find(..)` failed" then "parentfind"
  else if w = "attempt to add with overflow" ∨ w = "attempt to negate with overflow" then "overflow"
  else "other"

def showErr : Err → String
  | .topology => "err:Topology"
  | .internal => "err:Internal"

def showWrite (w : Write) : String := s!"{w.addr}:{w.reg}:{hexBytes w.data}"
def showWrites (ws : List Write) : String := if ws.isEmpty then "-" else joinWith "," (ws.map showWrite)

def modeOf (s : String) : Mode := if s = "wrap" then .wrapping else .checked

def handle (args : List String) : String :=
  match args with
  | ["spec", tin, _now, tree] =>
    match parseTree 200 (splitOn tree ",") with
    | some (t, []) =>
      let v := visit t 0 (nat! tin)
      let arr := arrivals t (nat! tin)
      joinWith ";" (v.1.map showReport) ++ "|" ++ joinWith "," (arr.1.map toString) ++ "|" ++
        joinWith "," ((trueParents t 0 none).map showOpt) ++ "|" ++
        joinWith ";" ((trueDownstream t 0).map (fun d => s!"{showOpt d.1},{showOpt d.2.1},{showOpt d.2.2.1},{showOpt d.2.2.2}"))
    | _ => "bad-tree"
  | ["assign", mode, reports] =>
    match assignParentRelationships (modeOf mode) (mkDevs (parseReports reports)) with
    | .ok ds => "ok|" ++ showDevs ds
    | .err e => showErr e
    | .panic w => "panic:" ++ panicClass w
  | ["dc", mode, now, reports] =>
    let r := configureDc (modeOf mode) (nat! now) (parseReports reports)
    match r.2 with
    | .ok (ref, ds) => "ok:" ++ showOpt (ref.map (· + 4096)) ++ "|" ++ showDevs ds ++ "|" ++ showWrites r.1
    | .err e => showErr e ++ "|-|" ++ showWrites r.1
    | .panic w => "panic:" ++ panicClass w ++ "|-|" ++ showWrites r.1
  | _ => "bad-case"

end Ec.Drv.C17
