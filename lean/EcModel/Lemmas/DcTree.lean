/-
  Helper lemmas for C17, part 2: the topology part of the loop in isolation (`topoLoop`), its
  independence of receive times (`shape`), and the induction over the physical tree of EcModel/DcSpec.lean.
-/
import EcModel.Lemmas.DcBasic
import EcModel.DcSpec
set_option linter.unusedSimpArgs false
namespace Ec.Dc
open Ec

/-! ### shapes: what the parent search and the port assignment depend on -/

def Port.shape (q : Port) : Port := { q with time := 0 }
def Ports.shape (p : Ports) : Ports := ⟨p.a0.shape, p.a1.shape, p.a2.shape, p.a3.shape⟩
/-- A device with everything the topology code does not look at erased (times, delay, clock). -/
def Dev.shape (d : Dev) : Dev := ⟨d.index, d.ports.shape, d.dc, 0, d.parent, 0⟩

/-- The port that first sees traffic is port 0: it is open and no open port latched earlier. -/
def EntryZero (p : Ports) : Prop :=
  p.a0.active = true ∧ ∀ q ∈ p.toList, q.active = true → p.a0.time ≤ q.time

theorem activePorts_shape (p : Ports) :
    p.shape.activePorts = p.activePorts.map (fun q => (q.1, q.2.shape)) := by
  rcases p with ⟨⟨a0,t0,d0⟩,⟨a1,t1,d1⟩,⟨a2,t2,d2⟩,⟨a3,t3,d3⟩⟩
  cases a0 <;> cases a1 <;> cases a2 <;> cases a3 <;>
    simp [Ports.shape, Port.shape, Ports.activePorts, Ports.indexed]

theorem openPorts_shape (p : Ports) : p.shape.openPorts = p.openPorts := by
  simp [Ports.openPorts, activePorts_shape]

theorem topology_shape (p : Ports) : p.shape.topology = p.topology := by
  simp [Ports.topology, openPorts_shape]

theorem minByTime_head (x : Nat × Port) (xs : List (Nat × Port)) (h : ∀ y ∈ xs, x.2.time ≤ y.2.time) :
    minByTime (x :: xs) = some x := by
  unfold minByTime
  cases hm : minByTime xs with
  | none => rfl
  | some y =>
    have hne : xs ≠ [] := by intro e; subst e; simp [minByTime] at hm
    rcases minByTime_some hne with ⟨e, he, hmem⟩
    rw [hm] at he; cases he
    have := h y hmem
    simp; omega

theorem entryPort_entryZero (p : Ports) (h : EntryZero p) : p.entryPort = .ok (0, p.a0) := by
  rcases h with ⟨ha, ht⟩
  unfold Ports.entryPort
  have hact : p.activePorts = (0, p.a0) :: ([(1, p.a1), (2, p.a2), (3, p.a3)].filter (fun q => q.2.active)) := by
    simp [Ports.activePorts, Ports.indexed, List.filter_cons, ha]
  rw [hact, minByTime_head]
  intro y hy
  rcases List.mem_filter.1 hy with ⟨hy1, hy2⟩
  apply ht y.2 _ (by simpa using hy2)
  simp only [List.mem_cons, List.mem_nil_iff, or_false] at hy1
  rcases hy1 with rfl | rfl | rfl <;> simp [Ports.toList]

theorem entryZero_shape (p : Ports) (h : p.a0.active = true) : EntryZero p.shape := by
  refine ⟨by simpa [Ports.shape, Port.shape] using h, ?_⟩
  intro q _ _
  simp [Ports.shape, Port.shape]

theorem cycleSkipTake_map {α β : Type} (f : α → β) (l : List α) (s n : Nat) :
    cycleSkipTake (l.map f) s n = (cycleSkipTake l s n).map f := by
  unfold cycleSkipTake
  by_cases h : l.length = 0
  · simp [h]
  · simp only [List.length_map, h, if_false]
    rw [List.map_filterMap]
    congr 1
    funext j
    simp [List.getElem?_map]

theorem nextAssignable_shape (p : Ports) (e : Nat) : p.shape.nextAssignable e = p.nextAssignable e := by
  unfold Ports.nextAssignable
  rw [activePorts_shape, cycleSkipTake_map, List.find?_map]
  simp only [Option.map_map]
  congr 1

theorem setDownstream_shape (p : Ports) (i : Nat) (v : Option Nat) :
    (p.setDownstream i v).shape = p.shape.setDownstream i v := by
  unfold Ports.setDownstream
  split <;> rfl

theorem assignNext_shape (p : Ports) (x : Nat) (h : EntryZero p) :
    p.shape.assignNext x = match p.assignNext x with
      | .ok (some (p', i)) => .ok (some (p'.shape, i))
      | .ok none => .ok none
      | .err e => .err e
      | .panic w => .panic w := by
  unfold Ports.assignNext
  rw [entryPort_entryZero p h, entryPort_entryZero p.shape (entryZero_shape p h.1)]
  simp only [nextAssignable_shape]
  cases p.nextAssignable 0 with
  | none => rfl
  | some i => simp [setDownstream_shape]



theorem entryPort_not_err (p : Ports) (e : Err) : p.entryPort ≠ .err e := by
  unfold Ports.entryPort; split <;> simp

theorem isChildOf_not_err (i : Nat) (d : Dev) (e : Err) : isChildOf i d ≠ .err e := by
  unfold isChildOf
  intro h
  split at h
  · cases h
  · rename_i e' he; exact topology_not_err _ _ he
  · cases h

theorem propTimeTo_not_err (p : Ports) (i : Nat) (e : Err) : p.propTimeTo i ≠ .err e := by
  unfold Ports.propTimeTo
  intro h
  split at h
  · cases h
  · rename_i e' he; exact entryPort_not_err _ _ he
  · cases h

theorem sumU32_not_err (m : Mode) (l : List Nat) : ∀ acc e, sumU32 m l acc ≠ .err e := by
  induction l with
  | nil => intro acc e h; simp [sumU32] at h
  | cons x xs ih =>
    intro acc e h
    unfold sumU32 addU32 at h
    split at h
    · rename_i s hs; exact ih _ _ h
    · rename_i e' he
      split at he
      · cases he
      · split at he <;> cases he
    · cases h

theorem intermediate_not_err (m : Mode) (p : Ports) (i : Nat) (e : Err) : p.intermediate m i ≠ .err e := by
  unfold Ports.intermediate; exact sumU32_not_err m _ _ _

theorem configureOffsets_not_err (m : Mode) (sd : Dev) (ps : List Dev) (accum : Nat) (e : Err) :
    configureOffsets m sd ps accum ≠ .err e := by
  intro h
  unfold configureOffsets at h
  repeat' (split at h)
  all_goals first
    | (cases h; done)
    | (rename_i he; first
        | exact topology_not_err _ _ he
        | exact entryPort_not_err _ _ he
        | exact isChildOf_not_err _ _ _ he
        | exact propTimeTo_not_err _ _ _ he
        | exact intermediate_not_err _ _ _ _ he)
    | skip


/-! ### the loop without the delay computation -/

/-- `assignLoop` with `configure_subdevice_offsets` left out (proof device, not a model of code). -/
def topoLoop : List Dev → List Dev → Outcome Err (List Dev)
  | ps, [] => .ok ps
  | ps, sd :: rest =>
    match findParent ps with
    | .panic w => .panic w
    | .err e => .err e
    | .ok pidx =>
      match assignStep ps pidx sd.index with
      | .panic w => .panic w
      | .err e => .err e
      | .ok ps' => topoLoop (ps' ++ [{ sd with parent := pidx }]) rest

theorem shape_index (d : Dev) : d.shape.index = d.index := rfl

theorem hasFreeDownstream_shape (p : Ports) : p.shape.hasFreeDownstream = p.hasFreeDownstream := by
  unfold Ports.hasFreeDownstream
  rw [activePorts_shape, List.filter_map, List.length_map]
  rfl

theorem findJunction_shape (l : List Dev) : findJunction (l.map Dev.shape) = findJunction l := by
  induction l with
  | nil => rfl
  | cons d ds ih =>
    simp only [List.map_cons, findJunction]
    have : d.shape.ports.topology = d.ports.topology := topology_shape d.ports
    have hf : d.shape.ports.hasFreeDownstream = d.ports.hasFreeDownstream := hasFreeDownstream_shape d.ports
    rw [this, hf, ih]
    rfl

theorem findParent_shape (ps : List Dev) : findParent (ps.map Dev.shape) = findParent ps := by
  unfold findParent
  rw [← List.map_reverse]
  cases ps.reverse with
  | nil => rfl
  | cons p rest =>
    simp only [List.map_cons]
    have : p.shape.ports.topology = p.ports.topology := topology_shape p.ports
    rw [this, findJunction_shape]
    rfl

theorem replaceFirst_shape (pi : Nat) (new : Dev) (l : List Dev) :
    (replaceFirst (fun p => p.index == pi) new l).map Dev.shape
      = replaceFirst (fun p => p.index == pi) new.shape (l.map Dev.shape) := by
  induction l with
  | nil => rfl
  | cons d ds ih =>
    unfold replaceFirst
    simp only [List.map_cons, shape_index]
    by_cases c : (d.index == pi) = true
    · simp [c]
    · simp [c, ih]

theorem find_shape (pi : Nat) (l : List Dev) :
    (l.map Dev.shape).find? (fun p => p.index == pi) = (l.find? (fun p => p.index == pi)).map Dev.shape := by
  induction l with
  | nil => rfl
  | cons d ds ih =>
    simp only [List.map_cons, List.find?, shape_index]
    cases (d.index == pi) with
    | true => rfl
    | false => exact ih

def mapOutcome {α β : Type} (f : α → β) : Outcome Err α → Outcome Err β
  | .ok a => .ok (f a)
  | .err e => .err e
  | .panic w => .panic w

theorem assignOnParent_shape (ps : List Dev) (pi si : Nat) (hz : ∀ d ∈ ps, EntryZero d.ports) :
    assignOnParent (ps.map Dev.shape) pi si = mapOutcome (List.map Dev.shape) (assignOnParent ps pi si) := by
  unfold assignOnParent
  rw [find_shape]
  cases hf : ps.find? (fun p => p.index == pi) with
  | none => rfl
  | some par =>
    have hpz := hz par (List.mem_of_find?_eq_some hf)
    simp only [Option.map_some]
    by_cases h0 : si = 0
    · simp [h0, mapOutcome]
    · simp only [h0, if_false]
      have : par.shape.ports = par.ports.shape := rfl
      rw [this, assignNext_shape par.ports si hpz]
      cases par.ports.assignNext si with
      | panic w => rfl
      | err e => rfl
      | ok r =>
        cases r with
        | none => rfl
        | some r =>
          rcases r with ⟨p', i⟩
          simp only [mapOutcome, replaceFirst_shape]
          rfl

theorem assignStep_shape (ps : List Dev) (pidx : Option Nat) (si : Nat) (hz : ∀ d ∈ ps, EntryZero d.ports) :
    assignStep (ps.map Dev.shape) pidx si = mapOutcome (List.map Dev.shape) (assignStep ps pidx si) := by
  cases pidx with
  | none => rfl
  | some pi => exact assignOnParent_shape ps pi si hz

def Good2 (d : Dev) : Prop := Good d ∧ EntryZero d.ports

theorem entryZero_setDownstream (p : Ports) (i : Nat) (v : Option Nat) (h : EntryZero p) :
    EntryZero (p.setDownstream i v) := by
  unfold Ports.setDownstream
  split <;> simpa [EntryZero, Ports.toList] using h

theorem assignStep_facts (ps : List Dev) (pidx : Option Nat) (sd : Dev) (ps' : List Dev)
    (hps : ∀ d ∈ ps, Good2 d) (ha : assignStep ps pidx sd.index = .ok ps') :
    ps'.length = ps.length ∧ (∀ d ∈ ps', Good2 d) ∧
    (∀ par, ({ sd with parent := pidx } : Dev).parent.bind (fun pi => ps'.find? (fun p => p.index == pi)) = some par →
        ∃ k, par.ports.assignedTo sd.index = some k) := by
  cases pidx with
  | none =>
    simp [assignStep] at ha; subst ha
    exact ⟨rfl, hps, by simp⟩
  | some pi =>
    simp only [assignStep] at ha
    rcases assignOnParent_ok ps pi sd.index ps' ha with ⟨par, k, hfind, _, hk, hact, hps'⟩
    have hparmem : par ∈ ps := List.mem_of_find?_eq_some hfind
    refine ⟨by rw [hps']; exact replaceFirst_length _ _ _, ?_, ?_⟩
    · intro d hd
      rw [hps'] at hd
      rcases replaceFirst_mem _ _ _ d hd with rfl | hd
      · exact ⟨good_setDownstream par k _ (hps par hparmem).1, entryZero_setDownstream _ _ _ (hps par hparmem).2⟩
      · exact hps d hd
    · intro p hp
      have hfindnew : ps'.find? (fun p => p.index == pi) =
          some { par with ports := par.ports.setDownstream k (some sd.index) } := by
        rw [hps']
        exact replaceFirst_find _ _ par ps hfind (by
          have := List.find?_some hfind
          simpa using this)
      simp only [Option.bind_some, hfindnew] at hp
      cases hp
      rcases assignedTo_setDownstream par.ports k sd.index hk hact with ⟨k', hk', _⟩
      exact ⟨k', hk'⟩

theorem assignLoop_of_topo (m : Mode) (rest : List Dev) :
    ∀ (ps : List Dev) (accum : Nat) (out' : List Dev),
    (∀ d ∈ ps, Good2 d) → (∀ d ∈ rest, Good2 d) →
    topoLoop (ps.map Dev.shape) (rest.map Dev.shape) = .ok out' →
    ∃ out, assignLoop m ps accum rest = .ok out ∧ out.map Dev.shape = out' := by
  induction rest with
  | nil =>
    intro ps accum out' _ _ h
    simp [topoLoop] at h
    exact ⟨ps, rfl, h⟩
  | cons sd rest ih =>
    intro ps accum out' hps hrest h
    have hsd := hrest sd (List.mem_cons_self ..)
    have hrest' : ∀ d ∈ rest, Good2 d := fun d hd => hrest d (List.mem_cons_of_mem _ hd)
    simp only [List.map_cons, topoLoop, findParent_shape, shape_index] at h
    unfold assignLoop
    cases hfp : findParent ps with
    | panic w => rw [hfp] at h; simp at h
    | err e => rw [hfp] at h; simp at h
    | ok pidx =>
      rw [hfp] at h
      simp only at h ⊢
      rw [assignStep_shape ps pidx sd.index (fun d hd => (hps d hd).2)] at h
      cases ha : assignStep ps pidx sd.index with
      | panic w => rw [ha] at h; simp [mapOutcome] at h
      | err e => rw [ha] at h; simp [mapOutcome] at h
      | ok ps' =>
        rw [ha] at h
        simp only [mapOutcome] at h ⊢
        rcases assignStep_facts ps pidx sd ps' hps ha with ⟨_, hg', hpar⟩
        by_cases hdc : sd.dc = true
        · rw [if_pos hdc]
          cases hc : configureOffsets m { sd with parent := pidx } ps' accum with
          | panic w =>
            exact absurd hc (configureOffsets_no_panic m { sd with parent := pidx } ps' accum hsd.1
              (fun d hd => (hg' d hd).1) hpar w)
          | err e => exact absurd hc (configureOffsets_not_err _ _ _ _ _)
          | ok r =>
            rcases r with ⟨sd', accum'⟩
            simp only
            rcases configureOffsets_ok_fields _ _ _ _ _ _ hc with ⟨f1, f2, _, f4, f5⟩
            have hshape : sd'.shape = ({ sd with parent := pidx } : Dev).shape := by
              simp [Dev.shape, f1, f2, f4, f5]
            apply ih (ps' ++ [sd']) accum' out'
            · intro d hd
              rcases List.mem_append.1 hd with hd | hd
              · exact hg' d hd
              · simp at hd; subst hd
                exact ⟨⟨by rw [f4]; exact hsd.1.1, by rw [f4]; exact hsd.1.2⟩, by rw [f4]; exact hsd.2⟩
            · exact hrest'
            · rw [List.map_append, List.map_singleton, hshape]; exact h
        · rw [if_neg hdc]
          apply ih (ps' ++ [({ sd with parent := pidx } : Dev)]) accum out'
          · intro d hd
            rcases List.mem_append.1 hd with hd | hd
            · exact hg' d hd
            · simp at hd; subst hd; exact hsd
          · exact hrest'
          · rw [List.map_append, List.map_singleton]; exact h


theorem range4 : List.range 4 = [0, 1, 2, 3] := by decide

/-- Slot `k ∈ {1,2,3}` is the first open downstream slot that is still free. -/
def FirstFree (P : Ports) (k : Nat) : Prop :=
  (k = 1 ∧ P.a1.active = true ∧ P.a1.downstream = none) ∨
  (k = 2 ∧ P.a2.active = true ∧ P.a2.downstream = none ∧ (P.a1.active = true → P.a1.downstream ≠ none)) ∨
  (k = 3 ∧ P.a3.active = true ∧ P.a3.downstream = none ∧ (P.a1.active = true → P.a1.downstream ≠ none) ∧
     (P.a2.active = true → P.a2.downstream ≠ none))

theorem nextAssignable_firstFree (P : Ports) (k : Nat) (h0 : P.a0.active = true) (h : FirstFree P k) :
    P.nextAssignable 0 = some k := by
  rcases P with ⟨⟨a0,t0,d0⟩,⟨a1,t1,d1⟩,⟨a2,t2,d2⟩,⟨a3,t3,d3⟩⟩
  simp only at h0
  subst h0
  unfold FirstFree at h
  simp only at h
  rcases h with ⟨rfl, rfl, rfl⟩ | ⟨rfl, rfl, rfl, h1⟩ | ⟨rfl, rfl, rfl, h1, h2⟩
  · cases a2 <;> cases a3 <;>
      simp [Ports.nextAssignable, cycleSkipTake, Ports.activePorts, Ports.indexed, range4]
  · cases a1 <;> cases a3 <;> cases d1 <;>
      simp [Ports.nextAssignable, cycleSkipTake, Ports.activePorts, Ports.indexed, range4] at h1 ⊢
  · cases a1 <;> cases a2 <;> cases d1 <;> cases d2 <;>
      simp [Ports.nextAssignable, cycleSkipTake, Ports.activePorts, Ports.indexed, range4] at h1 h2 ⊢

open Ec.DcSpec
/-! ### the shape of a physical tree and the expected result -/

def rootPorts (c3 c1 c2 : Tree) (d1 d2 d3 : Option Nat) : Ports :=
  ⟨⟨true, 0, none⟩, ⟨c3.isNode, 0, d1⟩, ⟨c1.isNode, 0, d2⟩, ⟨c2.isNode, 0, d3⟩⟩

/-- Shapes of the devices of a tree in frame order, discovery positions from `b`. -/
def shapeOf : Tree → Nat → List Dev
  | .none, _ => []
  | .node p c3 c1 c2, b =>
    ⟨b, rootPorts c3 c1 c2 none none none, p.dc != 0, 0, none, 0⟩ ::
      (shapeOf c3 (b + 1) ++ shapeOf c1 (b + 1 + c3.size) ++ shapeOf c2 (b + 1 + c3.size + c1.size))

/-- What the topology code should produce: parents and downstream ports as wired. -/
def expected : Tree → Nat → Option Nat → List Dev
  | .none, _, _ => []
  | .node p c3 c1 c2, b, par =>
    ⟨b, rootPorts c3 c1 c2 (if c3.isNode then some (b + 1) else none)
          (if c1.isNode then some (b + 1 + c3.size) else none)
          (if c2.isNode then some (b + 1 + c3.size + c1.size) else none), p.dc != 0, 0, par, 0⟩ ::
      (expected c3 (b + 1) (some b) ++ expected c1 (b + 1 + c3.size) (some b)
        ++ expected c2 (b + 1 + c3.size + c1.size) (some b))

theorem shapeOf_length (T : Tree) : ∀ b, (shapeOf T b).length = T.size := by
  induction T with
  | none => intro b; rfl
  | node p c3 c1 c2 ih3 ih1 ih2 =>
    intro b; simp [shapeOf, Tree.size, ih3, ih1, ih2]; omega

theorem expected_length (T : Tree) : ∀ b par, (expected T b par).length = T.size := by
  induction T with
  | none => intro b par; rfl
  | node p c3 c1 c2 ih3 ih1 ih2 =>
    intro b par; simp [expected, Tree.size, ih3, ih1, ih2]; omega

theorem expected_index (T : Tree) : ∀ b par, ∀ d ∈ expected T b par, b ≤ d.index ∧ d.index < b + T.size := by
  induction T with
  | none => intro b par d hd; simp [expected] at hd
  | node p c3 c1 c2 ih3 ih1 ih2 =>
    intro b par d hd
    simp only [expected, List.mem_cons, List.mem_append] at hd
    simp only [Tree.size]
    rcases hd with rfl | (hd | hd) | hd
    · simp; omega
    · have := ih3 _ _ d hd; omega
    · have := ih1 _ _ d hd; omega
    · have := ih2 _ _ d hd; omega

/-- Topology of a device depends on how many downstream ports are plugged. -/
theorem rootPorts_open (c3 c1 c2 : Tree) (d1 d2 d3 : Option Nat) :
    (rootPorts c3 c1 c2 d1 d2 d3).openPorts = 1 + c3.isNode.toNat + c1.isNode.toNat + c2.isNode.toNat := by
  unfold rootPorts
  generalize c3.isNode = x3
  generalize c1.isNode = x1
  generalize c2.isNode = x2
  cases x3 <;> cases x1 <;> cases x2 <;>
    simp [Ports.openPorts, Ports.activePorts, Ports.indexed]

theorem rootPorts_topology (c3 c1 c2 : Tree) (d1 d2 d3 : Option Nat) :
    ∃ t, (rootPorts c3 c1 c2 d1 d2 d3).topology = .ok t ∧
      (2 ≤ 1 + c3.isNode.toNat + c1.isNode.toNat + c2.isNode.toNat → t ≠ .lineEnd) ∧
      (3 ≤ 1 + c3.isNode.toNat + c1.isNode.toNat + c2.isNode.toNat → t.isJunction = true) := by
  unfold Ports.topology
  rw [rootPorts_open]
  generalize c3.isNode = x3
  generalize c1.isNode = x1
  generalize c2.isNode = x2
  cases x3 <;> cases x1 <;> cases x2 <;> simp [Topology.isJunction]

/-- The junction search of `find_subdevice_parent` walks past such a device: it is not a junction,
    or none of its downstream ports is free any more. -/
def Closed (d : Dev) : Prop :=
  ∃ t, d.ports.topology = .ok t ∧ (t.isJunction && d.ports.hasFreeDownstream) = false

/-- A device all of whose plugged downstream ports carry their device has no free downstream port:
    only the entry port is unassigned. -/
theorem rootPorts_full (c3 c1 c2 : Tree) (v3 v1 v2 : Nat) :
    (rootPorts c3 c1 c2 (if c3.isNode then some v3 else none) (if c1.isNode then some v1 else none)
      (if c2.isNode then some v2 else none)).hasFreeDownstream = false := by
  unfold rootPorts
  generalize c3.isNode = x3
  generalize c1.isNode = x1
  generalize c2.isNode = x2
  cases x3 <;> cases x1 <;> cases x2 <;>
    simp [Ports.hasFreeDownstream, Ports.activePorts, Ports.indexed]

/-- While the branch on port 1 (resp. 2) is still to come, the device has a free downstream port. -/
theorem rootPorts_free1 (c3 c1 c2 : Tree) (d1 : Option Nat) (h1 : c1.isNode = true) :
    (rootPorts c3 c1 c2 d1 none none).hasFreeDownstream = true := by
  unfold rootPorts
  rw [h1]
  generalize c3.isNode = x3
  generalize c2.isNode = x2
  cases x3 <;> cases x2 <;> cases d1 <;>
    simp [Ports.hasFreeDownstream, Ports.activePorts, Ports.indexed]

theorem rootPorts_free2 (c3 c1 c2 : Tree) (d1 d2 : Option Nat) (h2 : c2.isNode = true) :
    (rootPorts c3 c1 c2 d1 d2 none).hasFreeDownstream = true := by
  unfold rootPorts
  rw [h2]
  generalize c3.isNode = x3
  generalize c1.isNode = x1
  cases x3 <;> cases x1 <;> cases d1 <;> cases d2 <;>
    simp [Ports.hasFreeDownstream, Ports.activePorts, Ports.indexed]

/-- Every device of a COMPLETELY processed subtree — whatever its shape — is closed: the junctions
    among them are exactly those that are not ancestors of the next device's attachment point. -/
theorem expected_closed (T : Tree) : ∀ b par, ∀ d ∈ expected T b par, Closed d := by
  induction T with
  | none => intro b par d hd; simp [expected] at hd
  | node p c3 c1 c2 ih3 ih1 ih2 =>
    intro b par d hd
    simp only [expected, List.mem_cons, List.mem_append] at hd
    rcases hd with rfl | (hd | hd) | hd
    · rcases rootPorts_topology c3 c1 c2 (if c3.isNode then some (b + 1) else none)
        (if c1.isNode then some (b + 1 + c3.size) else none)
        (if c2.isNode then some (b + 1 + c3.size + c1.size) else none) with ⟨t, ht, _, _⟩
      refine ⟨t, ht, ?_⟩
      simp only [rootPorts_full, Bool.and_false]
    · exact ih3 _ _ d hd
    · exact ih1 _ _ d hd
    · exact ih2 _ _ d hd

/-- The last device in frame order of a non-empty tree is a line end. -/
theorem expected_last (T : Tree) : T.isNode = true → ∀ b par, ∃ d, (expected T b par).getLast? = some d ∧
    d.ports.topology = .ok .lineEnd := by
  induction T with
  | none => intro h; simp [Tree.isNode] at h
  | node p c3 c1 c2 ih3 ih1 ih2 =>
    intro _ b par
    simp only [expected]
    by_cases h2 : c2.isNode = true
    · rcases ih2 h2 (b + 1 + c3.size + c1.size) (some b) with ⟨d, hd, ht⟩
      refine ⟨d, ?_, ht⟩
      have hne : expected c2 (b + 1 + c3.size + c1.size) (some b) ≠ [] := by
        intro e; rw [e] at hd; simp at hd
      rw [List.getLast?_cons_of_ne_nil (by simp [hne]), List.getLast?_append, hd]
      rfl
    · have e2 : c2 = .none := by cases c2 <;> simp_all [Tree.isNode]
      subst e2
      by_cases h1 : c1.isNode = true
      · rcases ih1 h1 (b + 1 + c3.size) (some b) with ⟨d, hd, ht⟩
        refine ⟨d, ?_, ht⟩
        have hne : expected c1 (b + 1 + c3.size) (some b) ≠ [] := by
          intro e; rw [e] at hd; simp at hd
        simp only [expected, List.append_nil]
        rw [List.getLast?_cons_of_ne_nil (by simp [hne]), List.getLast?_append, hd]
        rfl
      · have e1 : c1 = .none := by cases c1 <;> simp_all [Tree.isNode]
        subst e1
        by_cases h3 : c3.isNode = true
        · rcases ih3 h3 (b + 1) (some b) with ⟨d, hd, ht⟩
          refine ⟨d, ?_, ht⟩
          have hne : expected c3 (b + 1) (some b) ≠ [] := by
            intro e; rw [e] at hd; simp at hd
          simp only [expected, List.append_nil]
          rw [List.getLast?_cons_of_ne_nil hne]
          exact hd
        · have e3 : c3 = .none := by cases c3 <;> simp_all [Tree.isNode]
          subst e3
          refine ⟨⟨b, rootPorts .none .none .none none none none, p.dc != 0, 0, par, 0⟩, by simp [expected, Tree.isNode], ?_⟩
          simp [Ports.topology, rootPorts_open, Tree.isNode]


theorem findJunction_skip (l more : List Dev) (h : ∀ d ∈ l, Closed d) :
    findJunction (l ++ more) = findJunction more := by
  induction l with
  | nil => rfl
  | cons d ds ih =>
    have ih' := ih (fun x hx => h x (List.mem_cons_of_mem _ hx))
    rcases h d (List.mem_cons_self ..) with ⟨t, ht, hc⟩
    simp only [List.cons_append, findJunction, ht, hc, ih']
    simp

theorem findParent_last_nonleaf (pre : List Dev) (nd : Dev) (t : Topology)
    (ht : nd.ports.topology = .ok t) (hne : t ≠ .lineEnd) :
    findParent (pre ++ [nd]) = .ok (some nd.index) := by
  unfold findParent
  simp only [List.reverse_append, List.reverse_cons, List.reverse_nil, List.nil_append, List.cons_append]
  rw [ht]
  cases t <;> first | rfl | exact absurd rfl hne

theorem findParent_after_closed (pre : List Dev) (nd : Dev) (D : List Dev) (last : Dev) (t : Topology)
    (hlast : D.getLast? = some last) (hl : last.ports.topology = .ok .lineEnd)
    (hD : ∀ d ∈ D, Closed d) (ht : nd.ports.topology = .ok t)
    (hj : (t.isJunction && nd.ports.hasFreeDownstream) = true) :
    findParent (pre ++ [nd] ++ D) = .ok (some nd.index) := by
  rcases List.getLast?_eq_some_iff.1 hlast with ⟨D', rfl⟩
  unfold findParent
  have hrev : (pre ++ [nd] ++ (D' ++ [last])).reverse = last :: (D'.reverse ++ (nd :: pre.reverse)) := by
    simp [List.reverse_append]
  rw [hrev]
  simp only [hl]
  rw [findJunction_skip D'.reverse _ (fun d hd => hD d (by
    have := List.mem_reverse.1 hd
    exact List.mem_append_left _ this))]
  simp [findJunction, ht, hj]

/-- Discovery positions below the length: what makes `find(index == b)` skip the prefix. -/
def Below (l : List Dev) : Prop := ∀ x ∈ l, x.index < l.length

theorem replaceFirst_skip (pi : Nat) (new nd : Dev) (pre D : List Dev)
    (hpre : ∀ x ∈ pre, x.index ≠ pi) (hnd : nd.index = pi) :
    replaceFirst (fun p => p.index == pi) new (pre ++ [nd] ++ D) = pre ++ [new] ++ D := by
  induction pre with
  | nil => simp [replaceFirst, hnd]
  | cons x xs ih =>
    have hx : (x.index == pi) = false := by simpa using hpre x (List.mem_cons_self ..)
    simp only [List.cons_append, replaceFirst, hx]
    have := ih (fun y hy => hpre y (List.mem_cons_of_mem _ hy))
    simp only [List.append_assoc, List.cons_append, List.nil_append] at this ⊢
    simp [this]

theorem find_skip (pi : Nat) (nd : Dev) (pre D : List Dev)
    (hpre : ∀ x ∈ pre, x.index ≠ pi) (hnd : nd.index = pi) :
    (pre ++ [nd] ++ D).find? (fun p => p.index == pi) = some nd := by
  induction pre with
  | nil => simp [List.find?, hnd]
  | cons x xs ih =>
    have hx : (x.index == pi) = false := by simpa using hpre x (List.mem_cons_self ..)
    simp only [List.cons_append, List.find?, hx]
    exact ih (fun y hy => hpre y (List.mem_cons_of_mem _ hy))

/-- Attaching the next device to the junction/neighbour `nd` whose first free downstream slot is `k`. -/
theorem assignOnParent_phase (pre D : List Dev) (nd : Dev) (k cb : Nat)
    (hpre : ∀ x ∈ pre, x.index ≠ nd.index) (hcb : cb ≠ 0)
    (hz : EntryZero nd.ports) (hk : FirstFree nd.ports k) :
    assignOnParent (pre ++ [nd] ++ D) nd.index cb
      = .ok (pre ++ [{ nd with ports := nd.ports.setDownstream k (some cb) }] ++ D) := by
  unfold assignOnParent
  rw [find_skip nd.index nd pre D hpre rfl]
  simp only [hcb, if_false]
  unfold Ports.assignNext
  rw [entryPort_entryZero _ hz]
  simp only
  rw [nextAssignable_firstFree _ k hz.1 hk]
  simp only
  rw [replaceFirst_skip nd.index _ nd pre D hpre rfl]

theorem topoLoop_step (ps : List Dev) (b : Nat) (sd : Dev) (rest ps' : List Dev)
    (hfp : findParent ps = .ok (some b)) (ha : assignOnParent ps b sd.index = .ok ps') :
    topoLoop ps (sd :: rest) = topoLoop (ps' ++ [{ sd with parent := some b }]) rest := by
  simp only [topoLoop, hfp, assignStep, ha]


/-! ### discovery positions -/

theorem indexed_append (l1 l2 : List Dev) : ∀ base, Indexed base (l1 ++ l2) ↔ Indexed base l1 ∧ Indexed (base + l1.length) l2 := by
  induction l1 with
  | nil => intro base; simp [Indexed]
  | cons d ds ih =>
    intro base
    simp only [List.cons_append, Indexed, ih, List.length_cons]
    have : base + 1 + ds.length = base + (ds.length + 1) := by omega
    rw [this]
    exact and_assoc.symm

theorem indexed_mem (l : List Dev) : ∀ base, Indexed base l → ∀ x ∈ l, base ≤ x.index ∧ x.index < base + l.length := by
  induction l with
  | nil => intro base _ x hx; simp at hx
  | cons d ds ih =>
    intro base h x hx
    rcases h with ⟨h1, h2⟩
    simp only [List.length_cons]
    rcases List.mem_cons.1 hx with rfl | hx
    · omega
    · have := ih (base + 1) h2 x hx; omega

theorem expected_indexed (T : Tree) : ∀ b par, Indexed b (expected T b par) := by
  induction T with
  | none => intro b par; simp [expected, Indexed]
  | node p c3 c1 c2 ih3 ih1 ih2 =>
    intro b par
    simp only [expected, Indexed, indexed_append, expected_length, true_and]
    refine ⟨⟨ih3 _ _, ?_⟩, ?_⟩
    · exact ih1 _ _
    · have : b + 1 + (expected c3 (b + 1) (some b) ++ expected c1 (b + 1 + c3.size) (some b)).length
          = b + 1 + c3.size + c1.size := by
        simp [expected_length]; omega
      rw [this]; exact ih2 _ _

/-! ### the root of a subtree and its descendants -/

def rootDevOf : Tree → Nat → Option Nat → Dev
  | .none, b, par => ⟨b, rootPorts .none .none .none none none none, false, 0, par, 0⟩
  | .node p c3 c1 c2, b, par => ⟨b, rootPorts c3 c1 c2 none none none, p.dc != 0, 0, par, 0⟩

def kidsOf : Tree → Nat → List Dev
  | .none, _ => []
  | .node _ c3 c1 c2, b =>
    shapeOf c3 (b + 1) ++ shapeOf c1 (b + 1 + c3.size) ++ shapeOf c2 (b + 1 + c3.size + c1.size)

theorem shapeOf_node (T : Tree) (h : T.isNode = true) (b : Nat) :
    shapeOf T b = rootDevOf T b none :: kidsOf T b := by
  cases T with
  | none => simp [Tree.isNode] at h
  | node p c3 c1 c2 => rfl

theorem rootDevOf_parent (T : Tree) (b : Nat) (par : Option Nat) :
    ({ rootDevOf T b none with parent := par } : Dev) = rootDevOf T b par := by
  cases T <;> rfl

theorem rootDevOf_index (T : Tree) (b : Nat) (par : Option Nat) : (rootDevOf T b par).index = b := by
  cases T <;> rfl

/-- The statement proved by induction over the tree (any shape): once the root of a subtree has been
    appended to ANY processed prefix (with its parent recorded), processing all its descendants
    yields exactly the wiring of the subtree and leaves the prefix untouched. -/
def Processes (T : Tree) : Prop :=
  ∀ (pre rest : List Dev) (par : Option Nat), Indexed 0 pre →
    topoLoop (pre ++ [rootDevOf T pre.length par]) (kidsOf T pre.length ++ rest)
      = topoLoop (pre ++ expected T pre.length par) rest

theorem child_phase (c : Tree) (hc : c.isNode = true) (ihc : Processes c)
    (pre D : List Dev) (nd : Dev) (k cb : Nat) (rest : List Dev)
    (hidx : Indexed 0 (pre ++ [nd] ++ D)) (hlen : (pre ++ [nd] ++ D).length = cb)
    (hz : EntryZero nd.ports) (hk : FirstFree nd.ports k)
    (hfp : findParent (pre ++ [nd] ++ D) = .ok (some nd.index)) :
    topoLoop (pre ++ [nd] ++ D) (shapeOf c cb ++ rest)
      = topoLoop (pre ++ [{ nd with ports := nd.ports.setDownstream k (some cb) }] ++ D
                  ++ expected c cb (some nd.index)) rest := by
  have h1 := (indexed_append (pre ++ [nd]) D 0).1 hidx
  have h2 := (indexed_append pre [nd] 0).1 h1.1
  have hndi : nd.index = pre.length := by
    have := h2.2; simp [Indexed] at this; exact this
  have hpre : ∀ x ∈ pre, x.index ≠ nd.index := by
    intro x hx
    have := indexed_mem pre 0 h2.1 x hx
    omega
  have hcb0 : cb ≠ 0 := by rw [← hlen]; simp
  rw [shapeOf_node c hc cb, List.cons_append]
  rw [topoLoop_step _ nd.index _ _ _ hfp
    (by rw [rootDevOf_index]; exact assignOnParent_phase pre D nd k cb hpre hcb0 hz hk)]
  rw [rootDevOf_parent]
  -- the prefix with the updated neighbour is still indexed and has length `cb`
  have hidx' : Indexed 0 (pre ++ [{ nd with ports := nd.ports.setDownstream k (some cb) }] ++ D) := by
    rw [indexed_append, indexed_append] at hidx ⊢
    exact ⟨⟨hidx.1.1, by simpa [Indexed] using hidx.1.2⟩, by simpa using hidx.2⟩
  have hlen' : (pre ++ [{ nd with ports := nd.ports.setDownstream k (some cb) }] ++ D).length = cb := by
    rw [← hlen]; simp
  have := ihc (pre ++ [{ nd with ports := nd.ports.setDownstream k (some cb) }] ++ D) rest (some nd.index) hidx'
  rw [hlen'] at this
  exact this


theorem tree_none_of_not_node (T : Tree) (h : ¬ T.isNode = true) : T = .none := by
  cases T with
  | none => rfl
  | node _ _ _ _ => simp [Tree.isNode] at h

theorem rootPorts_entryZero (c3 c1 c2 : Tree) (d1 d2 d3 : Option Nat) : EntryZero (rootPorts c3 c1 c2 d1 d2 d3) := by
  refine ⟨rfl, ?_⟩
  intro q _ _
  simp [rootPorts]

/-- Parent search for the next child of `nd`, after the complete earlier branches `D`. -/
theorem findParent_phase (pre D : List Dev) (nd : Dev) (t : Topology)
    (ht : nd.ports.topology = .ok t) (hD : ∀ d ∈ D, Closed d)
    (h0 : D = [] → t ≠ .lineEnd)
    (h1 : D ≠ [] → (t.isJunction && nd.ports.hasFreeDownstream) = true ∧
      ∃ last, D.getLast? = some last ∧ last.ports.topology = .ok .lineEnd) :
    findParent (pre ++ [nd] ++ D) = .ok (some nd.index) := by
  by_cases hd : D = []
  · subst hd
    simpa using findParent_last_nonleaf pre nd t ht (h0 rfl)
  · rcases h1 hd with ⟨hj, last, hl, hlt⟩
    exact findParent_after_closed pre nd D last t hl hlt hD ht hj

theorem getLast_append_right {α : Type} (l1 l2 : List α) (x : α) (h : l2.getLast? = some x) :
    (l1 ++ l2).getLast? = some x := by
  rw [List.getLast?_append, h]; rfl

theorem process_node (p : Params) (c3 c1 c2 : Tree)
    (ih3 : c3.isNode = true → Processes c3)
    (ih1 : c1.isNode = true → Processes c1)
    (ih2 : c2.isNode = true → Processes c2) : Processes (.node p c3 c1 c2) := by
  intro pre rest par hidx
  -- abbreviations
  generalize hb : pre.length = b
  let dc := p.dc != 0
  let e3 : Option Nat := if c3.isNode then some (b + 1) else none
  let e1 : Option Nat := if c1.isNode then some (b + 1 + c3.size) else none
  let e2 : Option Nat := if c2.isNode then some (b + 1 + c3.size + c1.size) else none
  let nd0 : Dev := ⟨b, rootPorts c3 c1 c2 none none none, dc, 0, par, 0⟩
  let nd1 : Dev := ⟨b, rootPorts c3 c1 c2 e3 none none, dc, 0, par, 0⟩
  let nd2 : Dev := ⟨b, rootPorts c3 c1 c2 e3 e1 none, dc, 0, par, 0⟩
  let nd3 : Dev := ⟨b, rootPorts c3 c1 c2 e3 e1 e2, dc, 0, par, 0⟩
  let D1 := expected c3 (b + 1) (some b)
  let D2 := D1 ++ expected c1 (b + 1 + c3.size) (some b)
  let D3 := D2 ++ expected c2 (b + 1 + c3.size + c1.size) (some b)
  let R2 := shapeOf c2 (b + 1 + c3.size + c1.size) ++ rest
  let R1 := shapeOf c1 (b + 1 + c3.size) ++ R2
  have hD1len : D1.length = c3.size := expected_length _ _ _
  have hD2len : D2.length = c3.size + c1.size := by simp [D2, D1, expected_length]
  have hidxnd : ∀ (nd : Dev), nd.index = b → ∀ D, Indexed (b + 1) D → Indexed 0 (pre ++ [nd] ++ D) := by
    intro nd hnd D hD
    rw [indexed_append, indexed_append]
    refine ⟨⟨hidx, by simp [Indexed, hnd, hb]⟩, by simpa [hb] using hD⟩
  have hD1idx : Indexed (b + 1) D1 := expected_indexed _ _ _
  have hD2idx : Indexed (b + 1) D2 := by
    rw [indexed_append]; exact ⟨hD1idx, by rw [hD1len]; exact expected_indexed _ _ _⟩
  -- the completed branches, whatever their shape, contain no junction with a free downstream port
  have hclosed3 : ∀ d ∈ D1, Closed d := fun d hd => expected_closed c3 _ _ d hd
  have hclosed1 : ∀ d ∈ expected c1 (b + 1 + c3.size) (some b), Closed d :=
    fun d hd => expected_closed c1 _ _ d hd
  have hz : ∀ d1 d2 d3, EntryZero (rootPorts c3 c1 c2 d1 d2 d3) := rootPorts_entryZero c3 c1 c2
  -- phase 1: the branch on port 3
  have P1 : topoLoop (pre ++ [nd0]) (shapeOf c3 (b + 1) ++ R1) = topoLoop (pre ++ [nd1] ++ D1) R1 := by
    by_cases h3 : c3.isNode = true
    · rcases rootPorts_topology c3 c1 c2 none none none with ⟨t, ht, htl, _⟩
      have := child_phase c3 h3 (ih3 h3) pre [] nd0 1 (b + 1) R1
        (hidxnd nd0 rfl [] (by simp [Indexed])) (by simp [hb]) (hz _ _ _)
        (Or.inl ⟨rfl, h3, rfl⟩)
        (findParent_phase pre [] nd0 t ht (by simp) (fun _ => htl (by simp [h3] <;> omega)) (fun h => absurd rfl h))
      have e : ({ nd0 with ports := nd0.ports.setDownstream 1 (some (b + 1)) } : Dev) = nd1 := by
        simp [nd0, nd1, e3, h3, rootPorts, Ports.setDownstream]
      rw [e] at this
      simpa [D1] using this
    · have e : c3 = .none := tree_none_of_not_node c3 h3
      have e1 : nd1 = nd0 := by simp [nd0, nd1, e3, h3]
      simp [D1, e1, e, shapeOf, expected]
  -- phase 2: the branch on port 1
  have P2 : topoLoop (pre ++ [nd1] ++ D1) (shapeOf c1 (b + 1 + c3.size) ++ R2) = topoLoop (pre ++ [nd2] ++ D2) R2 := by
    by_cases h1 : c1.isNode = true
    · rcases rootPorts_topology c3 c1 c2 e3 none none with ⟨t, ht, htl, htj⟩
      have hfp : findParent (pre ++ [nd1] ++ D1) = .ok (some nd1.index) := by
        apply findParent_phase pre D1 nd1 t ht hclosed3
        · intro _; exact htl (by simp [h1] <;> omega)
        · intro hne
          have h3 : c3.isNode = true := by
            apply Classical.byContradiction
            intro h3
            exact hne (by simp [D1, tree_none_of_not_node c3 h3, expected])
          refine ⟨by rw [htj (by simp [h1, h3]), rootPorts_free1 c3 c1 c2 e3 h1]; rfl, ?_⟩
          rcases expected_last c3 h3 (b + 1) (some b) with ⟨last, hl, hlt⟩
          exact ⟨last, hl, hlt⟩
      have := child_phase c1 h1 (ih1 h1) pre D1 nd1 2 (b + 1 + c3.size) R2
        (hidxnd nd1 rfl D1 hD1idx) (by simp [hb, hD1len] <;> omega) (hz _ _ _)
        (Or.inr (Or.inl ⟨rfl, h1, rfl, fun h3 => by
          have h3' : c3.isNode = true := h3
          simp [nd1, rootPorts, e3, h3']⟩)) hfp
      have e : ({ nd1 with ports := nd1.ports.setDownstream 2 (some (b + 1 + c3.size)) } : Dev) = nd2 := by
        simp [nd1, nd2, e1, h1, rootPorts, Ports.setDownstream]
      rw [e] at this
      simpa [D2] using this
    · have e : c1 = .none := tree_none_of_not_node c1 h1
      have e1' : nd2 = nd1 := by simp [nd1, nd2, e1, h1]
      simp [D2, e1', e, shapeOf, expected]
  -- phase 3: the branch on port 2
  have P3 : topoLoop (pre ++ [nd2] ++ D2) (shapeOf c2 (b + 1 + c3.size + c1.size) ++ rest)
      = topoLoop (pre ++ [nd3] ++ D3) rest := by
    by_cases h2 : c2.isNode = true
    · rcases rootPorts_topology c3 c1 c2 e3 e1 none with ⟨t, ht, htl, htj⟩
      have hfp : findParent (pre ++ [nd2] ++ D2) = .ok (some nd2.index) := by
        apply findParent_phase pre D2 nd2 t ht
        · intro d hd
          rcases List.mem_append.1 hd with hd | hd
          · exact hclosed3 d hd
          · exact hclosed1 d hd
        · intro _; exact htl (by simp [h2] <;> omega)
        · intro hne
          by_cases h1 : c1.isNode = true
          · refine ⟨by rw [htj (by simp [h1, h2] <;> omega), rootPorts_free2 c3 c1 c2 e3 e1 h2]; rfl, ?_⟩
            rcases expected_last c1 h1 (b + 1 + c3.size) (some b) with ⟨last, hl, hlt⟩
            exact ⟨last, getLast_append_right _ _ _ hl, hlt⟩
          · have e : c1 = .none := tree_none_of_not_node c1 h1
            have h3 : c3.isNode = true := by
              apply Classical.byContradiction
              intro h3
              exact hne (by simp [D2, D1, e, tree_none_of_not_node c3 h3, expected])
            refine ⟨by rw [htj (by simp [h2, h3] <;> omega), rootPorts_free2 c3 c1 c2 e3 e1 h2]; rfl, ?_⟩
            rcases expected_last c3 h3 (b + 1) (some b) with ⟨last, hl, hlt⟩
            exact ⟨last, by simp [D2, e, expected]; exact hl, hlt⟩
      have := child_phase c2 h2 (ih2 h2) pre D2 nd2 3 (b + 1 + c3.size + c1.size) rest
        (hidxnd nd2 rfl D2 hD2idx) (by simp [hb, hD2len] <;> omega) (hz _ _ _)
        (Or.inr (Or.inr ⟨rfl, h2, rfl, fun h3 => by
          have h3' : c3.isNode = true := h3
          simp [nd2, rootPorts, e3, h3'],
          fun h1 => by
          have h1' : c1.isNode = true := h1
          simp [nd2, rootPorts, e1, h1']⟩)) hfp
      have e : ({ nd2 with ports := nd2.ports.setDownstream 3 (some (b + 1 + c3.size + c1.size)) } : Dev) = nd3 := by
        simp [nd2, nd3, e2, h2, rootPorts, Ports.setDownstream]
      rw [e] at this
      simpa [D3] using this
    · have e : c2 = .none := tree_none_of_not_node c2 h2
      have e2' : nd3 = nd2 := by simp [nd2, nd3, e2, h2]
      simp [D3, e2', e, shapeOf, expected]
  -- put the phases together
  have hL : kidsOf (.node p c3 c1 c2) b ++ rest = shapeOf c3 (b + 1) ++ R1 := by
    simp [kidsOf, R1, R2, List.append_assoc]
  have hR : pre ++ expected (.node p c3 c1 c2) b par = pre ++ [nd3] ++ D3 := by
    simp [expected, nd3, D3, D2, D1, e3, e1, e2, dc, List.append_assoc]
  show topoLoop (pre ++ [nd0]) (kidsOf (.node p c3 c1 c2) b ++ rest) = _
  rw [hL, hR, P1]
  show topoLoop (pre ++ [nd1] ++ D1) (shapeOf c1 (b + 1 + c3.size) ++ R2) = _
  rw [P2]
  exact P3


/-- EVERY tree (any nesting of chains, forks and crosses): induction over the tree in frame order. -/
theorem process_tree (T : Tree) : T.isNode = true → Processes T := by
  induction T with
  | none => intro h; simp [Tree.isNode] at h
  | node p c3 c1 c2 ih3 ih1 ih2 =>
    intro _
    exact process_node p c3 c1 c2 ih3 ih1 ih2

/-- The topology part of the loop reconstructs exactly the wiring of every tree. -/
theorem topoLoop_tree (T : Tree) (h : T.isNode = true) :
    topoLoop [] (shapeOf T 0) = .ok (expected T 0 none) := by
  rw [shapeOf_node T h 0]
  have step : topoLoop [] (rootDevOf T 0 none :: kidsOf T 0)
      = topoLoop ([] ++ [rootDevOf T 0 none]) (kidsOf T 0 ++ []) := by
    simp only [topoLoop, findParent_nil, assignStep, List.nil_append, List.append_nil]
    rw [rootDevOf_parent]
  rw [step]
  have := process_tree T h [] [] none (by simp [Indexed])
  simp only [List.length_nil] at this
  rw [this]
  simp [topoLoop]


/-! ### the devices the specification produces -/

/-- Time at which the frame leaves a subtree again (the second component of `visit`, which does
    not depend on the address base). -/
def leave : Tree → Nat → Nat
  | .none, t => t
  | .node p c3 c1 c2, tin =>
    let t0 := tin + p.pd
    let r3 := leave c3 (t0 + c3.link) + c3.link
    let t1 := if c3.isNode then r3 + p.fd else t0
    let r1 := leave c1 (t1 + c1.link) + c1.link
    let t2 := if c1.isNode then r1 + p.fd else t1
    let r2 := leave c2 (t2 + c2.link) + c2.link
    if c2.isNode then r2 + p.fd else t2

theorem visit_snd (T : Tree) : ∀ b t, (visit T b t).2 = leave T t := by
  induction T with
  | none => intro b t; rfl
  | node p c3 c1 c2 ih3 ih1 ih2 =>
    intro b t
    simp only [leave, visit, ih3, ih1, ih2]

theorem leave_ge (T : Tree) : ∀ t, t ≤ leave T t := by
  induction T with
  | none => intro t; exact Nat.le_refl _
  | node p c3 c1 c2 ih3 ih1 ih2 =>
    intro t
    simp only [leave]
    have a3 := ih3 (t + p.pd + c3.link)
    split <;> split <;> split <;> 
      first
      | omega
      | (have a1 := ih1 (leave c3 (t + p.pd + c3.link) + c3.link + p.fd + c1.link)
         have a1' := ih1 (t + p.pd + c1.link)
         have a2 := ih2 (leave c1 (leave c3 (t + p.pd + c3.link) + c3.link + p.fd + c1.link) + c1.link + p.fd + c2.link)
         have a2' := ih2 (leave c1 (t + p.pd + c1.link) + c1.link + p.fd + c2.link)
         have a2'' := ih2 (leave c3 (t + p.pd + c3.link) + c3.link + p.fd + c2.link)
         have a2''' := ih2 (t + p.pd + c2.link)
         omega)

theorem visit_length (T : Tree) : ∀ b t, (visit T b t).1.length = T.size := by
  induction T with
  | none => intro b t; rfl
  | node p c3 c1 c2 ih3 ih1 ih2 =>
    intro b t
    simp [visit, Tree.size, ih3, ih1, ih2]; omega

theorem mkDevsFrom_append (f : Nat → Report → Dev) (l1 l2 : List Report) : ∀ b,
    mkDevsFrom f b (l1 ++ l2) = mkDevsFrom f b l1 ++ mkDevsFrom f (b + l1.length) l2 := by
  induction l1 with
  | nil => intro b; simp [mkDevsFrom]
  | cons r rs ih =>
    intro b
    simp only [List.cons_append, mkDevsFrom, ih, List.length_cons]
    have : b + 1 + rs.length = b + (rs.length + 1) := by omega
    rw [this]

theorem local32_mono (p : Params) (tin r : Nat) (h1 : tin ≤ r) (h2 : local32 p tin + (r - tin) < U32) :
    local32 p tin ≤ local32 p r := by
  unfold local32 U32 at *
  omega

theorem local32_lt (p : Params) (t : Nat) : local32 p t < U32 := Nat.mod_lt _ (by decide)


/-- The three return times of the frame at ports 3, 1, 2 of a device (meaningful for open ports). -/
def ret3 (p : Params) (c3 : Tree) (tin : Nat) : Nat := leave c3 (tin + p.pd + c3.link) + c3.link
def out3 (p : Params) (c3 : Tree) (tin : Nat) : Nat := if c3.isNode then ret3 p c3 tin + p.fd else tin + p.pd
def ret1 (p : Params) (c3 c1 : Tree) (tin : Nat) : Nat := leave c1 (out3 p c3 tin + c1.link) + c1.link
def out1 (p : Params) (c3 c1 : Tree) (tin : Nat) : Nat := if c1.isNode then ret1 p c3 c1 tin + p.fd else out3 p c3 tin
def ret2 (p : Params) (c3 c1 c2 : Tree) (tin : Nat) : Nat := leave c2 (out1 p c3 c1 tin + c2.link) + c2.link

theorem visit_fst_node (p : Params) (c3 c1 c2 : Tree) (b tin : Nat) :
    (visit (.node p c3 c1 c2) b tin).1 =
      mkReport (4096 + b) p tin c3.isNode c1.isNode c2.isNode (ret3 p c3 tin) (ret1 p c3 c1 tin) (ret2 p c3 c1 c2 tin) ::
        ((visit c3 (b + 1) (tin + p.pd + c3.link)).1 ++ (visit c1 (b + 1 + c3.size) (out3 p c3 tin + c1.link)).1
          ++ (visit c2 (b + 1 + c3.size + c1.size) (out1 p c3 c1 tin + c2.link)).1) := by
  simp only [visit, visit_snd, ret3, out3, ret1, out1, ret2]

theorem noWrap_node (p : Params) (c3 c1 c2 : Tree) (tin : Nat) :
    NoWrap (.node p c3 c1 c2) tin ↔
      ((p.dc ≠ 0 →
        (c3.isNode = true → local32 p tin + (ret3 p c3 tin - tin) < U32) ∧
        (c1.isNode = true → local32 p tin + (ret1 p c3 c1 tin - tin) < U32) ∧
        (c2.isNode = true → local32 p tin + (ret2 p c3 c1 c2 tin - tin) < U32)) ∧
       NoWrap c3 (tin + p.pd + c3.link) ∧ NoWrap c1 (out3 p c3 tin + c1.link) ∧
       NoWrap c2 (out1 p c3 c1 tin + c2.link)) := by
  simp only [NoWrap, visit_snd, ret3, out3, ret1, out1, ret2]

theorem ret_ge (p : Params) (c3 c1 c2 : Tree) (tin : Nat) :
    tin ≤ ret3 p c3 tin ∧ tin ≤ ret1 p c3 c1 tin ∧ tin ≤ ret2 p c3 c1 c2 tin := by
  have a := leave_ge c3 (tin + p.pd + c3.link)
  have h3 : tin ≤ out3 p c3 tin := by unfold out3 ret3; split <;> omega
  have b := leave_ge c1 (out3 p c3 tin + c1.link)
  have h1 : tin ≤ out1 p c3 c1 tin := by unfold out1 ret1; split <;> omega
  have c := leave_ge c2 (out1 p c3 c1 tin + c2.link)
  unfold ret3 ret1 ret2
  omega

theorem openPorts_pos (p : Ports) (h : p.a0.active = true) : 1 ≤ p.openPorts := by
  rcases p with ⟨⟨a0,t0,d0⟩,⟨a1,t1,d1⟩,⟨a2,t2,d2⟩,⟨a3,t3,d3⟩⟩
  simp only at h
  subst h
  cases a1 <;> cases a2 <;> cases a3 <;> simp [Ports.openPorts, Ports.activePorts, Ports.indexed]

/-- The root device of a subtree, as discovered and latched. -/
theorem root_good (p : Params) (c3 c1 c2 : Tree) (b tin : Nat)
    (hw : p.dc ≠ 0 →
        (c3.isNode = true → local32 p tin + (ret3 p c3 tin - tin) < U32) ∧
        (c1.isNode = true → local32 p tin + (ret1 p c3 c1 tin - tin) < U32) ∧
        (c2.isNode = true → local32 p tin + (ret2 p c3 c1 c2 tin - tin) < U32)) :
    Good2 (devOfReport b (mkReport (4096 + b) p tin c3.isNode c1.isNode c2.isNode
      (ret3 p c3 tin) (ret1 p c3 c1 tin) (ret2 p c3 c1 c2 tin))) := by
  rcases ret_ge p c3 c1 c2 tin with ⟨g3, g1, g2⟩
  have hU : 0 < U32 := by decide
  unfold mkReport
  by_cases hdc : p.dc = 0
  · simp only [hdc, if_true, devOfReport, Ports.ofNumbered]
    refine ⟨⟨openPorts_pos _ rfl, ?_⟩, rfl, ?_⟩
    · exact ⟨hU, hU, hU, hU⟩
    · intro q hq _
      simp [Ports.toList] at hq
      rcases hq with rfl | rfl | rfl | rfl <;> simp
  · simp only [hdc, if_false, devOfReport, Ports.ofNumbered]
    rcases hw hdc with ⟨w3, w1, w2⟩
    refine ⟨⟨openPorts_pos _ rfl, ?_⟩, rfl, ?_⟩
    · refine ⟨local32_lt _ _, ?_, ?_, ?_⟩ <;> (simp only; split <;> first | exact local32_lt _ _ | exact hU)
    · intro q hq ha
      simp [Ports.toList] at hq
      rcases hq with rfl | rfl | rfl | rfl
      · exact Nat.le_refl _
      · simp only at ha ⊢; rw [if_pos ha]; exact local32_mono p tin _ g3 (w3 ha)
      · simp only at ha ⊢; rw [if_pos ha]; exact local32_mono p tin _ g1 (w1 ha)
      · simp only at ha ⊢; rw [if_pos ha]; exact local32_mono p tin _ g2 (w2 ha)

theorem root_shape (p : Params) (c3 c1 c2 : Tree) (b tin r3 r1 r2 : Nat) :
    (devOfReport b (mkReport (4096 + b) p tin c3.isNode c1.isNode c2.isNode r3 r1 r2)).shape
      = ⟨b, rootPorts c3 c1 c2 none none none, p.dc != 0, 0, none, 0⟩ := by
  unfold mkReport
  by_cases hdc : p.dc = 0
  · simp [hdc, devOfReport, Ports.ofNumbered, Dev.shape, Ports.shape, Port.shape, rootPorts]
  · simp [hdc, devOfReport, Ports.ofNumbered, Dev.shape, Ports.shape, Port.shape, rootPorts]


/-- The devices of a subtree as the MainDevice sees them when all receive times are stored. -/
def devsOf (T : Tree) (b tin : Nat) : List Dev := mkDevsFrom devOfReport b (visit T b tin).1

theorem devsOf_node (p : Params) (c3 c1 c2 : Tree) (b tin : Nat) :
    devsOf (.node p c3 c1 c2) b tin =
      devOfReport b (mkReport (4096 + b) p tin c3.isNode c1.isNode c2.isNode
        (ret3 p c3 tin) (ret1 p c3 c1 tin) (ret2 p c3 c1 c2 tin)) ::
      (devsOf c3 (b + 1) (tin + p.pd + c3.link) ++ devsOf c1 (b + 1 + c3.size) (out3 p c3 tin + c1.link)
        ++ devsOf c2 (b + 1 + c3.size + c1.size) (out1 p c3 c1 tin + c2.link)) := by
  unfold devsOf
  rw [visit_fst_node]
  simp only [mkDevsFrom, mkDevsFrom_append, visit_length, List.length_append]
  have : b + 1 + (c3.size + c1.size) = b + 1 + c3.size + c1.size := by omega
  rw [this]

theorem devsOf_shape (T : Tree) : ∀ b tin, (devsOf T b tin).map Dev.shape = shapeOf T b := by
  induction T with
  | none => intro b tin; rfl
  | node p c3 c1 c2 ih3 ih1 ih2 =>
    intro b tin
    rw [devsOf_node]
    simp only [List.map_cons, List.map_append, ih3, ih1, ih2, root_shape, shapeOf]

theorem devsOf_good (T : Tree) : ∀ b tin, NoWrap T tin → ∀ d ∈ devsOf T b tin, Good2 d := by
  induction T with
  | none => intro b tin _ d hd; simp [devsOf, visit, mkDevsFrom] at hd
  | node p c3 c1 c2 ih3 ih1 ih2 =>
    intro b tin hw d hd
    rw [noWrap_node] at hw
    rcases hw with ⟨hroot, w3, w1, w2⟩
    rw [devsOf_node] at hd
    simp only [List.mem_cons, List.mem_append] at hd
    rcases hd with rfl | (hd | hd) | hd
    · exact root_good p c3 c1 c2 b tin hroot
    · exact ih3 _ _ w3 d hd
    · exact ih1 _ _ w1 d hd
    · exact ih2 _ _ w2 d hd

/-- Valid trees of ANY shape without intra-device wrap: the real loop (any build mode) succeeds and
    its result has exactly the shape `expected`. -/
theorem assign_tree (m : Mode) (T : Tree) (tin : Nat) (h : T.isNode = true) (hw : NoWrap T tin) :
    ∃ out, assignParentRelationships m (mkDevs (visit T 0 tin).1) = .ok out ∧
      out.map Dev.shape = expected T 0 none := by
  have hgood := devsOf_good T 0 tin hw
  have htopo : topoLoop (([] : List Dev).map Dev.shape) ((devsOf T 0 tin).map Dev.shape) = .ok (expected T 0 none) := by
    rw [devsOf_shape]; exact topoLoop_tree T h
  have hopen : ∀ d ∈ mkDevs (visit T 0 tin).1, 1 ≤ d.ports.openPorts := fun d hd => (hgood d hd).1.1
  rw [assign_eq_loop m _ hopen]
  exact assignLoop_of_topo m (devsOf T 0 tin) [] 0 (expected T 0 none) (by simp) hgood htopo


/-! ### pure chains: the delays the loop computes -/

/-- `ports.total_propagation_time().unwrap_or(0)` -/
def Dev.prop (d : Dev) : Nat := d.ports.totalPropTime.getD 0

/-- Delays along a chain: every DC device adds half the difference between its upstream
    neighbour's loop time and its own (saturating at `u32::MAX`). -/
def chainFold : Nat → Nat → List Dev → List Nat
  | _, _, [] => []
  | prevProp, accum, d :: ds =>
    if d.dc then
      Nat.min (accum + (prevProp - d.prop) / 2) U32_MAX ::
        chainFold d.prop (Nat.min (accum + (prevProp - d.prop) / 2) U32_MAX) ds
    else d.delay :: chainFold d.prop accum ds

theorem configureOffsets_passthrough (m : Mode) (sd par : Dev) (ps : List Dev) (accum : Nat) (pi : Nat)
    (hsd : Good sd) (hp : sd.parent = some pi) (hfind : ps.find? (fun p => p.index == pi) = some par)
    (hass : ∃ k, par.ports.assignedTo sd.index = some k)
    (hpt : par.ports.topology = .ok .passthrough) :
    configureOffsets m sd ps accum
      = .ok ({ sd with delay := Nat.min (accum + (par.prop - sd.prop) / 2) U32_MAX },
             Nat.min (accum + (par.prop - sd.prop) / 2) U32_MAX) := by
  unfold configureOffsets
  rcases topology_ok sd.ports hsd.1 with ⟨t, ht⟩
  rcases entryPort_ok sd.ports hsd.1 with ⟨e, he, _⟩
  rcases hass with ⟨k, hk⟩
  have hchild : ∃ c, isChildOf sd.index par = .ok c := by
    unfold isChildOf; rw [hpt]; exact ⟨_, rfl⟩
  rcases hchild with ⟨c, hc⟩
  simp only [ht, hp, Option.bind_some, hfind, hk, he, hpt, hc, Dev.prop]

theorem totalPropTime_setDownstream (p : Ports) (i : Nat) (v : Option Nat) :
    (p.setDownstream i v).totalPropTime = p.totalPropTime := by
  rcases p with ⟨⟨a0,t0,d0⟩,⟨a1,t1,d1⟩,⟨a2,t2,d2⟩,⟨a3,t3,d3⟩⟩
  unfold Ports.setDownstream
  split <;> cases a0 <;> cases a1 <;> cases a2 <;> cases a3 <;> simp [Ports.totalPropTime, Ports.toList]

theorem topology_setDownstream (p : Ports) (i : Nat) (v : Option Nat) :
    (p.setDownstream i v).topology = p.topology := by
  simp [Ports.topology, openPorts_setDownstream]

theorem firstFree_lt (P : Ports) (k : Nat) (h : FirstFree P k) : k < 4 ∧ (P.get k).active = true := by
  rcases h with ⟨rfl, h, _⟩ | ⟨rfl, h, _⟩ | ⟨rfl, h, _⟩ <;> exact ⟨by omega, h⟩

/-- One iteration of the real loop on a chain: the previous device `prev` is a passthrough whose
    free downstream slot is `k`. -/
theorem chain_step (m : Mode) (pre : List Dev) (prev sd : Dev) (k : Nat) (accum : Nat) (rest : List Dev)
    (hidx : Indexed 0 (pre ++ [prev])) (hsdi : sd.index = pre.length + 1)
    (hprev : Good2 prev) (hpt : prev.ports.topology = .ok .passthrough) (hk : FirstFree prev.ports k)
    (hsd : Good sd) :
    assignLoop m (pre ++ [prev]) accum (sd :: rest) =
      assignLoop m
        (pre ++ [{ prev with ports := prev.ports.setDownstream k (some sd.index) }] ++
          [if sd.dc then { sd with parent := some prev.index,
                                   delay := Nat.min (accum + (prev.prop - sd.prop) / 2) U32_MAX }
           else { sd with parent := some prev.index }])
        (if sd.dc then Nat.min (accum + (prev.prop - sd.prop) / 2) U32_MAX else accum) rest := by
  have h2 := (indexed_append pre [prev] 0).1 hidx
  have hpi : prev.index = pre.length := by have := h2.2; simp [Indexed] at this; exact this
  have hpre : ∀ x ∈ pre, x.index ≠ prev.index := by
    intro x hx; have := indexed_mem pre 0 h2.1 x hx; omega
  have hfp : findParent (pre ++ [prev]) = .ok (some prev.index) :=
    findParent_last_nonleaf pre prev .passthrough hpt (by simp)
  have hass : assignOnParent (pre ++ [prev]) prev.index sd.index
      = .ok (pre ++ [{ prev with ports := prev.ports.setDownstream k (some sd.index) }]) := by
    have := assignOnParent_phase pre [] prev k sd.index hpre (by omega) hprev.2 hk
    simpa using this
  rw [assignLoop]
  simp only [hfp, assignStep, hass]
  by_cases hdc : sd.dc = true
  · simp only [if_pos hdc]
    have hfind : (pre ++ [{ prev with ports := prev.ports.setDownstream k (some sd.index) }]).find?
        (fun p => p.index == prev.index) = some { prev with ports := prev.ports.setDownstream k (some sd.index) } := by
      have := find_skip prev.index { prev with ports := prev.ports.setDownstream k (some sd.index) } pre [] hpre rfl
      simpa using this
    rcases firstFree_lt _ _ hk with ⟨hk4, hka⟩
    rcases assignedTo_setDownstream prev.ports k sd.index hk4 hka with ⟨k', hk', _⟩
    rw [configureOffsets_passthrough m { sd with parent := some prev.index }
      { prev with ports := prev.ports.setDownstream k (some sd.index) } _ accum prev.index hsd rfl hfind
      ⟨k', hk'⟩ (by simp only [topology_setDownstream]; exact hpt)]
    simp only [Dev.prop, totalPropTime_setDownstream]
  · simp only [if_neg hdc]


/-- A pure chain as the MainDevice sees it: every device but the last is a passthrough whose
    downstream slot is still unassigned; all have port 0 as entry port. -/
def ChainDevs : List Dev → Prop
  | [] => True
  | [d] => Good2 d
  | d :: d' :: ds =>
    Good2 d ∧ d.ports.topology = .ok .passthrough ∧ (∃ k, FirstFree d.ports k) ∧ ChainDevs (d' :: ds)

theorem chainDevs_head (d : Dev) (ds : List Dev) (h : ChainDevs (d :: ds)) : Good2 d := by
  cases ds with
  | nil => exact h
  | cons _ _ => exact h.1

theorem chainDevs_ports (d d' : Dev) (ds : List Dev) (hp : d'.ports = d.ports) (h : ChainDevs (d :: ds)) :
    ChainDevs (d' :: ds) := by
  cases ds with
  | nil => exact ⟨⟨by rw [hp]; exact h.1.1, by rw [hp]; exact h.1.2⟩, by rw [hp]; exact h.2⟩
  | cons x xs =>
    rcases h with ⟨g, t, k, r⟩
    exact ⟨⟨⟨by rw [hp]; exact g.1.1, by rw [hp]; exact g.1.2⟩, by rw [hp]; exact g.2⟩, by rw [hp]; exact t, by rw [hp]; exact k, r⟩

theorem chainDevs_all (d : Dev) (ds : List Dev) (h : ChainDevs (d :: ds)) : ∀ x ∈ d :: ds, Good2 x := by
  induction ds generalizing d with
  | nil => intro x hx; simp at hx; subst hx; exact h
  | cons y ys ih =>
    intro x hx
    rcases List.mem_cons.1 hx with rfl | hx
    · exact h.1
    · exact ih y h.2.2.2 x hx

theorem chain_loop (m : Mode) (rest : List Dev) :
    ∀ (pre : List Dev) (prev : Dev) (accum : Nat),
    Indexed 0 (pre ++ [prev]) → Indexed (pre.length + 1) rest → ChainDevs (prev :: rest) →
    ∃ out, assignLoop m (pre ++ [prev]) accum rest = .ok out ∧
      out.map (·.delay) = pre.map (·.delay) ++ [prev.delay] ++ chainFold prev.prop accum rest := by
  induction rest with
  | nil =>
    intro pre prev accum _ _ _
    exact ⟨pre ++ [prev], rfl, by simp [chainFold]⟩
  | cons sd rest ih =>
    intro pre prev accum hidx hrest hchain
    rcases hchain with ⟨hprev, hpt, ⟨k, hk⟩, hchain'⟩
    rcases hrest with ⟨hsdi, hrest'⟩
    have hsd : Good2 sd := chainDevs_head sd rest hchain'
    rw [chain_step m pre prev sd k accum rest hidx hsdi hprev hpt hk hsd.1]
    -- the new state
    have hidx' : ∀ (sd' : Dev), sd'.index = sd.index →
        Indexed 0 (pre ++ [{ prev with ports := prev.ports.setDownstream k (some sd.index) }] ++ [sd']) := by
      intro sd' hi
      rw [indexed_append] at hidx ⊢
      rw [indexed_append]
      refine ⟨⟨hidx.1, by simpa [Indexed] using hidx.2⟩, ?_⟩
      simp [Indexed, hi, hsdi]
    have hlen : (pre ++ [{ prev with ports := prev.ports.setDownstream k (some sd.index) }]).length + 1
        = pre.length + 1 + 1 := by simp
    by_cases hdc : sd.dc = true
    · simp only [if_pos hdc]
      rcases ih (pre ++ [{ prev with ports := prev.ports.setDownstream k (some sd.index) }])
        { sd with parent := some prev.index, delay := Nat.min (accum + (prev.prop - sd.prop) / 2) U32_MAX }
        (Nat.min (accum + (prev.prop - sd.prop) / 2) U32_MAX)
        (hidx' { sd with parent := some prev.index, delay := Nat.min (accum + (prev.prop - sd.prop) / 2) U32_MAX } rfl) (by rw [hlen]; exact hrest')
        (chainDevs_ports sd _ rest rfl hchain') with ⟨out, ho, hd⟩
      refine ⟨out, ho, ?_⟩
      rw [hd]
      simp [chainFold, hdc, Dev.prop]
    · simp only [if_neg hdc]
      rcases ih (pre ++ [{ prev with ports := prev.ports.setDownstream k (some sd.index) }])
        { sd with parent := some prev.index } accum (hidx' { sd with parent := some prev.index } rfl) (by rw [hlen]; exact hrest')
        (chainDevs_ports sd _ rest rfl hchain') with ⟨out, ho, hd⟩
      refine ⟨out, ho, ?_⟩
      rw [hd]
      simp [chainFold, hdc, Dev.prop]

/-- A whole chain, from the first device (which has no parent and keeps delay 0). -/
theorem chain_run (m : Mode) (d0 : Dev) (rest : List Dev)
    (hidx : Indexed 0 (d0 :: rest)) (hchain : ChainDevs (d0 :: rest)) :
    ∃ out, assignParentRelationships m (d0 :: rest) = .ok out ∧
      out.map (·.delay) = d0.delay :: chainFold d0.prop 0 rest := by
  have hg : Good2 d0 := chainDevs_head d0 rest hchain
  have hfirst : assignParentRelationships m (d0 :: rest)
      = assignLoop m ([] ++ [{ d0 with parent := none }]) 0 rest := by
    rw [assign_eq_loop m _ (fun d hd => (chainDevs_all d0 rest hchain d hd).1.1)]
    rw [assignLoop]
    simp only [findParent_nil, assignStep]
    by_cases hdc : d0.dc = true
    · simp only [if_pos hdc]
      have : configureOffsets m { d0 with parent := none } [] 0 = .ok ({ d0 with parent := none }, 0) := by
        unfold configureOffsets
        rcases topology_ok d0.ports hg.1.1 with ⟨t, ht⟩
        simp [ht]
      rw [this]
    · simp only [if_neg hdc]
  rw [hfirst]
  rcases hidx with ⟨h0, hrest⟩
  rcases chain_loop m rest [] { d0 with parent := none } 0 (by simp [Indexed, h0]) (by simpa using hrest)
    (chainDevs_ports d0 _ rest rfl hchain) with ⟨out, ho, hd⟩
  exact ⟨out, ho, by simpa [Dev.prop] using hd⟩


/-! ### pure chains in the physical specification -/

theorem local32_add (p : Params) (tin r : Nat) (h1 : tin ≤ r) (h2 : local32 p tin + (r - tin) < U32) :
    local32 p r = local32 p tin + (r - tin) := by
  unfold local32 U32 at *
  omega

/-- Loop time of a chain device: from the frame's arrival at port 0 to its return at the one
    downstream port (0 for the line end). -/
def loopT : Tree → Nat → Nat
  | .none, _ => 0
  | .node p c3 c1 c2, tin =>
    if c3.isNode then ret3 p c3 tin - tin
    else if c1.isNode then ret1 p c3 c1 tin - tin
    else if c2.isNode then ret2 p c3 c1 c2 tin - tin
    else 0

theorem noJunction_cases (p : Params) (c3 c1 c2 : Tree) (h : NoJunction (.node p c3 c1 c2)) :
    (c3 = .none ∧ c1 = .none ∧ c2 = .none) ∨ (c3.isNode = true ∧ c1 = .none ∧ c2 = .none) ∨
    (c3 = .none ∧ c1.isNode = true ∧ c2 = .none) ∨ (c3 = .none ∧ c1 = .none ∧ c2.isNode = true) := by
  rcases h with ⟨hk, _, _, _⟩
  cases c3 <;> cases c1 <;> cases c2 <;> simp [Tree.isNode] at hk ⊢

theorem spanOf_pair (a b : Nat) (h : a ≤ b) : (spanOf [a, b]).getD 0 = b - a := by
  have h1 : Nat.max a b = b := Nat.max_eq_right h
  have h2 : Nat.min a b = a := Nat.min_eq_left h
  simp only [spanOf, List.foldl, h1, h2]
  split <;> simp <;> omega

theorem isNode_none : Tree.none.isNode = false := rfl

theorem spanOf_single (a : Nat) : (spanOf [a]).getD 0 = 0 := by
  simp [spanOf]

/-- Loop time the code reads off the latched port times of a DC chain device = physical loop time. -/
theorem root_prop (p : Params) (c3 c1 c2 : Tree) (b tin : Nat) (hdc : p.dc ≠ 0)
    (hj : NoJunction (.node p c3 c1 c2))
    (hw : (c3.isNode = true → local32 p tin + (ret3 p c3 tin - tin) < U32) ∧
        (c1.isNode = true → local32 p tin + (ret1 p c3 c1 tin - tin) < U32) ∧
        (c2.isNode = true → local32 p tin + (ret2 p c3 c1 c2 tin - tin) < U32)) :
    (devOfReport b (mkReport (4096 + b) p tin c3.isNode c1.isNode c2.isNode
      (ret3 p c3 tin) (ret1 p c3 c1 tin) (ret2 p c3 c1 c2 tin))).prop = loopT (.node p c3 c1 c2) tin := by
  rcases ret_ge p c3 c1 c2 tin with ⟨g3, g1, g2⟩
  rcases hw with ⟨w3, w1, w2⟩
  unfold mkReport
  simp only [hdc, if_false, devOfReport, Ports.ofNumbered, Dev.prop, Ports.totalPropTime, Ports.toList, loopT]
  rcases noJunction_cases p c3 c1 c2 hj with ⟨rfl, rfl, rfl⟩ | ⟨h3, rfl, rfl⟩ | ⟨rfl, h1, rfl⟩ | ⟨rfl, rfl, h2⟩
  · simp [isNode_none, spanOf_single]
  · simp only [h3, isNode_none, if_true, List.filter, List.map]
    rw [local32_add p tin _ g3 (w3 h3)]
    rw [spanOf_pair _ _ (by omega)]
    omega
  · simp only [h1, isNode_none, if_true, List.filter, List.map]
    rw [local32_add p tin _ g1 (w1 h1)]
    rw [spanOf_pair _ _ (by omega)]
    simp
  · simp only [h2, isNode_none, if_true, List.filter, List.map]
    rw [local32_add p tin _ g2 (w2 h2)]
    rw [spanOf_pair _ _ (by omega)]
    simp


theorem mkDevsFrom_indexed (l : List Report) : ∀ b, Indexed b (mkDevsFrom devOfReport b l) := by
  induction l with
  | nil => intro b; simp [mkDevsFrom, Indexed]
  | cons r rs ih => intro b; exact ⟨rfl, ih (b + 1)⟩

theorem devsOf_indexed (T : Tree) (b tin : Nat) : Indexed b (devsOf T b tin) := mkDevsFrom_indexed _ _

theorem devsOf_none (b tin : Nat) : devsOf .none b tin = [] := rfl

/-- Root of a chain device with exactly one downstream neighbour: a passthrough with that slot free. -/
theorem root_passthrough (p : Params) (c3 c1 c2 : Tree) (b tin r3 r1 r2 : Nat)
    (h : c3.isNode.toNat + c1.isNode.toNat + c2.isNode.toNat = 1) :
    (devOfReport b (mkReport (4096 + b) p tin c3.isNode c1.isNode c2.isNode r3 r1 r2)).ports.topology = .ok .passthrough ∧
    ∃ k, FirstFree (devOfReport b (mkReport (4096 + b) p tin c3.isNode c1.isNode c2.isNode r3 r1 r2)).ports k := by
  unfold mkReport
  revert h
  generalize c3.isNode = x3
  generalize c1.isNode = x1
  generalize c2.isNode = x2
  intro h
  by_cases hdc : p.dc = 0 <;> cases x3 <;> cases x1 <;> cases x2 <;> simp at h <;>
    simp [hdc, devOfReport, Ports.ofNumbered, Ports.topology, Ports.openPorts, Ports.activePorts, Ports.indexed, FirstFree]

theorem devsOf_chain (S : Tree) : NoJunction S → ∀ b tin, NoWrap S tin → ChainDevs (devsOf S b tin) := by
  induction S with
  | none => intro _ b tin _; simp [devsOf_none, ChainDevs]
  | node p c3 c1 c2 ih3 ih1 ih2 =>
    intro hj b tin hw
    have hw' := (noWrap_node p c3 c1 c2 tin).1 hw
    rcases hw' with ⟨hroot, w3, w1, w2⟩
    have hg := root_good p c3 c1 c2 b tin hroot
    rw [devsOf_node]
    rcases noJunction_cases p c3 c1 c2 hj with ⟨rfl, rfl, rfl⟩ | ⟨h3, rfl, rfl⟩ | ⟨rfl, h1, rfl⟩ | ⟨rfl, rfl, h2⟩
    · simpa [devsOf_none, ChainDevs] using hg
    · have hc := ih3 hj.2.1 (b + 1) _ w3
      have hp := root_passthrough p c3 .none .none b tin (ret3 p c3 tin) (ret1 p c3 .none tin) (ret2 p c3 .none .none tin)
        (by simp [h3, isNode_none])
      simp only [devsOf_none, List.append_nil] at hc ⊢
      cases c3 with
      | none => simp [Tree.isNode] at h3
      | node p' a b' c =>
        rw [devsOf_node] at hc ⊢
        exact ⟨hg, hp.1, hp.2, hc⟩
    · have hc := ih1 hj.2.2.1 (b + 1 + Tree.none.size) _ w1
      have hp := root_passthrough p .none c1 .none b tin (ret3 p .none tin) (ret1 p .none c1 tin) (ret2 p .none c1 .none tin)
        (by simp [h1, isNode_none])
      simp only [devsOf_none, List.append_nil, List.nil_append] at hc ⊢
      cases c1 with
      | none => simp [Tree.isNode] at h1
      | node p' a b' c =>
        rw [devsOf_node] at hc ⊢
        exact ⟨hg, hp.1, hp.2, hc⟩
    · have hc := ih2 hj.2.2.2 (b + 1 + Tree.none.size + Tree.none.size) _ w2
      have hp := root_passthrough p .none .none c2 b tin (ret3 p .none tin) (ret1 p .none .none tin) (ret2 p .none .none c2 tin)
        (by simp [h2, isNode_none])
      simp only [devsOf_none, List.append_nil, List.nil_append] at hc ⊢
      cases c2 with
      | none => simp [Tree.isNode] at h2
      | node p' a b' c =>
        rw [devsOf_node] at hc ⊢
        exact ⟨hg, hp.1, hp.2, hc⟩


theorem leave_none (t : Nat) : leave .none t = t := rfl
theorem link_none : Tree.none.link = 0 := rfl
theorem size_none : Tree.none.size = 0 := rfl

/-- On a chain the frame is back at port 0 after the loop time plus the return delay. -/
theorem leave_chain (p : Params) (c3 c1 c2 : Tree) (t : Nat) (hj : NoJunction (.node p c3 c1 c2)) :
    leave (.node p c3 c1 c2) t = t + loopT (.node p c3 c1 c2) t + retDelay (.node p c3 c1 c2) := by
  rcases ret_ge p c3 c1 c2 t with ⟨g3, g1, g2⟩
  rcases noJunction_cases p c3 c1 c2 hj with ⟨rfl, rfl, rfl⟩ | ⟨h3, rfl, rfl⟩ | ⟨rfl, h1, rfl⟩ | ⟨rfl, rfl, h2⟩
  · simp [leave, loopT, retDelay, isNode_none]
  · simp [leave, loopT, retDelay, isNode_none, h3, ret3, link_none, leave_none] at g3 ⊢
    omega
  · simp [leave, loopT, retDelay, isNode_none, h1, ret1, out3, link_none, leave_none] at g1 ⊢
    omega
  · simp [leave, loopT, retDelay, isNode_none, h2, ret2, out1, out3, link_none, leave_none] at g2 ⊢
    omega

theorem root_dc (p : Params) (b tin : Nat) (o3 o1 o2 : Bool) (r3 r1 r2 : Nat) (hdc : p.dc ≠ 0) :
    (devOfReport b (mkReport (4096 + b) p tin o3 o1 o2 r3 r1 r2)).dc = true := by
  simp [mkReport, hdc, devOfReport]


/-- One chain device followed by its (only) downstream subtree `c`, which starts at `tc`. -/
theorem chain_values_step (p : Params) (c3 c1 c2 c : Tree) (b bc tinS tc tin0 acc parentLoop : Nat)
    (hj : NoJunction (.node p c3 c1 c2)) (hdc : p.dc ≠ 0)
    (hw : NoWrap (.node p c3 c1 c2) tinS) (h0 : tin0 ≤ tinS)
    (hacc : acc + (parentLoop - loopT (.node p c3 c1 c2) tinS) / 2 = tinS - tin0)
    (hfit : leave (.node p c3 c1 c2) tinS - tin0 ≤ U32_MAX)
    (hdevs : devsOf (.node p c3 c1 c2) b tinS =
      devOfReport b (mkReport (4096 + b) p tinS c3.isNode c1.isNode c2.isNode
        (ret3 p c3 tinS) (ret1 p c3 c1 tinS) (ret2 p c3 c1 c2 tinS)) :: devsOf c bc tc)
    (harr : (arrivals (.node p c3 c1 c2) tinS).1 = tinS :: (arrivals c tc).1)
    (ih : chainFold (loopT (.node p c3 c1 c2) tinS) (tinS - tin0) (devsOf c bc tc)
        = (arrivals c tc).1.map (fun a => a - tin0)) :
    chainFold parentLoop acc (devsOf (.node p c3 c1 c2) b tinS)
      = (arrivals (.node p c3 c1 c2) tinS).1.map (fun a => a - tin0) := by
  have hw' := ((noWrap_node p c3 c1 c2 tinS).1 hw).1 hdc
  have hge := leave_ge (.node p c3 c1 c2) tinS
  rw [hdevs, harr]
  simp only [chainFold, root_dc p b tinS _ _ _ _ _ _ hdc, if_true, root_prop p c3 c1 c2 b tinS hdc hj hw',
    List.map_cons, hacc]
  have hmin : Nat.min (tinS - tin0) U32_MAX = tinS - tin0 := Nat.min_eq_left (by omega)
  rw [hmin, ih]


theorem arrivals_none (t : Nat) : arrivals .none t = ([], t) := rfl

/-- What the child subtree needs from its upstream neighbour, on a symmetric chain. -/
theorem chain_child_hyp (p : Params) (c3 c1 c2 c : Tree) (tinS tc tin0 : Nat)
    (hc : c.isNode = true) (hjc : NoJunction c)
    (h0 : tin0 ≤ tinS) (htc : tc = tinS + p.pd + c.link)
    (hloop : loopT (.node p c3 c1 c2) tinS = leave c tc + c.link - tinS)
    (hsym : p.pd = retDelay c) :
    (tinS - tin0) + (loopT (.node p c3 c1 c2) tinS - loopT c tc) / 2 = tc - tin0 := by
  cases c with
  | none => simp [Tree.isNode] at hc
  | node p' a b' d =>
    have hl := leave_chain p' a b' d tc hjc
    rw [hloop, hl]
    have : tc + loopT (.node p' a b' d) tc + retDelay (.node p' a b' d) + (Tree.node p' a b' d).link - tinS
        - loopT (.node p' a b' d) tc = 2 * (p.pd + (Tree.node p' a b' d).link) := by
      rw [← hsym, htc]; omega
    rw [this, htc]
    omega

theorem chain_values (S : Tree) : NoJunction S → AllDc S → Symmetric S →
    ∀ (b tinS tin0 acc parentLoop : Nat), NoWrap S tinS → tin0 ≤ tinS →
    (S.isNode = true → acc + (parentLoop - loopT S tinS) / 2 = tinS - tin0) →
    leave S tinS - tin0 ≤ U32_MAX →
    chainFold parentLoop acc (devsOf S b tinS) = (arrivals S tinS).1.map (fun a => a - tin0) := by
  induction S with
  | none => intro _ _ _ b tinS tin0 acc pl _ _ _ _; simp [devsOf_none, chainFold, arrivals_none]
  | node p c3 c1 c2 ih3 ih1 ih2 =>
    intro hj hdc hsym b tinS tin0 acc pl hw h0 hacc hfit
    have hacc' := hacc rfl
    have hw' := (noWrap_node p c3 c1 c2 tinS).1 hw
    rcases hw' with ⟨_, w3, w1, w2⟩
    rcases hdc with ⟨hdcp, d3, d1, d2⟩
    rcases hsym with ⟨s3, s1, s2, y3, y1, y2⟩
    have hge := leave_ge (.node p c3 c1 c2) tinS
    have hlc := leave_chain p c3 c1 c2 tinS hj
    rcases noJunction_cases p c3 c1 c2 hj with ⟨rfl, rfl, rfl⟩ | ⟨h3, rfl, rfl⟩ | ⟨rfl, h1, rfl⟩ | ⟨rfl, rfl, h2⟩
    · -- line end
      have hw0 := ((noWrap_node p .none .none .none tinS).1 hw).1 hdcp
      rw [devsOf_node]
      simp only [devsOf_none, List.append_nil, chainFold, root_dc p b tinS _ _ _ _ _ _ hdcp, if_true,
        root_prop p .none .none .none b tinS hdcp hj hw0, hacc']
      have hmin : Nat.min (tinS - tin0) U32_MAX = tinS - tin0 := Nat.min_eq_left (by omega)
      simp [hmin, arrivals, arrivals_none]
    · -- downstream neighbour on port 3
      apply chain_values_step p c3 .none .none c3 b (b + 1) tinS (tinS + p.pd + c3.link) tin0 acc pl hj hdcp hw h0 hacc' hfit
      · rw [devsOf_node]; simp [devsOf_none]
      · simp [arrivals, arrivals_none]
      · have hloop : loopT (.node p c3 .none .none) tinS = leave c3 (tinS + p.pd + c3.link) + c3.link - tinS := by
          simp [loopT, h3, ret3]
        apply ih3 hj.2.1 d3 y3 (b + 1) _ tin0 _ _ w3 (by omega)
        · intro _
          exact chain_child_hyp p c3 .none .none c3 tinS _ tin0 h3 hj.2.1 h0 rfl hloop (s3 h3)
        · have : leave c3 (tinS + p.pd + c3.link) ≤ leave (.node p c3 .none .none) tinS := by
            rw [hlc, hloop]
            have := leave_ge c3 (tinS + p.pd + c3.link)
            omega
          omega
    · -- downstream neighbour on port 1
      apply chain_values_step p .none c1 .none c1 b (b + 1) tinS (tinS + p.pd + c1.link) tin0 acc pl hj hdcp hw h0 hacc' hfit
      · rw [devsOf_node]; simp [devsOf_none, size_none, out3, isNode_none]
      · simp [arrivals, arrivals_none, isNode_none]
      · have hloop : loopT (.node p .none c1 .none) tinS = leave c1 (tinS + p.pd + c1.link) + c1.link - tinS := by
          simp [loopT, h1, ret1, out3, isNode_none]
        have w1' : NoWrap c1 (tinS + p.pd + c1.link) := by simpa [out3, isNode_none] using w1
        apply ih1 hj.2.2.1 d1 y1 (b + 1) _ tin0 _ _ w1' (by omega)
        · intro _
          exact chain_child_hyp p .none c1 .none c1 tinS _ tin0 h1 hj.2.2.1 h0 rfl hloop (s1 h1)
        · have : leave c1 (tinS + p.pd + c1.link) ≤ leave (.node p .none c1 .none) tinS := by
            rw [hlc, hloop]
            have := leave_ge c1 (tinS + p.pd + c1.link)
            omega
          omega
    · -- downstream neighbour on port 2
      apply chain_values_step p .none .none c2 c2 b (b + 1) tinS (tinS + p.pd + c2.link) tin0 acc pl hj hdcp hw h0 hacc' hfit
      · rw [devsOf_node]; simp [devsOf_none, size_none, out3, out1, isNode_none]
      · simp [arrivals, arrivals_none, isNode_none]
      · have hloop : loopT (.node p .none .none c2) tinS = leave c2 (tinS + p.pd + c2.link) + c2.link - tinS := by
          simp [loopT, h2, ret2, out1, out3, isNode_none]
        have w2' : NoWrap c2 (tinS + p.pd + c2.link) := by simpa [out1, out3, isNode_none] using w2
        apply ih2 hj.2.2.2 d2 y2 (b + 1) _ tin0 _ _ w2' (by omega)
        · intro _
          exact chain_child_hyp p .none .none c2 c2 tinS _ tin0 h2 hj.2.2.2 h0 rfl hloop (s2 h2)
        · have : leave c2 (tinS + p.pd + c2.link) ≤ leave (.node p .none .none c2) tinS := by
            rw [hlc, hloop]
            have := leave_ge c2 (tinS + p.pd + c2.link)
            omega
          omega


/-- Pure chains, every device DC capable, symmetric forwarding, no intra-device wrap: the delay
    programmed into device `i` is the true one-way delay from the first device. -/
theorem chain_exact (m : Mode) (T : Tree) (tin : Nat) (h : T.isNode = true) (hj : NoJunction T)
    (hdc : AllDc T) (hsym : Symmetric T) (hw : NoWrap T tin) (hfit : leave T tin - tin ≤ U32_MAX) :
    ∃ out, assignParentRelationships m (mkDevs (visit T 0 tin).1) = .ok out ∧
      out.map (·.delay) = (arrivals T tin).1.map (fun a => a - tin) := by
  cases T with
  | none => simp [Tree.isNode] at h
  | node p c3 c1 c2 =>
    have hv := chain_values (.node p c3 c1 c2) hj hdc hsym 0 tin tin 0 0 hw (Nat.le_refl _) (fun _ => by simp) hfit
    have hchain := devsOf_chain (.node p c3 c1 c2) hj 0 tin hw
    have hidx := devsOf_indexed (.node p c3 c1 c2) 0 tin
    have hmk : mkDevs (visit (.node p c3 c1 c2) 0 tin).1 = devsOf (.node p c3 c1 c2) 0 tin := rfl
    rw [hmk]
    rw [devsOf_node] at hv hchain hidx ⊢
    rcases chain_run m _ _ hidx hchain with ⟨out, ho, hd⟩
    refine ⟨out, ho, ?_⟩
    rw [hd, ← hv]
    simp only [chainFold, root_dc p 0 tin _ _ _ _ _ _ hdc.1, if_true]
    have : Nat.min (0 + (0 - (devOfReport 0 (mkReport (4096 + 0) p tin c3.isNode c1.isNode c2.isNode
        (ret3 p c3 tin) (ret1 p c3 c1 tin) (ret2 p c3 c1 c2 tin))).prop) / 2) U32_MAX = 0 := by simp
    rw [this]
    simp [devOfReport]


/-- Downstream neighbours of a device by EtherCAT port NUMBER (0, 1, 2, 3). -/
def Dev.downByNumber (d : Dev) : Option Nat × Option Nat × Option Nat × Option Nat :=
  (d.ports.a0.downstream, d.ports.a2.downstream, d.ports.a3.downstream, d.ports.a1.downstream)

theorem shape_parent (d : Dev) : d.shape.parent = d.parent := rfl
theorem shape_down (d : Dev) : d.shape.downByNumber = d.downByNumber := rfl

theorem expected_parents (T : Tree) : ∀ b par, (expected T b par).map (·.parent) = trueParents T b par := by
  induction T with
  | none => intro b par; rfl
  | node p c3 c1 c2 ih3 ih1 ih2 =>
    intro b par
    simp [expected, trueParents, ih3, ih1, ih2]

theorem expected_down (T : Tree) : ∀ b par, (expected T b par).map Dev.downByNumber = trueDownstream T b := by
  induction T with
  | none => intro b par; rfl
  | node p c3 c1 c2 ih3 ih1 ih2 =>
    intro b par
    simp [expected, trueDownstream, ih3, ih1, ih2, Dev.downByNumber, rootPorts]

theorem map_of_shape {β : Type} (g : Dev → β) (hg : ∀ d, g d.shape = g d) (out : List Dev) :
    (out.map Dev.shape).map g = out.map g := by
  simp [List.map_map, Function.comp_def, hg]

theorem good_devOfReport (i : Nat) (r : Report) (ho : 1 ≤ r.openCount)
    (ht : r.t0 < U32 ∧ r.t1 < U32 ∧ r.t2 < U32 ∧ r.t3 < U32) : Good (devOfReport i r) := by
  rcases r with ⟨addr, a0, a1, a2, a3, dc, t0, t1, t2, t3, rx⟩
  rcases ht with ⟨h0, h1, h2, h3⟩
  refine ⟨?_, ⟨h0, h3, h1, h2⟩⟩
  simp only [Report.openCount] at ho
  revert ho
  cases a0 <;> cases a1 <;> cases a2 <;> cases a3 <;>
    simp [devOfReport, Ports.ofNumbered, Ports.openPorts, Ports.activePorts, Ports.indexed]

theorem mkDevsFrom_mem (f : Nat → Report → Dev) (l : List Report) : ∀ b, ∀ d ∈ mkDevsFrom f b l, ∃ i r, r ∈ l ∧ d = f i r := by
  induction l with
  | nil => intro b d hd; simp [mkDevsFrom] at hd
  | cons r rs ih =>
    intro b d hd
    simp only [mkDevsFrom, List.mem_cons] at hd
    rcases hd with rfl | hd
    · exact ⟨b, r, List.mem_cons_self .., rfl⟩
    · rcases ih (b + 1) d hd with ⟨i, r', hr, rfl⟩
      exact ⟨i, r', List.mem_cons_of_mem _ hr, rfl⟩

theorem mkDevsFrom_indexed' (f : Nat → Report → Dev) (hf : ∀ i r, (f i r).index = i) (l : List Report) :
    ∀ b, Indexed b (mkDevsFrom f b l) := by
  induction l with
  | nil => intro b; simp [mkDevsFrom, Indexed]
  | cons r rs ih => intro b; exact ⟨hf b r, ih (b + 1)⟩


theorem writeLoop_total (m : Mode) (now : Nat) (addrs : List Nat) (hnow : now < U64) (devs : List Dev)
    (hrx : ∀ d ∈ devs, d.rxTime < U64) : ∃ ws, writeLoop m now addrs devs = (ws, .ok ()) := by
  induction devs with
  | nil => exact ⟨[], rfl⟩
  | cons d ds ih =>
    rcases ih (fun x hx => hrx x (List.mem_cons_of_mem _ hx)) with ⟨ws, hws⟩
    unfold writeLoop
    by_cases hdc : d.dc = true
    · rw [if_pos hdc, offsetI64_value m d.rxTime now (hrx d (List.mem_cons_self ..)) hnow]
      simp only [hws]
      exact ⟨_, rfl⟩
    · rw [if_neg hdc]; exact ⟨ws, hws⟩

theorem good_latchOne (i : Nat) (r : Report) (ho : 1 ≤ r.openCount)
    (ht : r.t0 < U32 ∧ r.t1 < U32 ∧ r.t2 < U32 ∧ r.t3 < U32) : Good (latchOne i r) := by
  unfold latchOne
  split
  · exact good_devOfReport i r ho ht
  · have hz : (0 : Nat) < U32 := by decide
    have := good_devOfReport i { r with t0 := 0, t1 := 0, t2 := 0, t3 := 0 } ho ⟨hz, hz, hz, hz⟩
    refine ⟨this.1, ?_⟩
    exact ⟨hz, hz, hz, hz⟩



/-- `assign_parent_relationships` never panics on indexed devices with `u32` receive times. -/
theorem assign_no_panic (m : Mode) (devs : List Dev) (w : String)
    (htimes : ∀ d ∈ devs, TimesOk d.ports) (hidx : Indexed 0 devs) :
    assignParentRelationships m devs ≠ .panic w := by
  rcases assign_cases m devs with he | ⟨hopen, hl⟩
  · rw [he]; simp
  · rw [hl]
    exact assignLoop_no_panic m devs [] 0 w (by simp) (fun d hd => ⟨hopen d hd, htimes d hd⟩) hidx

theorem timesOk_latchOne (i : Nat) (r : Report)
    (ht : r.t0 < U32 ∧ r.t1 < U32 ∧ r.t2 < U32 ∧ r.t3 < U32) : TimesOk (latchOne i r).ports := by
  have hz : (0 : Nat) < U32 := by decide
  unfold latchOne
  split
  · exact ⟨ht.1, ht.2.2.2, ht.2.1, ht.2.2.1⟩
  · exact ⟨hz, hz, hz, hz⟩

theorem configureDc_no_panic (m : Mode) (now : Nat) (rs : List Report) (ws : List Write) (w : String)
    (htimes : ∀ r ∈ rs, r.t0 < U32 ∧ r.t1 < U32 ∧ r.t2 < U32 ∧ r.t3 < U32)
    (hnow : now < U64) (hrx : ∀ r ∈ rs, r.rx < U64) :
    configureDc m now rs ≠ (ws, .panic w) := by
  intro h
  unfold configureDc at h
  cases ha : assignParentRelationships m (latch rs) with
  | panic w' =>
    refine assign_no_panic m (latch rs) w' ?_
      (mkDevsFrom_indexed' _ (fun i r => (latchOne_fields i r).1) rs 0) ha
    intro d hd
    rcases mkDevsFrom_mem _ _ _ d hd with ⟨i, r, hr, rfl⟩
    exact timesOk_latchOne i r (htimes r hr)
  | err e => rw [ha] at h; simp at h
  | ok out =>
    rw [ha] at h
    simp only at h
    have hidk := assignLoop_idk m (latch rs) [] 0 out (assign_ok_loop _ _ _ ha)
    simp only [List.nil_append] at hidk
    cases hf : (out.find? (fun d => d.dc)).map (·.index) with
    | none => rw [hf] at h; simp at h
    | some i =>
      rw [hf] at h
      simp only at h
      have hrx' : ∀ d ∈ out, d.rxTime < U64 := by
        intro d hd
        have : d.idk ∈ (latch rs).map Dev.idk := by rw [← hidk]; exact List.mem_map_of_mem hd
        rcases List.mem_map.1 this with ⟨x, hx, hxe⟩
        have hrxe : x.rxTime = d.rxTime := congrArg (fun t => t.2.2) hxe
        rcases mkDevsFrom_mem _ _ _ x hx with ⟨j, r, hr, rfl⟩
        rw [← hrxe]
        unfold latchOne
        split
        · exact hrx r hr
        · simp only; decide
      rcases writeLoop_total m now (rs.map (·.addr)) hnow out hrx' with ⟨ws', hws⟩
      rw [hws] at h
      simp at h



def rootDc : Tree → Prop
  | .none => False
  | .node p _ _ _ => p.dc ≠ 0

/-- What the fold needs to know about the upstream neighbour, per phase. -/
def PhaseOk (ph : Nat) (S : Tree) (tinS acc parentLoop : Nat) (ref : Option Nat) : Prop :=
  (ph = 0 → ref = none ∧ acc = 0 ∧ parentLoop = 0) ∧
  (ph = 1 → ∃ tin0, ref = some tin0 ∧ tin0 ≤ tinS ∧ leave S tinS - tin0 ≤ U32_MAX ∧
      (rootDc S → acc + (parentLoop - loopT S tinS) / 2 = tinS - tin0))

theorem root_nondc (p : Params) (b tin : Nat) (o3 o1 o2 : Bool) (r3 r1 r2 : Nat) (hdc : p.dc = 0) :
    (devOfReport b (mkReport (4096 + b) p tin o3 o1 o2 r3 r1 r2)).dc = false ∧
    (devOfReport b (mkReport (4096 + b) p tin o3 o1 o2 r3 r1 r2)).delay = 0 ∧
    (devOfReport b (mkReport (4096 + b) p tin o3 o1 o2 r3 r1 r2)).prop = 0 := by
  refine ⟨by simp [mkReport, hdc, devOfReport], by simp [mkReport, hdc, devOfReport], ?_⟩
  simp only [mkReport, hdc, if_true, devOfReport, Ports.ofNumbered, Dev.prop, Ports.totalPropTime, Ports.toList]
  cases o3 <;> cases o1 <;> cases o2 <;> simp [spanOf]

/-- One chain device followed by its only downstream subtree `c` (which starts at `tc`): generic step. -/
theorem chain_truth_step (p : Params) (c3 c1 c2 c : Tree) (ph b bc tinS tc acc parentLoop : Nat) (ref : Option Nat)
    (hj : NoJunction (.node p c3 c1 c2)) (hw : NoWrap (.node p c3 c1 c2) tinS)
    (hcontig : DcContig (.node p c3 c1 c2) ph)
    (hph : PhaseOk ph (.node p c3 c1 c2) tinS acc parentLoop ref)
    (hdevs : devsOf (.node p c3 c1 c2) b tinS =
      devOfReport b (mkReport (4096 + b) p tinS c3.isNode c1.isNode c2.isNode
        (ret3 p c3 tinS) (ret1 p c3 c1 tinS) (ret2 p c3 c1 c2 tinS)) :: devsOf c bc tc)
    (htruth : chainTruth (.node p c3 c1 c2) ref tinS =
      (if p.dc = 0 then 0 else tinS - ref.getD tinS) ::
        chainTruth c (if p.dc = 0 then ref else some (ref.getD tinS)) tc)
    (ih : ∀ acc' pl' ref', 
        (p.dc = 0 → acc' = acc ∧ pl' = 0 ∧ ref' = ref) →
        (p.dc ≠ 0 → acc' = tinS - ref.getD tinS ∧ pl' = loopT (.node p c3 c1 c2) tinS ∧ ref' = some (ref.getD tinS)) →
        chainFold pl' acc' (devsOf c bc tc) = chainTruth c ref' tc) :
    chainFold parentLoop acc (devsOf (.node p c3 c1 c2) b tinS) = chainTruth (.node p c3 c1 c2) ref tinS := by
  rw [hdevs, htruth]
  by_cases hdc : p.dc = 0
  · rcases root_nondc p b tinS c3.isNode c1.isNode c2.isNode (ret3 p c3 tinS) (ret1 p c3 c1 tinS) (ret2 p c3 c1 c2 tinS) hdc with ⟨h1, h2, h3⟩
    simp only [chainFold, h1, h2, h3, hdc, if_true]
    rw [ih acc 0 ref (fun _ => ⟨rfl, rfl, rfl⟩) (fun h => absurd hdc h)]
    simp
  · have hw' := ((noWrap_node p c3 c1 c2 tinS).1 hw).1 hdc
    have hge := leave_ge (.node p c3 c1 c2) tinS
    simp only [chainFold, root_dc p b tinS _ _ _ _ _ _ hdc, if_true, root_prop p c3 c1 c2 b tinS hdc hj hw', hdc, if_false]
    have hval : Nat.min (acc + (parentLoop - loopT (.node p c3 c1 c2) tinS) / 2) U32_MAX = tinS - ref.getD tinS := by
      have hc : DcContig (.node p c3 c1 c2) ph := hcontig
      simp only [DcContig, hdc, if_false] at hc
      have hph2 : ph = 0 ∨ ph = 1 := hc.1
      rcases hph2 with rfl | rfl
      · rcases hph.1 rfl with ⟨rfl, rfl, rfl⟩
        simp
      · rcases hph.2 rfl with ⟨tin0, rfl, h0, hfit, hacc⟩
        rw [hacc hdc]
        simp only [Option.getD_some]
        exact Nat.min_eq_left (by omega)
    rw [hval]
    rw [ih (tinS - ref.getD tinS) _ (some (ref.getD tinS)) (fun h => absurd h hdc) (fun _ => ⟨rfl, rfl, rfl⟩)]


theorem chainTruth_none (ref : Option Nat) (t : Nat) : chainTruth .none ref t = [] := rfl

/-- The phase handed to the downstream neighbour. -/
def nextPhase (p : Params) (ph : Nat) : Nat := if p.dc = 0 then (if ph = 0 then 0 else 2) else 1

theorem contig_child (p : Params) (c3 c1 c2 : Tree) (ph : Nat) (h : DcContig (.node p c3 c1 c2) ph) :
    DcContig c3 (nextPhase p ph) ∧ DcContig c1 (nextPhase p ph) ∧ DcContig c2 (nextPhase p ph) := by
  unfold nextPhase
  by_cases hdc : p.dc = 0
  · simpa [DcContig, hdc] using h
  · simp only [DcContig, hdc, if_false] at h ⊢
    exact h.2

/-- `PhaseOk` for the only child `c` of a chain device. -/
theorem phaseOk_child (p : Params) (c3 c1 c2 c : Tree) (ph tinS tc acc parentLoop : Nat) (ref : Option Nat)
    (hc : c.isNode = true) (hjc : NoJunction c)
    (hcontig : DcContig (.node p c3 c1 c2) ph)
    (hph : PhaseOk ph (.node p c3 c1 c2) tinS acc parentLoop ref)
    (htc : tc = tinS + p.pd + c.link)
    (hloop : loopT (.node p c3 c1 c2) tinS = leave c tc + c.link - tinS)
    (hleave : leave c tc ≤ leave (.node p c3 c1 c2) tinS)
    (hwrap : p.dc ≠ 0 → loopT (.node p c3 c1 c2) tinS < U32)
    (hsym : p.pd = retDelay c)
    (acc' pl' : Nat) (ref' : Option Nat)
    (h0 : p.dc = 0 → acc' = acc ∧ pl' = 0 ∧ ref' = ref)
    (h1 : p.dc ≠ 0 → acc' = tinS - ref.getD tinS ∧ pl' = loopT (.node p c3 c1 c2) tinS ∧ ref' = some (ref.getD tinS)) :
    PhaseOk (nextPhase p ph) c tc acc' pl' ref' := by
  have hU : U32 = 4294967296 := rfl
  have hM : U32_MAX = 4294967295 := rfl
  have hgec := leave_ge c tc
  unfold nextPhase
  by_cases hdc : p.dc = 0
  · rcases h0 hdc with ⟨rfl, rfl, rfl⟩
    simp only [hdc, if_true]
    refine ⟨?_, ?_⟩
    · intro h
      have hp0 : ph = 0 := by
        apply Classical.byContradiction; intro hne; simp [hne] at h
      rcases hph.1 hp0 with ⟨r, a, _⟩
      exact ⟨r, a, rfl⟩
    · intro h
      exfalso
      by_cases hp0 : ph = 0 <;> simp [hp0] at h
  · rcases h1 hdc with ⟨rfl, rfl, rfl⟩
    simp only [hdc, if_false]
    have hc' : (ph = 0 ∨ ph = 1) := by
      simp only [DcContig, hdc, if_false] at hcontig; exact hcontig.1
    refine ⟨fun h => absurd h (by decide), fun _ => ?_⟩
    have hw := hwrap hdc
    rcases hc' with rfl | rfl
    · rcases hph.1 rfl with ⟨rfl, _, _⟩
      simp only [Option.getD_none]
      refine ⟨tinS, rfl, by omega, by omega, fun _ => ?_⟩
      exact chain_child_hyp p c3 c1 c2 c tinS tc tinS hc hjc (Nat.le_refl _) htc hloop hsym
    · rcases hph.2 rfl with ⟨tin0, rfl, h0', hfit, _⟩
      simp only [Option.getD_some]
      refine ⟨tin0, rfl, by omega, by omega, fun _ => ?_⟩
      exact chain_child_hyp p c3 c1 c2 c tinS tc tin0 hc hjc h0' htc hloop hsym


theorem loopT_lt (p : Params) (c3 c1 c2 : Tree) (tinS : Nat) (hdc : p.dc ≠ 0)
    (hw : NoWrap (.node p c3 c1 c2) tinS) : loopT (.node p c3 c1 c2) tinS < U32 := by
  have hw' := ((noWrap_node p c3 c1 c2 tinS).1 hw).1 hdc
  rcases hw' with ⟨w3, w1, w2⟩
  have hU : (0 : Nat) < U32 := by decide
  simp only [loopT]
  by_cases h3 : c3.isNode = true
  · simp only [h3, if_true]; have := w3 h3; omega
  · by_cases h1 : c1.isNode = true
    · simp only [h3, h1, if_true]; have := w1 h1; simp; omega
    · by_cases h2 : c2.isNode = true
      · simp only [h3, h1, h2, if_true]; have := w2 h2; simp; omega
      · simp [h3, h1, h2]; exact hU

theorem chain_truth (S : Tree) : NoJunction S → Symmetric S →
    ∀ (ph b tinS acc parentLoop : Nat) (ref : Option Nat), DcContig S ph → NoWrap S tinS →
    PhaseOk ph S tinS acc parentLoop ref →
    chainFold parentLoop acc (devsOf S b tinS) = chainTruth S ref tinS := by
  induction S with
  | none => intro _ _ ph b tinS acc pl ref _ _ _; simp [devsOf_none, chainFold, chainTruth_none]
  | node p c3 c1 c2 ih3 ih1 ih2 =>
    intro hj hsym ph b tinS acc pl ref hcontig hw hph
    have hw' := (noWrap_node p c3 c1 c2 tinS).1 hw
    rcases hw' with ⟨_, w3, w1, w2⟩
    rcases hsym with ⟨s3, s1, s2, y3, y1, y2⟩
    rcases contig_child p c3 c1 c2 ph hcontig with ⟨k3, k1, k2⟩
    have hlc := leave_chain p c3 c1 c2 tinS hj
    have hlt : p.dc ≠ 0 → loopT (.node p c3 c1 c2) tinS < U32 := fun h => loopT_lt p c3 c1 c2 tinS h hw
    rcases noJunction_cases p c3 c1 c2 hj with ⟨rfl, rfl, rfl⟩ | ⟨h3, rfl, rfl⟩ | ⟨rfl, h1, rfl⟩ | ⟨rfl, rfl, h2⟩
    · -- line end
      apply chain_truth_step p .none .none .none .none ph b 0 tinS 0 acc pl ref hj hw hcontig hph
      · rw [devsOf_node]; simp [devsOf_none]
      · simp [chainTruth, chainTruth_none]
      · intro acc' pl' ref' _ _; simp [devsOf_none, chainFold, chainTruth_none]
    · -- downstream neighbour on port 3
      have hloop : loopT (.node p c3 .none .none) tinS = leave c3 (tinS + p.pd + c3.link) + c3.link - tinS := by
        simp [loopT, h3, ret3]
      have hleave : leave c3 (tinS + p.pd + c3.link) ≤ leave (.node p c3 .none .none) tinS := by
        rw [hlc, hloop]; have := leave_ge c3 (tinS + p.pd + c3.link); omega
      apply chain_truth_step p c3 .none .none c3 ph b (b + 1) tinS (tinS + p.pd + c3.link) acc pl ref hj hw hcontig hph
      · rw [devsOf_node]; simp [devsOf_none]
      · simp [chainTruth, chainTruth_none]
      · intro acc' pl' ref' a0 a1
        exact ih3 hj.2.1 y3 _ (b + 1) _ acc' pl' ref' k3 w3
          (phaseOk_child p c3 .none .none c3 ph tinS _ acc pl ref h3 hj.2.1 hcontig hph rfl hloop hleave hlt (s3 h3) acc' pl' ref' a0 a1)
    · -- downstream neighbour on port 1
      have hloop : loopT (.node p .none c1 .none) tinS = leave c1 (tinS + p.pd + c1.link) + c1.link - tinS := by
        simp [loopT, h1, ret1, out3, isNode_none]
      have hleave : leave c1 (tinS + p.pd + c1.link) ≤ leave (.node p .none c1 .none) tinS := by
        rw [hlc, hloop]; have := leave_ge c1 (tinS + p.pd + c1.link); omega
      have w1' : NoWrap c1 (tinS + p.pd + c1.link) := by simpa [out3, isNode_none] using w1
      apply chain_truth_step p .none c1 .none c1 ph b (b + 1) tinS (tinS + p.pd + c1.link) acc pl ref hj hw hcontig hph
      · rw [devsOf_node]; simp [devsOf_none, size_none, out3, isNode_none]
      · simp [chainTruth, chainTruth_none, isNode_none]
      · intro acc' pl' ref' a0 a1
        exact ih1 hj.2.2.1 y1 _ (b + 1) _ acc' pl' ref' k1 w1'
          (phaseOk_child p .none c1 .none c1 ph tinS _ acc pl ref h1 hj.2.2.1 hcontig hph rfl hloop hleave hlt (s1 h1) acc' pl' ref' a0 a1)
    · -- downstream neighbour on port 2
      have hloop : loopT (.node p .none .none c2) tinS = leave c2 (tinS + p.pd + c2.link) + c2.link - tinS := by
        simp [loopT, h2, ret2, out1, out3, isNode_none]
      have hleave : leave c2 (tinS + p.pd + c2.link) ≤ leave (.node p .none .none c2) tinS := by
        rw [hlc, hloop]; have := leave_ge c2 (tinS + p.pd + c2.link); omega
      have w2' : NoWrap c2 (tinS + p.pd + c2.link) := by simpa [out1, out3, isNode_none] using w2
      apply chain_truth_step p .none .none c2 c2 ph b (b + 1) tinS (tinS + p.pd + c2.link) acc pl ref hj hw hcontig hph
      · rw [devsOf_node]; simp [devsOf_none, size_none, out3, out1, isNode_none]
      · simp [chainTruth, chainTruth_none, isNode_none]
      · intro acc' pl' ref' a0 a1
        exact ih2 hj.2.2.2 y2 _ (b + 1) _ acc' pl' ref' k2 w2'
          (phaseOk_child p .none .none c2 c2 ph tinS _ acc pl ref h2 hj.2.2.2 hcontig hph rfl hloop hleave hlt (s2 h2) acc' pl' ref' a0 a1)


/-- Pure chains whose DC-capable devices are contiguous in frame order, symmetric forwarding, no
    intra-device wrap: every DC device is programmed with its true one-way delay from the first DC
    device; devices without DC keep 0. -/
theorem chain_exact_contig (m : Mode) (T : Tree) (tin : Nat) (h : T.isNode = true) (hj : NoJunction T)
    (hcontig : DcContig T 0) (hsym : Symmetric T) (hw : NoWrap T tin) :
    ∃ out, assignParentRelationships m (mkDevs (visit T 0 tin).1) = .ok out ∧
      out.map (·.delay) = chainTruth T none tin := by
  cases T with
  | none => simp [Tree.isNode] at h
  | node p c3 c1 c2 =>
    have hv := chain_truth (.node p c3 c1 c2) hj hsym 0 0 tin 0 0 none hcontig hw
      ⟨fun _ => ⟨rfl, rfl, rfl⟩, fun h => absurd h (by decide)⟩
    have hchain := devsOf_chain (.node p c3 c1 c2) hj 0 tin hw
    have hidx := devsOf_indexed (.node p c3 c1 c2) 0 tin
    have hmk : mkDevs (visit (.node p c3 c1 c2) 0 tin).1 = devsOf (.node p c3 c1 c2) 0 tin := rfl
    rw [hmk]
    rw [devsOf_node] at hv hchain hidx ⊢
    rcases chain_run m _ _ hidx hchain with ⟨out, ho, hd⟩
    refine ⟨out, ho, ?_⟩
    rw [hd, ← hv]
    by_cases hdc : p.dc = 0
    · rcases root_nondc p 0 tin c3.isNode c1.isNode c2.isNode (ret3 p c3 tin) (ret1 p c3 c1 tin) (ret2 p c3 c1 c2 tin) hdc with ⟨h1, h2, h3⟩
      simp only [chainFold, h1, h2, h3]
      simp
    · simp only [chainFold, root_dc p 0 tin _ _ _ _ _ _ hdc, if_true]
      have : Nat.min (0 + (0 - (devOfReport 0 (mkReport (4096 + 0) p tin c3.isNode c1.isNode c2.isNode
          (ret3 p c3 tin) (ret1 p c3 c1 tin) (ret2 p c3 c1 c2 tin))).prop) / 2) U32_MAX = 0 := by simp
      rw [this]
      simp [devOfReport]


end Ec.Dc
